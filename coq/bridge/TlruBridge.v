(* TlruBridge.v — the functions cpp2coq.py (+ cpp2coq_tlru.py) generates from the CURRENT tlru_cache.hpp
   (CappGen.GenTlru) compute what the hand-written literal machine TtlLit.v (uni := false) computes, up
   to the reason given for undefined behaviour.  Compiled against the freshly generated GenTlru.v: a
   change of the source that changes the meaning of a translated method breaks a lemma here. *)
Require Import Capp.Base Capp.Spec Capp.Rr Capp.ListCacheFacts Capp.TtlLru Capp.TtlLruFacts Capp.RrLit Capp.LruLit Capp.TtlLit Capp.TtlLitFacts
               Capp.GenPrims Capp.Conc Capp.GenConc CappGen.GenTlru.
From Coq Require Import Strings.String Lia.

Section TlruBridge.
  Context {K V : Type} `{EqDec K}.
  Local Open Scope list_scope.
  Local Open Scope nat_scope.

  (* case analysis on an innermost scrutinee of the goal *)
  Ltac inner :=
    match goal with
    | |- context [match ?x with _ => _ end] =>
        lazymatch x with
        | context [match _ with _ => _ end] => fail
        | _ => let E := fresh "E" in destruct x eqn:E; cbn [bind req negb andb orb] in *
        end
    end.
  Ltac proj := cbn [tt_cap tt_ttl tt_elems tt_index tt_list tt_end tt_ord tt_used
                    set_tt_cap set_tt_ttl set_tt_elems set_tt_index set_tt_list set_tt_end set_tt_ord set_tt_used
                    te_expire te_keyed te_lru te_ttl te_val set_te_expire set_te_keyed set_te_lru set_te_ttl set_te_val
                    with_list] in *.
  Ltac clean :=
    repeat match goal with
           | H : ?x = ?x |- _ => clear H
           | H : Some _ = Some _ |- _ => injection H as H; try subst
           | H : Ok _ = Ok _ |- _ => injection H as H; try subst
           | H : (_, _) = (_, _) |- _ => injection H; intros; try subst; clear H
           | H : Some _ = None |- _ => discriminate H
           | H : None = Some _ |- _ => discriminate H
           | H : Ok _ = UB _ |- _ => discriminate H
           | H : UB _ = Ok _ |- _ => discriminate H
           | H : true = false |- _ => discriminate H
           | H : false = true |- _ => discriminate H
           end.
  (* residual arithmetic (m_used_size += 1 for ++m_used_size, < 1 for == 0, != 0 for > 0, ...): the boolean
     comparisons of the context become propositions, lia decides *)
  Ltac props :=
    repeat match goal with
           | H : negb _ = true |- _ => apply Bool.negb_true_iff in H
           | H : negb _ = false |- _ => apply Bool.negb_false_iff in H
           | H : (_ <? _) = true |- _ => apply Nat.ltb_lt in H
           | H : (_ <? _) = false |- _ => apply Nat.ltb_ge in H
           | H : (_ =? _) = true |- _ => apply Nat.eqb_eq in H
           | H : (_ =? _) = false |- _ => apply Nat.eqb_neq in H
           | H : (_ <=? _) = true |- _ => apply Nat.leb_le in H
           | H : (_ <=? _) = false |- _ => apply Nat.leb_gt in H
           end.
  (* the generated setters, opened into records *)
  Ltac setters :=
    cbv beta delta [set_tt_cap set_tt_ttl set_tt_elems set_tt_index set_tt_list set_tt_end set_tt_ord set_tt_used
                    set_te_expire set_te_keyed set_te_lru set_te_ttl set_te_val with_list]; proj.
  (* equal up to arithmetic: at most three constructors deep (Ok, the state record, a field) *)
  Ltac eqarith :=
    solve [ reflexivity | lia | f_equal; lia | f_equal; f_equal; lia | f_equal; f_equal; f_equal; lia
          | setters; first [ reflexivity | f_equal; lia | f_equal; f_equal; lia | f_equal; f_equal; f_equal; lia ] ].
  Ltac arith := solve [ props; first [ exfalso; lia | eqarith ] ].
  (* two conditions over nat that are the same boolean, whatever their spelling *)
  Ltac barith :=
    repeat match goal with
           | |- context [?a <? ?b] => destruct (Nat.ltb_spec a b)
           | |- context [?a <=? ?b] => destruct (Nat.leb_spec a b)
           | |- context [?a =? ?b] => destruct (Nat.eqb_spec a b)
           end; cbn [negb andb orb]; solve [ reflexivity | exfalso; lia ].
  (* the condition of the generated `if` heading the left side is rewritten into the one of the literal machine *)
  Ltac same_cond :=
    match goal with
    | |- req (bind (if ?c then _ else _) _) (bind (if ?d then _ else _) _) => first [ constr_eq c d | replace c with d by barith ]
    | |- req (bind (if ?c then _ else _) _) (if ?d then _ else _) => first [ constr_eq c d | replace c with d by barith ]
    | |- req (if ?c then _ else _) (if ?d then _ else _) => first [ constr_eq c d | replace c with d by barith ]
    end.
  Ltac crush := repeat (proj; inner; clean); proj; simpl; try congruence; auto; try arith.
  (* use of an already bridged callee: its lemma goes in front of the goal, the case analysis does the rest *)
  Ltac callee L := let P := fresh "P" in pose proof L as P; unfold req in P; revert P.
  Ltac finish := intros; clean; subst; try contradiction; try congruence; auto; try arith.

  (* the lookup in the index, split on what it MEANS (assoc k (tt_index s)), not on how the source spells the test
     against end(): both orientations of the generated `if` (negated or not, then/else swapped) reduce *)
  Ltac found k s idx A :=
    unfold mit_find, mit_second;
    destruct (assoc k (tt_index s)) as [idx|] eqn:A; cbn [mit_eqb negb]; rewrite ?A; cbn [bind].
  (* the comparisons of time points, as propositions: `now < t`, `!(now >= t)`, `t <= now` under either orientation
     of the `if` all end in the same two cases; the contradictory combinations are closed by lia *)
  Ltac zcases :=
    rewrite ?Z.geb_leb, ?Z.gtb_ltb;
    repeat match goal with
           | |- context [(?a <? ?b)%Z] => destruct (Z.ltb_spec a b)
           | |- context [(?a <=? ?b)%Z] => destruct (Z.leb_spec a b)
           | |- context [(?a =? ?b)%Z] => destruct (Z.eqb_spec a b)
           end; cbn [negb andb orb]; try (exfalso; lia).

  (* the same for the comparisons of sizes (m_used_size > 0, == 0, != 0, < 1 ...) *)
  Ltac ncases :=
    repeat match goal with
           | |- context [?a <? ?b] => destruct (Nat.ltb_spec a b)
           | |- context [?a <=? ?b] => destruct (Nat.leb_spec a b)
           | |- context [?a =? ?b] => destruct (Nat.eqb_spec a b)
           end; cbn [negb andb orb]; try (exfalso; lia).

  Lemma g_do_access_ok (s : ttll K V) (i : nat) :
    req (g_do_access s i) (do e <- vget "m_elements[element_idx]" (tt_elems s) i; tt_access s e).
  Proof. unfold g_do_access, tt_access, vget, bind, set_tt_list, with_list. crush. Qed.

  Lemma g_do_erase_ok (s : ttll K V) (i : nat) : req (g_do_erase s i) (tt_do_erase s i).
  Proof. unfold g_do_erase, tt_do_erase, vref, vget, bind. crush. Qed.

  Lemma mm_begin_cons (z : Z) idx (r : list (Z * nat)) :
    mm_it_deref ((z, idx) :: r) (mm_begin ((z, idx) :: r)) = Ok (z, idx).
  Proof. unfold mm_it_deref, mm_begin, mm_node. rewrite Nat.eqb_refl. reflexivity. Qed.

  Lemma g_do_prune_ok (s : ttll K V) now : req (g_do_prune s now) (tt_do_prune false s now).
  Proof.
    unfold g_do_prune, tt_do_prune.
    ncases; [|simpl; auto].
    destruct (tt_ord s) as [|[z idx] r] eqn:O; [simpl; auto|].
    unfold mm_it_first, mm_it_second. rewrite !mm_begin_cons. cbn [bind fst snd].
    zcases;
      match goal with
      | _ : (z <= now)%Z |- _ => callee (g_do_erase_ok s idx); unfold bind; crush; finish
      | _ : (now < z)%Z |- _ =>
          destruct (l_back (tt_list s)) as [b|]; [|simpl; auto]; cbn [bind];
          callee (g_do_erase_ok s b); unfold bind; crush; finish
      end.
  Qed.

  Lemma index_erase_keeps_absent (ix ix' : list (K * nat)) it k :
    index_erase ix it = Ok ix' -> assoc k ix = None -> assoc k ix' = None.
  Proof.
    unfold index_erase. destruct it as [k0|]; [|discriminate].
    destruct (assoc k0 ix); [|discriminate]. intros E; inversion E; subst. intros A.
    destruct (Base.eqb_spec k k0) as [->|N].
    - apply assoc_remk_same.
    - rewrite assoc_remk_other; auto.
  Qed.

  Lemma tt_do_erase_keeps_absent (s s' : ttll K V) i k :
    tt_do_erase s i = Ok s' -> assoc k (tt_index s) = None -> assoc k (tt_index s') = None.
  Proof.
    unfold tt_do_erase, bind. intros Q A. revert Q. crush; intros Q; clean; proj.
    all: try discriminate; eapply index_erase_keeps_absent; eauto.
  Qed.

  Lemma tt_do_prune_keeps_absent (s s' : ttll K V) now k :
    tt_do_prune false s now = Ok s' -> assoc k (tt_index s) = None -> assoc k (tt_index s') = None.
  Proof.
    unfold tt_do_prune, bind. destruct (0 <? tt_used s); [|intros E; inversion E; subst; auto].
    destruct (tt_ord s) as [|[z idx] r]; [discriminate|].
    destruct (z <=? now)%Z; [apply tt_do_erase_keeps_absent|].
    destruct (l_back (tt_list s)); [|discriminate]. apply tt_do_erase_keeps_absent.
  Qed.

  Lemma vget_upd A w (l : list A) i x : i < List.length l -> vget w (upd_nth i x l) i = Ok x.
  Proof. intros L. apply vget_inv. apply nth_error_upd_same; auto. Qed.
  Lemma vset_lt A w (l : list A) i y : i < List.length l -> vset w l i y = Ok (upd_nth i y l).
  Proof. intros L. apply vset_inv; auto. Qed.
  Lemma vset_upd A w (l : list A) i x y : i < List.length l -> vset w (upd_nth i x l) i y = Ok (upd_nth i y l).
  Proof. intros L. rewrite vset_lt by (rewrite upd_nth_length; auto). rewrite upd_nth_twice. auto. Qed.

  Lemma g_do_insert_ok (s : ttll K V) k v now ex :
    assoc k (tt_index s) = None -> req (g_do_insert s k v now ex) (tt_do_insert false s k v now ex).
  Proof.
    intros A. unfold g_do_insert, tt_do_insert. same_cond.
    apply req_bind.
    - destruct (List.length (tt_elems s) <=? tt_used s); [|simpl; auto].
      callee (g_do_prune_ok s now). unfold bind. crush; finish.
    - intros s1 E1.
      assert (A1 : assoc k (tt_index s1) = None).
      { destruct (List.length (tt_elems s) <=? tt_used s); [|inversion E1; subst; auto].
        pose proof (g_do_prune_ok s now) as P. unfold bind in E1.
        destruct (g_do_prune s now) eqn:G; [|discriminate]. inversion E1; subst.
        destruct (tt_do_prune false s now) eqn:L; simpl in P; [|contradiction]. subst.
        eapply tt_do_prune_keeps_absent; eauto. }
      apply req_bind; [apply req_refl|]. intros idx Ed.
      unfold umap_emplace. rewrite A1.
      apply req_bind; [apply req_refl|]. intros ix Ex. proj.
      unfold ord_emplace. cbn [bind].
      unfold vref. unfold vset at 6.
      destruct (nth_error (tt_elems s1) idx) as [e0|] eqn:N.
      2:{ apply nth_error_None in N. apply Nat.ltb_ge in N. rewrite N. simpl. auto. }
      assert (L : idx < List.length (tt_elems s1)) by (apply nth_error_Some; congruence).
      cbn [bind]. rewrite (proj2 (vget_inv _ _ _ _) N). cbn [bind].
      rewrite vset_lt by auto. cbn [bind].
      do 4 (rewrite vget_upd by auto; cbn [bind]; rewrite vset_upd by auto; cbn [bind]).
      proj.
      apply Nat.ltb_lt in L. rewrite L. cbn [bind].
      apply req_bind; [apply req_refl|]. intros ne En. proj.
      match goal with |- req (bind (g_do_access ?st ?i) _) _ => pose proof (g_do_access_ok st i) as P end.
      proj.
      rewrite vget_upd in P by (apply Nat.ltb_lt; auto). cbn [bind] in P.
      match type of P with req _ (tt_access ?st ?e) =>
        match goal with |- req _ (tt_access ?st' ?e') => replace (tt_access st e) with (tt_access st' e') in P by eqarith end end.
      revert P. unfold req, bind. crush; finish.
  Qed.

  Lemma g_do_update_ok (s : ttll K V) k idx v ex :
    assoc k (tt_index s) = Some idx -> req (g_do_update s (Some k) v ex) (tt_do_update false s idx v ex).
  Proof.
    intros A. unfold g_do_update, tt_do_update, mit_second. rewrite A. cbn [bind]. unfold vref.
    destruct (nth_error (tt_elems s) idx) as [e0|] eqn:N.
    2:{ unfold vget. rewrite N. simpl. auto. }
    assert (L : idx < List.length (tt_elems s)) by (apply nth_error_Some; congruence).
    cbn [bind]. rewrite !(proj2 (vget_inv _ _ _ _) N). cbn [bind].
    rewrite !vset_lt by auto. cbn [bind]. proj.
    rewrite vget_upd by auto. cbn [bind]. rewrite vset_upd by auto. cbn [bind]. proj.
    rewrite vget_upd by auto. cbn [bind]. proj.
    apply req_bind; [apply req_refl|]. intros o1 Eo. unfold ord_emplace. cbn [bind]. proj.
    rewrite !vset_upd by auto. cbn [bind]. proj.
    match goal with |- req (bind (g_do_access ?st ?i) _) _ => pose proof (g_do_access_ok st i) as P end.
    proj. rewrite vget_upd in P by auto. cbn [bind] in P.
    match type of P with req _ (tt_access ?st ?e) =>
      match goal with |- req _ (tt_access ?st' ?e') => change (tt_access st e) with (tt_access st' e') in P end end.
    revert P. unfold req, bind. crush; finish.
  Qed.

  (* ---- the class invariant.  A refactoring may bind the reference m_elements[keyed_position->second] BEFORE it
     looks at `allow` (harmless/R22): that is the same program only because every slot the index maps a key to is a
     cell of m_elements.  The literal machine keeps this on every history (TtlLitFacts: tt_rep), so the bridge may
     use it: [Inv] is what holds of the states the literal machine reaches, [idx_ok] the part of it needed here ---- *)
  Definition idx_ok (s : ttll K V) : Prop :=
    forall k n, assoc k (tt_index s) = Some n -> exists c, nth_error (tt_elems s) n = Some c.
  Definition Inv (l : ttll K V) : Prop := exists t m, tl_inv false t m /\ tt_rep false l m.

  Lemma Inv_idx_ok l : Inv l -> idx_ok l.
  Proof.
    intros (t & m & _ & R) k n A. destruct (rep2_elim _ _ _ R) as (used & free & R2).
    destruct R2 as (_ & _ & _ & _ & _ & _ & C).
    destruct C as (_ & _ & _ & _ & _ & _ & _ & _ & _ & _ & _ & _ & HB).
    destruct (HB k n A) as (_ & c & Hc & _). eauto.
  Qed.

  Lemma Inv_init cap ttl : 1 <= cap -> Inv (ttll_init cap ttl).
  Proof. intros Hc. exists 0%Z, (tl_init false cap ttl). split; [apply tl_inv_init; auto|apply tt_rep_init; auto]. Qed.

  Lemma Inv_ins l k v a now ex l' b : Inv l -> tt_ins false l k v a now ex = Ok (l', b) -> Inv l'.
  Proof.
    intros (t & m & I & R) E. destruct (tt_ins_refines false t l m k v a now ex I R) as (l1 & D & R1 & I1 & _).
    rewrite D in E. inversion E; subst. exists t, (fst (tl_ins m k v a now ex)). split; assumption.
  Qed.

  Lemma Inv_step l o now rnd l' y : Inv l -> tt_step false l o now rnd = Ok (l', y) -> Inv l'.
  Proof.
    intros (t & m & I & R) E. destruct (tt_step_refines_cap false t l m o now rnd I R) as (l1 & D & R1 & I1 & _).
    rewrite D in E. inversion E; subst. exists now, (fst (tl_step m o now rnd)). split; assumption.
  Qed.

  (* the key-present case is split on what is MEANT — the cell of the slot (there is one: idx_ok), the two bits of
     `allow`, the comparison of the time points as a proposition — and then both sides reduce, whether the source
     nests the tests (if / else if / if) or merges them (a || (b && c)), and wherever it binds the reference *)
  Lemma g_do_insert_update_ok (s : ttll K V) k v now ex a :
    idx_ok s -> req (g_do_insert_update s k v now ex a) (tt_ins false s k v a now ex).
  Proof.
    intros I. unfold g_do_insert_update, tt_ins. found k s idx A.
    - destruct (I k idx A) as [e0 N]. unfold vref, vget. rewrite ?N. cbn [bind]. rewrite ?N.
      destruct (a_upd a), (a_ins a); cbn [bind negb andb orb]; rewrite ?N; cbn [bind negb andb orb]; zcases;
        first [ solve [simpl; auto]
              | callee (g_do_update_ok s k idx v ex A); unfold bind; crush; finish ].
    - destruct (a_ins a); cbn [negb]; [|simpl; auto].
      callee (g_do_insert_ok s k v now ex A). unfold bind. crush; finish.
  Qed.

  Lemma tt_access_elems (s s' : ttll K V) e : tt_access s e = Ok s' -> tt_elems s' = tt_elems s.
  Proof. unfold tt_access, bind. intros L. revert L. crush; intros Q; clean; try discriminate; auto. Qed.

  Lemma g_do_find_ok (s : ttll K V) k now pk : req (g_do_find s k now pk) (tt_find s k pk now).
  Proof.
    unfold g_do_find, tt_find. found k s idx A; [|simpl; auto].
    pose proof (g_do_access_ok s idx) as P. revert P.
    unfold vref, vget. destruct (nth_error (tt_elems s) idx) as [e0|] eqn:N; [|simpl; auto]. cbn [bind]. rewrite ?N. cbn [bind].
    zcases;
      match goal with
      | _ : (now < te_expire e0)%Z |- _ => (* alive *)
          destruct pk; cbn [Bool.eqb negb bind];
          [ intros _; rewrite N; simpl; auto
          | unfold req, bind;
            destruct (g_do_access s idx) as [s1|] eqn:G, (tt_access s e0) as [s2|] eqn:L; intros P; try contradiction; auto;
            subst s2; rewrite (tt_access_elems _ _ _ L), N; auto ]
      | _ : (te_expire e0 <= now)%Z |- _ => (* expired *)
          intros _; callee (g_do_erase_ok s idx); unfold bind; crush; finish
      end.
  Qed.

  Lemma g_erase_ok (s : ttll K V) k : req (g_erase s k) (tt_erase s k).
  Proof.
    unfold g_erase, tt_erase. found k s idx A; [|simpl; auto].
    callee (g_do_erase_ok s idx). unfold bind. crush; finish.
  Qed.

  (* ---- the range calls: the generated range-for loops against the literal recursions ---- *)
  Lemma g_insert_range_ok (s : ttll K V) now l a :
    Inv s -> req (g_insert_range now s l a) (tt_ins_range false s l a now 0).
  Proof.
    intros Is. unfold g_insert_range.
    match goal with |- req (bind (foldM ?F _ _) _) _ =>
      assert (G : forall l s n, Inv s -> req (foldM F l (s, n)) (tt_ins_range false s l a now n)) end.
    { clear. induction l as [|[[z k] v] r IH]; intros s n Is; simpl; auto.
      callee (g_do_insert_update_ok s k v now (now + ms z)%Z a (Inv_idx_ok _ Is)). unfold bind at 1 2 3.
      destruct (g_do_insert_update s k v now (now + ms z)%Z a) as [[s1 b]|],
               (tt_ins false s k v a now (now + ms z)%Z) as [[s2 b2]|] eqn:L;
        intros P; try contradiction; auto.
      inversion P; subst. pose proof (Inv_ins _ _ _ _ _ _ _ _ Is L) as Is2.
      destruct b2; cbn [bind]; rewrite ?Nat.add_1_r; apply IH; auto. }
    specialize (G l s 0 Is). revert G.
    destruct (foldM _ _ _) as [[s' n']|]; cbn [bind]; auto.
  Qed.

  Lemma g_erase_range_ok (s : ttll K V) l : req (g_erase_range s l) (tt_erase_range s l 0).
  Proof.
    unfold g_erase_range.
    match goal with |- req (bind (foldM ?F _ _) _) _ =>
      assert (G : forall l s n, req (foldM F l (s, n)) (tt_erase_range s l n)) end.
    { clear. induction l as [|k r IH]; intros s n; simpl; auto.
      unfold tt_erase. found k s idx A; [|apply IH].
      callee (g_do_erase_ok s idx).
      destruct (g_do_erase s idx) as [s1|], (tt_do_erase s idx) as [s2|]; cbn [bind]; intros P; try contradiction; auto.
      subst. rewrite ?Nat.add_1_r. apply IH. }
    specialize (G l s 0). revert G.
    destruct (foldM _ _ _) as [[s' n']|]; cbn [bind]; auto.
  Qed.

  Lemma g_find_range_loop (pk : bool) now F :
    (forall s acc k, F (s, acc) k = (do x <- g_do_find s k now pk; let '(s1, r) := x in Ok (s1, acc ++ [(k, r)]))) ->
    forall l (s : ttll K V) (acc : list (K * option V)),
      req (foldM F l (s, acc)) (do y <- tt_find_range s l pk now; let '(s2, os) := y in Ok (s2, acc ++ os)).
  Proof.
    intros HF. induction l as [|k r IH]; intros s acc; simpl.
    - rewrite app_nil_r. auto.
    - rewrite HF. callee (g_do_find_ok s k now pk). unfold bind at 1 2 4 5.
      destruct (g_do_find s k now pk) as [[s1 o]|], (tt_find s k pk now) as [[s2 o2]|]; intros P; try contradiction; auto.
      inversion P; subst. eapply req_trans; [apply IH|]. unfold bind.
      destruct (tt_find_range s2 r pk now) as [[s3 os]|]; simpl; auto. rewrite <- app_assoc. reflexivity.
  Qed.

  Lemma g_find_range_ok (s : ttll K V) now l pk : req (g_find_range now s l pk) (tt_find_range s l pk now).
  Proof.
    unfold g_find_range.
    match goal with |- req (bind (foldM ?F _ _) _) _ => pose proof (g_find_range_loop pk now F) as G end.
    specialize (G (fun s acc k => eq_refl) l s []). revert G.
    destruct (foldM _ _ _) as [[s' n']|]; cbn [bind]; destruct (tt_find_range s l pk now) as [[s2 os]|]; simpl; auto.
  Qed.

  Lemma g_find_fill_loop (pk : bool) now F :
    (forall s acc k ov, F (s, acc) (k, ov) = (do x <- g_do_find s k now pk; let '(s1, r) := x in Ok (s1, acc ++ [(k, r)]))) ->
    forall (l : list (K * option V)) (s : ttll K V) (acc : list (K * option V)),
      req (foldM F l (s, acc)) (do y <- tt_find_range s (map fst l) pk now; let '(s2, os) := y in Ok (s2, acc ++ os)).
  Proof.
    intros HF. induction l as [|[k ov] r IH]; intros s acc; simpl.
    - rewrite app_nil_r. auto.
    - rewrite HF. callee (g_do_find_ok s k now pk). unfold bind at 1 2 4 5.
      destruct (g_do_find s k now pk) as [[s1 o]|], (tt_find s k pk now) as [[s2 o2]|]; intros P; try contradiction; auto.
      inversion P; subst. eapply req_trans; [apply IH|]. unfold bind.
      destruct (tt_find_range s2 (map fst r) pk now) as [[s3 os]|]; simpl; auto. rewrite <- app_assoc. reflexivity.
  Qed.

  Lemma g_find_range_fill_ok (s : ttll K V) now (l : list (K * option V)) pk :
    req (g_find_range_fill now s l pk) (tt_find_range s (map fst l) pk now).
  Proof.
    unfold g_find_range_fill.
    match goal with |- req (bind (foldM ?F _ _) _) _ => pose proof (g_find_fill_loop pk now F) as G end.
    specialize (G (fun s acc k ov => eq_refl) l s []). revert G.
    destruct (foldM _ _ _) as [[s' n']|]; cbn [bind]; destruct (tt_find_range s (map fst l) pk now) as [[s2 os]|]; simpl; auto.
  Qed.

  (* ---- clean_expired_values: the generated while loop against the literal loop; the source computes the
     number of erased entries as a difference of sizes, the literal machine counts the iterations ---- *)
  Lemma ord_remove_len n (o : list (Z * nat)) : ord_has n o = true -> List.length o = S (List.length (ord_remove n o)).
  Proof.
    induction o as [|[z x] r IH]; simpl; [discriminate|].
    destruct (Nat.eqb n x); simpl; auto.
  Qed.

  Lemma tt_do_erase_ord_len (s s' : ttll K V) i :
    tt_do_erase s i = Ok s' -> List.length (tt_ord s) = S (List.length (tt_ord s')).
  Proof.
    unfold tt_do_erase, bind. intros Q. revert Q. crush; intros Q; clean; proj; try discriminate.
    all: match goal with E : ord_erase _ _ = Ok _ |- _ => unfold ord_erase in E; revert E end.
    all: crush; intros; clean; try discriminate; apply ord_remove_len; auto.
  Qed.

  (* one turn of a `while (c) { body }` loop with break: test, then body; (false, b) = the loop is left in state b.
     whileB only ever runs C and B in this combination, so a loop is characterised by what `turn C B` computes —
     whether the source tests everything in the loop condition, or tests part of it in the body and breaks *)
  Definition turn {St} (c : St -> res bool) (f : St -> res (bool * St)) (b : St) : res (bool * St) :=
    do t <- c b; if t then f b else Ok (false, b).
  Lemma whileB_turn {St} n c f (b : St) :
    whileB (S n) c f b = (do r <- turn c f b; let '(go, b1) := r in if go then whileB n c f b1 else Ok b1).
  Proof. cbn [whileB]. unfold turn. destruct (c b) as [[|]|]; cbn [bind]; auto. Qed.

  (* what one turn of the loop of clean_expired_values computes (up to the reason for UB): nothing in use: stop; else
     look at the head of m_ttl_list: expired: erase the element it names and go on; alive: stop *)
  Definition clean_turn (now : Z) (s : ttll K V) : res (bool * ttll K V) :=
    if 0 <? tt_used s then
      do z <- mm_it_first (tt_ord s) (mm_begin (tt_ord s));
      if (z <=? now)%Z
      then (do n <- mm_it_second (tt_ord s) (mm_begin (tt_ord s)); do s' <- g_do_erase s n; Ok (true, s'))
      else Ok (false, s)
    else Ok (false, s).

  Lemma g_clean_loop now C B :
    (forall s : ttll K V, req (turn C B s) (clean_turn now s)) ->
    forall fuel fuel' s n, fuel = fuel' ->
      match whileB fuel C B s, tt_clean_loop false fuel' s now n with
      | Ok s1, Ok (s2, n2) => s1 = s2 /\ List.length (tt_ord s) + n = List.length (tt_ord s2) + n2
      | UB _, UB _ => True
      | _, _ => False
      end.
  Proof.
    intros HT fuel fuel' s n <-. revert s n. induction fuel as [|f IH]; intros s n; [simpl; auto|].
    rewrite whileB_turn. cbn [tt_clean_loop].
    pose proof (HT s) as Ht. unfold clean_turn in Ht.
    destruct (0 <? tt_used s).
    2:{ apply req_ok in Ht. rewrite Ht. cbn [bind]. auto. }
    destruct (tt_ord s) as [|[z idx] r] eqn:O.
    { cbn in Ht. destruct (turn C B s); simpl in Ht; [contradiction|simpl; auto]. }
    unfold mm_it_first, mm_it_second in Ht. rewrite !mm_begin_cons in Ht. cbn [bind fst snd] in Ht.
    destruct (z <=? now)%Z; cbn [bind] in *.
    2:{ apply req_ok in Ht. rewrite Ht. cbn [bind]. rewrite O. auto. }
    pose proof (g_do_erase_ok s idx) as P. pose proof (tt_do_erase_ord_len s) as Q.
    destruct (g_do_erase s idx) as [s1|], (tt_do_erase s idx) as [s2|] eqn:L; simpl in P; try contradiction; cbn [bind] in *.
    2:{ destruct (turn C B s); simpl in Ht; [contradiction|simpl; auto]. }
    subst s2. apply req_ok in Ht. rewrite Ht. cbn [bind].
    specialize (Q s1 idx L). specialize (IH s1 (S n)).
    destruct (whileB f C B s1) as [s3|], (tt_clean_loop false f s1 now (S n)) as [[s4 n4]|]; auto.
    destruct IH as [-> IH]. split; auto. rewrite O in Q. simpl in Q. simpl. lia.
  Qed.

  Lemma g_clean_ok (s : ttll K V) now : req (g_clean_expired_values now s) (tt_clean false s now).
  Proof.
    unfold g_clean_expired_values, tt_clean. cbv zeta.
    match goal with |- req (bind (whileB ?f ?C ?B s) _) _ =>
      assert (HT : forall s0 : ttll K V, req (turn C B s0) (clean_turn now s0));
      [ | pose proof (g_clean_loop now C B HT f (S (tt_used s)) s 0 ltac:(lia)) as G; clear HT ] end.
    { clear. intros s0. unfold turn, clean_turn. cbv beta iota zeta.
      ncases; cbn [bind]; try apply req_refl.
      destruct (tt_ord s0) as [|[z idx] r] eqn:O; [simpl; auto|].
      unfold mm_it_first, mm_it_second. rewrite !mm_begin_cons. cbn [bind fst snd].
      zcases; cbn [bind]; rewrite ?mm_begin_cons; cbn [bind fst snd]; apply req_refl. }
    revert G.
    destruct (whileB _ _ _ s) as [s1|], (tt_clean_loop false (S (tt_used s)) s now 0) as [[s2 n2]|]; cbn [bind]; intros G;
      try contradiction; auto.
    destruct G as [-> G]. unfold usub.
    destruct (Nat.ltb_spec (List.length (tt_ord s)) (List.length (tt_ord s2))); [lia|].
    simpl. f_equal. f_equal. lia.
  Qed.

  (* ---- one public call of the generated program; the glue from the operation alphabet of the models to the
     generated methods (what harness/common.hpp `apply` does for the real class): the clock reading of the
     event is what steady_clock::now() returns during the call ---- *)
  Definition g_step (s : ttll K V) (e : ev K V) : res (ttll K V * ret K V) :=
    match e_op e with
    | Insert ttl k v a => do x <- g_insert (e_now e) s ttl k v a; let '(s1, b) := x in Ok (s1, RB b)
    | InsertRange l a => do x <- g_insert_range (e_now e) s l a; let '(s1, n) := x in Ok (s1, RN n)
    | Erase k => do x <- g_erase s k; let '(s1, b) := x in Ok (s1, RB b)
    | EraseRange l => do x <- g_erase_range s l; let '(s1, n) := x in Ok (s1, RN n)
    | Find k pk => do x <- g_find (e_now e) s k pk; let '(s1, r) := x in Ok (s1, RO r)
    | FindRange l pk => do x <- g_find_range (e_now e) s l pk; let '(s1, r) := x in Ok (s1, RL r)
    | FindRangeFill l pk => do x <- g_find_range_fill (e_now e) s (map (fun k => (k, None)) l) pk; let '(s1, r) := x in Ok (s1, RL r)
    | Clean => do x <- g_clean_expired_values (e_now e) s; let '(s1, n) := x in Ok (s1, RN n)
    | Size => do x <- g_size s; let '(s1, n) := x in Ok (s1, RN n)
    | Empty => do x <- g_empty s; let '(s1, b) := x in Ok (s1, RB b)
    | Capacity => do x <- g_capacity s; let '(s1, n) := x in Ok (s1, RN n)
    | _ => Ok (s, RUnsupported)
    end.

  Lemma map_fst_fill (l : list K) : map fst (map (fun k => (k, @None V)) l) = l.
  Proof. induction l; simpl; congruence. Qed.

  Theorem g_step_ok (s : ttll K V) (e : ev K V) :
    Inv s -> req (g_step s e) (tt_step false s (e_op e) (e_now e) (e_rnd e)).
  Proof.
    intros Is. unfold g_step, tt_step. destruct (e_op e); try (simpl; auto; fail).
    - unfold g_insert. callee (g_do_insert_update_ok s k v (e_now e) (e_now e + ms ttl)%Z a (Inv_idx_ok _ Is)).
      unfold bind. crush; finish.
    - callee (g_insert_range_ok s (e_now e) l a Is). unfold bind. crush; finish.
    - callee (g_erase_ok s k). unfold bind. crush; finish.
    - callee (g_erase_range_ok s l). unfold bind. crush; finish.
    - unfold g_find. callee (g_do_find_ok s k (e_now e) peek). unfold bind. crush; finish.
    - callee (g_find_range_ok s (e_now e) l peek). unfold bind. crush; finish.
    - callee (g_find_range_fill_ok s (e_now e) (map (fun k => (k, None)) l) peek). rewrite map_fst_fill. unfold bind. crush; finish.
    - callee (g_clean_ok s (e_now e)). unfold bind. crush; finish.
  Qed.

  (* ---- the theorem the tie delivers: the program text that is in tlru_cache.hpp NOW, run on any history of
     public calls from a fresh cache, never reaches undefined behaviour (in particular the loop of
     clean_expired_values ends within the stated bound) and returns exactly the results of the mid-level
     model TtlLru.v ---- *)
  Lemma tt_run_is_run_res : forall h (l : ttll K V),
      tt_run false l h = run_res (fun l e => tt_step false l (e_op e) (e_now e) (e_rnd e)) l h.
  Proof.
    induction h as [|e r IH]; intros l; simpl; auto.
    destruct (tt_step false l (e_op e) (e_now e) (e_rnd e)) as [[l1 y]|]; simpl; auto. rewrite IH. reflexivity.
  Qed.

  (* the generated and the literal program run in step from a state of the invariant: the literal step keeps it *)
  Lemma run_res_req_inv (f g : ttll K V -> ev K V -> res (ttll K V * ret K V)) (I : ttll K V -> Prop) :
    (forall s e, I s -> req (f s e) (g s e)) ->
    (forall s e s' y, I s -> g s e = Ok (s', y) -> I s') ->
    forall h s, I s -> req (run_res f s h) (run_res g s h).
  Proof.
    intros Hfg Hp. induction h as [|e r IH]; intros s Is; simpl; [reflexivity|].
    apply req_bind; [auto|]. intros [s1 y] E.
    assert (Is1 : I s1).
    { apply (Hp s e s1 y Is). apply req_ok. apply req_sym. rewrite <- E. auto. }
    apply req_bind; [auto|]. intros [s2 ys] _. simpl. auto.
  Qed.

  Theorem generated_tlru_no_UB_on_any_history : forall cap ttl (h : list (ev K V)),
      1 <= cap -> mono_from 0 h ->
      exists l', run_res g_step (ttll_init cap ttl) h = Ok (l', snd (run tl_step (tl_init false cap ttl) h)) /\
                 tt_rep false l' (fst (run tl_step (tl_init false cap ttl) h)).
  Proof.
    intros cap ttl h Hc Hm.
    destruct (tt_no_UB_on_any_history false cap ttl h Hc Hm) as (l' & D & R).
    exists l'. split; auto.
    pose proof (run_res_req_inv g_step (fun l e => tt_step false l (e_op e) (e_now e) (e_rnd e)) Inv
                  g_step_ok (fun s e s' y Is E => Inv_step _ _ _ _ _ _ Is E) h (ttll_init cap ttl) (Inv_init cap ttl Hc)) as Q.
    rewrite <- tt_run_is_run_res, D in Q. apply req_ok. apply Q.
  Qed.

  (* ---- the constructor, translated (member initialisers + body): it builds the literal machine's initial state,
     so the whole-history theorem starts from what the source constructs ---- *)
  (* tt_ttl is the uniform TTL of utlru_cache; tlru_cache has no such member and never reads it *)
  (* the loops a constructor may number the nodes of m_lru_list with, whatever their text: a fold over n nodes (or over
     0 .. n-1) one turn of which writes / appends the counter and increments it, resp. appends the loop index *)
  Lemma ctor_fill_counter (F : list nat * nat -> nat -> list nat * nat) :
    (forall l i x, F (l, i) x = (l ++ [i], S i)) ->
    forall (d : list nat) l i, fold_left F d (l, i) = (l ++ seq i (List.length d), i + List.length d).
  Proof.
    intros HF. induction d as [|x d IH]; intros l i; cbn [fold_left List.length seq].
    - rewrite app_nil_r, Nat.add_0_r. reflexivity.
    - rewrite HF, IH. rewrite <- app_assoc. cbn [app]. f_equal. lia.
  Qed.
  Lemma ctor_fill_index (F : list nat -> nat -> list nat) :
    (forall l i, F l i = l ++ [i]) -> forall (d : list nat) l, fold_left F d l = l ++ d.
  Proof.
    intros HF. induction d as [|x d IH]; intros l; cbn [fold_left].
    - rewrite app_nil_r. reflexivity.
    - rewrite HF, IH. rewrite <- app_assoc. reflexivity.
  Qed.
  Ltac ctor_loops :=
    repeat match goal with
           | |- context [fold_left ?F ?d (?l, ?i)] => rewrite (ctor_fill_counter F (fun l0 i0 x0 => eq_refl) d l i), ?seq_length
           | |- context [fold_left ?F ?d ?l] => rewrite (ctor_fill_index F (fun l0 i0 => eq_refl) d l)
           end.
  Lemma g_init_ok (cap : nat) : (g_init cap : ttll K V) = ttll_init cap 0.
  Proof. unfold g_init. cbv zeta. ctor_loops. reflexivity. Qed.
  Theorem generated_tlru_constructed_no_UB_on_any_history : forall cap (h : list (ev K V)),
      1 <= cap -> mono_from 0 h ->
      exists l', run_res g_step (g_init cap) h = Ok (l', snd (run tl_step (tl_init false cap 0) h)) /\
                 tt_rep false l' (fst (run tl_step (tl_init false cap 0) h)).
  Proof. intros cap h Hc Hm. rewrite g_init_ok. apply generated_tlru_no_UB_on_any_history; auto. Qed.

  (* ---- C06 on the translated program: in every execution of the lock-level machine (Conc.v, Section Lin: invoke,
     acquire, body = one call of the generated program, release, return) every call returns what the mid-level
     model returns when it runs the calls in the order of their critical sections — provided the clock readings
     are monotone in that order, which is the case when a call reads the clock inside its critical section; where
     the source reads it before taking the lock, this is an assumption about the schedule (the scheduler check of
     C06 examines such schedules on the real code) ---- *)
  Theorem generated_tlru_lock_level_executions_return_model_results : forall cap ex st,
      1 <= cap ->
      mexec _ _ _ (tstep g_step RUnsupported) (minit _ _ _ (g_init cap)) ex st ->
      let l := lin _ _ _ (tstep g_step RUnsupported) (g_init cap) (fun _ => None) ex in
      (fun h => mono_from 0 h) (map (fun c => snd (fst c)) l) ->
      map snd l = (fun h => snd (run tl_step (tl_init false cap 0) h)) (map (fun c => snd (fst c)) l).
  Proof.
    intros cap ex st Hc Hex.
    refine (executions_have_the_results_of_the_model g_step RUnsupported (fun h => mono_from 0 h) (fun h => snd (run tl_step (tl_init false cap 0) h)) (g_init cap) _ ex st Hex).
    intros h HP. destruct (generated_tlru_constructed_no_UB_on_any_history cap h Hc HP) as (l' & D & _). eauto.
  Qed.
End TlruBridge.

Print Assumptions generated_tlru_no_UB_on_any_history.
Print Assumptions generated_tlru_constructed_no_UB_on_any_history.
Print Assumptions generated_tlru_lock_level_executions_return_model_results.
