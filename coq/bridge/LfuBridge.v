(* LfuBridge.v — the functions cpp2coq.py (+ cpp2coq_lfu.py) generates from the CURRENT
   lfu_cache.hpp (CappGen.GenLfu) compute what the hand-written literal machine LfudaLit.v with
   da := false computes, up to the reason given for undefined behaviour.  Compiled against the
   freshly generated GenLfu.v: a change of the source that changes the meaning of a translated
   method breaks a lemma here. *)
Require Import Capp.Base Capp.Spec Capp.Rr Capp.Lfuda Capp.LfudaFacts Capp.RrLit Capp.LruLit Capp.LfudaLit
               Capp.LfudaLitFacts Capp.LfuLitFacts Capp.GenPrims Capp.Conc Capp.GenConc CappGen.GenLfu.
From Coq Require Import Strings.String Lia.

Section LfuBridge.
  Context {K V : Type} `{EqDec K}.
  Local Open Scope list_scope.
  Local Open Scope nat_scope.

  (* case analysis on an innermost scrutinee of the goal *)
  Ltac inner :=
    match goal with
    | |- context [match ?x with _ => _ end] =>
        lazymatch x with
        | context [match _ with _ => _ end] => fail
        | _ => let E := fresh "E" in destruct x eqn:E; cbn [bind req negb andb orb] in *
        end
    end.
  Ltac proj := cbn [dl_cap dl_tick dl_rnum dl_rk dl_list dl_cells dl_end dl_index dl_mm dl_used
                    set_dl_cap set_dl_tick set_dl_rnum set_dl_rk set_dl_list set_dl_cells set_dl_end set_dl_index
                    set_dl_mm set_dl_used dc_keyed dc_lfu dc_age dc_val set_dc_keyed set_dc_lfu set_dc_age set_dc_val
                    with_cells] in *.
  Ltac clean :=
    repeat match goal with
           | H : ?x = ?x |- _ => clear H
           | H : Some _ = Some _ |- _ => injection H as H; try subst
           | H : Ok _ = Ok _ |- _ => injection H as H; try subst
           | H : (_, _) = (_, _) |- _ => injection H; intros; try subst; clear H
           | H : Some _ = None |- _ => discriminate H
           | H : None = Some _ |- _ => discriminate H
           | H : Ok _ = UB _ |- _ => discriminate H
           | H : UB _ = Ok _ |- _ => discriminate H
           | H : true = false |- _ => discriminate H
           | H : false = true |- _ => discriminate H
           end.
  (* residual arithmetic: the source may write the same counter arithmetic in several ways (m_used_size += 1 for
     ++m_used_size, < 1 for == 0, != 0 for > 0, ...); the boolean comparisons met by the case analysis become
     propositions and lia decides *)
  Ltac props :=
    repeat match goal with
           | H : negb _ = true |- _ => apply Bool.negb_true_iff in H
           | H : negb _ = false |- _ => apply Bool.negb_false_iff in H
           | H : (_ <? _) = true |- _ => apply Nat.ltb_lt in H
           | H : (_ <? _) = false |- _ => apply Nat.ltb_ge in H
           | H : (_ =? _) = true |- _ => apply Nat.eqb_eq in H
           | H : (_ =? _) = false |- _ => apply Nat.eqb_neq in H
           | H : (_ <=? _) = true |- _ => apply Nat.leb_le in H
           | H : (_ <=? _) = false |- _ => apply Nat.leb_gt in H
           end.
  Ltac arith := solve [ props; first [ exfalso; lia | lia | f_equal; lia | f_equal; f_equal; lia ] ].
  Ltac crush := repeat (proj; inner; clean); proj; simpl; try congruence; auto; try arith.
  Ltac callee L := let P := fresh "P" in pose proof L as P; unfold req in P; revert P.
  Ltac finish := intros; clean; subst; try contradiction; try congruence; auto; try arith.

  (* two states / cells with the same fields are equal (avoids unfolding nested field updates) *)
  Lemma lfdl_ext (a b : lfdl K V) :
    dl_cap a = dl_cap b -> dl_tick a = dl_tick b -> dl_rnum a = dl_rnum b -> dl_rk a = dl_rk b ->
    dl_list a = dl_list b -> dl_cells a = dl_cells b -> dl_end a = dl_end b -> dl_index a = dl_index b ->
    dl_mm a = dl_mm b -> dl_used a = dl_used b -> a = b.
  Proof. destruct a, b; cbn. intros; subst; reflexivity. Qed.
  Lemma dcell_ext (a b : dcell K V) :
    dc_keyed a = dc_keyed b -> dc_lfu a = dc_lfu b -> dc_age a = dc_age b -> dc_val a = dc_val b -> a = b.
  Proof. destruct a, b; cbn. intros; subst; reflexivity. Qed.
  Ltac same_state := apply lfdl_ext; proj; try reflexivity; try lia.

  (* reading / writing the element of a node whose cell exists *)
  Lemma vset_some A w (l : list A) i a b : nth_error l i = Some a -> vset w l i b = Ok (upd_nth i b l).
  Proof. intros N. apply vset_inv. split; auto. apply nth_error_Some. congruence. Qed.
  Lemma vset_none A w (l : list A) i b : nth_error l i = None -> exists u, vset w l i b = UB u.
  Proof. intros N. unfold vset. apply nth_error_None in N. apply Nat.ltb_ge in N. rewrite N. eauto. Qed.
  Lemma nth_upd_same A (l : list A) i a b : nth_error l i = Some a -> nth_error (upd_nth i b l) i = Some b.
  Proof. intros N. apply nth_error_upd_same. apply nth_error_Some. congruence. Qed.

  (* ---- what do_access may rely on (the class invariant, at one node): the element of a used node is pointed at by
     both lookup structures — the index entry of its key and its own multimap pair hold the iterator of ITS node.  So
     `e.m_keyed_position->second` and `e.m_lfu_position->second` are the same list iterator, and the source may read
     either.  It holds in every state a history of public calls reaches ([good] below, from LfuLitFacts.v). ---- *)
  Definition node_ok (s : lfdl K V) (n : nat) : Prop :=
    exists e k, nth_error (dl_cells s) n = Some e /\ dc_keyed e = Some k /\ dc_lfu e = Some n /\
                assoc k (dl_index s) = Some n.
  Definition ix_ok (s : lfdl K V) : Prop := forall k n, assoc k (dl_index s) = Some n -> node_ok s n.

  (* with the content of node [n] known, every read / write of its cell computes, in whatever order and however
     often the source performs them *)
  Lemma vset_upd_some A w (l : list A) i a x y :
    nth_error l i = Some a -> vset w (upd_nth i x l) i y = Ok (upd_nth i y l).
  Proof. intros N. rewrite (vset_some _ _ _ _ _ _ (nth_upd_same _ _ _ _ x N)). rewrite upd_nth_twice. reflexivity. Qed.
  Ltac vnorm N :=
    repeat progress (proj; cbn [bind it_node];
                     rewrite ?N, ?(nth_upd_same _ _ _ _ _ N), ?(vset_some _ _ _ _ _ _ N), ?(vset_upd_some _ _ _ _ _ _ _ N)).

  (* do_access(e): the reference parameter is not re-checked by the callee; the literal function
     starts from the node and re-derives the reference, so the node has to be in the list (every
     caller has just dereferenced a list iterator to it) *)
  Lemma g_do_access_ok (s : lfdl K V) (n : nat) now :
    mem_nat n (dl_list s) = true -> node_ok s n -> req (g_do_access s n) (dl_access false s n now).
  Proof.
    intros M (e & k & N & Ek & El & A).
    unfold g_do_access, dl_access, dcell_of, l_deref, keyed_second, mit_second, mm_deref, mm_second, mm_erase, vget.
    rewrite M.
    (* the one thing that is not known: is the multimap pair of the node still there *)
    destruct (mm_count n (dl_mm s)) as [c|] eqn:C;
      repeat progress (vnorm N; rewrite ?Ek, ?El, ?A, ?C).
    - cbn [req]. same_state.
      all: try (f_equal; lia).   (* the new use count, however the source writes "one more" *)
      all: f_equal; apply dcell_ext; proj; rewrite ?Ek, ?El; reflexivity.
    - exact I.
  Qed.

  Lemma g_do_erase_ok (s : lfdl K V) (n : nat) : req (g_do_erase s (It n)) (dl_do_erase s n).
  Proof. unfold g_do_erase, dl_do_erase, dcell_of, vget, bind. crush. Qed.

  Lemma mm_count_head c n r : mm_count n ((c, n) :: r) = Some c.
  Proof. simpl. rewrite Nat.eqb_refl. reflexivity. Qed.

  Lemma g_do_prune_ok (s : lfdl K V) now : req (g_do_prune s) (dl_do_prune false s now).
  Proof.
    (* the test "the cache is not empty" is not destructed in the form the source happens to give it: both tests
       are met by the case analysis of crush, and the combinations that disagree are closed by arith *)
    unfold g_do_prune, dl_do_prune. cbn [bind].
    destruct (dl_mm s) as [|[c n] r] eqn:M; unfold mm_begin, mm_second.
    - unfold bind. crush; finish.
    - (* *begin(), ->second, a reference to the first pair read later: every dereference of the first node computes *)
      repeat progress (rewrite ?mm_count_head; cbn [bind]).
      callee (g_do_erase_ok s n). unfold bind. crush; finish.
  Qed.

  Lemma index_erase_keeps_absent (ix ix' : list (K * nat)) it k :
    index_erase ix it = Ok ix' -> assoc k ix = None -> assoc k ix' = None.
  Proof.
    unfold index_erase. destruct it as [k0|]; [|discriminate].
    destruct (assoc k0 ix); [|discriminate]. intros E; inversion E; subst. intros A.
    destruct (Base.eqb_spec k k0) as [->|N].
    - apply assoc_remk_same.
    - rewrite assoc_remk_other; auto.
  Qed.

  Lemma dl_do_erase_keeps_absent (s s' : lfdl K V) n k :
    dl_do_erase s n = Ok s' -> assoc k (dl_index s) = None -> assoc k (dl_index s') = None.
  Proof.
    unfold dl_do_erase, bind. intros Q A. revert Q. crush; intros Q; clean; proj.
    all: try discriminate; eapply index_erase_keeps_absent; eauto.
  Qed.

  Lemma dl_do_prune_keeps_absent (s s' : lfdl K V) now k :
    dl_do_prune false s now = Ok s' -> assoc k (dl_index s) = None -> assoc k (dl_index s') = None.
  Proof.
    unfold dl_do_prune. cbn [bind]. destruct (0 <? dl_used s); [|intros E; inversion E; subst; auto].
    destruct (dl_mm s) as [|[c n] r]; [discriminate|]. apply dl_do_erase_keeps_absent.
  Qed.

  Lemma g_do_insert_ok (s : lfdl K V) k v now :
    assoc k (dl_index s) = None -> req (g_do_insert s k v) (dl_do_insert false s k v now).
  Proof.
    intros A. unfold g_do_insert, dl_do_insert.
    (* "make room": the capacity test is not destructed in the form the source gives it; the two tests are met by
       the case analysis of crush, the combinations that disagree are closed by arith, and what the generated
       part returns is read back through the literal part *)
    match goal with |- req (bind ?x _) (bind ?y _) => assert (Q : req x y) end.
    { callee (g_do_prune_ok s now). unfold bind. crush; finish. }
    apply req_bind; [exact Q|].
    - intros s1 E1.
      assert (A1 : assoc k (dl_index s1) = None).
      { rewrite E1 in Q. apply req_sym, req_ok in Q. revert Q.
        destruct (List.length (dl_list s) <=? dl_used s); [|intros Q; inversion Q; subst; auto].
        intros Q. eapply dl_do_prune_keeps_absent; eauto. }
      clear Q.
      unfold dcell_of, l_deref.
      destruct (dl_end s1) as [n|] eqn:EE; cbn [bind]; [|exact I].
      destruct (mem_nat n (dl_list s1)); cbn [bind it_node]; [|exact I].
      (* the slot is m_open_list_end, read from the member or from a local copy of it taken before *)
      unfold umap_emplace. rewrite A1. proj. rewrite ?EE. cbn [bind it_node]. unfold vget.
      destruct (nth_error (dl_cells s1) n) as [e|] eqn:N; cbn [bind].
      + destruct (index_emplace (dl_cap s1) (dl_index s1) k n) as [ix|]; cbn [bind]; [|exact I].
        repeat progress (vnorm N; rewrite ?EE).
        destruct (l_next (dl_list s1) (It n)) as [ne|]; cbn [bind req]; [|exact I].
        same_state. all: try (f_equal; apply dcell_ext; proj; reflexivity).
      + destruct (index_emplace (dl_cap s1) (dl_index s1) k n) as [ix|]; cbn [bind]; [|exact I].
        repeat progress (proj; cbn [bind it_node]; rewrite ?N, ?EE).
        exact I.
  Qed.

  (* writing the value of a node leaves what do_access relies on in place *)
  Lemma node_ok_set_val (s : lfdl K V) n e v :
    nth_error (dl_cells s) n = Some e -> node_ok s n ->
    node_ok (with_cells s (upd_nth n {| dc_keyed := dc_keyed e; dc_lfu := dc_lfu e; dc_age := dc_age e; dc_val := v |}
                                   (dl_cells s))) n.
  Proof.
    intros N (e' & k & N' & Ek & El & A). rewrite N in N'. inversion N'; subst e'.
    eexists _, k. proj. split; [eapply nth_upd_same; exact N|]. proj. auto.
  Qed.

  Lemma g_do_update_ok (s : lfdl K V) k n v now :
    assoc k (dl_index s) = Some n -> node_ok s n -> req (g_do_update s (Some k) v) (dl_do_update false s n v now).
  Proof.
    intros A NO. unfold g_do_update, dl_do_update, mit_second, dcell_of, l_deref. rewrite A. cbn [bind].
    destruct (mem_nat n (dl_list s)) eqn:M; cbn [bind]; [|exact I]. unfold vget.
    destruct (nth_error (dl_cells s) n) as [e|] eqn:N; cbn [bind]; [|exact I].
    rewrite !(vset_some _ _ _ _ _ _ N). cbn [bind].
    eapply req_trans; [|apply (g_do_access_ok _ n now); [exact M|exact (node_ok_set_val s n e (Some v) N NO)]].
    unfold set_dl_cells, set_dc_val, with_cells. destruct (g_do_access _ n); simpl; auto.
  Qed.

  (* the lookup in the index, split on what it MEANS (assoc k (dl_index s)), not on how the source spells the test
     against end(): both orientations of the generated `if` (negated or not, then/else swapped, the test kept in a
     named local) reduce once the iterator is a constructor *)
  Ltac found k s idx A :=
    unfold mit_find, mit_second;
    destruct (assoc k (dl_index s)) as [idx|] eqn:A; cbn [mit_eqb negb andb orb]; rewrite ?A; cbn [bind negb andb orb].

  (* do_insert_update: the key is found or not, the operation it needs is allowed or not (a_upd / a_ins are pure bit
     tests of `a`, so where and how often the source evaluates them does not matter): in each of the cases both sides
     reduce, whether the source nests the tests or bails out first on the De Morgan negation *)
  Lemma g_do_insert_update_ok (s : lfdl K V) k v a now :
    ix_ok s -> req (g_do_insert_update s k v a) (dl_ins false s k v a now).
  Proof.
    intros IX. unfold g_do_insert_update, dl_ins. found k s n A.
    - pose proof (g_do_update_ok s k n v now A (IX _ _ A)) as P. unfold req in P. revert P.
      destruct (a_upd a), (a_ins a); cbn [bind negb andb orb]; unfold bind; crush; finish.
    - pose proof (g_do_insert_ok s k v now A) as P. unfold req in P. revert P.
      destruct (a_upd a), (a_ins a); cbn [bind negb andb orb]; unfold bind; crush; finish.
  Qed.

  (* do_access (lfu) leaves the list alone *)
  Lemma dl_access_list (s s1 : lfdl K V) n now : dl_access false s n now = Ok s1 -> dl_list s1 = dl_list s.
  Proof. unfold dl_access, bind. intros Q. revert Q. crush; intros Q; clean; try discriminate; auto. Qed.

  (* what both find functions do before they read the element *)
  Lemma find_prefix (s : lfdl K V) n pk now :
    node_ok s n ->
    req (do d <- l_deref (dl_list s) (It n);
         do s1 <- (if negb pk then (do s0 <- g_do_access s d; Ok s0) else Ok s);
         Ok (s1, d))
        (do s1 <- (if pk then Ok s else dl_access false s n now);
         do d <- l_deref (dl_list s1) (It n);
         Ok (s1, d)).
  Proof.
    intros NO. unfold l_deref. destruct (mem_nat n (dl_list s)) eqn:M; cbn [bind].
    - destruct pk; cbn [negb bind]; [rewrite M; simpl; auto|].
      callee (g_do_access_ok s n now M NO).
      destruct (g_do_access s n) as [s1|], (dl_access false s n now) as [s2|] eqn:L; cbn [bind]; intros P; try contradiction; auto.
      subst s2. rewrite (dl_access_list _ _ _ _ L), M. simpl. auto.
    - destruct pk; cbn [negb bind]; [rewrite M; simpl; auto|].
      unfold dl_access, dcell_of, l_deref. rewrite M. simpl. auto.
  Qed.

  (* the source may look the element up in place, or in a private helper returning `element*` that the translator
     inlines as an applied function (beta): nullptr / &e become None / Some node, the caller's test against nullptr and
     `e->` (ptr_deref) reduce once the helper's result is a constructor *)
  Ltac pred := cbn [bind opt_has_value ptr_deref negb].

  Lemma g_do_find_ok (s : lfdl K V) k pk now : ix_ok s -> req (g_do_find s k pk) (dl_find false s k pk now).
  Proof.
    intros IX. unfold g_do_find, dl_find. cbv beta. found k s n A; pred; [|simpl; auto].
    callee (find_prefix s n pk now (IX _ _ A)). unfold dcell_of.
    destruct (l_deref (dl_list s) (It n)) as [d|]; pred.
    - destruct (if negb pk then _ else _) as [s1|]; pred;
        destruct (if pk then _ else _) as [s2|]; pred; intros P; try contradiction; auto;
        destruct (l_deref (dl_list s2) (It n)) as [d2|]; cbn [bind] in *; try contradiction; auto.
      inversion P; subst. destruct (vget _ _ _); simpl; auto.
    - destruct (if pk then _ else _) as [s2|]; pred; intros P; auto.
      destruct (l_deref (dl_list s2) (It n)) as [d2|]; [contradiction|]. simpl; auto.
  Qed.

  Lemma g_do_find_with_use_count_ok (s : lfdl K V) k pk now :
    ix_ok s -> req (g_do_find_with_use_count s k pk) (dl_find_use false s k pk now).
  Proof.
    intros IX. unfold g_do_find_with_use_count, dl_find_use. cbv beta. found k s n A; pred; [|simpl; auto].
    callee (find_prefix s n pk now (IX _ _ A)). unfold dcell_of.
    destruct (l_deref (dl_list s) (It n)) as [d|]; pred.
    - destruct (if negb pk then _ else _) as [s1|]; pred;
        destruct (if pk then _ else _) as [s2|]; pred; intros P; try contradiction; auto;
        destruct (l_deref (dl_list s2) (It n)) as [d2|]; cbn [bind] in *; try contradiction; auto.
      inversion P; subst. destruct (vget _ _ _) as [e|]; pred; [|exact I].
      destruct (mm_deref _ _); simpl; auto.
    - destruct (if pk then _ else _) as [s2|]; pred; intros P; auto.
      destruct (l_deref (dl_list s2) (It n)) as [d2|]; [contradiction|]. simpl; auto.
  Qed.

  Lemma g_erase_ok (s : lfdl K V) k : req (g_erase s k) (dl_erase s k).
  Proof.
    unfold g_erase, dl_erase. found k s n A; [|simpl; auto].
    callee (g_do_erase_ok s n). unfold bind. crush; finish.
  Qed.

  (* ---- the states a history of public calls reaches: those that represent a state of the mid-level model
     (LfuLitFacts.v: fu_rep, kept by every public call).  In them every index entry leads to a node that both lookup
     structures point back at, which is what do_access may rely on. ---- *)
  Definition good (l : lfdl K V) : Prop := exists t s, lfu_inv t s /\ fu_rep l s.

  Lemma good_init cap : 1 <= cap -> good (lfdl_init cap 1 1 0).
  Proof. intros Hc. exists 0%Z, (lfu_init cap). split; [apply lfu_inv_init; auto; lia|apply fu_rep_init; auto]. Qed.

  Lemma good_ix l : good l -> ix_ok l.
  Proof.
    intros (t & s & IU & Rp) k n A. destruct (frep_elim _ _ Rp) as (used & free & R).
    destruct (frep_lookup _ _ _ _ _ _ R (lfu_nodup t s IU) A) as (_ & v & a & z & Ec & _).
    exists (mkcell k n a v), k. cbn. auto.
  Qed.

  Lemma good_ins l k v a now l1 b : good l -> dl_ins false l k v a now = Ok (l1, b) -> good l1.
  Proof.
    intros (t & s & IU & Rp) E. destruct (fu_ins_ref t l s k v a now IU Rp) as (l' & D & R').
    rewrite D in E. inversion E; subst. exists t, (fst (lf_ins s k v a 0)). split; auto. apply lfu_ins_inv; auto.
  Qed.

  Lemma good_find l k pk now l1 r : good l -> dl_find false l k pk now = Ok (l1, r) -> good l1.
  Proof.
    intros (t & s & IU & Rp) E. destruct (fu_find_ref t l s k pk now IU Rp) as (l' & D & R').
    rewrite D in E. inversion E; subst. exists t, (fst (lf_find s k pk 0)). split; auto. apply lfu_find_inv; auto.
  Qed.

  Lemma good_step l o now rnd l1 r : good l -> dl_step false l o now rnd = Ok (l1, r) -> good l1.
  Proof.
    intros (t & s & IU & Rp) E. destruct (fu_step_refines_t t l s o now rnd IU Rp) as (l' & D & R' & I').
    rewrite D in E. inversion E; subst. exists t, (fst (lfu_step s o now rnd)). auto.
  Qed.

  (* ---- the range calls: the generated range-for loops against the literal recursions ---- *)
  Definition strip (l : list (Z * K * V)) : list (K * V) := map (fun x => (snd (fst x), snd x)) l.

  Lemma req_eq A (x y : res A) : x = y -> req x y.
  Proof. intros ->. apply req_refl. Qed.

  Lemma g_insert_range_ok (s : lfdl K V) l a now :
    good s -> req (g_insert_range s (strip l) a) (dl_ins_range false s l a now 0).
  Proof.
    intros GS. unfold g_insert_range.
    match goal with |- req (bind (foldM ?F _ _) _) _ =>
      assert (G : forall l s n, good s -> req (foldM F (strip l) (s, n)) (dl_ins_range false s l a now n)) end.
    { clear. induction l as [|[[z k] v] r IH]; intros s n GS; simpl; auto.
      callee (g_do_insert_update_ok s k v a now (good_ix s GS)). unfold bind at 1 2 3.
      destruct (g_do_insert_update s k v a) as [[s1 b]|], (dl_ins false s k v a now) as [[s2 b2]|] eqn:L; intros P; try contradiction; auto.
      inversion P; subst. pose proof (good_ins _ _ _ _ _ _ _ GS L) as G2.
      destruct b2; cbn [bind]; (eapply req_trans; [apply IH; exact G2|]); apply req_eq; f_equal; lia. }
    specialize (G l s 0 GS). revert G.
    destruct (foldM _ _ _) as [[s' n']|]; cbn [bind]; auto.
  Qed.

  Lemma g_erase_range_ok (s : lfdl K V) l : req (g_erase_range s l) (dl_erase_range s l 0).
  Proof.
    unfold g_erase_range.
    match goal with |- req (bind (foldM ?F _ _) _) _ =>
      assert (G : forall l s n, req (foldM F l (s, n)) (dl_erase_range s l n)) end.
    { clear. induction l as [|k r IH]; intros s n; simpl; auto.
      unfold dl_erase. found k s idx A; [|apply IH].
      callee (g_do_erase_ok s idx).
      destruct (g_do_erase s (It idx)) as [s1|], (dl_do_erase s idx) as [s2|]; simpl; intros P; try contradiction; auto.
      subst. eapply req_trans; [apply IH|]. apply req_eq; f_equal; lia. }
    specialize (G l s 0). revert G.
    destruct (foldM _ _ _) as [[s' n']|]; cbn [bind]; auto.
  Qed.

  Lemma g_find_range_loop (pk : bool) now F :
    (forall s acc k, F (s, acc) k = (do x <- g_do_find s k pk; let '(s1, r) := x in Ok (s1, acc ++ [(k, r)]))) ->
    forall l (s : lfdl K V) (acc : list (K * option V)), good s ->
      req (foldM F l (s, acc)) (do y <- dl_find_range false s l pk now; let '(s2, os) := y in Ok (s2, acc ++ os)).
  Proof.
    intros HF. induction l as [|k r IH]; intros s acc GS; simpl.
    - rewrite app_nil_r. auto.
    - rewrite HF. callee (g_do_find_ok s k pk now (good_ix s GS)). unfold bind at 1 2 4 5.
      destruct (g_do_find s k pk) as [[s1 o]|], (dl_find false s k pk now) as [[s2 o2]|] eqn:L; intros P; try contradiction; auto.
      inversion P; subst. eapply req_trans; [apply IH; exact (good_find _ _ _ _ _ _ GS L)|]. unfold bind.
      destruct (dl_find_range false s2 r pk now) as [[s3 os]|]; simpl; auto. rewrite <- app_assoc. reflexivity.
  Qed.

  Lemma g_find_range_ok (s : lfdl K V) l pk now :
    good s -> req (g_find_range s l pk) (dl_find_range false s l pk now).
  Proof.
    intros GS. unfold g_find_range.
    match goal with |- req (bind (foldM ?F _ _) _) _ => pose proof (g_find_range_loop pk now F) as G end.
    specialize (G (fun s acc k => eq_refl) l s [] GS). revert G.
    destruct (foldM _ _ _) as [[s' n']|]; cbn [bind]; destruct (dl_find_range false s l pk now) as [[s2 os]|]; simpl; auto.
  Qed.

  Lemma g_find_fill_loop (pk : bool) now F :
    (forall s acc k ov, F (s, acc) (k, ov) = (do x <- g_do_find s k pk; let '(s1, r) := x in Ok (s1, acc ++ [(k, r)]))) ->
    forall (l : list (K * option V)) (s : lfdl K V) (acc : list (K * option V)), good s ->
      req (foldM F l (s, acc)) (do y <- dl_find_range false s (map fst l) pk now; let '(s2, os) := y in Ok (s2, acc ++ os)).
  Proof.
    intros HF. induction l as [|[k ov] r IH]; intros s acc GS; simpl.
    - rewrite app_nil_r. auto.
    - rewrite HF. callee (g_do_find_ok s k pk now (good_ix s GS)). unfold bind at 1 2 4 5.
      destruct (g_do_find s k pk) as [[s1 o]|], (dl_find false s k pk now) as [[s2 o2]|] eqn:L; intros P; try contradiction; auto.
      inversion P; subst. eapply req_trans; [apply IH; exact (good_find _ _ _ _ _ _ GS L)|]. unfold bind.
      destruct (dl_find_range false s2 (map fst r) pk now) as [[s3 os]|]; simpl; auto. rewrite <- app_assoc. reflexivity.
  Qed.

  Lemma g_find_range_fill_ok (s : lfdl K V) (l : list (K * option V)) pk now :
    good s -> req (g_find_range_fill s l pk) (dl_find_range false s (map fst l) pk now).
  Proof.
    intros GS. unfold g_find_range_fill.
    match goal with |- req (bind (foldM ?F _ _) _) _ => pose proof (g_find_fill_loop pk now F) as G end.
    specialize (G (fun s acc k ov => eq_refl) l s [] GS). revert G.
    destruct (foldM _ _ _) as [[s' n']|]; cbn [bind]; destruct (dl_find_range false s (map fst l) pk now) as [[s2 os]|]; simpl; auto.
  Qed.

  (* ---- one public call of the generated program; the glue from the operation alphabet of the
     models to the generated methods (what harness/common.hpp `apply` does for the real class).
     lfu_cache never reads the clock: e_now is not handed to any generated method. ---- *)
  Definition g_step (s : lfdl K V) (e : ev K V) : res (lfdl K V * ret K V) :=
    match e_op e with
    | Insert _ k v a => do x <- g_insert s k v a; let '(s1, b) := x in Ok (s1, RB b)
    | InsertRange l a => do x <- g_insert_range s (strip l) a; let '(s1, n) := x in Ok (s1, RN n)
    | Erase k => do x <- g_erase s k; let '(s1, b) := x in Ok (s1, RB b)
    | EraseRange l => do x <- g_erase_range s l; let '(s1, n) := x in Ok (s1, RN n)
    | Find k pk => do x <- g_find s k pk; let '(s1, r) := x in Ok (s1, RO r)
    | FindUse k pk => do x <- g_find_with_use_count s k pk; let '(s1, r) := x in Ok (s1, RU r)
    | FindRange l pk => do x <- g_find_range s l pk; let '(s1, r) := x in Ok (s1, RL r)
    | FindRangeFill l pk => do x <- g_find_range_fill s (map (fun k => (k, None)) l) pk; let '(s1, r) := x in Ok (s1, RL r)
    | Size => do x <- g_size s; let '(s1, n) := x in Ok (s1, RN n)
    | Empty => do x <- g_empty s; let '(s1, b) := x in Ok (s1, RB b)
    | Capacity => do x <- g_capacity s; let '(s1, n) := x in Ok (s1, RN n)
    | _ => Ok (s, RUnsupported)
    end.

  Lemma map_fst_fill (l : list K) : map fst (map (fun k => (k, @None V)) l) = l.
  Proof. induction l; simpl; congruence. Qed.

  Theorem g_step_ok (s : lfdl K V) (e : ev K V) :
    good s -> req (g_step s e) (dl_step false s (e_op e) (e_now e) (e_rnd e)).
  Proof.
    intros GS. pose proof (good_ix s GS) as IX. unfold g_step, dl_step.
    destruct (e_op e); try (simpl; auto; fail);
      try (unfold g_size, g_empty, g_capacity; cbn [bind req]; f_equal; f_equal; apply Bool.eq_true_iff_eq;
           rewrite ?Bool.negb_true_iff, ?Nat.eqb_eq, ?Nat.eqb_neq, ?Nat.ltb_lt, ?Nat.ltb_ge, ?Nat.leb_le, ?Nat.leb_gt; lia).
    - unfold g_insert. callee (g_do_insert_update_ok s k v a (e_now e) IX). unfold bind. crush; finish.
    - callee (g_insert_range_ok s l a (e_now e) GS). unfold bind. crush; finish.
    - callee (g_erase_ok s k). unfold bind. crush; finish.
    - callee (g_erase_range_ok s l). unfold bind. crush; finish.
    - unfold g_find. callee (g_do_find_ok s k peek (e_now e) IX). unfold bind. crush; finish.
    - callee (g_find_range_ok s l peek (e_now e) GS). unfold bind. crush; finish.
    - callee (g_find_range_fill_ok s (map (fun k => (k, None)) l) peek (e_now e) GS). rewrite map_fst_fill. unfold bind. crush; finish.
    - unfold g_find_with_use_count. callee (g_do_find_with_use_count_ok s k peek (e_now e) IX). unfold bind. crush; finish.
  Qed.

  (* ---- the theorem the tie delivers: the program text that is in lfu_cache.hpp NOW, run on any
     history of public calls from a fresh cache, never reaches undefined behaviour and returns
     exactly the results of the mid-level model lfu_step; the final state represents the model's
     (fu_rep: up to a permutation of the entry list, whose order lfu_cache cannot observe).
     The statement is fu_no_UB_on_any_history / C08_lfu_no_UB_on_any_history with the literal run
     replaced by the run of the generated step. ---- *)
  Lemma fu_run_is_run_res : forall h (l : lfdl K V),
      fu_run l h = run_res (fun l e => dl_step false l (e_op e) (e_now e) (e_rnd e)) l h.
  Proof.
    induction h as [|e r IH]; intros l; simpl; auto.
    destruct (dl_step false l (e_op e) (e_now e) (e_rnd e)) as [[l1 y]|]; simpl; auto. rewrite IH. reflexivity.
  Qed.

  (* runs of two step functions that agree on the states an invariant describes, from a state it describes *)
  Lemma run_res_req_inv {S E R : Type} (f g : S -> E -> res (S * R)) (Inv : S -> Prop) :
    (forall s e, Inv s -> req (f s e) (g s e)) ->
    (forall s e s1 y, Inv s -> g s e = Ok (s1, y) -> Inv s1) ->
    forall h s, Inv s -> req (run_res f s h) (run_res g s h).
  Proof.
    intros Hfg Hk. induction h as [|e r IH]; intros s Is; simpl; auto.
    apply req_bind; [auto|]. intros [s1 y] E1.
    pose proof (Hfg s e Is) as Q. rewrite E1 in Q. apply req_sym, req_ok in Q.
    apply req_bind; [apply IH; eapply Hk; eauto|]. intros [s2 ys] _. simpl. auto.
  Qed.

  Theorem generated_lfu_no_UB_on_any_history : forall cap (h : list (ev K V)),
      1 <= cap -> Forall (fun e => (0 <= e_now e)%Z) h ->
      exists l', run_res g_step (lfdl_init cap 1 1 0) h = Ok (l', snd (run lfu_step (lfu_init cap) h)) /\
                 fu_rep l' (fst (run lfu_step (lfu_init cap) h)).
  Proof.
    intros cap h Hc Hn.
    destruct (fu_no_UB_on_any_history cap h Hc Hn) as (l' & D & R).
    exists l'. split; auto.
    pose proof (run_res_req_inv g_step (fun l e => dl_step false l (e_op e) (e_now e) (e_rnd e)) good
                  (fun s e G => g_step_ok s e G) (fun s e s1 y G E => good_step s _ _ _ s1 y G E)
                  h (lfdl_init cap 1 1 0) (good_init cap Hc)) as Q.
    rewrite <- fu_run_is_run_res, D in Q. apply req_ok. exact Q.
  Qed.

  (* ---- the constructor, translated (member initialisers + body): it builds the literal machine's initial state,
     so the whole-history theorem starts from what the source constructs ---- *)
  Lemma g_init_ok (cap : nat) : (g_init cap : lfdl K V) = lfdl_init cap 1 1 0.
  Proof. reflexivity. Qed.
  Theorem generated_lfu_constructed_no_UB_on_any_history : forall cap (h : list (ev K V)),
      1 <= cap -> Forall (fun e => (0 <= e_now e)%Z) h ->
      exists l', run_res g_step (g_init cap) h = Ok (l', snd (run lfu_step (lfu_init cap) h)) /\
                 fu_rep l' (fst (run lfu_step (lfu_init cap) h)).
  Proof. intros cap h Hc Hn. rewrite g_init_ok. apply generated_lfu_no_UB_on_any_history; auto. Qed.

  (* ---- C06 on the translated program: in every execution of the lock-level machine (Conc.v, Section Lin: invoke,
     acquire, body = one call of the generated program, release, return) every call returns what the mid-level
     model returns when it runs the calls in the order of their critical sections ---- *)
  Theorem generated_lfu_lock_level_executions_return_model_results : forall cap ex st,
      1 <= cap ->
      mexec _ _ _ (tstep g_step RUnsupported) (minit _ _ _ (g_init cap)) ex st ->
      let l := lin _ _ _ (tstep g_step RUnsupported) (g_init cap) (fun _ => None) ex in
      (fun h => Forall (fun e => (0 <= e_now e)%Z) h) (map (fun c => snd (fst c)) l) ->
      map snd l = (fun h => snd (run lfu_step (lfu_init cap) h)) (map (fun c => snd (fst c)) l).
  Proof.
    intros cap ex st Hc Hex.
    refine (executions_have_the_results_of_the_model g_step RUnsupported (fun h => Forall (fun e => (0 <= e_now e)%Z) h) (fun h => snd (run lfu_step (lfu_init cap) h)) (g_init cap) _ ex st Hex).
    intros h HP. destruct (generated_lfu_constructed_no_UB_on_any_history cap h Hc HP) as (l' & D & _). eauto.
  Qed.
End LfuBridge.

Print Assumptions generated_lfu_no_UB_on_any_history.
Print Assumptions generated_lfu_constructed_no_UB_on_any_history.
Print Assumptions generated_lfu_lock_level_executions_return_model_results.
