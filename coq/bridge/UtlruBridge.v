(* UtlruBridge.v — the functions cpp2coq.py (with tools/cpp2coq_utlru.py) generates from the CURRENT
   utlru_cache.hpp (CappGen.GenUtlru) against the hand-written literal machine TtlLit.v at uni = true.
   Compiled on every run against the freshly generated GenUtlru.v: a change of the source that changes
   the meaning of a translated method breaks a lemma here.

   Shape of the tie:
   - do_access, do_erase, do_prune, do_find, erase, erase_range, find, find_range, find_range_fill,
     clean_expired_values, update_ttl, empty/size/capacity: equal to the literal functions on EVERY state
     (up to the reason given for undefined behaviour, req);
   - do_ttl_position + emplace, do_update, do_insert, do_insert_update, insert, insert_range: equal to the
     literal functions on the states the literal machine's invariant describes (tt_rep of a tl_inv state).
     What is used of it: the nodes of m_ttl_list hold distinct values (an iterator is the name of a
     node = the value it holds; the generated loop walks by iterator, walk_emplace by position), and in
     do_insert the free slot *m_lru_end is not in m_ttl_list (the source files the new element AFTER
     writing its m_expire_time, TtlLit.v walks over the elements as they were BEFORE; this differs only
     when the slot is already in the list);
   - clear(): NOT equal to the literal machine (g_clear_vs_literal says exactly how: stale m_lru_position
     of the cells renamed by std::iota, index re-reserved to m_elements.capacity()); proved directly
     against the mid-level model (g_clear_refines).
   The final theorem is tt_no_UB_on_any_history (C08_tlru_utlru_no_UB_on_any_history at uni = true) with the
   literal run replaced by the run of the generated program. *)
Require Import Capp.Base Capp.Spec Capp.Rr Capp.TtlLru Capp.TtlLruFacts Capp.RrLit Capp.LruLit Capp.TtlLit Capp.TtlLitFacts
               Capp.GenPrims Capp.Conc Capp.GenConc CappGen.GenUtlru.
From Coq Require Import Strings.String Lia.

Section UtlruBridge.
  Context {K V : Type} `{EqDec K}.
  Local Open Scope list_scope.
  Local Open Scope nat_scope.

  Ltac inner :=
    match goal with
    | |- context [match ?x with _ => _ end] =>
        lazymatch x with
        | context [match _ with _ => _ end] => fail
        | _ => let E := fresh "E" in destruct x eqn:E; cbn [bind req negb andb orb] in *
        end
    end.
  Ltac proj := cbn [tt_cap tt_ttl tt_elems tt_index tt_list tt_end tt_ord tt_used
                    set_tt_cap set_tt_ttl set_tt_elems set_tt_index set_tt_list set_tt_end set_tt_ord set_tt_used
                    te_expire te_keyed te_lru te_ttl te_val set_te_expire set_te_keyed set_te_lru set_te_ttl set_te_val] in *.
  Ltac clean :=
    repeat match goal with
           | H : ?x = ?x |- _ => clear H
           | H : Some _ = Some _ |- _ => injection H as H; try subst
           | H : Ok _ = Ok _ |- _ => injection H as H; try subst
           | H : It _ = It _ |- _ => injection H as H; try subst
           | H : (_, _) = (_, _) |- _ => injection H; intros; try subst; clear H
           | H : Some _ = None |- _ => discriminate H
           | H : None = Some _ |- _ => discriminate H
           | H : Ok _ = UB _ |- _ => discriminate H
           | H : UB _ = Ok _ |- _ => discriminate H
           | H : true = false |- _ => discriminate H
           | H : false = true |- _ => discriminate H
           | H : It _ = End |- _ => discriminate H
           | H : End = It _ |- _ => discriminate H
           end.
  (* call-by-value normalisation of nested field updates (linear; unfolding them outside-in is exponential) *)
  Ltac norm := cbv [tt_cap tt_ttl tt_elems tt_index tt_list tt_end tt_ord tt_used
                    set_tt_cap set_tt_ttl set_tt_elems set_tt_index set_tt_list set_tt_end set_tt_ord set_tt_used
                    te_expire te_keyed te_lru te_ttl te_val set_te_expire set_te_keyed set_te_lru set_te_ttl set_te_val] in *.
  (* ---- tolerance to the arithmetic form the source happens to use (m_used_size += 1 for ++m_used_size, < 1 for
     == 0, != 0 for > 0, ...): boolean comparisons of naturals become Props, lia decides ---- *)
  Ltac b2p :=
    repeat match goal with
           | H : negb _ = true |- _ => apply Bool.negb_true_iff in H
           | H : negb _ = false |- _ => apply Bool.negb_false_iff in H
           | H : andb _ _ = true |- _ => apply Bool.andb_true_iff in H; destruct H
           | H : orb _ _ = false |- _ => apply Bool.orb_false_iff in H; destruct H
           | H : (_ <? _) = true |- _ => apply Nat.ltb_lt in H
           | H : (_ <? _) = false |- _ => apply Nat.ltb_ge in H
           | H : (_ =? _) = true |- _ => apply Nat.eqb_eq in H
           | H : (_ =? _) = false |- _ => apply Nat.eqb_neq in H
           | H : (_ <=? _) = true |- _ => apply Nat.leb_le in H
           | H : (_ <=? _) = false |- _ => apply Nat.leb_gt in H
           end.
  Ltac arith := solve [ b2p; first [ exfalso; lia | f_equal; lia | lia ] ].
  (* is c a boolean combination of comparisons of naturals? *)
  Ltac natcond c :=
    lazymatch c with
    | Nat.ltb _ _ => idtac
    | Nat.leb _ _ => idtac
    | Nat.eqb _ _ => idtac
    | negb ?a => natcond a
    | andb ?a ?b => natcond a; natcond b
    | orb ?a ?b => natcond a; natcond b
    end.
  (* case analysis on a test of naturals of the goal, however it is written *)
  Ltac natcase :=
    match goal with
    | |- context [if ?c then _ else _] => natcond c; let E := fresh "Hnc" in destruct c eqn:E
    end.
  (* all the tests of naturals of the goal; the cases in which two of them disagree are closed by lia *)
  Ltac natcases := repeat natcase; try arith.
  (* two tests of naturals that say the same *)
  Ltac beq :=
    solve [ reflexivity
          | match goal with |- ?c = ?d => natcond c; natcond d; destruct c eqn:?; destruct d eqn:?; try reflexivity; arith end ].
  Ltac crush := repeat (proj; inner; clean); proj; simpl; try congruence; auto; try arith.
  Ltac callee L := let P := fresh "P" in pose proof L as P; unfold req in P; revert P.
  Ltac finish := intros; clean; subst; try contradiction; try congruence; auto; try arith.
  (* the lookup in the index, split on what it MEANS (assoc k (tt_index s)), not on how the source spells the test
     against end(): both orientations of the generated `if` (negated or not, then/else swapped, early return) reduce,
     and so does `it->second` as well as `*it` bound to a structured binding *)
  Ltac found k s idx A :=
    unfold mit_find, mit_second, mit_deref;
    destruct (assoc k (tt_index s)) as [idx|] eqn:A; cbn [mit_eqb negb]; rewrite ?A; cbn [bind].
  (* the comparisons of time points, as propositions: `now < t`, `!(now >= t)`, `t <= now` under either orientation
     of the `if` all end in the same two cases; the contradictory combinations are closed by lia *)
  Ltac zcases :=
    rewrite ?Z.geb_leb, ?Z.gtb_ltb;
    repeat match goal with
           | |- context [(?a <? ?b)%Z] => destruct (Z.ltb_spec a b)
           | |- context [(?a <=? ?b)%Z] => destruct (Z.leb_spec a b)
           | |- context [(?a =? ?b)%Z] => destruct (Z.eqb_spec a b)
           end; cbn [negb andb orb]; try (exfalso; lia).

  (* ---- the node list m_ttl_list against the deadline structure of TtlLit.v ---- *)
  Lemma nl_remove_eq n (o : list (Z * nat)) : nl_remove n o = ord_remove n o.
  Proof. induction o as [|[z x] r IH]; simpl; auto. Qed.

  Lemma nl_erase_ok (o : list (Z * nat)) p : req (do i <- opt_node p; nl_erase o i) (ord_erase o p).
  Proof.
    destruct p as [n|]; simpl; auto. unfold nl_names. rewrite <- ord_has_mem, nl_remove_eq.
    destruct (ord_has n o); simpl; auto.
  Qed.

  Lemma g_do_access_ok (s : ttll K V) (i : nat) :
    req (g_do_access s i) (do e <- vget "m_elements[element_idx]" (tt_elems s) i; tt_access s e).
  Proof. unfold g_do_access, tt_access, with_list, vget, bind, set_tt_list. crush. Qed.

  Lemma nl_erase_unf (o : list (Z * nat)) i :
    nl_erase o i = match i with
                   | End => UB "erase(end())"
                   | It n => if ord_has n o then Ok (ord_remove n o) else UB "erase through an invalid list iterator"
                   end.
  Proof. destruct i; simpl; auto. unfold nl_names. rewrite <- ord_has_mem. reflexivity. Qed.
  Ltac crush2 := repeat (proj; try rewrite !nl_erase_unf; inner; clean); proj; simpl; try congruence; auto; try arith.

  Lemma g_do_erase_ok (s : ttll K V) (i : nat) : req (g_do_erase s i) (tt_do_erase s i).
  Proof.
    unfold g_do_erase, tt_do_erase, vref, vget, opt_node, ord_erase, bind. crush2.
  Qed.

  Lemma nl_deref_begin (o : list (Z * nat)) :
    nl_deref o (nl_begin o) = match o with [] => UB "dereference of end()" | (_, n) :: _ => Ok n end.
  Proof. destruct o as [|[z n] r]; simpl; auto. rewrite Nat.eqb_refl. reflexivity. Qed.

  Lemma g_do_prune_ok (s : ttll K V) now : req (g_do_prune s now) (tt_do_prune true s now).
  Proof.
    unfold g_do_prune, tt_do_prune. rewrite nl_deref_begin.
    natcases; [|cbn [bind req]; reflexivity].
    destruct (tt_ord s) as [|[z idx] r]; [simpl; auto|]. cbn [bind]. unfold vref, vget.
    destruct (nth_error (tt_elems s) idx) as [e|] eqn:N; cbn [bind]; [|simpl; auto]. rewrite N. cbn [bind].
    zcases;
      match goal with
      | _ : (te_expire e <= now)%Z |- _ => callee (g_do_erase_ok s idx); unfold bind; crush; finish
      | _ : (now < te_expire e)%Z |- _ =>
          destruct (l_back (tt_list s)) as [b|]; cbn [bind]; [|simpl; auto];
          callee (g_do_erase_ok s b); unfold bind; crush; finish
      end.
  Qed.

  (* ---- do_ttl_position: the loop walking back from the tail, then emplace at the position found,
     against walk_emplace of TtlLit.v.  Needs the names of the nodes of m_ttl_list to be distinct
     (tt_rep gives it): an iterator is the name of its node ---- *)
  Lemma nl_begin_app_neq (a : list (Z * nat)) z x b :
    NoDup (map snd (a ++ (z, x) :: b)) -> iter_eqb (nl_begin b) (nl_begin (a ++ (z, x) :: b)) = false.
  Proof.
    intros N. unfold nl_begin, nl_names. rewrite map_app in *. cbn [map snd] in *.
    assert (E : map snd a ++ x :: map snd b = (map snd a ++ [x]) ++ map snd b) by (rewrite <- app_assoc; reflexivity).
    rewrite E in *. destruct (l_begin_in (map snd a ++ [x]) (map snd b)) as (h & Eh & Ih). { destruct (map snd a); discriminate. }
    rewrite Eh. apply iter_eqb_neq. apply (nodup_sep _ _ N). exact Ih.
  Qed.
  Lemma nl_prev_app (a : list (Z * nat)) z x b :
    NoDup (map snd (a ++ (z, x) :: b)) -> nl_prev (a ++ (z, x) :: b) (nl_begin b) = Ok (It x).
  Proof.
    intros N. unfold nl_prev, nl_begin, nl_names. rewrite map_app in *. cbn [map snd] in *. apply l_prev_app. exact N.
  Qed.
  Lemma nl_deref_in (o : list (Z * nat)) x : In x (map snd o) -> nl_deref o (It x) = Ok x.
  Proof. intros I. unfold nl_deref, nl_names, l_deref. rewrite mem_nat_in by exact I. reflexivity. Qed.
  Lemma nl_emplace_app (a b : list (Z * nat)) n :
    NoDup (map snd (a ++ b)) -> nl_emplace (a ++ b) (nl_begin b) n = Ok (a ++ (0%Z, n) :: b, n).
  Proof.
    intros N. unfold nl_emplace, nl_begin, nl_names. rewrite map_app in *. rewrite valid_begin_app.
    f_equal. f_equal. apply nodup_sep in N. revert N. induction a as [|[z x] a IH]; intros S; simpl.
    - destruct b as [|[z m] f]; simpl; auto. rewrite Nat.eqb_refl; auto.
    - rewrite iter_eqb_neq by (apply S; left; auto). f_equal. apply IH. eapply sep_tail; eauto.
  Qed.

  (* one turn of a `while (c) { body }` loop with break: test, then body; (false, b) = the loop is left in state b.
     whileB only ever runs C and B in this combination, so a loop is characterised by what `turn C B` computes —
     whether the source tests everything in the loop condition, or tests part of it in the body and breaks *)
  Definition turn {St} (c : St -> res bool) (f : St -> res (bool * St)) (b : St) : res (bool * St) :=
    do t <- c b; if t then f b else Ok (false, b).
  Lemma whileB_turn {St} n c f (b : St) :
    whileB (S n) c f b = (do r <- turn c f b; let '(go, b1) := r in if go then whileB n c f b1 else Ok b1).
  Proof.
    cbn [whileB]. unfold turn. destruct (c b) as [[|]|]; cbn [bind]; auto.
  Qed.

  (* what one turn of the loop of do_ttl_position computes (up to the reason for UB): at begin() stop; otherwise look at
     the node before position: if it expires later than expire_time step onto it and go on, else stop *)
  Definition walk_turn (ex : Z) (s2 : ttll K V) (ps : iter) : res (bool * (ttll K V * iter)) :=
    if iter_eqb ps (nl_begin (tt_ord s2)) then Ok (false, (s2, ps)) else
    do it <- nl_prev (tt_ord s2) ps; do d <- nl_deref (tt_ord s2) it;
    do e <- vget "m_elements[]" (tt_elems s2) d;
    if (ex <? te_expire e)%Z then Ok (true, (s2, it)) else Ok (false, (s2, ps)).

  Section Walk.
    Variable ex : Z.
    Variables (C : ttll K V * iter -> res bool) (B : ttll K V * iter -> res (bool * (ttll K V * iter))).
    Hypothesis HT : forall s2 ps, req (turn C B (s2, ps)) (walk_turn ex s2 ps).

    Lemma ttl_walk (s : ttll K V) : NoDup (map snd (tt_ord s)) ->
      forall a b f, tt_ord s = a ++ b -> List.length a < f ->
        match whileB f C B (s, nl_begin b) with
        | Ok (s1, ps) => s1 = s /\ exists a1 a2, a = a1 ++ a2 /\ ps = nl_begin (a2 ++ b) /\
                          forall n, walk_emplace (tt_elems s) ex n (rev a) = Ok (rev a2 ++ (0%Z, n) :: rev a1)
        | UB _ => forall n, exists w, walk_emplace (tt_elems s) ex n (rev a) = UB w
        end.
    Proof.
      intros N. induction a as [|[z x] a IH] using rev_ind; intros b f Eo Lf.
      - destruct f as [|f]; [simpl in Lf; lia|]. rewrite whileB_turn.
        pose proof (HT s (nl_begin b)) as Ht. unfold walk_turn in Ht. cbn [app] in Eo. rewrite Eo in Ht.
        rewrite iter_eqb_refl in Ht. apply req_ok in Ht. rewrite Ht. cbn [bind]. split; auto. exists [], []. split; auto.
      - rewrite app_length in Lf. cbn [List.length] in Lf.
        destruct f as [|f]; [lia|]. rewrite whileB_turn. rewrite <- app_assoc in Eo. cbn [app] in Eo.
        pose proof (HT s (nl_begin b)) as Ht. unfold walk_turn in Ht. rewrite Eo in Ht. rewrite Eo in N.
        rewrite (nl_begin_app_neq a z x b N) in Ht. rewrite (nl_prev_app a z x b N) in Ht. cbn [bind] in Ht.
        rewrite nl_deref_in in Ht by (rewrite map_app; apply in_or_app; right; left; auto). cbn [bind] in Ht.
        rewrite rev_unit. cbn [walk_emplace]. unfold vget in *.
        destruct (nth_error (tt_elems s) x) as [e|] eqn:Nx; cbn [bind] in *.
        2:{ destruct (turn C B (s, nl_begin b)); simpl in Ht; [contradiction|]. cbn [bind]. intros n. eexists. reflexivity. }
        destruct (ex <? te_expire e)%Z; cbn [bind]; apply req_ok in Ht; rewrite Ht; cbn [bind].
        + specialize (IH ((z, x) :: b) f Eo ltac:(lia)).
          change (It x) with (nl_begin ((z, x) :: b)).
          destruct (whileB f C B (s, nl_begin ((z, x) :: b))) as [[s1 ps]|].
          * destruct IH as (Es & a1 & a2 & Ea & Ep & Hw). split; auto.
            exists a1, (a2 ++ [(z, x)]). split; [rewrite Ea, app_assoc; reflexivity|].
            split; [rewrite <- app_assoc; exact Ep|].
            intros n. rewrite Hw. cbn [bind]. rewrite rev_unit. reflexivity.
          * intros n. destruct (IH n) as (w & Ew). rewrite Ew. cbn [bind]. eexists; reflexivity.
        + split; auto. exists (a ++ [(z, x)]), []. split; [rewrite app_nil_r; reflexivity|]. split; auto.
          intros n. rewrite rev_unit. reflexivity.
    Qed.
  End Walk.

  Lemma walk_emplace_ext (es es' : list (telem K V)) e n : forall r,
    (forall x, In x (map snd r) -> nth_error es' x = nth_error es x) ->
    walk_emplace es' e n r = walk_emplace es e n r.
  Proof.
    induction r as [|[z x] r IH]; intros Hx; cbn [walk_emplace]; auto.
    unfold vget. rewrite (Hx x) by (left; auto). destruct (nth_error es x); cbn [bind]; auto.
    rewrite IH; auto. intros y Iy. apply Hx. right; auto.
  Qed.

  (* the generated do_ttl_position, whatever the shape of its loop: one turn of it is walk_turn.  Shown by case analysis
     on what a turn looks at (is position begin(), the node before it, the slot it names, and the comparison of the
     two time points AS A PROPOSITION), so `a > b`, `!(a <= b)`, a test in the loop condition or an `if (..) break;`
     in the body all end in the same cases *)
  Lemma g_do_ttl_position_ok (s : ttll K V) ex : NoDup (map snd (tt_ord s)) ->
    match g_do_ttl_position s ex with
    | Ok (s1, ps) => s1 = s /\ forall n, exists r, walk_emplace (tt_elems s) ex n (rev (tt_ord s)) = Ok r /\
                                               nl_emplace (tt_ord s) ps n = Ok (rev r, n)
    | UB _ => forall n, exists w, walk_emplace (tt_elems s) ex n (rev (tt_ord s)) = UB w
    end.
  Proof.
    intros N. unfold g_do_ttl_position. cbv zeta.
    match goal with |- context [whileB ?f ?C ?B _] =>
      assert (HT : forall s2 ps, req (turn C B (s2, ps)) (walk_turn ex s2 ps));
      [ | pose proof (ttl_walk ex C B HT s N (tt_ord s) [] f (eq_sym (app_nil_r _)) (Nat.lt_succ_diag_r _)) as W; clear HT ] end.
    { clear. intros s2 ps. unfold turn, walk_turn. cbv beta iota zeta.
      destruct (iter_eqb ps (nl_begin (tt_ord s2))); cbn [negb andb orb bind]; [apply req_refl|].
      destruct (nl_prev (tt_ord s2) ps) as [it|]; cbn [negb andb orb bind]; [|simpl; auto].
      destruct (nl_deref (tt_ord s2) it) as [d|]; cbn [negb andb orb bind]; [|simpl; auto].
      unfold vref, vget. destruct (nth_error (tt_elems s2) d) as [e|] eqn:Nx; cbn [negb andb orb bind];
        rewrite ?Nx; cbn [negb andb orb bind]; rewrite ?Nx; cbn [negb andb orb bind]; [|simpl; auto].
      zcases; cbn [negb andb orb bind]; apply req_refl. }
    cbn [nl_begin nl_names map l_begin] in W. revert W.
    destruct (whileB _ _ _ _) as [[s1 ps]|]; cbn [bind]; auto.
    intros (Es & a1 & a2 & Ea & Ep & Hw). split; auto. intros n. eexists. split; [apply Hw|].
    rewrite rev_app_distr. cbn [rev]. rewrite !rev_involutive. rewrite <- app_assoc. cbn [app].
    rewrite app_nil_r in Ep. subst ps. rewrite Ea. apply nl_emplace_app. rewrite <- Ea. exact N.
  Qed.

  (* the form used at the two call sites: the state st the source calls do_ttl_position on is compared with the
     elements es and the list o the literal machine walks over; they need to agree only on the slots named in o
     (so it does not matter at which point between the writes to the new element the source looks the position up) *)
  Lemma g_do_ttl_position_at (es : list (telem K V)) (o : list (Z * nat)) (st : ttll K V) ex :
    NoDup (map snd o) -> tt_ord st = o -> (forall x, In x (map snd o) -> nth_error (tt_elems st) x = nth_error es x) ->
    match g_do_ttl_position st ex with
    | Ok (s1, ps) => s1 = st /\ forall n, exists r, walk_emplace es ex n (rev o) = Ok r /\ nl_emplace o ps n = Ok (rev r, n)
    | UB _ => forall n, exists w, walk_emplace es ex n (rev o) = UB w
    end.
  Proof.
    intros N Eo Ag. subst o. pose proof (g_do_ttl_position_ok st ex N) as W.
    assert (WE : forall n, walk_emplace (tt_elems st) ex n (rev (tt_ord st)) = walk_emplace es ex n (rev (tt_ord st))).
    { intros n. apply walk_emplace_ext. intros x Ix. apply Ag. rewrite map_rev in Ix. apply in_rev in Ix. exact Ix. }
    destruct (g_do_ttl_position st ex) as [[s1 ps]|].
    - destruct W as (Es & W). split; auto. intros n. destruct (W n) as (r & Ew & Ee). exists r. rewrite <- WE. auto.
    - intros n. destruct (W n) as (w & Ew). exists w. rewrite <- WE. exact Ew.
  Qed.

  Lemma vget_upd A w (l : list A) i x : i < List.length l -> vget w (upd_nth i x l) i = Ok x.
  Proof. intros L. apply vget_inv. apply nth_error_upd_same; auto. Qed.
  Lemma vset_lt A w (l : list A) i y : i < List.length l -> vset w l i y = Ok (upd_nth i y l).
  Proof. intros L. apply vset_inv; auto. Qed.
  Lemma vset_upd A w (l : list A) i x y : i < List.length l -> vset w (upd_nth i x l) i y = Ok (upd_nth i y l).
  Proof. intros L. rewrite vset_lt by (rewrite upd_nth_length; auto). rewrite upd_nth_twice. auto. Qed.

  Lemma ord_erase_nodup (o o' : list (Z * nat)) p : ord_erase o p = Ok o' -> NoDup (map snd o) -> NoDup (map snd o').
  Proof.
    destruct p as [n|]; simpl; [|discriminate]. destruct (ord_has n o); [|discriminate]. intros E; inversion E; subst.
    rewrite map_snd_ord_remove. apply nodup_remove_nat.
  Qed.

  Lemma vref_lt A (l : list A) i : i < List.length l -> vref l i = Ok i.
  Proof. intros L. apply vref_inv. auto. Qed.
  Lemma vget_nth A w (l : list A) i a : nth_error l i = Some a -> vget w l i = Ok a.
  Proof. apply vget_inv. Qed.

  (* ---- do_update / do_insert: the generated straight-line code is run one statement at a time, whatever statement is
     next (hstep looks at the HEAD of the generated program only); the call of do_ttl_position is met wherever the
     source places it among the writes to the element (ttl_split), and its result is remembered as a fact about
     nl_emplace (used when the emplace is met).  A named local for a sub-expression is a `let`, reduced on the way ---- *)
  Ltac hstep :=
    lazymatch goal with
    | |- req (bind (vref ?l ?i) _) _ => rewrite (vref_lt _ l i) by (rewrite ?upd_nth_length; assumption)
    | |- req (bind (vget ?w (upd_nth ?i ?x ?l) ?i) _) _ => rewrite (vget_upd _ w l i x) by assumption
    | |- req (bind (vget ?w ?l ?i) _) _ =>
        match goal with Nx : nth_error l i = Some ?a |- _ => rewrite (vget_nth _ w l i a Nx) end
    | |- req (bind (vset ?w (upd_nth ?i ?x ?l) ?i ?y) _) _ => rewrite (vset_upd _ w l i x y) by assumption
    | |- req (bind (vset ?w ?l ?i ?y) _) _ => rewrite (vset_lt _ w l i y) by assumption
    | |- req (bind (opt_node (Some _)) _) _ => cbn [opt_node]
    | |- req (bind (nl_erase ?o (It ?n)) _) _ =>
        rewrite (nl_erase_unf o (It n)); cbv iota; match goal with E : ord_has n o = _ |- _ => rewrite E end
    | |- req (bind (nl_emplace ?o ?p ?n) _) _ =>
        match goal with E : nl_emplace o p n = Ok _ |- _ => rewrite E end
    end; cbn [bind]; proj.
  (* the head of the generated program is the call of do_ttl_position on the state st; the literal machine walks over
     (es, o): split on the result (g_do_ttl_position_at); `agree` shows that st and es agree on the slots named in o *)
  Ltac ttl_split idx Nd agree :=
    match goal with |- req (bind (g_do_ttl_position ?st ?ex) _) ?R =>
      match R with context [walk_emplace ?es ex idx (rev ?o)] =>
        let Ag := fresh "Ag" in let W := fresh "W" in
        assert (Ag : forall x, In x (map snd o) -> nth_error (tt_elems st) x = nth_error es x) by agree;
        pose proof (g_do_ttl_position_at es o st ex Nd eq_refl Ag) as W; clear Ag;
        let s' := fresh "s'" in let ps := fresh "ps" in
        destruct (g_do_ttl_position st ex) as [[s' ps]|]; cbn [bind];
        [ let r := fresh "r" in let Ew := fresh "Ew" in let Ee := fresh "Ee" in
          destruct W as (-> & W); destruct (W idx) as (r & Ew & Ee); clear W; rewrite Ew; cbn [bind]; proj
        | let w := fresh "w" in let Ew := fresh "Ew" in destruct (W idx) as (w & Ew); rewrite Ew; cbn [bind req]; exact I ]
      end
    end.
  (* both sides have come to do_access: the states are equal up to the way the fields were written *)
  Ltac access_tail :=
    match goal with |- req (bind (g_do_access ?st ?i) _) (tt_access ?st' _) =>
      let Q := fresh "Q" in assert (Q : st = st') by (norm; first [reflexivity | f_equal; lia]); rewrite Q; clear Q;
      let P := fresh "P" in pose proof (g_do_access_ok st' i) as P; norm;
      rewrite vget_upd in P by assumption; cbn [bind] in P; revert P; unfold req, bind; crush; finish
    end.

  Lemma g_do_update_ok (s : ttll K V) k idx v ex :
    assoc k (tt_index s) = Some idx -> NoDup (map snd (tt_ord s)) ->
    req (g_do_update s (Some k) v ex) (tt_do_update true s idx v ex).
  Proof.
    intros A N. unfold g_do_update, tt_do_update, mit_second. rewrite A. cbn [bind].
    destruct (nth_error (tt_elems s) idx) as [e0|] eqn:Nx.
    2:{ unfold vref, vget. rewrite Nx. simpl. auto. }
    assert (L : idx < List.length (tt_elems s)) by (apply nth_error_Some; congruence).
    destruct e0 as [xe xk xl xt xv].
    (* the literal machine up to its ord_emplace *)
    rewrite (vget_nth _ "m_elements[element_idx]" _ _ _ Nx). cbn [bind]. proj.
    rewrite (vset_lt _ "m_elements[element_idx]" (tt_elems s)) by exact L. cbn [bind].
    rewrite (vset_upd _ "m_elements[element_idx]" (tt_elems s)) by exact L. cbn [bind].
    unfold ord_erase, ord_emplace.
    destruct xt as [n|]; [destruct (ord_has n (tt_ord s)) eqn:Eh|]; cbn [bind]; repeat hstep; try (simpl; auto; fail).
    assert (Nd : NoDup (map snd (ord_remove n (tt_ord s)))) by (rewrite map_snd_ord_remove; apply nodup_remove_nat; exact N).
    ttl_split idx Nd ltac:(intros; reflexivity).
    repeat hstep. access_tail.
  Qed.

  Definition after_prune_ok (s : ttll K V) (k : K) (now : Z) : Prop :=
    forall s1, (if List.length (tt_elems s) <=? tt_used s then tt_do_prune true s now else Ok s) = Ok s1 ->
      assoc k (tt_index s1) = None /\ NoDup (map snd (tt_ord s1)) /\
      forall idx, l_deref (tt_list s1) (tt_end s1) = Ok idx -> ~ In idx (map snd (tt_ord s1)).

  Lemma g_do_insert_ok (s : ttll K V) k v now ex :
    after_prune_ok s k now -> req (g_do_insert s k v now ex) (tt_do_insert true s k v now ex).
  Proof.
    intros Hwf. unfold g_do_insert, tt_do_insert.
    apply req_bind.
    - destruct (List.length (tt_elems s) <=? tt_used s); [|simpl; auto].
      callee (g_do_prune_ok s now). unfold bind. crush; finish.
    - intros s1 E1.
      assert (E1' : (if List.length (tt_elems s) <=? tt_used s then tt_do_prune true s now else Ok s) = Ok s1).
      { destruct (List.length (tt_elems s) <=? tt_used s); [|exact E1].
        pose proof (g_do_prune_ok s now) as P. unfold bind in E1.
        destruct (g_do_prune s now) eqn:G; [|discriminate]. inversion E1; subst.
        destruct (tt_do_prune true s now) eqn:L; simpl in P; [|contradiction]. subst. reflexivity. }
      destruct (Hwf s1 E1') as (A1 & N1 & F1). clear Hwf E1 E1'.
      apply req_bind; [apply req_refl|]. intros idx Ed. specialize (F1 idx Ed).
      unfold umap_emplace. rewrite A1.
      apply req_bind; [apply req_refl|]. intros ix Ex. proj.
      unfold ord_emplace. cbv iota.
      destruct (nth_error (tt_elems s1) idx) as [e0|] eqn:Nx.
      2:{ (* *m_lru_end is not a slot: both sides are undefined, wherever the source calls do_ttl_position *)
          try ttl_split idx N1 ltac:(intros; reflexivity).
          all: unfold vref; rewrite Nx; cbn [bind].
          all: apply nth_error_None in Nx; unfold vset; apply Nat.ltb_ge in Nx; rewrite Nx.
          all: try destruct (walk_emplace _ _ _ _); simpl; auto. }
      assert (L : idx < List.length (tt_elems s1)) by (apply nth_error_Some; congruence).
      rewrite (vset_lt _ "m_elements[element_idx]" (tt_elems s1)) by exact L.
      repeat hstep.
      ttl_split idx N1 ltac:(intros x Ix; first [reflexivity | apply nth_error_upd_neq; intros Ex'; subst x; exact (F1 Ix)]).
      repeat hstep.
      apply req_bind; [apply req_refl|]. intros ne En. proj.
      (* the state handed to do_access is the literal machine's, up to the way m_used_size + 1 is written *)
      access_tail.
  Qed.

  Lemma g_do_insert_update_ok (s : ttll K V) k v now ex a :
    NoDup (map snd (tt_ord s)) -> (assoc k (tt_index s) = None -> after_prune_ok s k now) ->
    req (g_do_insert_update s k v now ex a) (tt_ins true s k v a now ex).
  Proof.
    intros N Hwf. unfold g_do_insert_update, tt_ins. cbv zeta. found k s idx A.
    - destruct (a_upd a); cbn [negb].
      + callee (g_do_update_ok s k idx v ex A N). unfold bind. crush; finish.
      + destruct (a_ins a); cbn [negb]; [|simpl; auto]. unfold vref, vget.
        destruct (nth_error (tt_elems s) idx) as [e0|] eqn:Nx; cbn [bind]; [|simpl; auto]. rewrite ?Nx. cbn [bind].
        zcases;
          match goal with
          | _ : (te_expire e0 <= now)%Z |- _ => callee (g_do_update_ok s k idx v ex A N); unfold bind; crush; finish
          | _ : (now < te_expire e0)%Z |- _ => simpl; auto
          end.
    - destruct (a_ins a); cbn [negb]; [|simpl; auto].
      callee (g_do_insert_ok s k v now ex (Hwf eq_refl)). unfold bind. crush; finish.
  Qed.

  Lemma tt_access_elems (s s' : ttll K V) e : tt_access s e = Ok s' -> tt_elems s' = tt_elems s.
  Proof. unfold tt_access, bind. intros L. revert L. crush; intros Q; clean; try discriminate; auto. Qed.

  Lemma g_do_find_ok (s : ttll K V) k now pk : req (g_do_find s k now pk) (tt_find s k pk now).
  Proof.
    unfold g_do_find, tt_find. cbv zeta. found k s idx A; [|simpl; auto].
    pose proof (g_do_access_ok s idx) as P. revert P.
    unfold vref, vget. destruct (nth_error (tt_elems s) idx) as [e0|] eqn:Nx; [|simpl; auto]. cbn [bind]. rewrite ?Nx. cbn [bind].
    zcases;
      match goal with
      | _ : (now < te_expire e0)%Z |- _ =>
          destruct pk; cbn [Bool.eqb negb]; cbn [bind];
          [ intros _; rewrite Nx; simpl; auto
          | unfold req, bind;
            destruct (g_do_access s idx) as [s1|] eqn:G, (tt_access s e0) as [s2|] eqn:L; intros P; try contradiction; auto;
            subst s2; rewrite (tt_access_elems _ _ _ L), Nx; auto ]
      | _ : (te_expire e0 <= now)%Z |- _ => intros _; callee (g_do_erase_ok s idx); unfold bind; crush; finish
      end.
  Qed.

  Lemma g_erase_ok (s : ttll K V) k : req (g_erase s k) (tt_erase s k).
  Proof.
    unfold g_erase, tt_erase. cbv zeta. found k s idx A; [|simpl; auto].
    callee (g_do_erase_ok s idx). unfold bind. crush; finish.
  Qed.

  (* ---- the preconditions above follow from the literal machine's own invariant: the state
     represents a state of the mid-level model (tt_rep) that satisfies tl_inv ---- *)
  Definition Inv (l : ttll K V) : Prop := exists t m, tl_inv true t m /\ tt_rep true l m.

  Lemma rep2_nodup_ord (l : ttll K V) m used free : rep2 true l m used free -> NoDup (map snd (tt_ord l)).
  Proof. intros (Hl & He & Hu & Hc & Ht & Hus & C). destruct C as (Hle & Hnd & Hlen & Hb & Hix & Hnk & Hmap & Hord & Hndo & _). exact Hndo. Qed.

  Lemma rep2_free_notin (l : ttll K V) m used free : rep2 true l m used free ->
    forall idx, l_deref (tt_list l) (tt_end l) = Ok idx -> ~ In idx (map snd (tt_ord l)).
  Proof.
    intros (Hl & He & Hu & Hc & Ht & Hus & C) idx.
    destruct C as (Hle & Hnd & Hlen & Hb & Hix & Hnk & Hmap & Hord & Hndo & Huo & _).
    rewrite Hl, He. destruct free as [|n f]; cbn [l_begin l_deref]; [discriminate|].
    destruct (mem_nat n (used ++ n :: f)); [|discriminate]. intros E; inversion E; subst idx.
    intros I. apply Huo in I. apply NoDup_remove_2 in Hnd. apply Hnd. apply in_or_app; left; exact I.
  Qed.

  Lemma inv_nodup (l : ttll K V) : Inv l -> NoDup (map snd (tt_ord l)).
  Proof. intros (t & m & I & R). destruct (rep2_elim _ _ _ R) as (used & free & R2). eapply rep2_nodup_ord; eauto. Qed.

  Lemma index_erase_keeps_absent (ix ix' : list (K * nat)) it k :
    index_erase ix it = Ok ix' -> assoc k ix = None -> assoc k ix' = None.
  Proof.
    unfold index_erase. destruct it as [k0|]; [|discriminate].
    destruct (assoc k0 ix); [|discriminate]. intros E; inversion E; subst. intros A.
    rewrite tl_assoc_remk, A. destruct (Base.eqb k0 k); reflexivity.
  Qed.

  Lemma tt_do_erase_keeps_absent (s s' : ttll K V) i k :
    tt_do_erase s i = Ok s' -> assoc k (tt_index s) = None -> assoc k (tt_index s') = None.
  Proof.
    unfold tt_do_erase, bind. intros Q A. revert Q. crush; intros Q; clean; proj.
    all: try discriminate; eapply index_erase_keeps_absent; eauto.
  Qed.

  Lemma inv_after_prune (l : ttll K V) k now : Inv l -> assoc k (tt_index l) = None -> after_prune_ok l k now.
  Proof.
    intros (t & m & I & R) A s1 E. destruct (rep2_elim _ _ _ R) as (used & free & R2).
    destruct (List.length (tt_elems l) <=? tt_used l) eqn:Full.
    - assert (Hfull : tl_cap m <= List.length (tl_lru m)).
      { pose proof R2 as (Hl & He & Hu & Hc & Ht & Hus & C). pose proof (core_len _ _ _ _ _ _ _ _ _ C) as Ln.
        destruct C as (Hle & _). apply Nat.leb_le in Full. lia. }
      destruct (tt_do_prune_full true t l m used free now R2 I Hfull) as (kx & nx & Akx & Ep & Dp).
      destruct (tt_do_erase_rep2 true t l m used free kx nx R2 I Akx) as (l1 & D1 & R1).
      rewrite Dp, D1 in E. inversion E; subst s1.
      split; [eapply tt_do_erase_keeps_absent; eauto|]. split; [eapply rep2_nodup_ord; eauto|eapply rep2_free_notin; eauto].
    - inversion E; subst s1. split; [exact A|]. split; [eapply rep2_nodup_ord; eauto|eapply rep2_free_notin; eauto].
  Qed.

  Lemma g_ins_ok (s : ttll K V) k v now ex a : Inv s -> req (g_do_insert_update s k v now ex a) (tt_ins true s k v a now ex).
  Proof. intros J. apply g_do_insert_update_ok; [apply inv_nodup; exact J|apply inv_after_prune; exact J]. Qed.

  Lemma inv_ins (s s1 : ttll K V) k v a now ex b : Inv s -> tt_ins true s k v a now ex = Ok (s1, b) -> Inv s1.
  Proof.
    intros (t & m & I & R) E. destruct (tt_ins_refines true t s m k v a now ex I R) as (l' & D & R' & I' & _).
    rewrite D in E. inversion E; subst. exists t, (fst (tl_ins m k v a now ex)). auto.
  Qed.

  Lemma inv_ins_ttl (s s1 : ttll K V) k v a now ex b : Inv s -> tt_ins true s k v a now ex = Ok (s1, b) -> tt_ttl s1 = tt_ttl s.
  Proof.
    intros (t & m & I & R) E. destruct (tt_ins_refines true t s m k v a now ex I R) as (l' & D & R' & I' & _).
    rewrite D in E. inversion E; subst.
    destruct (tl_ins m k v a now ex) as [m1 b1] eqn:Em. apply tl_ins_ttl in Em. cbn [fst] in R'.
    destruct R as (used & free & _ & _ & _ & _ & Ht & _). destruct R' as (used' & free' & _ & _ & _ & _ & Ht' & _).
    rewrite Ht, Ht' by reflexivity. apply Em.
  Qed.

  (* ---- the range calls ---- *)
  Definition strip (l : list (Z * K * V)) : list (K * V) := map (fun x => (snd (fst x), snd x)) l.

  Lemma g_insert_range_loop a now xt F :
    (forall s n k v, F (s, n) (k, v) =
       (do x <- g_do_insert_update s k v now xt a; let '(s1, r) := x in
        do j <- (if r then Ok (s1, S n) else Ok (s1, n)); let '(s2, n2) := j in Ok (s2, n2))) ->
    forall l (s : ttll K V) (n : nat), Inv s -> xt = (now + ms (tt_ttl s))%Z ->
      req (foldM F (strip l) (s, n)) (tt_ins_range true s l a now n).
  Proof.
    intros HF. induction l as [|[[z k] v] r IH]; intros s n J Eex; simpl; auto.
    rewrite HF. rewrite <- Eex. callee (g_ins_ok s k v now xt a J). unfold bind at 1 2 3.
    destruct (g_do_insert_update s k v now xt a) as [[s1 b]|], (tt_ins true s k v a now xt) as [[s2 b2]|] eqn:L; intros P; try contradiction; auto.
    injection P as E1 E2. subst s1 b.
    assert (J2 : Inv s2) by (eapply inv_ins; eauto).
    assert (T2 : xt = (now + ms (tt_ttl s2))%Z) by (rewrite (inv_ins_ttl _ _ _ _ _ _ _ _ J L); exact Eex).
    destruct b2; cbn [bind]; apply IH; auto.
  Qed.

  Lemma g_insert_range_ok now (s : ttll K V) l a : Inv s -> req (g_insert_range now s (strip l) a) (tt_ins_range true s l a now 0).
  Proof.
    intros J. unfold g_insert_range. cbv zeta.
    match goal with |- req (bind (foldM ?F _ _) _) _ => pose proof (g_insert_range_loop a now (now + ms (tt_ttl s))%Z F) as G end.
    specialize (G (fun s n k v => eq_refl) l s 0 J eq_refl). revert G.
    destruct (foldM _ _ _) as [[s' n']|]; cbn [bind]; auto.
  Qed.

  Lemma g_erase_range_ok (s : ttll K V) l : req (g_erase_range s l) (tt_erase_range s l 0).
  Proof.
    unfold g_erase_range.
    match goal with |- req (bind (foldM ?F _ _) _) _ =>
      assert (G : forall l s n, req (foldM F l (s, n)) (tt_erase_range s l n)) end.
    { clear. induction l as [|k r IH]; intros s n; simpl; auto.
      unfold tt_erase. found k s idx A; [|apply IH].
      callee (g_do_erase_ok s idx).
      destruct (g_do_erase s idx) as [s1|], (tt_do_erase s idx) as [s2|]; simpl; intros P; try contradiction; auto.
      subst. apply IH. }
    specialize (G l s 0). revert G.
    destruct (foldM _ _ _) as [[s' n']|]; cbn [bind]; auto.
  Qed.

  Lemma g_find_range_loop (pk : bool) now F :
    (forall s acc k, F (s, acc) k = (do x <- g_do_find s k now pk; let '(s1, r) := x in Ok (s1, acc ++ [(k, r)]))) ->
    forall l (s : ttll K V) (acc : list (K * option V)),
      req (foldM F l (s, acc)) (do y <- tt_find_range s l pk now; let '(s2, os) := y in Ok (s2, acc ++ os)).
  Proof.
    intros HF. induction l as [|k r IH]; intros s acc; simpl.
    - rewrite app_nil_r. auto.
    - rewrite HF. callee (g_do_find_ok s k now pk). unfold bind at 1 2 4 5.
      destruct (g_do_find s k now pk) as [[s1 o]|], (tt_find s k pk now) as [[s2 o2]|]; intros P; try contradiction; auto.
      inversion P; subst. eapply req_trans; [apply IH|]. unfold bind.
      destruct (tt_find_range s2 r pk now) as [[s3 os]|]; simpl; auto. rewrite <- app_assoc. reflexivity.
  Qed.

  Lemma g_find_range_ok now (s : ttll K V) l pk : req (g_find_range now s l pk) (tt_find_range s l pk now).
  Proof.
    unfold g_find_range. cbv zeta.
    match goal with |- req (bind (foldM ?F _ _) _) _ => pose proof (g_find_range_loop pk now F) as G end.
    specialize (G (fun s acc k => eq_refl) l s []). revert G.
    destruct (foldM _ _ _) as [[s' n']|]; cbn [bind]; destruct (tt_find_range s l pk now) as [[s2 os]|]; simpl; auto.
  Qed.

  Lemma g_find_fill_loop (pk : bool) now F :
    (forall s acc k ov, F (s, acc) (k, ov) = (do x <- g_do_find s k now pk; let '(s1, r) := x in Ok (s1, acc ++ [(k, r)]))) ->
    forall (l : list (K * option V)) (s : ttll K V) (acc : list (K * option V)),
      req (foldM F l (s, acc)) (do y <- tt_find_range s (map fst l) pk now; let '(s2, os) := y in Ok (s2, acc ++ os)).
  Proof.
    intros HF. induction l as [|[k ov] r IH]; intros s acc; simpl.
    - rewrite app_nil_r. auto.
    - rewrite HF. callee (g_do_find_ok s k now pk). unfold bind at 1 2 4 5.
      destruct (g_do_find s k now pk) as [[s1 o]|], (tt_find s k pk now) as [[s2 o2]|]; intros P; try contradiction; auto.
      inversion P; subst. eapply req_trans; [apply IH|]. unfold bind.
      destruct (tt_find_range s2 (map fst r) pk now) as [[s3 os]|]; simpl; auto. rewrite <- app_assoc. reflexivity.
  Qed.

  Lemma g_find_range_fill_ok now (s : ttll K V) (l : list (K * option V)) pk :
    req (g_find_range_fill now s l pk) (tt_find_range s (map fst l) pk now).
  Proof.
    unfold g_find_range_fill. cbv zeta.
    match goal with |- req (bind (foldM ?F _ _) _) _ => pose proof (g_find_fill_loop pk now F) as G end.
    specialize (G (fun s acc k ov => eq_refl) l s []). revert G.
    destruct (foldM _ _ _) as [[s' n']|]; cbn [bind]; destruct (tt_find_range s (map fst l) pk now) as [[s2 os]|]; simpl; auto.
  Qed.

  (* ---- clean_expired_values: the while loop against tt_clean_loop (same fuel).  One TURN of the generated loop
     (condition, then body: whileB_turn) is required to equal, up to the reason for UB, clean_turn below, which is how
     the literal machine reads; g_clean_ok establishes that by case analysis on what a turn tests (is anything in use,
     is the list empty, is the slot in range, has the deadline passed — as a proposition), so it does not matter
     whether the source writes `while (used > 0) { if (now >= t) { erase } else { break; } }`,
     `if (now < t) { break; } erase`, or folds the test into the condition `while (used > 0 && now >= t) { erase }`,
     nor whether it counts before or after the erase ---- *)
  Definition clean_turn (now : Z) (s : ttll K V) (n : nat) : res (bool * (ttll K V * nat)) :=
    if 0 <? tt_used s then
      do d <- nl_deref (tt_ord s) (nl_begin (tt_ord s));
      do e <- vget "m_elements[]" (tt_elems s) d;
      if (te_expire e <=? now)%Z then (do s1 <- g_do_erase s d; Ok (true, (s1, S n))) else Ok (false, (s, n))
    else Ok (false, (s, n)).

  Lemma g_clean_loop now C B :
    (forall (s : ttll K V) (n : nat), req (turn C B (s, n)) (clean_turn now s n)) ->
    forall f s n, req (whileB f C B (s, n)) (tt_clean_loop true f s now n).
  Proof.
    intros HT. induction f as [|f IH]; intros s n; [simpl; auto|]. rewrite whileB_turn. cbn [tt_clean_loop].
    pose proof (HT s n) as Ht. unfold clean_turn in Ht. rewrite nl_deref_begin in Ht.
    destruct (0 <? tt_used s).
    2:{ apply req_ok in Ht. rewrite Ht. cbn [bind]. simpl. auto. }
    destruct (tt_ord s) as [|[z idx] r]; cbn [bind] in Ht.
    { destruct (turn C B (s, n)); simpl in Ht; [contradiction|simpl; auto]. }
    unfold vget in *.
    destruct (nth_error (tt_elems s) idx) as [e|] eqn:Nx; cbn [bind] in *.
    2:{ destruct (turn C B (s, n)); simpl in Ht; [contradiction|simpl; auto]. }
    destruct (te_expire e <=? now)%Z.
    2:{ apply req_ok in Ht. rewrite Ht. cbn [bind]. simpl. auto. }
    callee (g_do_erase_ok s idx).
    destruct (g_do_erase s idx) as [s1|], (tt_do_erase s idx) as [s2|]; cbn [bind] in *; intros P; try contradiction.
    - subst s2. apply req_ok in Ht. rewrite Ht. cbn [bind]. apply IH.
    - destruct (turn C B (s, n)); simpl in Ht; [contradiction|simpl; auto].
  Qed.

  Lemma g_clean_ok now (s : ttll K V) : req (g_clean_expired_values now s) (tt_clean true s now).
  Proof.
    unfold g_clean_expired_values, tt_clean. cbv zeta.
    match goal with |- req (bind (whileB ?f ?C ?B _) _) _ =>
      assert (HT : forall (s0 : ttll K V) (n0 : nat), req (turn C B (s0, n0)) (clean_turn now s0 n0));
      [ | pose proof (g_clean_loop now C B HT f s 0) as G; clear HT ] end.
    { clear. intros s0 n0. unfold turn, clean_turn. cbv beta iota zeta. rewrite !nl_deref_begin.
      natcases; cbn [bind]; try apply req_refl.
      destruct (tt_ord s0) as [|[z idx] r]; cbn [bind]; [simpl; auto|]. unfold vref, vget.
      destruct (nth_error (tt_elems s0) idx) as [e|] eqn:Nx; cbn [bind]; [|simpl; auto]. rewrite ?Nx. cbn [bind].
      zcases; cbn [bind]; rewrite ?Nx; cbn [bind];
        first [ apply req_refl | destruct (g_do_erase s0 idx); simpl; repeat f_equal; lia ]. }
    revert G. destruct (whileB _ _ _ _) as [[s' n']|]; cbn [bind]; auto.
  Qed.

  (* ---- one public call of the generated program; the glue from the operation alphabet of the
     models to the generated methods, as tt_step does for the literal functions.  The clock reading
     of the call (e_now) is the value of steady_clock::now() in the methods that read the clock ---- *)
  Definition g_step (s : ttll K V) (e : ev K V) : res (ttll K V * ret K V) :=
    match e_op e with
    | Insert _ k v a => do x <- g_insert (e_now e) s k v a; let '(s1, b) := x in Ok (s1, RB b)
    | InsertRange l a => do x <- g_insert_range (e_now e) s (strip l) a; let '(s1, n) := x in Ok (s1, RN n)
    | Erase k => do x <- g_erase s k; let '(s1, b) := x in Ok (s1, RB b)
    | EraseRange l => do x <- g_erase_range s l; let '(s1, n) := x in Ok (s1, RN n)
    | Find k pk => do x <- g_find (e_now e) s k pk; let '(s1, r) := x in Ok (s1, RO r)
    | FindRange l pk => do x <- g_find_range (e_now e) s l pk; let '(s1, r) := x in Ok (s1, RL r)
    | FindRangeFill l pk => do x <- g_find_range_fill (e_now e) s (map (fun k => (k, None)) l) pk; let '(s1, r) := x in Ok (s1, RL r)
    | Clean => do x <- g_clean_expired_values (e_now e) s; let '(s1, n) := x in Ok (s1, RN n)
    | UpdateTtl d => do s1 <- g_update_ttl s d; Ok (s1, RUnit)
    | Clear => do s1 <- g_clear s; Ok (s1, RUnit)
    | Size => do x <- g_size s; let '(s1, n) := x in Ok (s1, RN n)
    | Empty => do x <- g_empty s; let '(s1, b) := x in Ok (s1, RB b)
    | Capacity => do x <- g_capacity s; let '(s1, n) := x in Ok (s1, RN n)
    | _ => Ok (s, RUnsupported)
    end.

  Lemma map_fst_fill (l : list K) : map fst (map (fun k => (k, @None V)) l) = l.
  Proof. induction l; simpl; congruence. Qed.

  (* every call except clear(): the generated method computes what the literal machine computes *)
  Theorem g_step_ok (s : ttll K V) (e : ev K V) :
    Inv s -> e_op e <> Clear -> req (g_step s e) (tt_step true s (e_op e) (e_now e) (e_rnd e)).
  Proof.
    intros J NC. unfold g_step, tt_step. destruct (e_op e); try (simpl; auto; fail).
    - unfold g_insert. cbv zeta. callee (g_ins_ok s k v (e_now e) (e_now e + ms (tt_ttl s))%Z a J). unfold bind. crush; finish.
    - callee (g_insert_range_ok (e_now e) s l a J). unfold bind. crush; finish.
    - callee (g_erase_ok s k). unfold bind. crush; finish.
    - callee (g_erase_range_ok s l). unfold bind. crush; finish.
    - unfold g_find. cbv zeta. callee (g_do_find_ok s k (e_now e) peek). unfold bind. crush; finish.
    - callee (g_find_range_ok (e_now e) s l peek). unfold bind. crush; finish.
    - callee (g_find_range_fill_ok (e_now e) s (map (fun k => (k, None)) l) peek). rewrite map_fst_fill. unfold bind. crush; finish.
    - congruence.
    - callee (g_clean_ok (e_now e) s). unfold bind. crush; finish.
  Qed.

  (* clear(): the generated method and the literal machine differ, in two components no later call
     reads before writing: (1) std::iota gives every node of m_lru_list a new value, so (nodes being
     named by their value) the stale m_lru_position of every cell is renamed with its node, where
     TtlLit.v leaves tt_elems untouched; (2) the index is re-reserved to m_elements.capacity()
     (>= size()), where TtlLit.v keeps tt_cap.  Exactly: *)
  Lemma g_clear_vs_literal (s : ttll K V) now rnd :
    exists s', tt_step true s Clear now rnd = Ok (s', RUnit) /\
               g_clear s = Ok (if 0 <? tt_used s
                               then set_tt_cap (set_tt_elems s' (map (fun c => set_te_lru c (option_map (l_iota_it (tt_list s) 0) (te_lru c)))
                                                                     (tt_elems s)))
                                               (List.length (tt_elems s))
                               else s').
  Proof.
    unfold tt_step, g_clear. natcases; eexists; (split; [reflexivity|]); [|reflexivity].
    cbv [umap_reserve l_iota]. norm. cbn [bind]. reflexivity.
  Qed.

  (* so clear() is proved against the mid-level model directly *)
  Lemma g_clear_refines t (l : ttll K V) (m : tl K V) :
    tl_inv true t m -> tt_rep true l m ->
    exists l', g_clear l = Ok l' /\ tt_rep true l' (tl_init true (tl_cap m) (tl_ttl m)).
  Proof.
    intros I R. destruct (rep2_elim _ _ _ R) as (used & free & R2).
    pose proof R2 as (Hl & He & Hu & Hc & Ht & Hus & C).
    pose proof C as (Hle & Hnd & Hlen & Hb & Hix & Hnk & Hmap & Hord & Hndo & Huo & Hz & HA & HB).
    pose proof (core_len _ _ _ _ _ _ _ _ _ C) as Ln.
    pose proof (core_len_ord _ _ _ _ _ _ _ _ _ C) as Lo.
    unfold g_clear. natcase; b2p.
    - proj. cbn [umap_reserve bind]. eexists. split; [reflexivity|].
      apply (rep2_intro true _ _ [] (seq 0 (tl_cap m))). unfold rep2, core, tl_init. proj. unfold l_iota.
      rewrite Hl, Hlen, Hle.
      cbn [tt_cap tt_ttl tt_elems tt_index tt_list tt_end tt_ord tt_used tl_uniform tl_cap tl_ttl tl_lru tl_ord app
           rev map List.length].
      split; [reflexivity|]. split; [reflexivity|]. split; [reflexivity|]. split; [reflexivity|].
      split; [intros _; apply Ht; reflexivity|]. split; [reflexivity|].
      split; [rewrite map_length; exact Hle|]. split; [apply seq_NoDup|]. split; [apply seq_length|].
      split. { intros n J. apply in_seq in J. lia. }
      split; [reflexivity|]. split; [constructor|]. split; [reflexivity|]. split; [reflexivity|].
      split; [constructor|]. split; [tauto|].
      split. { intros Hf; discriminate Hf. }
      split. { intros n []. }
      intros k n E. discriminate.
    - exists l. split; [reflexivity|].
      assert (Eu0 : used = []) by (destruct used; [reflexivity|simpl in Hus; lia]).
      assert (Eo : tt_ord l = []).
      { destruct (tt_ord l) as [|[z x] o']; auto. exfalso. subst used. apply (proj2 (Huo x)). simpl. auto. }
      assert (El : tl_lru m = []).
      { subst used. simpl in Ln. destruct (tl_lru m); [reflexivity|simpl in Ln; lia]. }
      assert (Eor : tl_ord m = []).
      { rewrite Eo in Lo. simpl in Lo. destruct (tl_ord m); [reflexivity|simpl in Lo; lia]. }
      apply (rep2_intro true _ _ used free). unfold rep2, tl_init.
      cbn [tl_uniform tl_cap tl_ttl tl_lru tl_ord].
      rewrite El, Eor in C.
      split; [exact Hl|]. split; [exact He|]. split; [reflexivity|]. split; [exact Hc|].
      split; [exact Ht|]. split; [exact Hus|exact C].
  Qed.

  (* ---- one call from any state the literal machine's invariant describes ---- *)
  Theorem g_step_refines t (l : ttll K V) (m : tl K V) (e : ev K V) :
    tl_inv true t m -> tt_rep true l m ->
    exists l', g_step l e = Ok (l', snd (tl_step m (e_op e) (e_now e) (e_rnd e))) /\
               tt_rep true l' (fst (tl_step m (e_op e) (e_now e) (e_rnd e))) /\
               tl_inv true (e_now e) (fst (tl_step m (e_op e) (e_now e) (e_rnd e))).
  Proof.
    intros I R.
    destruct (tt_step_refines_cap true t l m (e_op e) (e_now e) (e_rnd e) I R) as (l' & D & R' & I' & _).
    destruct (e_op e) eqn:Eo;
      try (exists l'; split; [|split; [exact R'|exact I']];
           pose proof (g_step_ok l e ltac:(exists t, m; auto) ltac:(rewrite Eo; discriminate)) as Q;
           rewrite Eo, D in Q; apply req_ok in Q; exact Q).
    (* Clear *)
    destruct (g_clear_refines t l m I R) as (l1 & D1 & R1).
    pose proof I as (Hu & Hc1 & _).
    exists l1. unfold g_step. rewrite Eo, D1. cbn [bind tl_step]. rewrite Hu. cbn [fst snd].
    split; [reflexivity|]. split; [exact R1|]. apply tl_inv_init. exact Hc1.
  Qed.

  Lemma g_run_refines : forall h t (l : ttll K V) (m : tl K V),
      tl_inv true t m -> tt_rep true l m ->
      exists l', run_res g_step l h = Ok (l', snd (run tl_step m h)) /\ tt_rep true l' (fst (run tl_step m h)).
  Proof.
    induction h as [|e r IH]; intros t l m I R; simpl.
    - exists l. auto.
    - destruct (g_step_refines t l m e I R) as (l1 & D1 & R1 & I1).
      rewrite D1. cbn [bind]. unfold step_ev.
      destruct (tl_step m (e_op e) (e_now e) (e_rnd e)) as [m1 y1]. simpl in *.
      destruct (IH (e_now e) l1 m1 I1 R1) as (l2 & D2 & R2).
      rewrite D2. cbn [bind].
      destruct (run tl_step m1 r) as [m2 ys]. simpl in *.
      exists l2. split; [reflexivity|exact R2].
  Qed.

  (* ---- the theorem the tie delivers: the program text that is in utlru_cache.hpp NOW, run on any
     history of public calls from a fresh cache, never reaches undefined behaviour (in particular
     its loops end within the stated bounds) and returns exactly the results of the mid-level model ---- *)
  Theorem generated_utlru_no_UB_on_any_history : forall cap ttl (h : list (ev K V)),
      1 <= cap -> mono_from 0 h ->
      exists l', run_res g_step (ttll_init cap ttl) h = Ok (l', snd (run tl_step (tl_init true cap ttl) h)) /\
                 tt_rep true l' (fst (run tl_step (tl_init true cap ttl) h)).
  Proof.
    intros cap ttl h Hc _.
    exact (g_run_refines h 0%Z (ttll_init cap ttl) (tl_init true cap ttl)
             (tl_inv_init true cap ttl 0%Z Hc) (tt_rep_init true cap ttl Hc)).
  Qed.

  (* ---- the constructor, translated (member initialisers + body): it builds the literal machine's initial state,
     so the whole-history theorem starts from what the source constructs ---- *)
  (* the loops a constructor may number the nodes of m_lru_list with, whatever their text: a fold over n nodes (or over
     0 .. n-1) one turn of which writes / appends the counter and increments it, resp. appends the loop index *)
  Lemma ctor_fill_counter (F : list nat * nat -> nat -> list nat * nat) :
    (forall l i x, F (l, i) x = (l ++ [i], S i)) ->
    forall (d : list nat) l i, fold_left F d (l, i) = (l ++ seq i (List.length d), i + List.length d).
  Proof.
    intros HF. induction d as [|x d IH]; intros l i; cbn [fold_left List.length seq].
    - rewrite app_nil_r, Nat.add_0_r. reflexivity.
    - rewrite HF, IH. rewrite <- app_assoc. cbn [app]. f_equal. lia.
  Qed.
  Lemma ctor_fill_index (F : list nat -> nat -> list nat) :
    (forall l i, F l i = l ++ [i]) -> forall (d : list nat) l, fold_left F d l = l ++ d.
  Proof.
    intros HF. induction d as [|x d IH]; intros l; cbn [fold_left].
    - rewrite app_nil_r. reflexivity.
    - rewrite HF, IH. rewrite <- app_assoc. reflexivity.
  Qed.
  Ltac ctor_loops :=
    repeat match goal with
           | |- context [fold_left ?F ?d (?l, ?i)] => rewrite (ctor_fill_counter F (fun l0 i0 x0 => eq_refl) d l i), ?seq_length
           | |- context [fold_left ?F ?d ?l] => rewrite (ctor_fill_index F (fun l0 i0 => eq_refl) d l)
           end.
  Lemma g_init_ok (ttl : Z) (cap : nat) : (g_init ttl cap : ttll K V) = ttll_init cap ttl.
  Proof. unfold g_init. cbv zeta. ctor_loops. reflexivity. Qed.
  Theorem generated_utlru_constructed_no_UB_on_any_history : forall cap ttl (h : list (ev K V)),
      1 <= cap -> mono_from 0 h ->
      exists l', run_res g_step (g_init ttl cap) h = Ok (l', snd (run tl_step (tl_init true cap ttl) h)) /\
                 tt_rep true l' (fst (run tl_step (tl_init true cap ttl) h)).
  Proof. intros cap ttl h Hc Hm. rewrite g_init_ok. apply generated_utlru_no_UB_on_any_history; auto. Qed.

  (* ---- C06 on the translated program: in every execution of the lock-level machine (Conc.v, Section Lin: invoke,
     acquire, body = one call of the generated program, release, return) every call returns what the mid-level
     model returns when it runs the calls in the order of their critical sections — provided the clock readings
     are monotone in that order, which is the case when a call reads the clock inside its critical section; where
     the source reads it before taking the lock, this is an assumption about the schedule (the scheduler check of
     C06 examines such schedules on the real code) ---- *)
  Theorem generated_utlru_lock_level_executions_return_model_results : forall cap ttl ex st,
      1 <= cap ->
      mexec _ _ _ (tstep g_step RUnsupported) (minit _ _ _ (g_init ttl cap)) ex st ->
      let l := lin _ _ _ (tstep g_step RUnsupported) (g_init ttl cap) (fun _ => None) ex in
      (fun h => mono_from 0 h) (map (fun c => snd (fst c)) l) ->
      map snd l = (fun h => snd (run tl_step (tl_init true cap ttl) h)) (map (fun c => snd (fst c)) l).
  Proof.
    intros cap ttl ex st Hc Hex.
    refine (executions_have_the_results_of_the_model g_step RUnsupported (fun h => mono_from 0 h) (fun h => snd (run tl_step (tl_init true cap ttl) h)) (g_init ttl cap) _ ex st Hex).
    intros h HP. destruct (generated_utlru_constructed_no_UB_on_any_history cap ttl h Hc HP) as (l' & D & _). eauto.
  Qed.
End UtlruBridge.

Print Assumptions generated_utlru_no_UB_on_any_history.
Print Assumptions generated_utlru_constructed_no_UB_on_any_history.
Print Assumptions generated_utlru_lock_level_executions_return_model_results.
