(* RrBridge.v — the functions cpp2coq.py generates from the CURRENT rr_cache.hpp (CappGen.GenRr)
   compute what the hand-written literal machine RrLit.v (fixed := true) computes, up to the
   reason given for undefined behaviour.  The generated functions thread [with_rng (rrl K V)]:
   the literal state plus the member m_mt, the list of draws still to come; the literal machine
   passes that list as an argument.  Compiled on every run against the freshly generated GenRr.v. *)
Require Import Capp.Base Capp.Spec Capp.Rr Capp.RrFacts Capp.RrLit Capp.RrLitFacts Capp.GenPrims Capp.Conc Capp.GenConc CappGen.GenRr.
From Coq Require Import Strings.String Lia.

Section RrBridge.
  Context {K V : Type} `{EqDec K}.
  Local Open Scope list_scope.
  Local Open Scope nat_scope.

  Notation gst := (with_rng (rrl K V)).
  Notation W l g := {| rs_st := l; rs_rng := g |} (only parsing).

  Ltac inner :=
    match goal with
    | |- context [match ?x with _ => _ end] =>
        lazymatch x with
        | context [match _ with _ => _ end] => fail
        | _ => let E := fresh "E" in destruct x eqn:E; cbn [bind req negb andb orb] in *
        end
    end.
  Ltac proj := cbn [rs_st rs_rng l_cap l_elems l_index l_open l_end e_keyed e_pos e_val] in *.
  Ltac unf := unfold x_cap, x_elems, x_index, x_open, x_end, x_rnd, set_x_cap, set_x_elems, set_x_index, set_x_open,
                     set_x_end, set_x_rnd, set_e_keyed, set_e_pos, set_e_val in *.
  Ltac clean :=
    repeat match goal with
           | H : ?x = ?x |- _ => clear H
           | H : Some _ = Some _ |- _ => injection H as H; try subst
           | H : Ok _ = Ok _ |- _ => injection H as H; try subst
           | H : (_, _) = (_, _) |- _ => injection H; intros; try subst; clear H
           | H : Some _ = None |- _ => discriminate H
           | H : None = Some _ |- _ => discriminate H
           | H : Ok _ = UB _ |- _ => discriminate H
           | H : UB _ = Ok _ |- _ => discriminate H
           | H : true = false |- _ => discriminate H
           | H : false = true |- _ => discriminate H
           end.
  Ltac crush := repeat (proj; inner; clean); proj; simpl; try congruence; auto.
  Ltac callee L := let P := fresh "P" in pose proof L as P; unfold req in P; revert P.
  Ltac finish := intros; clean; subst; try contradiction; try congruence; auto.

  Lemma nth_error_lt A (l : list A) i a : nth_error l i = Some a -> (i <? List.length l) = true.
  Proof. intros E. apply Nat.ltb_lt. apply nth_error_Some. congruence. Qed.
  Lemma nth_error_in A (l : list A) i a : nth_error l i = Some a -> i < List.length l.
  Proof. intros E. apply nth_error_Some. congruence. Qed.

  (* ---- tactics that do not look at the SHAPE of the generated code ----
     cmp_norm: every comparison of naturals in the goal that the Prop facts of the context decide is replaced by its
     value, whatever its spelling (a <=? b, negb (b <? a), the operands swapped, ...); one first case-splits on the
     FACT (Nat.eq_dec, Nat.le_gt_cases ...), never on a boolean expression of the generated code. *)
  Ltac cmp_norm :=
    repeat match goal with
           | |- context [?a <=? ?b] => first [ rewrite (proj2 (Nat.leb_le a b)) by lia | rewrite (proj2 (Nat.leb_gt a b)) by lia ]
           | |- context [?a <? ?b] => first [ rewrite (proj2 (Nat.ltb_lt a b)) by lia | rewrite (proj2 (Nat.ltb_ge a b)) by lia ]
           | |- context [?a =? ?b] => first [ rewrite (proj2 (Nat.eqb_eq a b)) by lia | rewrite (proj2 (Nat.eqb_neq a b)) by lia ]
           end; cbn [negb andb orb].
  (* the facts about cells of vectors / nodes of the index that are in the context (as equations nth_error .. = ..,
     assoc .. = ..) replace every access to these cells, wherever it stands and however often it is repeated *)
  Ltac rw1 :=
    match goal with
    | H : nth_error _ _ = _ |- _ => rewrite H
    | H : assoc _ _ = _ |- _ => rewrite H
    end.
  Ltac norm := repeat (first [ progress (cbn [bind negb andb orb fst snd mit_eqb]; proj) | rw1 | progress cmp_norm ]).
  (* both programs are now at the erasure of the index node (or both have stopped) *)
  Ltac tail :=
    try match goal with |- context [index_erase ?a ?b] => destruct (index_erase a b) end; simpl; auto.
  (* the index lookup: split on the FACT assoc k ix = Some idx / None; then `it == end()`, `it != end()`,
     `end() != it`, an early return on the miss ... all reduce by computation *)
  Ltac lookup A := unfold mit_find, mit_second; unf; proj; cbn [mit_eqb negb bind]; rewrite ?A; cbn [mit_eqb negb bind].

  (* ---- vectors: reads of cells of updated vectors, lengths of updated vectors, two stores into different cells ---- *)
  Lemma nth_error_upd_at A (l : list A) i j x : j = i -> i < List.length l -> nth_error (upd_nth i x l) j = Some x.
  Proof. intros ->. apply nth_error_upd_same. Qed.
  Lemma upd_nth_comm A (l : list A) i j x y : i <> j -> upd_nth i x (upd_nth j y l) = upd_nth j y (upd_nth i x l).
  Proof.
    revert i j. induction l as [|a r IH]; intros [|i] [|j] Ne; simpl; auto; try congruence.
    f_equal. apply IH. congruence.
  Qed.
  (* a read of a cell of a vector after stores: the store into the same cell (the indices equal by arithmetic) gives the
     stored value, a store into another cell is skipped; lengths of updated vectors are the length of the vector *)
  Ltac upd1 :=
    match goal with
    | |- context [List.length (upd_nth _ _ _)] => rewrite upd_nth_length
    | |- context [nth_error (upd_nth ?i ?x ?l) ?j] =>
        first [ rewrite (nth_error_upd_nth_neq _ l i j x) by lia
              | rewrite (nth_error_upd_at _ l i j x) by (rewrite ?upd_nth_length; lia) ]
    end.
  Ltac norm2 := repeat (first [ progress norm | upd1 ]).
  (* two final states: the same record up to the order of two stores into different cells of a vector *)
  Ltac same_state :=
    try reflexivity;
    repeat match goal with
           | |- context [upd_nth ?i ?x (upd_nth ?j ?y ?l)] =>
               lazymatch goal with
               | |- context [upd_nth j y (upd_nth i x l)] => rewrite (upd_nth_comm _ l i j x y) by lia
               end
           end;
    try reflexivity.

  (* ---- do_erase ---- *)
  Lemma g_do_erase_ok (s : gst) (i : nat) :
    req (g_do_erase s i) (do l <- l_do_erase true (rs_st s) i; Ok (W l (rs_rng s))).
  Proof.
    destruct s as [l g]. unfold g_do_erase, l_do_erase. unf. proj.
    unfold vref, vswap, vset, vget, usub.
    (* the cell element_idx *)
    destruct (nth_error (l_elems l) i) as [e|] eqn:N; [|simpl; auto]. norm.
    (* m_open_list_end - 1 *)
    destruct (Nat.eq_dec (l_end l) 0) as [Z|NZ]; norm; [simpl; auto|].
    (* is the element the last one of the open list? *)
    destruct (Nat.eq_dec (e_pos e) (l_end l - 1)) as [Ep|Np]; norm; [solve [tail]|].
    (* the two cells of the open list that are exchanged (in whatever order the program reads them) *)
    destruct (nth_error (l_open l) (e_pos e)) as [a|] eqn:Na; destruct (nth_error (l_open l) (l_end l - 1)) as [b|] eqn:Nb;
      norm; try (simpl; auto; fail).
    pose proof (nth_error_in _ _ _ _ Na) as La. pose proof (nth_error_in _ _ _ _ Nb) as Lb. norm2.
    (* the element that was swapped out of the last in-use slot *)
    destruct (nth_error (l_elems l) b) as [mv|] eqn:Nm; norm2; [|simpl; auto].
    pose proof (nth_error_in _ _ _ _ Nm) as Lm. norm2.
    (* the cell element_idx after the back-pointer fix-up: the same index iterator *)
    destruct (Nat.eq_dec i b) as [Eib|Nib]; [subst i; assert (mv = e) by congruence; subst mv|]; norm2; tail; same_state.
  Qed.

  (* ---- do_prune: one draw from [0, m_open_list_end - 1], consumed only when the cache is not empty ---- *)
  Lemma g_do_prune_ok (s : gst) :
    req (g_do_prune s)
        (do l <- l_do_prune true (rs_st s) (hd 0 (rs_rng s));
         Ok (W l (if 0 <? l_end (rs_st s) then tl (rs_rng s) else rs_rng s))).
  Proof.
    destruct s as [l g]. unfold g_do_prune, l_do_prune. unf. proj.
    unfold usub, uniform_dist, rng_draw.
    destruct (Nat.eq_dec (l_end l) 0) as [Z|P]; norm; [simpl; auto|].
    destruct (Nat.le_gt_cases (hd 0 g) (l_end l - 1)) as [D|D]; norm; [|simpl; auto].
    callee (g_do_erase_ok (W l (tl g)) (hd 0 g)). proj. unfold bind. crush; finish.
  Qed.

  Lemma index_erase_keeps_absent (ix ix' : list (K * nat)) it k :
    index_erase ix it = Ok ix' -> assoc k ix = None -> assoc k ix' = None.
  Proof.
    unfold index_erase. destruct it as [k0|]; [|discriminate].
    destruct (assoc k0 ix); [|discriminate]. intros E; inversion E; subst. intros A.
    rewrite assoc_remk. destruct (Base.eqb k k0); auto.
  Qed.

  Lemma l_do_erase_keeps_absent (l l' : rrl K V) i k :
    l_do_erase true l i = Ok l' -> assoc k (l_index l) = None -> assoc k (l_index l') = None.
  Proof.
    unfold l_do_erase, bind. intros Q A. revert Q. crush; intros Q; clean; proj.
    all: try discriminate; eapply index_erase_keeps_absent; eauto.
  Qed.

  Lemma l_do_prune_keeps_absent (l l' : rrl K V) r k :
    l_do_prune true l r = Ok l' -> assoc k (l_index l) = None -> assoc k (l_index l') = None.
  Proof.
    unfold l_do_prune. destruct (0 <? l_end l); [|intros E; inversion E; subst; auto].
    destruct (r <? l_end l); [|discriminate]. apply l_do_erase_keeps_absent.
  Qed.

  Lemma bind_assoc A B C (x : res A) (f : A -> res B) (g : B -> res C) :
    bind (bind x f) g = bind x (fun a => bind (f a) g).
  Proof. destruct x; reflexivity. Qed.

  (* binds whose intermediate values live in different types, related by R *)
  Lemma req_bind_rel A A' B (R : A -> A' -> Prop) (x : res A) (y : res A') (f : A -> res B) (g : A' -> res B) :
    match x, y with Ok a, Ok b => R a b | UB _, UB _ => True | _, _ => False end ->
    (forall a b, R a b -> req (f a) (g b)) -> req (bind x f) (bind y g).
  Proof. destruct x, y; simpl; intros E F; try contradiction; auto. Qed.

  (* the cell idx of the vector exists (N : nth_error l idx = Some e0, L : idx < length l): every bounds-checked
     access to that cell, in either program, wherever it stands and however many there are, is replaced by its value *)
  Ltac vec N L :=
    repeat (first [ rewrite N
                  | rewrite nth_error_upd_same by (rewrite ?upd_nth_length; exact L)
                  | rewrite upd_nth_length
                  | rewrite (proj2 (Nat.ltb_lt _ _) L)
                  | rewrite upd_nth_twice ];
            cbn [bind]; proj).

  (* ---- do_insert (the key is not in the index: the call site do_insert_update has just looked it up) ---- *)
  Lemma g_do_insert_ok (s : gst) k v :
    assoc k (l_index (rs_st s)) = None ->
    req (g_do_insert s k v)
        (do sr <- l_do_insert true (rs_st s) k v (rs_rng s); let '(l, g) := sr in Ok (W l g)).
  Proof.
    destruct s as [l g]. proj. intros A. unfold g_do_insert, l_do_insert. rewrite bind_assoc.
    apply (req_bind_rel _ _ _ (fun (a : gst) (b : rrl K V * list nat) =>
             (a = W (fst b) (snd b) /\ assoc k (l_index (fst b)) = None) \/
             (l_elems (rs_st a) = [] /\ l_elems (fst b) = []))).
    - (* the eviction, when the cache is full: split on the FACT size() <= m_open_list_end, then the generated
         condition reduces in any spelling *)
      unfold x_elems, x_end. proj.
      destruct (Nat.le_gt_cases (List.length (l_elems l)) (l_end l)) as [Full|NFull]; cmp_norm; [|left; auto].
      callee (g_do_prune_ok (W l g)). proj. unfold bind.
      destruct (g_do_prune (W l g)) as [s1|], (l_do_prune true l (hd 0 g)) as [l1|] eqn:P; intros Q; try contradiction; auto.
      subst s1. proj. cbv beta iota. destruct (Nat.ltb_spec 0 (l_end l)) as [Pos|Z].
      + left. split; auto. eapply l_do_prune_keeps_absent; eauto.
      + (* m_open_list_end = 0 = m_elements.size(): do_prune does nothing and draws nothing; the literal
           machine drops a draw all the same, but both then fail at m_elements[...] of an empty vector *)
        right. unfold l_do_prune in P. destruct (Nat.ltb_spec 0 (l_end l)); [lia|]. inversion P; subst l1. proj.
        assert (E : l_elems l = []) by (destruct (l_elems l); simpl in *; [auto|lia]). auto.
    - intros a [l1 g1] [[E A1]|[E1 E2]]; cbn [fst snd] in *; [subst a|]; unf; proj.
      + unfold vref, vget, vset, umap_emplace, index_emplace. rewrite ?A1.
        destruct (nth_error (l_open l1) (l_end l1)) as [idx|] eqn:No; [|simpl; auto]. cbn [bind].
        destruct (List.length (l_index l1) <? l_cap l1); [|simpl; auto]. cbn [bind]. proj.
        destruct (nth_error (l_elems l1) idx) as [e0|] eqn:N.
        2:{ apply nth_error_None in N. apply Nat.ltb_ge in N. rewrite ?N. simpl. auto. }
        assert (L : idx < List.length (l_elems l1)) by (apply nth_error_Some; congruence).
        cbn [bind]. vec N L. reflexivity.
      + destruct a as [l0 g0]. proj. rewrite E1, E2. unfold vref, vget, vset, umap_emplace, index_emplace.
        destruct (nth_error (l_open l0) (l_end l0)); [|simpl]; cbn [bind];
          destruct (nth_error (l_open l1) (l_end l1)); cbn [bind]; try (simpl; auto; fail).
        all: repeat match goal with
                    | |- context [nth_error [] ?n] => replace (nth_error (@nil (relem K V)) n) with (@None (relem K V)) by (destruct n; reflexivity)
                    end.
        all: unfold req, bind; crush.
        all: match goal with E : (_ <? Datatypes.length []) = true |- _ => simpl in E; discriminate E end.
  Qed.

  (* ---- do_update (the iterator handed in is the one find(key) has just returned) ---- *)
  Lemma g_do_update_ok (s : gst) k idx v :
    assoc k (l_index (rs_st s)) = Some idx ->
    req (g_do_update s (Some k) v) (do l <- l_do_update (rs_st s) idx v; Ok (W l (rs_rng s))).
  Proof.
    destruct s as [l g]. proj. intros A. unfold g_do_update, l_do_update, with_elems. lookup A. proj.
    unfold vref, vget, vset.
    destruct (nth_error (l_elems l) idx) as [e0|] eqn:N; [|simpl; auto].
    pose proof (nth_error_in _ _ _ _ N) as L. vec N L. reflexivity.
  Qed.

  (* ---- do_insert_update ---- *)
  Lemma g_do_insert_update_ok (s : gst) k v a :
    req (g_do_insert_update s k v a)
        (do x <- l_ins true (rs_st s) k v a (rs_rng s); let '(l, b, g) := x in Ok (W l g, b)).
  Proof.
    unfold g_do_insert_update, l_ins.
    destruct (assoc k (l_index (rs_st s))) as [idx|] eqn:A; lookup A.
    - callee (g_do_update_ok s k idx v A). destruct (a_upd a); cbn [negb]; [|destruct s; simpl; auto].
      unfold bind. crush; finish.
    - callee (g_do_insert_ok s k v A). destruct (a_ins a); cbn [negb]; [|destruct s; simpl; auto].
      unfold bind. crush; finish.
  Qed.

  (* ---- do_find ---- *)
  Lemma g_do_find_ok (s : gst) k : req (g_do_find s k) (do o <- l_find (rs_st s) k; Ok (s, o)).
  Proof.
    unfold g_do_find, l_find.
    destruct (assoc k (l_index (rs_st s))) as [idx|] eqn:A; lookup A; [|simpl; auto].
    unfold vref, vget. destruct (nth_error (l_elems (rs_st s)) idx) as [e0|] eqn:N; norm; simpl; auto.
  Qed.

  (* ---- erase(key) ---- *)
  Lemma g_erase_ok (s : gst) k :
    req (g_erase s k) (do x <- l_erase true (rs_st s) k; let '(l, b) := x in Ok (W l (rs_rng s), b)).
  Proof.
    unfold g_erase, l_erase.
    destruct (assoc k (l_index (rs_st s))) as [idx|] eqn:A; lookup A; [|destruct s; simpl; auto].
    callee (g_do_erase_ok s idx). unfold bind. crush; finish.
  Qed.

  (* ---- the range calls: the generated range-for loops against the literal recursions.  The literal
     recursions do not hand back the unused draws, so these lemmas compare the container part ---- *)
  Definition strip (l : list (Z * K * V)) : list (K * V) := map (fun x => (snd (fst x), snd x)) l.
  Definition drop_rng {A} (x : res (gst * A)) : res (rrl K V * A) :=
    do y <- x; let '(s, a) := y in Ok (rs_st s, a).

  Lemma g_insert_range_ok (s : gst) l a :
    req (drop_rng (g_insert_range s (strip l) a)) (l_ins_range true (rs_st s) l a (rs_rng s) 0).
  Proof.
    unfold g_insert_range, drop_rng.
    match goal with |- req (bind (bind (foldM ?F _ _) _) _) _ =>
      assert (G : forall l s n, req (do y <- foldM F (strip l) (s, n); let '(s', n') := y in Ok (rs_st s', n'))
                                    (l_ins_range true (rs_st s) l a (rs_rng s) n)) end.
    { clear. induction l as [|[[z k] v] r IH]; intros s n; simpl; auto.
      callee (g_do_insert_update_ok s k v a). unfold bind at 2 3 4 5 6.
      destruct (g_do_insert_update s k v a) as [[s1 b]|], (l_ins true (rs_st s) k v a (rs_rng s)) as [[[l2 b2] g2]|];
        intros P; try contradiction; auto.
      inversion P; subst. destruct b2; cbn [bind]; apply (IH (W l2 g2)). }
    specialize (G l s 0). revert G.
    destruct (foldM _ _ _) as [[s' n']|]; cbn [bind]; auto.
  Qed.

  Lemma g_erase_range_ok (s : gst) l : req (drop_rng (g_erase_range s l)) (l_erase_range true (rs_st s) l 0).
  Proof.
    unfold g_erase_range, drop_rng.
    match goal with |- req (bind (bind (foldM ?F _ _) _) _) _ =>
      assert (G : forall l s n, req (do y <- foldM F l (s, n); let '(s', n') := y in Ok (rs_st s', n'))
                                    (l_erase_range true (rs_st s) l n)) end.
    { clear. induction l as [|k r IH]; intros s n; simpl; auto.
      unfold l_erase.
      destruct (assoc k (l_index (rs_st s))) as [idx|] eqn:A; lookup A; [|apply IH].
      callee (g_do_erase_ok s idx).
      destruct (g_do_erase s idx) as [s1|], (l_do_erase true (rs_st s) idx) as [l2|]; simpl; intros P; try contradiction; auto.
      subst. apply (IH (W l2 (rs_rng s))). }
    specialize (G l s 0). revert G.
    destruct (foldM _ _ _) as [[s' n']|]; cbn [bind]; auto.
  Qed.

  Lemma g_find_range_loop F :
    (forall s acc k, F (s, acc) k = (do x <- g_do_find s k; let '(s1, r) := x in Ok (s1, acc ++ [(k, r)]))) ->
    forall l (s : gst) (acc : list (K * option V)),
      req (foldM F l (s, acc)) (do os <- l_find_range (rs_st s) l; Ok (s, acc ++ os)).
  Proof.
    intros HF. induction l as [|k r IH]; intros s acc; simpl.
    - rewrite app_nil_r. auto.
    - rewrite HF. callee (g_do_find_ok s k). unfold bind at 1 2 4 5.
      destruct (g_do_find s k) as [[s1 o]|], (l_find (rs_st s) k) as [o2|]; intros P; try contradiction; auto.
      inversion P; subst. eapply req_trans; [apply IH|]. unfold bind.
      destruct (l_find_range (rs_st s) r) as [os|]; simpl; auto. rewrite <- app_assoc. reflexivity.
  Qed.

  Lemma g_find_range_ok (s : gst) l : req (g_find_range s l) (do os <- l_find_range (rs_st s) l; Ok (s, os)).
  Proof.
    unfold g_find_range.
    match goal with |- req (bind (foldM ?F _ _) _) _ => pose proof (g_find_range_loop F) as G end.
    specialize (G (fun s acc k => eq_refl) l s []). revert G.
    destruct (foldM _ _ _) as [[s' n']|]; cbn [bind]; destruct (l_find_range (rs_st s) l) as [os|]; simpl; auto.
  Qed.

  Lemma g_find_fill_loop F :
    (forall s acc k ov, F (s, acc) (k, ov) = (do x <- g_do_find s k; let '(s1, r) := x in Ok (s1, acc ++ [(k, r)]))) ->
    forall (l : list (K * option V)) (s : gst) (acc : list (K * option V)),
      req (foldM F l (s, acc)) (do os <- l_find_range (rs_st s) (map fst l); Ok (s, acc ++ os)).
  Proof.
    intros HF. induction l as [|[k ov] r IH]; intros s acc; simpl.
    - rewrite app_nil_r. auto.
    - rewrite HF. callee (g_do_find_ok s k). unfold bind at 1 2 4 5.
      destruct (g_do_find s k) as [[s1 o]|], (l_find (rs_st s) k) as [o2|]; intros P; try contradiction; auto.
      inversion P; subst. eapply req_trans; [apply IH|]. unfold bind.
      destruct (l_find_range (rs_st s) (map fst r)) as [os|]; simpl; auto. rewrite <- app_assoc. reflexivity.
  Qed.

  Lemma g_find_range_fill_ok (s : gst) (l : list (K * option V)) :
    req (g_find_range_fill s l) (do os <- l_find_range (rs_st s) (map fst l); Ok (s, os)).
  Proof.
    unfold g_find_range_fill.
    match goal with |- req (bind (foldM ?F _ _) _) _ => pose proof (g_find_fill_loop F) as G end.
    specialize (G (fun s acc k ov => eq_refl) l s []). revert G.
    destruct (foldM _ _ _) as [[s' n']|]; cbn [bind]; destruct (l_find_range (rs_st s) (map fst l)) as [os|]; simpl; auto.
  Qed.

  (* ---- one public call of the generated program.  The glue from the operation alphabet to the
     generated methods: the draws of the event are what the engine m_mt hands out during the call
     (l_step passes them as an argument); what is left of them when the call returns is dropped,
     as l_step does ---- *)
  Definition g_step (l : rrl K V) (e : ev K V) : res (rrl K V * ret K V) :=
    let s := W l (e_rnd e) in
    match e_op e with
    | Insert _ k v a => do x <- g_insert s k v a; let '(s1, b) := x in Ok (rs_st s1, RB b)
    | InsertRange l a => do x <- g_insert_range s (strip l) a; let '(s1, n) := x in Ok (rs_st s1, RN n)
    | Erase k => do x <- g_erase s k; let '(s1, b) := x in Ok (rs_st s1, RB b)
    | EraseRange l => do x <- g_erase_range s l; let '(s1, n) := x in Ok (rs_st s1, RN n)
    | Find k _ => do x <- g_find s k; let '(s1, r) := x in Ok (rs_st s1, RO r)
    | FindRange l _ => do x <- g_find_range s l; let '(s1, r) := x in Ok (rs_st s1, RL r)
    | FindRangeFill l _ => do x <- g_find_range_fill s (map (fun k => (k, None)) l); let '(s1, r) := x in Ok (rs_st s1, RL r)
    | Size => do x <- g_size s; let '(s1, n) := x in Ok (rs_st s1, RN n)
    | Empty => do x <- g_empty s; let '(s1, b) := x in Ok (rs_st s1, RB b)
    | Capacity => do x <- g_capacity s; let '(s1, n) := x in Ok (rs_st s1, RN n)
    | _ => Ok (l, RUnsupported)
    end.

  Lemma map_fst_fill (l : list K) : map fst (map (fun k => (k, @None V)) l) = l.
  Proof. induction l; simpl; congruence. Qed.

  Theorem g_step_ok (l : rrl K V) (e : ev K V) :
    req (g_step l e) (l_step true l (e_op e) (e_now e) (e_rnd e)).
  Proof.
    unfold g_step, l_step. destruct (e_op e); try (simpl; auto; fail).
    - unfold g_insert. callee (g_do_insert_update_ok (W l (e_rnd e)) k v a). proj. unfold bind. crush; finish.
    - callee (g_insert_range_ok (W l (e_rnd e)) l0 a). unfold drop_rng. proj. unfold bind. crush; finish.
    - callee (g_erase_ok (W l (e_rnd e)) k). proj. unfold bind. crush; finish.
    - callee (g_erase_range_ok (W l (e_rnd e)) l0). unfold drop_rng. proj. unfold bind. crush; finish.
    - unfold g_find. callee (g_do_find_ok (W l (e_rnd e)) k). proj. unfold bind. crush; finish.
    - callee (g_find_range_ok (W l (e_rnd e)) l0). proj. unfold bind. crush; finish.
    - callee (g_find_range_fill_ok (W l (e_rnd e)) (map (fun k => (k, None)) l0)). rewrite map_fst_fill. proj. unfold bind. crush; finish.
  Qed.

  (* ---- the theorem the tie delivers: the program text that is in rr_cache.hpp NOW, run on any
     history of public calls from a fresh cache, every draw of the random source being below the
     capacity, never reaches undefined behaviour and returns exactly the results of the mid-level
     model Rr.v ---- *)
  Lemma l_run_is_run_res : forall h (l : rrl K V),
      l_run l h = run_res (fun l e => l_step true l (e_op e) (e_now e) (e_rnd e)) l h.
  Proof.
    induction h as [|e r IH]; intros l; simpl; auto.
    destruct (l_step true l (e_op e) (e_now e) (e_rnd e)) as [[l1 y]|]; simpl; auto. rewrite IH. reflexivity.
  Qed.

  Theorem generated_rr_no_UB_on_any_history : forall cap (h : list (ev K V)),
      1 <= cap -> Forall (fun e => rnd_in_range cap (e_rnd e)) h ->
      exists l', run_res g_step (rrl_init cap) h = Ok (l', snd (run rr_step (rr_init cap) h)) /\
                 rep l' (fst (run rr_step (rr_init cap) h)).
  Proof.
    intros cap h Hc F.
    destruct (no_UB_on_any_history cap h Hc F) as (l' & D & R).
    exists l'. split; auto.
    pose proof (run_res_req g_step (fun l e => l_step true l (e_op e) (e_now e) (e_rnd e)) (fun _ => True)
                  (fun s e _ => g_step_ok s e) h (rrl_init cap)) as Q.
    rewrite <- l_run_is_run_res, D in Q. apply req_ok. apply Q. clear. induction h; constructor; auto.
  Qed.

  (* ---- the constructor, translated (member initialisers + body): it builds the literal machine's initial state,
     so the whole-history theorem starts from what the source constructs ---- *)
  Lemma g_init_ok (cap : nat) : (g_init cap : rrl K V) = rrl_init cap.
  Proof. reflexivity. Qed.
  Theorem generated_rr_constructed_no_UB_on_any_history : forall cap (h : list (ev K V)),
      1 <= cap -> Forall (fun e => rnd_in_range cap (e_rnd e)) h ->
      exists l', run_res g_step (g_init cap) h = Ok (l', snd (run rr_step (rr_init cap) h)) /\
                 rep l' (fst (run rr_step (rr_init cap) h)).
  Proof. intros cap h Hc F. rewrite g_init_ok. apply generated_rr_no_UB_on_any_history; auto. Qed.

  (* ---- C06 on the translated program: in every execution of the lock-level machine (Conc.v, Section Lin: invoke,
     acquire, body = one call of the generated program, release, return) every call returns what the mid-level
     model returns when it runs the calls in the order of their critical sections ---- *)
  Theorem generated_rr_lock_level_executions_return_model_results : forall cap ex st,
      1 <= cap ->
      mexec _ _ _ (tstep g_step RUnsupported) (minit _ _ _ (g_init cap)) ex st ->
      let l := lin _ _ _ (tstep g_step RUnsupported) (g_init cap) (fun _ => None) ex in
      (fun h => Forall (fun e => rnd_in_range cap (e_rnd e)) h) (map (fun c => snd (fst c)) l) ->
      map snd l = (fun h => snd (run rr_step (rr_init cap) h)) (map (fun c => snd (fst c)) l).
  Proof.
    intros cap ex st Hc Hex.
    refine (executions_have_the_results_of_the_model g_step RUnsupported (fun h => Forall (fun e => rnd_in_range cap (e_rnd e)) h) (fun h => snd (run rr_step (rr_init cap) h)) (g_init cap) _ ex st Hex).
    intros h HP. destruct (generated_rr_constructed_no_UB_on_any_history cap h Hc HP) as (l' & D & _). eauto.
  Qed.
End RrBridge.

Print Assumptions generated_rr_no_UB_on_any_history.
Print Assumptions generated_rr_constructed_no_UB_on_any_history.
Print Assumptions generated_rr_lock_level_executions_return_model_results.
