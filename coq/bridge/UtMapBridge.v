(* UtMapBridge.v — the functions cpp2coq.py (+ cpp2coq_utmap.py) generates from the CURRENT ut_map.hpp
   (CappGen.GenUtMap) compute what the hand-written literal machine UmLit.v computes, up to the reason
   given for undefined behaviour.  Compiled on every run against the freshly generated GenUtMap.v: a
   change of the source that changes the meaning of a translated method breaks a lemma here.

   Three lemmas hold only on well-formed states (wfl below: the part of the literal machine's own
   representation relation ul_rep that speaks about m_ttl_list and its nodes); see the comments at
   g_do_prune_ok, g_do_erase_ok and g_clear_ok.  The whole-history theorem has no such hypothesis: the
   representation relation holds along every run (UmLitFacts.v). *)
Require Import Capp.Base Capp.Spec Capp.UtMap Capp.UtMapFacts Capp.RrLit Capp.LruLit Capp.UmLit Capp.UmLitFacts
               Capp.GenPrims Capp.Conc Capp.GenConc CappGen.GenUtMap.
From Coq Require Import Strings.String Lia.

(* ---- facts about the formal std::list / association lists the proofs below need ---- *)
Section ListFacts.
  Local Open Scope list_scope.
  Local Open Scope nat_scope.

  Lemma iter_eqb_refl i : iter_eqb i i = true.
  Proof. destruct i; simpl; auto. apply Nat.eqb_refl. Qed.

  Lemma mem_nat_app n a b : mem_nat n (a ++ b) = mem_nat n a || mem_nat n b.
  Proof. induction a; simpl; auto. rewrite IHa. apply orb_assoc. Qed.

  Lemma mem_nat_mid n a b : mem_nat n (a ++ n :: b) = true.
  Proof. rewrite mem_nat_app. simpl. rewrite Nat.eqb_refl. simpl. apply orb_true_r. Qed.

  Lemma mem_nat_false n l : mem_nat n l = false <-> ~ In n l.
  Proof.
    split.
    - intros E I. apply u_mem_nat_In in I. congruence.
    - intros N. destruct (mem_nat n l) eqn:E; auto. exfalso. apply N. apply u_mem_nat_In. auto.
  Qed.

  Lemma after_mid n a b : ~ In n a -> after n (a ++ n :: b) = l_begin b.
  Proof.
    induction a as [|x a IH]; simpl; intros N.
    - rewrite Nat.eqb_refl. auto.
    - destruct (Nat.eqb_spec n x); [subst; tauto|]. apply IH. tauto.
  Qed.

  Lemma l_prev_It l i j : l_prev l i = Ok j -> exists n, j = It n.
  Proof.
    unfold l_prev. destruct (valid_it l i); [|discriminate].
    destruct (iter_eqb i (l_begin l)); [discriminate|].
    destruct (before i l); [|discriminate]. intros E; inversion E; eauto.
  Qed.

  Lemma split_at_End l : split_at End l = Some (l, []).
  Proof. induction l; simpl; auto. rewrite IHl. auto. Qed.

  Lemma split_at_begin l : split_at (l_begin l) l = Some ([], l).
  Proof. destruct l; simpl; auto. rewrite Nat.eqb_refl. auto. Qed.

  (* the begin of a suffix whose head does not occur before it *)
  Lemma split_at_suffix a b : NoDup (a ++ b) -> split_at (l_begin b) (a ++ b) = Some (a, b).
  Proof.
    induction a as [|x a IH]; simpl; intros ND.
    - apply split_at_begin.
    - inversion ND as [|y ys NI ND']; subst.
      assert (E : iter_eqb (l_begin b) (It x) = false).
      { destruct b as [|z b]; simpl; auto. apply Nat.eqb_neq. intros ->. apply NI. apply in_or_app. right. left. auto. }
      rewrite E, (IH ND'). auto.
  Qed.

  Lemma begin_suffix_neq x a b : NoDup (x :: a ++ b) -> iter_eqb (l_begin b) (It x) = false.
  Proof.
    intros ND. inversion ND as [|y ys NI ND']; subst.
    destruct b as [|z b]; simpl; auto. apply Nat.eqb_neq. intros ->. apply NI. apply in_or_app. right. left. auto.
  Qed.

  Lemma iter_eqb_sym i j : iter_eqb i j = iter_eqb j i.
  Proof. destruct i, j; simpl; auto. apply Nat.eqb_sym. Qed.

  (* m_ttl_list.erase(begin(), it) where [it] is the begin of the suffix l' of the list: the prefix is destroyed,
     the suffix stays — also when the prefix is empty (it = begin(): erasing the empty range is the identity) *)
  Lemma erase_prefix mid l' : NoDup (mid ++ l') ->
    l_erase_nodes (mid ++ l') (l_begin (mid ++ l')) (l_begin l') = Ok (l', mid).
  Proof.
    intros ND. unfold l_erase_nodes. rewrite split_at_begin, (split_at_suffix mid l' ND). reflexivity.
  Qed.

  Lemma drop_nodes_nil {T} (nodes : list (nat * T)) : drop_nodes [] nodes = nodes.
  Proof. unfold drop_nodes. induction nodes as [|p r IH]; simpl; auto. f_equal. exact IH. Qed.
End ListFacts.

Section AssocFacts2.
  Context {K : Type} `{EqDec K} {A : Type}.
  Local Open Scope list_scope.

  Lemma setk_setk (k : K) (a b : A) l : setk k b (setk k a l) = setk k b l.
  Proof.
    induction l as [|[k' a'] r IH]; simpl; auto.
    destruct (Base.eqb k k') eqn:E; simpl; rewrite E; auto. rewrite IH. auto.
  Qed.

  Lemma setk_snoc (k : K) (a b : A) l : assoc k l = None -> setk k b (l ++ [(k, a)]) = l ++ [(k, b)].
  Proof.
    induction l as [|[k' a'] r IH]; simpl; intros N.
    - rewrite eqb_rfl. auto.
    - destruct (Base.eqb k k'); [discriminate|]. rewrite IH; auto.
  Qed.

  Lemma assoc_snoc (k : K) (a : A) l : assoc k l = None -> assoc k (l ++ [(k, a)]) = Some a.
  Proof. intros N. rewrite assoc_app, N. simpl. rewrite eqb_rfl. auto. Qed.

  (* writing to a mapped object the value it has *)
  Lemma setk_same (k : K) (a : A) l : assoc k l = Some a -> setk k a l = l.
  Proof.
    induction l as [|[k' a'] r IH]; simpl; auto.
    destruct (Base.eqb k k') eqn:E; intros Q.
    - inversion Q; subst. destruct (Base.eqb_spec k k'); [subst; reflexivity | discriminate].
    - rewrite IH; auto.
  Qed.
End AssocFacts2.

Section UtMapBridge.
  Context {K V : Type} `{EqDec K}.
  Local Open Scope list_scope.
  Local Open Scope nat_scope.

  (* case analysis on an innermost scrutinee of the goal *)
  Ltac inner :=
    match goal with
    | |- context [match ?x with _ => _ end] =>
        lazymatch x with
        | context [match _ with _ => _ end] => fail
        | _ => let E := fresh "E" in destruct x eqn:E; cbn [bind req negb andb orb fst snd] in *
        end
    end.
  Ltac proj := cbn [ul_ttl ul_map ul_list ul_nodes ul_next set_ul_ttl set_ul_map set_ul_list set_ul_nodes set_ul_next
                    tn_expire tn_keyed set_tn_expire set_tn_keyed] in *.
  Ltac clean :=
    repeat match goal with
           | H : ?x = ?x |- _ => clear H
           | H : Some _ = Some _ |- _ => injection H as H; try subst
           | H : Ok _ = Ok _ |- _ => injection H as H; try subst
           | H : (_, _) = (_, _) |- _ => injection H; intros; try subst; clear H
           | H : Some _ = None |- _ => discriminate H
           | H : None = Some _ |- _ => discriminate H
           | H : Ok _ = UB _ |- _ => discriminate H
           | H : UB _ = Ok _ |- _ => discriminate H
           | H : true = false |- _ => discriminate H
           | H : false = true |- _ => discriminate H
           end.
  Ltac crush := repeat (proj; inner; clean); proj; simpl; try congruence; auto.
  Ltac callee L := let P := fresh "P" in pose proof L as P; unfold req in P; revert P.
  Ltac finish := intros; clean; subst; try contradiction; try congruence; auto.

  (* the well-formedness of m_ttl_list and its nodes that three lemmas below need; it is part of ul_rep *)
  Definition wfl (s : uml K V) : Prop :=
    NoDup (ul_list s) /\ (forall n, In n (ul_list s) <-> In n (keys (ul_nodes s))) /\
    List.length (ul_map s) = List.length (ul_list s).

  Lemma ul_rep_wfl l s : ul_rep l s -> wfl l.
  Proof. intros (_ & ND & _ & _ & Hiff & _ & Hlen & _). repeat split; auto; apply Hiff. Qed.

  Lemma rep2_wfl l s : rep2 l s -> wfl l.
  Proof. intros R. eapply ul_rep_wfl. apply rep2_ul_rep. exact R. Qed.

  (* case analysis on the SEMANTIC scrutinee of `it = m_keyed_elements.find(k); if (it != end()) ...`: whether k is
     in the map.  After it every comparison of the iterator with end() computes — whichever way round the source
     writes it (it != end(), end() != it, !(it == end()), an early return on it == end(), the comparison
     returned as a value, a named local for it or none) — and so does the literal machine's match on assoc. *)
  Ltac key_cases k m A :=
    cbv zeta; unfold mit_find; destruct (assoc k m) eqn:A;
    cbn [mit_eqb negb andb orb]; cbv zeta.

  (* ---- do_find ---- *)
  Lemma g_do_find_ok (s : uml K V) k : g_do_find s k = Ok (s, ul_find s k).
  Proof.
    unfold g_do_find, ul_find, map_ref, map_get. key_cases k (ul_map s) A; [|reflexivity].
    repeat (cbn [bind fst snd]; rewrite ?A). match goal with |- context [match ?p with (_, _) => _ end] => destruct p end. reflexivity.
  Qed.

  (* ---- do_erase: the source erases the list node without reading its element; the literal machine looks
     the element up (node_of) and reports "list node without element".  They differ (defined vs UB) only on
     states with a list node that has no element, which wfl excludes. ---- *)
  Lemma g_do_erase_ok (s : uml K V) k :
    (forall n, In n (ul_list s) -> assoc n (ul_nodes s) <> None) ->
    req (g_do_erase s (Some k)) (ul_do_erase s k).
  Proof.
    intros Hn. unfold g_do_erase, ul_do_erase, map_ref, map_get, map_erase_it, node_of, it_load, l_erase_node.
    destruct (assoc k (ul_map s)) as [[v [n|]]|] eqn:A; cbn [bind fst snd req]; try rewrite A; cbn [bind fst snd req]; auto.
    destruct (mem_nat n (ul_list s)) eqn:M; cbn [bind req]; auto.
    apply u_mem_nat_In in M. specialize (Hn n M).
    destruct (assoc n (ul_nodes s)); [|congruence]. proj. rewrite A. cbn [bind req]. reflexivity.
  Qed.

  (* ---- do_update: case analysis on the SEMANTIC scrutinees (the map entry of k, its stored list iterator, whether
     that node is in the list and has an element); then both sides compute.  After the same-list splice to end()
     the spliced node is the last one (u_splice_end), so re-reading std::prev(end()) and storing it in
     m_ttl_position (u_prev_end_snoc; the literal machine does it) and leaving m_ttl_position alone are the same
     state: the iterator still refers to the moved node. ---- *)
  Ltac look :=
    repeat first [ progress proj
                 | progress cbn [bind fst snd req it_store]
                 | rewrite u_assoc_setk_same
                 | rewrite u_prev_end_snoc
                 | match goal with
                   | H : assoc _ _ = _ |- _ => rewrite H
                   | H : mem_nat _ _ = _ |- _ => rewrite H
                   | H : l_splice _ _ _ = _ |- _ => rewrite H
                   end ].

  Lemma g_do_update_ok (s : uml K V) k v ex : req (g_do_update s (Some k) v ex) (ul_do_update s k v ex).
  Proof.
    unfold g_do_update, ul_do_update, map_ref, map_get, node_of, it_load, node_get, l_deref.
    destruct (assoc k (ul_map s)) as [[v0 [n|]]|] eqn:A; look; auto.
    destruct (mem_nat n (ul_list s)) eqn:M; look; auto.
    destruct (assoc n (ul_nodes s)) as [t|] eqn:N; look; auto.
    pose proof (u_splice_end (ul_list s) n (proj1 (u_mem_nat_In _ _) M)) as S. look.
    rewrite ?setk_setk, ?(setk_same k _ _ A). reflexivity.
  Qed.

  (* ---- do_insert: only for a key that is not in the map (do_insert_update calls it on that branch only) ---- *)
  Lemma g_do_insert_ok (s : uml K V) k v ex :
    assoc k (ul_map s) = None -> req (g_do_insert s k v ex) (ul_do_insert s k v ex).
  Proof.
    intros A. unfold g_do_insert, ul_do_insert, map_emplace, mit_key, map_ref, map_get. rewrite A. cbn [bind]. proj.
    rewrite ?u_prev_end_snoc. cbn [bind it_store]. repeat (rewrite (assoc_snoc k (v, None) _ A); cbn [bind fst snd req]).
    rewrite (setk_snoc k _ _ _ A). reflexivity.
  Qed.

  Lemma g_do_insert_update_ok (s : uml K V) k v ex a : req (g_do_insert_update s k v ex a) (ul_ins s k v a ex).
  Proof.
    unfold g_do_insert_update, ul_ins. key_cases k (ul_map s) A.
    - destruct (a_upd a); cbn [negb]; [|simpl; auto].
      callee (g_do_update_ok s k v ex). unfold bind. crush; finish.
    - destruct (a_ins a); cbn [negb]; [|simpl; auto].
      callee (g_do_insert_ok s k v ex A). unfold bind. crush; finish.
  Qed.
  (* ---- do_prune: the for loop against ul_prune_walk, then the range erase.
     Needs wfl: (a) ++ttl_iter reaches the next node because no node identity occurs twice in the list;
     (b) the source destroys the nodes of [begin, ttl_iter) (drop_nodes), the literal machine keeps the nodes
     that are still in the list (filter): the same store when every stored node is in the list, once. ---- *)
  Lemma nodup_app_disj {A} (a b : list A) x : NoDup (a ++ b) -> In x a -> In x b -> False.
  Proof.
    induction a as [|y a IH]; simpl; intros ND Ia Ib; [tauto|].
    inversion ND as [|z zs NI ND']; subst. destruct Ia as [->|Ia]; [|eauto].
    apply NI. apply in_or_app. auto.
  Qed.

  Lemma keep_all {T} (nodes : list (nat * T)) l :
    (forall n, In n (keys nodes) -> In n l) -> filter (fun p => mem_nat (fst p) l) nodes = nodes.
  Proof.
    intros Hs. induction nodes as [|[n t] r IH]; simpl; auto.
    rewrite (proj2 (u_mem_nat_In n l)) by (apply Hs; left; auto).
    rewrite IH; auto. intros m I. apply Hs. right. auto.
  Qed.

  Lemma drop_is_keep {T} (nodes : list (nat * T)) mid l' :
    NoDup (mid ++ l') -> (forall n, In n (keys nodes) -> In n (mid ++ l')) ->
    drop_nodes mid nodes = filter (fun p => mem_nat (fst p) l') nodes.
  Proof.
    intros ND Hs. unfold drop_nodes. apply filter_ext_in. intros [n t] I. simpl.
    assert (J : In n (mid ++ l')) by (apply Hs; apply (in_map fst) in I; exact I).
    destruct (mem_nat n mid) eqn:M1, (mem_nat n l') eqn:M2; simpl; auto.
    - apply u_mem_nat_In in M1, M2. exfalso. eapply nodup_app_disj; eauto.
    - apply mem_nat_false in M1, M2. apply in_app_or in J. tauto.
  Qed.

  Ltac stp st L nodes :=
    repeat match goal with
           | |- context [ul_list (st ?a)] => change (ul_list (st a)) with L
           | |- context [ul_nodes (st ?a)] => change (ul_nodes (st a)) with nodes
           | |- context [ul_map (st ?a)] => change (ul_map (st a)) with a
           | |- context [set_ul_map (st ?a) ?b] => change (set_ul_map (st a) b) with (st b)
           end.

  Lemma g_do_prune_ok (s : uml K V) now : wfl s -> req (g_do_prune s now) (ul_do_prune s now).
  Proof.
    intros (ND & Hiff & _). unfold g_do_prune, ul_do_prune.
    destruct s as [ttl m0 L nodes nx]. proj.
    match goal with |- context [whileB _ ?C ?F _] => set (C0 := C); set (F0 := F) end.
    set (st := fun m => ({| ul_ttl := ttl; ul_map := m; ul_list := L; ul_nodes := nodes; ul_next := nx |} : uml K V)).
    assert (G : forall rest pre m c fuel, L = pre ++ rest -> List.length rest < fuel ->
       match ul_prune_walk (st m0) rest m now c with
       | Ok (l', m', c') => exists mid, rest = mid ++ l' /\
                              whileB fuel C0 F0 (st m, c, l_begin rest) = Ok (st m', c', l_begin l')
       | UB _ => exists w, whileB fuel C0 F0 (st m, c, l_begin rest) = UB w
       end).
    { induction rest as [|x r IH]; intros pre m c fuel EL LF; (destruct fuel as [|fuel]; [simpl in LF; lia|]).
      - exists []. split; auto.
      - cbn [ul_prune_walk]. unfold st at 1. proj.
        assert (Mx : mem_nat x L = true) by (rewrite EL; apply mem_nat_mid).
        destruct (assoc x nodes) as [t|] eqn:N.
        2:{ eexists. cbn [whileB]. unfold C0 at 1. cbn [l_begin iter_eqb negb l_deref bind]. stp st L nodes.
            rewrite Mx. cbn [bind]. unfold node_get. rewrite N. reflexivity. }
        destruct (tn_expire t <=? now)%Z eqn:Ex.
        2:{ exists []. split; auto. cbn [whileB]. unfold C0 at 1. cbn [l_begin iter_eqb negb l_deref bind]. stp st L nodes.
            rewrite Mx. cbn [bind]. unfold node_get. rewrite N. cbn [bind]. rewrite Ex. reflexivity. }
        unfold map_erase. destruct (assoc (tn_keyed t) m) as [e|] eqn:Am; cbn [bind].
        2:{ eexists. cbn [whileB]. unfold C0 at 1. cbn [l_begin iter_eqb negb l_deref bind]. stp st L nodes.
            rewrite Mx. cbn [bind]. unfold node_get. rewrite N. cbn [bind]. rewrite Ex. cbn [bind].
            unfold F0 at 1. cbn [l_deref bind]. stp st L nodes. rewrite Mx. cbn [bind]. unfold node_get. rewrite N. cbn [bind].
            unfold map_erase_it. rewrite Am. reflexivity. }
        assert (NI : ~ In x pre).
        { intros I. rewrite EL in ND. eapply nodup_app_disj; [exact ND | exact I | left; auto]. }
        assert (E1 : whileB (S fuel) C0 F0 (st m, c, l_begin (x :: r))
                     = whileB fuel C0 F0 (st (remk (tn_keyed t) m), S c, l_begin r)).
        { cbn [whileB]. unfold C0 at 1. cbn [l_begin iter_eqb negb l_deref bind]. stp st L nodes.
          rewrite Mx. cbn [bind]. unfold node_get. rewrite N. cbn [bind]. rewrite Ex. cbn [bind].
          unfold F0 at 1. cbn [l_deref bind]. stp st L nodes. rewrite Mx. cbn [bind]. unfold node_get. rewrite N. cbn [bind].
          unfold map_erase_it. rewrite Am. cbn [bind]. stp st L nodes. unfold l_next. rewrite Mx. cbn [bind].
          rewrite EL at 1. rewrite (after_mid x pre r NI). reflexivity. }
        rewrite E1.
        specialize (IH (pre ++ [x]) (remk (tn_keyed t) m) (S c) fuel).
        rewrite <- app_assoc in IH. specialize (IH EL). simpl in LF. specialize (IH ltac:(lia)).
        destruct (ul_prune_walk (st m0) r (remk (tn_keyed t) m) now (S c)) as [[[l' m'] c']|w]; auto.
        destruct IH as (mid & Er & Ew). exists (x :: mid). split; [simpl; congruence | exact Ew]. }
    specialize (G L [] m0 0 (S (List.length L)) eq_refl ltac:(lia)).
    fold (st m0). change (ul_nodes (st m0)) with nodes.
    destruct (ul_prune_walk (st m0) L m0 now 0) as [[[l' m'] c']|w].
    2:{ destruct G as [w' ->]. simpl. auto. }
    destruct G as (mid & EL & ->). cbn [bind]. proj. subst L. unfold st. proj.
    assert (Hs : forall n, In n (keys nodes) -> In n (mid ++ l')) by (intros n I; apply Hiff; exact I).
    (* m_ttl_list.erase(ttl_begin, ttl_iter) — guarded by ttl_iter != ttl_begin or not: erasing the empty range
       is the identity (erase_prefix, drop_nodes_nil) *)
    pose proof (erase_prefix mid l' ND) as EP. pose proof (drop_is_keep nodes mid l' ND Hs) as DK.
    destruct mid as [|y mid]; cbn [app l_begin] in *.
    - pose proof (keep_all nodes l' Hs) as KA.
      rewrite ?iter_eqb_refl. cbn [negb bind]. rewrite ?EP. cbn [bind]. proj.
      rewrite ?drop_nodes_nil, ?KA. reflexivity.
    - pose proof (begin_suffix_neq y mid l' ND) as E1. pose proof E1 as E2. rewrite iter_eqb_sym in E2.
      rewrite ?E1, ?E2. cbn [negb bind]. rewrite EP. cbn [bind]. proj. rewrite DK. reflexivity.
  Qed.
  (* ---- the public methods.  Each starts with do_prune(now); [good] (the literal machine's representation
     relation with some mid-level state) is what UmLitFacts.v preserves along the calls, and gives wfl. ---- *)
  Definition good (l : uml K V) : Prop := exists s, rep2 l s.

  Lemma good_wfl l : good l -> wfl l.
  Proof. intros [s R]. eapply rep2_wfl; eauto. Qed.

  Lemma good_nodes l : good l -> forall n, In n (ul_list l) -> assoc n (ul_nodes l) <> None.
  Proof. intros G n I. destruct (good_wfl l G) as (_ & Hiff & _). apply assoc_keys. apply Hiff. exact I. Qed.

  Lemma good_prune l now l1 n : good l -> ul_do_prune l now = Ok (l1, n) -> good l1.
  Proof.
    intros [s R] E. destruct (ul_do_prune_rep2 l s now R) as (l0 & E0 & R0 & _).
    rewrite E0 in E. inversion E; subst. eexists; eauto.
  Qed.

  Lemma good_erase l k l1 b : good l -> ul_erase l k = Ok (l1, b) -> good l1.
  Proof.
    intros [s R] E. destruct (ul_erase_rep2 l s k R) as (l0 & E0 & R0).
    rewrite E0 in E. inversion E; subst. eexists; eauto.
  Qed.

  (* do_prune(now) first: both sides fail, or both continue from the same pruned (good) state *)
  Ltac prune_first s now G :=
    let P := fresh "P" in let s1 := fresh "s1" in let n := fresh "n" in let G1 := fresh "G1" in let L1 := fresh "L1" in
    pose proof (g_do_prune_ok s now (good_wfl s G)) as P; unfold req in P;
    destruct (g_do_prune s now) as [[s1 n]|] eqn:G1; destruct (ul_do_prune s now) as [[? ?]|] eqn:L1;
    try contradiction; [|simpl; exact I];
    symmetry in P; inversion P; subst; clear P; cbn [bind fst snd];
    pose proof (good_prune s now _ _ G L1).

  Lemma g_insert_ok (s : uml K V) now k v a : good s ->
    req (g_insert now s k v a) (do p <- ul_do_prune s now; ul_ins (fst p) k v a (now + ms (ul_ttl s))%Z).
  Proof.
    intros G. unfold g_insert. prune_first s now G.
    callee (g_do_insert_update_ok s1 k v (now + ms (ul_ttl s))%Z a). unfold bind. crush; finish.
  Qed.

  Definition strip (l : list (Z * K * V)) : list (K * V) := map (fun x => (snd (fst x), snd x)) l.

  Lemma g_insert_range_ok (s : uml K V) now l a : good s ->
    req (g_insert_range now s (strip l) a) (do p <- ul_do_prune s now; ul_ins_range (fst p) l a (now + ms (ul_ttl s))%Z 0).
  Proof.
    intros G. unfold g_insert_range. set (ex := (now + ms (ul_ttl s))%Z). prune_first s now G.
    match goal with |- req (bind (foldM ?F _ _) _) _ => set (F0 := F) end.
    assert (Q : forall l t n, req (foldM F0 (strip l) (t, n)) (ul_ins_range t l a ex n)).
    { clear. induction l as [|[[z k] v] r IH]; intros t n; cbn [strip map foldM ul_ins_range fst snd]; [reflexivity|].
      fold (strip r). unfold F0 at 1. cbv beta iota zeta.
      callee (g_do_insert_update_ok t k v ex a).
      destruct (g_do_insert_update t k v ex a) as [[t1 b]|], (ul_ins t k v a ex) as [[t2 b2]|]; cbn [bind]; intros P; try contradiction; auto.
      inversion P; subst. destruct b2; cbn [bind]; rewrite ?Nat.add_1_r, ?Nat.add_0_r; apply IH. }
    specialize (Q l s1 0). revert Q.
    destruct (foldM _ _ _) as [[s' n']|]; cbn [bind]; auto.
  Qed.

  (* the two facts about one erase the proofs below use; neither mentions the shape of the generated `if` *)
  Lemma ul_erase_absent (s : uml K V) k : assoc k (ul_map s) = None -> ul_erase s k = Ok (s, false).
  Proof. intros A. unfold ul_erase. rewrite A. reflexivity. Qed.

  Lemma g_erase_present (s : uml K V) k e : good s -> assoc k (ul_map s) = Some e ->
    match g_do_erase s (Some k), ul_erase s k with
    | Ok s1, Ok (s2, b) => s1 = s2 /\ b = true /\ good s2
    | UB _, UB _ => True
    | _, _ => False
    end.
  Proof.
    intros G A. pose proof (good_erase s k) as GE. revert GE. unfold ul_erase. rewrite A.
    callee (g_do_erase_ok s k (good_nodes s G)).
    destruct (g_do_erase s (Some k)) as [s1|], (ul_do_erase s k) as [s2|]; cbn [bind]; intros P GE; try contradiction; auto.
    subst. repeat split; auto. eapply GE; eauto.
  Qed.

  Lemma g_erase_ok (s : uml K V) now k : good s ->
    req (g_erase now s k) (do p <- ul_do_prune s now; ul_erase (fst p) k).
  Proof.
    intros G. unfold g_erase. prune_first s now G. key_cases k (ul_map s1) A.
    - pose proof (g_erase_present s1 k _ ltac:(assumption) A) as P. revert P.
      destruct (g_do_erase s1 (Some k)) as [t1|], (ul_erase s1 k) as [[t2 b]|]; cbn [bind req]; intros P; try contradiction; auto.
      destruct P as (-> & -> & _). reflexivity.
    - rewrite (ul_erase_absent s1 k A). cbn [bind req]. reflexivity.
  Qed.

  Lemma g_erase_range_ok (s : uml K V) now l : good s ->
    req (g_erase_range now s l) (do p <- ul_do_prune s now; ul_erase_range (fst p) l 0).
  Proof.
    intros G. unfold g_erase_range. prune_first s now G.
    match goal with |- req (bind (foldM ?F _ _) _) _ => set (F0 := F) end.
    assert (Q : forall l s n, good s -> req (foldM F0 l (s, n)) (ul_erase_range s l n)).
    { clear. induction l as [|k r IH]; intros s n G; cbn [foldM ul_erase_range]; [reflexivity|].
      unfold F0 at 1. key_cases k (ul_map s) A.
      - pose proof (g_erase_present s k _ G A) as P. revert P.
        destruct (g_do_erase s (Some k)) as [t1|], (ul_erase s k) as [[t2 b]|]; cbn [bind req]; intros P; try contradiction; auto.
        destruct P as (-> & -> & G2). apply IH. exact G2.
      - rewrite (ul_erase_absent s k A). cbn [bind]. apply IH. exact G. }
    specialize (Q l s1 0 ltac:(assumption)). revert Q.
    destruct (foldM _ _ _) as [[s' n']|]; cbn [bind]; auto.
  Qed.

  Lemma g_find_ok (s : uml K V) now k : good s ->
    req (g_find now s k) (do p <- ul_do_prune s now; Ok (fst p, ul_find (fst p) k)).
  Proof. intros G. unfold g_find. prune_first s now G. rewrite g_do_find_ok. simpl. auto. Qed.

  Lemma g_find_range_ok (s : uml K V) now l : good s ->
    req (g_find_range now s l) (do p <- ul_do_prune s now; Ok (fst p, map (fun k => (k, ul_find (fst p) k)) l)).
  Proof.
    intros G. unfold g_find_range. prune_first s now G.
    match goal with |- req (bind (foldM ?F _ _) _) _ => set (F0 := F) end.
    assert (Q : forall l (s : uml K V) acc, foldM F0 l (s, acc) = Ok (s, acc ++ map (fun k => (k, ul_find s k)) l)).
    { clear. induction l as [|k r IH]; intros s acc; cbn [foldM map].
      - rewrite app_nil_r. auto.
      - unfold F0 at 1. cbv beta iota zeta. rewrite g_do_find_ok. cbn [bind]. rewrite IH, <- app_assoc. reflexivity. }
    rewrite Q. simpl. auto.
  Qed.

  Lemma g_find_range_fill_ok (s : uml K V) now (l : list (K * option V)) : good s ->
    req (g_find_range_fill now s l) (do p <- ul_do_prune s now; Ok (fst p, map (fun k => (k, ul_find (fst p) k)) (map fst l))).
  Proof.
    intros G. unfold g_find_range_fill. prune_first s now G.
    match goal with |- req (bind (foldM ?F _ _) _) _ => set (F0 := F) end.
    assert (Q : forall (l : list (K * option V)) (s : uml K V) acc,
                 foldM F0 l (s, acc) = Ok (s, acc ++ map (fun k => (k, ul_find s k)) (map fst l))).
    { clear. induction l as [|[k ov] r IH]; intros s acc; cbn [foldM map fst].
      - rewrite app_nil_r. auto.
      - unfold F0 at 1. cbv beta iota zeta. rewrite g_do_find_ok. cbn [bind]. rewrite IH, <- app_assoc. reflexivity. }
    rewrite Q. simpl. auto.
  Qed.

  Lemma g_clean_ok (s : uml K V) now : good s ->
    req (g_clean_expired_values now s) (do p <- ul_do_prune s now; Ok (fst p, snd p)).
  Proof. intros G. unfold g_clean_expired_values. prune_first s now G. simpl. auto. Qed.

  (* clear(): the source clears both containers only when the map is not empty, the literal machine always.
     They differ only on states with an empty map and a non-empty list, which wfl excludes (one list node and
     one stored element per map entry). *)
  Lemma g_clear_ok (s : uml K V) : wfl s ->
    req (g_clear s) (Ok {| ul_ttl := ul_ttl s; ul_map := []; ul_list := []; ul_nodes := []; ul_next := ul_next s |}).
  Proof.
    intros (_ & Hiff & Hlen). unfold g_clear.
    destruct (List.length (ul_map s) =? 0) eqn:E; cbn [negb bind req]; proj; auto.
    apply Nat.eqb_eq in E. destruct s as [ttl m l nodes nx]. proj.
    destruct m; [|discriminate]. destruct l; [|discriminate].
    destruct nodes as [|[n t] r]; auto. exfalso. apply (Hiff n). left. auto.
  Qed.

  (* ---- one public call of the generated program; the glue from the operation alphabet of the models to
     the generated methods, with the clock reading of the event for steady_clock::now() ---- *)
  Definition g_step (s : uml K V) (e : ev K V) : res (uml K V * ret K V) :=
    match e_op e with
    | Insert _ k v a => do x <- g_insert (e_now e) s k v a; let '(s1, b) := x in Ok (s1, RB b)
    | InsertRange l a => do x <- g_insert_range (e_now e) s (strip l) a; let '(s1, n) := x in Ok (s1, RN n)
    | Erase k => do x <- g_erase (e_now e) s k; let '(s1, b) := x in Ok (s1, RB b)
    | EraseRange l => do x <- g_erase_range (e_now e) s l; let '(s1, n) := x in Ok (s1, RN n)
    | Find k _ => do x <- g_find (e_now e) s k; let '(s1, r) := x in Ok (s1, RO r)
    | FindRange l _ => do x <- g_find_range (e_now e) s l; let '(s1, r) := x in Ok (s1, RL r)
    | FindRangeFill l _ => do x <- g_find_range_fill (e_now e) s (map (fun k => (k, None)) l); let '(s1, r) := x in Ok (s1, RL r)
    | Clean => do x <- g_clean_expired_values (e_now e) s; let '(s1, n) := x in Ok (s1, RN n)
    | Clear => do s1 <- g_clear s; Ok (s1, RUnit)
    | Size => do x <- g_size s; let '(s1, n) := x in Ok (s1, RN n)
    | Empty => do x <- g_empty s; let '(s1, b) := x in Ok (s1, RB b)
    | _ => Ok (s, RUnsupported)
    end.

  Lemma map_fst_fill (l : list K) : map fst (map (fun k => (k, @None V)) l) = l.
  Proof. induction l; simpl; congruence. Qed.

  Theorem g_step_ok (s : uml K V) (e : ev K V) : good s ->
    req (g_step s e) (ul_step s (e_op e) (e_now e) (e_rnd e)).
  Proof.
    intros G. unfold g_step, ul_step. destruct (e_op e); try (simpl; auto; fail).
    - callee (g_insert_ok s (e_now e) k v a G). unfold bind. crush; finish.
    - callee (g_insert_range_ok s (e_now e) l a G). unfold bind. crush; finish.
    - callee (g_erase_ok s (e_now e) k G). unfold bind. crush; finish.
    - callee (g_erase_range_ok s (e_now e) l G). unfold bind. crush; finish.
    - callee (g_find_ok s (e_now e) k G). unfold bind. crush; finish.
    - callee (g_find_range_ok s (e_now e) l G). unfold bind. crush; finish.
    - callee (g_find_range_fill_ok s (e_now e) (map (fun k => (k, None)) l) G). rewrite map_fst_fill. unfold bind. crush; finish.
    - callee (g_clear_ok s (good_wfl s G)). unfold bind. crush; finish.
    - callee (g_clean_ok s (e_now e) G). unfold bind. crush; finish.
  Qed.
  (* ---- the theorem the tie delivers: the program text that is in ut_map.hpp NOW, run on any history of public
     calls (with non-decreasing clock readings) from a fresh map, never reaches undefined behaviour — in
     particular its do_prune loop ends within the stated fuel — and returns exactly the results of the
     mid-level model; the final state is in the literal machine's representation relation ---- *)
  Lemma g_run_is_ul_run : forall h t (l : uml K V) (s : um K V),
      um_inv t s -> mono_from t h -> ul_rep l s -> run_res g_step l h = ul_run l h.
  Proof.
    induction h as [|e r IH]; intros t l s I M R; simpl; auto.
    destruct M as [L M].
    destruct (ul_step_refines t l s (e_op e) (e_now e) (e_rnd e) I L R) as (l1 & D1 & R1 & I1).
    assert (G : good l) by (exists s; apply ul_rep_rep2; [exact R | destruct I as (_ & ND & _); exact ND]).
    pose proof (g_step_ok l e G) as Q. rewrite D1 in Q. apply req_ok in Q. rewrite Q, D1. cbn [bind].
    rewrite (IH (e_now e) l1 _ I1 M R1). reflexivity.
  Qed.

  Theorem generated_utmap_no_UB_on_any_history : forall ttl (h : list (ev K V)),
      (0 <= ttl)%Z -> mono_from 0 h ->
      exists l', run_res g_step (uml_init ttl) h = Ok (l', snd (run um_step (um_init ttl) h)) /\
                 ul_rep l' (fst (run um_step (um_init ttl) h)).
  Proof.
    intros ttl h L M.
    rewrite (g_run_is_ul_run h 0%Z (uml_init ttl) (um_init ttl) (um_inv_init ttl 0%Z L) M (ul_rep_init ttl)).
    apply ul_no_UB_on_any_history; assumption.
  Qed.

  (* the generated run is the literal run *)
  Corollary generated_utmap_run_is_literal_run : forall ttl (h : list (ev K V)),
      (0 <= ttl)%Z -> mono_from 0 h -> run_res g_step (uml_init ttl) h = ul_run (uml_init ttl) h.
  Proof.
    intros ttl h L M.
    exact (g_run_is_ul_run h 0%Z (uml_init ttl) (um_init ttl) (um_inv_init ttl 0%Z L) M (ul_rep_init ttl)).
  Qed.

  (* one list node and one ttl element per map entry at all times: nothing leaks, nothing is destroyed twice *)
  Theorem generated_utmap_cells_match_entries : forall ttl (h : list (ev K V)) l' rs,
      (0 <= ttl)%Z -> mono_from 0 h -> run_res g_step (uml_init ttl) h = Ok (l', rs) ->
      List.length (ul_map l') = List.length (ul_list l') /\ List.length (ul_nodes l') = List.length (ul_list l').
  Proof.
    intros ttl h l' rs L M E. rewrite generated_utmap_run_is_literal_run in E by assumption.
    eapply ul_cells_match_entries; eauto.
  Qed.

  (* ---- the constructor, translated (member initialisers + body): it builds the literal machine's initial state,
     so the whole-history theorem starts from what the source constructs ---- *)
  Lemma g_init_ok (ttl : Z) : (g_init ttl : uml K V) = uml_init ttl.
  Proof. reflexivity. Qed.
  Theorem generated_utmap_constructed_no_UB_on_any_history : forall ttl (h : list (ev K V)),
      (0 <= ttl)%Z -> mono_from 0 h ->
      exists l', run_res g_step (g_init ttl) h = Ok (l', snd (run um_step (um_init ttl) h)) /\
                 ul_rep l' (fst (run um_step (um_init ttl) h)).
  Proof. intros ttl h L M. rewrite g_init_ok. apply generated_utmap_no_UB_on_any_history; auto. Qed.

  (* ---- C06 on the translated program: in every execution of the lock-level machine (Conc.v, Section Lin: invoke,
     acquire, body = one call of the generated program, release, return) every call returns what the mid-level
     model returns when it runs the calls in the order of their critical sections — provided the clock readings
     are monotone in that order, which is the case when a call reads the clock inside its critical section; where
     the source reads it before taking the lock, this is an assumption about the schedule (the scheduler check of
     C06 examines such schedules on the real code) ---- *)
  Theorem generated_utmap_lock_level_executions_return_model_results : forall ttl ex st,
      (0 <= ttl)%Z ->
      mexec _ _ _ (tstep g_step RUnsupported) (minit _ _ _ (g_init ttl)) ex st ->
      let l := lin _ _ _ (tstep g_step RUnsupported) (g_init ttl) (fun _ => None) ex in
      (fun h => mono_from 0 h) (map (fun c => snd (fst c)) l) ->
      map snd l = (fun h => snd (run um_step (um_init ttl) h)) (map (fun c => snd (fst c)) l).
  Proof.
    intros ttl ex st Hc Hex.
    refine (executions_have_the_results_of_the_model g_step RUnsupported (fun h => mono_from 0 h) (fun h => snd (run um_step (um_init ttl) h)) (g_init ttl) _ ex st Hex).
    intros h HP. destruct (generated_utmap_constructed_no_UB_on_any_history ttl h Hc HP) as (l' & D & _). eauto.
  Qed.
End UtMapBridge.

Print Assumptions generated_utmap_cells_match_entries.
Print Assumptions generated_utmap_no_UB_on_any_history.
Print Assumptions generated_utmap_constructed_no_UB_on_any_history.
Print Assumptions generated_utmap_lock_level_executions_return_model_results.
