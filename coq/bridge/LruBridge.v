(* LruBridge.v — the functions cpp2coq.py generates from the CURRENT lru_cache.hpp (CappGen.GenLru)
   compute what the hand-written literal machine LruLit.v (mru := false) computes, up to the
   reason given for undefined behaviour.  Compiled on every run against the freshly generated
   GenLru.v: a change of the source that changes the meaning of a translated method breaks a
   lemma here. *)
Require Import Capp.Base Capp.Spec Capp.Rr Capp.ListCache Capp.ListCacheFacts Capp.RrLit Capp.LruLit Capp.LruLitFacts
               Capp.GenPrims Capp.Conc Capp.GenConc CappGen.GenLru.
From Coq Require Import Strings.String Lia.

Section LruBridge.
  Context {K V : Type} `{EqDec K}.
  Local Open Scope list_scope.
  Local Open Scope nat_scope.

  (* case analysis on an innermost scrutinee of the goal *)
  Ltac inner :=
    match goal with
    | |- context [match ?x with _ => _ end] =>
        lazymatch x with
        | context [match _ with _ => _ end] => fail
        | _ => let E := fresh "E" in destruct x eqn:E; cbn [bind req negb andb orb] in *
        end
    end.
  Ltac proj := cbn [ll_cap ll_elems ll_index ll_list ll_end ll_used set_ll_cap set_ll_elems set_ll_index set_ll_list
                    set_ll_end set_ll_used le_keyed le_pos le_val set_le_keyed set_le_pos set_le_val] in *.
  Ltac clean :=
    repeat match goal with
           | H : ?x = ?x |- _ => clear H
           | H : Some _ = Some _ |- _ => injection H as H; try subst
           | H : Ok _ = Ok _ |- _ => injection H as H; try subst
           | H : (_, _) = (_, _) |- _ => injection H; intros; try subst; clear H
           | H : Some _ = None |- _ => discriminate H
           | H : None = Some _ |- _ => discriminate H
           | H : Ok _ = UB _ |- _ => discriminate H
           | H : UB _ = Ok _ |- _ => discriminate H
           | H : true = false |- _ => discriminate H
           | H : false = true |- _ => discriminate H
           end.
  (* residual arithmetic (m_used_size += 1 for ++m_used_size, < 1 for == 0, ...) *)
  Ltac arith :=
    solve [ repeat match goal with
                   | H : negb _ = true |- _ => apply Bool.negb_true_iff in H
                   | H : negb _ = false |- _ => apply Bool.negb_false_iff in H
                   | H : (_ <? _) = true |- _ => apply Nat.ltb_lt in H
                   | H : (_ <? _) = false |- _ => apply Nat.ltb_ge in H
                   | H : (_ =? _) = true |- _ => apply Nat.eqb_eq in H
                   | H : (_ =? _) = false |- _ => apply Nat.eqb_neq in H
                   | H : (_ <=? _) = true |- _ => apply Nat.leb_le in H
                   | H : (_ <=? _) = false |- _ => apply Nat.leb_gt in H
                   end; first [ exfalso; lia | f_equal; lia | lia ] ].
  Ltac crush := repeat (proj; inner; clean); proj; simpl; try congruence; auto; try arith.
  (* every comparison of naturals in the goal that the Prop facts of the context decide is replaced by its value,
     whatever its spelling (see below, "tactics that do not look at the SHAPE of the generated code") *)
  Ltac cmp_norm :=
    repeat match goal with
           | |- context [?a <=? ?b] => first [ rewrite (proj2 (Nat.leb_le a b)) by lia | rewrite (proj2 (Nat.leb_gt a b)) by lia ]
           | |- context [?a <? ?b] => first [ rewrite (proj2 (Nat.ltb_lt a b)) by lia | rewrite (proj2 (Nat.ltb_ge a b)) by lia ]
           | |- context [?a =? ?b] => first [ rewrite (proj2 (Nat.eqb_eq a b)) by lia | rewrite (proj2 (Nat.eqb_neq a b)) by lia ]
           end; cbn [negb andb orb].

  Lemma g_do_access_ok (s : lrul K V) (i : nat) :
    req (g_do_access s i) (do e <- vget "m_elements[element_idx]" (ll_elems s) i; ll_access false s e).
  Proof. unfold g_do_access, ll_access, vget, bind, set_ll_list. crush. Qed.

  (* use of an already bridged callee: its lemma goes in front of the goal, the case analysis does the rest *)
  Ltac callee L := let P := fresh "P" in pose proof L as P; unfold req in P; revert P.
  Ltac finish := intros; clean; subst; try contradiction; try congruence; auto; try arith.

  (* ---- what the source may rely on without saying so: the states a history of public calls reaches.
     [Inv] is what holds of every state the literal machine reaches (LruLitFacts.v: it represents a state of the
     mid-level model that satisfies that model's invariant); [can_erase] is the part of it do_erase needs: the nodes of
     the list are distinct and std::prev(m_lru_end) exists (some slot is in use).  A rewriting of do_erase that is
     the same function only on such states (e.g. dropping the guard around the splice of the slot to the tail of the
     in-use section: there, and only there, `splice(pos, l, prev(pos))` does nothing) is then still proved equal. ---- *)
  Definition Inv (l : lrul K V) : Prop := exists t m, lc_inv t m /\ ll_rep false l m.
  Definition can_erase (s : lrul K V) : Prop :=
    NoDup (ll_list s) /\ exists m, l_prev (ll_list s) (ll_end s) = Ok (It m).

  Lemma Inv_init cap : 1 <= cap -> Inv (lrul_init cap).
  Proof. intros Hc. exists 0%Z, (lc_init cap). split; [apply lc_inv_init; auto|apply ll_rep_init; auto]. Qed.
  Lemma Inv_ins l k v a l' b : Inv l -> ll_ins false l k v a = Ok (l', b) -> Inv l'.
  Proof.
    intros (t & m & I & R) E. destruct (lc_ins (polof false) m k v a) as [m1 b1] eqn:M.
    destruct (ll_ins_refines false t l m k v a m1 b1 I R M) as (l1 & D & R1 & I1 & _).
    rewrite D in E. inversion E; subst. exists t, m1. split; assumption.
  Qed.
  Lemma Inv_erase l k l' b : Inv l -> ll_erase l k = Ok (l', b) -> Inv l'.
  Proof.
    intros (t & m & I & R) E. destruct (lc_erase m k) as [m1 b1] eqn:M.
    destruct (ll_erase_refines false t l m k m1 b1 I R M) as (l1 & D & R1 & I1 & _).
    rewrite D in E. inversion E; subst. exists t, m1. split; assumption.
  Qed.
  Lemma Inv_step l o now rnd l' y : Inv l -> ll_step false l o now rnd = Ok (l', y) -> Inv l'.
  Proof.
    intros (t & m & I & R) E. destruct (ll_step_refines false t l m o now rnd I R) as (l1 & D & R1 & I1).
    rewrite D in E. inversion E; subst. exists now, (fst (lc_step (pol false) m o now rnd)). split; assumption.
  Qed.

  (* some slot is in use (the size is not 0, or the index has an entry): the in-use section of the list has a last node *)
  Lemma Inv_can_erase l : Inv l -> (0 < ll_used l \/ exists k n, assoc k (ll_index l) = Some n) -> can_erase l.
  Proof.
    intros (t & m & _ & R) U. destruct (rep2_elim _ _ _ R) as (used & free & R2).
    destruct R2 as (Hl & He & _ & _ & Hnd & _ & _ & Hu & _ & _ & _ & _ & HB).
    assert (N : used <> []).
    { destruct U as [U|(k & n & A)]; intros ->; [simpl in Hu; lia|exact (HB k n A)]. }
    destruct (exists_last N) as (u & x & ->). rewrite <- app_assoc in Hl, Hnd. simpl in Hl, Hnd.
    split; rewrite Hl, ?He; [exact Hnd|]. exists x. apply l_prev_app. exact Hnd.
  Qed.

  (* std::list::splice(pos, l, i) with pos == ++i leaves the list as it is: so does the formal list (its iterators are
     the node values, hence the nodes must be distinct) *)
  Lemma splice_after_itself l pos m : NoDup l -> l_prev l pos = Ok (It m) -> l_splice l pos (It m) = Ok l.
  Proof.
    intros ND P.
    assert (Hv : valid_it l pos = true) by (unfold l_prev in P; destruct (valid_it l pos); [reflexivity|discriminate]).
    destruct (valid_decomp _ _ Hv) as (free & E1 & E2). remember (used_part l pos) as used eqn:Eu. clear Eu.
    subst l pos. destruct used as [|h used'] using rev_ind.
    - exfalso. simpl app in *. unfold l_prev in P. rewrite Hv, iter_eqb_refl in P. discriminate.
    - clear IHused'. assert (E : (used' ++ [h]) ++ free = used' ++ h :: free) by (rewrite <- app_assoc; reflexivity).
      rewrite E in P, ND. rewrite l_prev_app in P by exact ND. inversion P; subst h.
      rewrite l_splice_end.
      + rewrite remove_nat_last; [rewrite E; reflexivity|]. apply NoDup_remove_2 in ND. intros I. apply ND. apply in_or_app; auto.
      + rewrite E. exact ND.
      + apply in_or_app. right. left. reflexivity.
  Qed.

  (* do_erase: first the FACTS (the cell, its list iterator, prev(m_lru_end), whether the slot is that last node in
     use); the generated code — guarded splice or not, index or cell as the parameter — then reduces on both sides *)
  Lemma g_do_erase_ok (s : lrul K V) (i : nat) : can_erase s -> req (g_do_erase s i) (ll_do_erase s i).
  Proof.
    intros [ND [m PE]]. pose proof (splice_after_itself _ _ _ ND PE) as SN.
    unfold g_do_erase, ll_do_erase, get_pos, vref, vget.
    destruct (nth_error (ll_elems s) i) as [e0|] eqn:N.
    2:{ rewrite ?N. simpl. auto. }
    repeat progress (rewrite ?N, ?PE; cbn [bind]; proj).
    destruct (le_pos e0) as [p|] eqn:P0; cbn [bind]; [|simpl; auto].
    destruct (iter_eqb p (It m)) eqn:Q; [apply iter_eqb_true in Q; subst p|].
    - repeat progress (rewrite ?N, ?P0, ?PE, ?SN, ?iter_eqb_refl; cbn [bind negb]; proj). unfold bind. crush.
    - repeat progress (rewrite ?N, ?P0, ?PE, ?Q; cbn [bind negb]; proj). unfold bind. crush.
  Qed.
  Lemma ll_do_erase_no_cell (s : lrul K V) i : nth_error (ll_elems s) i = None -> exists w, ll_do_erase s i = UB w.
  Proof. intros N. unfold ll_do_erase, vget. rewrite N. eexists. reflexivity. Qed.
  (* a call of do_erase for the cell idx, by index or by reference (m_elements[idx], bounds-checked at the call) *)
  Ltac call_erase s idx C :=
    let N := fresh "N" in let e := fresh "e" in let w := fresh "w" in
    callee (g_do_erase_ok s idx C);
    destruct (nth_error (ll_elems s) idx) as [e|] eqn:N; unfold vref; rewrite ?N; cbn [bind];
    [ | destruct (ll_do_erase_no_cell s idx N) as [w ->] ].

  (* list.back() is *std::prev(list.end()) (and `auto it = end(); --it; *it`): whichever of the two spellings the source
     uses, one first case-splits on the FACT l_back l = Ok b / UB and rewrites the iterator spelling, if present, with it *)
  Lemma before_end_last l : l <> [] -> before End l = Some (last l 0).
  Proof.
    induction l as [|x r IH]; [congruence|]. intros _. destruct r as [|y r']; [reflexivity|].
    change (before End (x :: y :: r')) with (before End (y :: r')). rewrite IH by congruence. reflexivity.
  Qed.
  Lemma mem_nat_last l : l <> [] -> mem_nat (last l 0) l = true.
  Proof.
    induction l as [|x r IH]; [congruence|]. intros _. destruct r as [|y r'].
    - simpl. rewrite Nat.eqb_refl. reflexivity.
    - change (last (x :: y :: r') 0) with (last (y :: r') 0). 
      change (mem_nat ?n (x :: ?t)) with (Nat.eqb n x || mem_nat n t)%bool. rewrite IH by congruence. apply Bool.orb_true_r.
  Qed.
  Lemma l_back_is_deref_prev_end l b : l_back l = Ok b -> l_prev l End = Ok (It b) /\ l_deref l (It b) = Ok b.
  Proof.
    intros E. assert (N : l <> []) by (destruct l; [discriminate|congruence]).
    assert (Eb : b = last l 0) by (destruct l; [discriminate|injection E; intros E'; symmetry; exact E']). subst b.
    unfold l_prev, l_deref. rewrite before_end_last, mem_nat_last by exact N.
    destruct l; [congruence|]. split; reflexivity.
  Qed.
  Lemma l_back_UB_prev_end l w : l_back l = UB w -> exists w', l_prev l End = UB w'.
  Proof. destruct l; [|discriminate]. intros _. eexists. reflexivity. Qed.

  Lemma g_do_prune_ok (s : lrul K V) : Inv s -> req (g_do_prune s) (ll_do_prune s).
  Proof.
    intros IS. unfold g_do_prune, ll_do_prune.
    (* the FACT 0 < m_used_size, then its spellings (> 0, != 0, an early return on == 0) reduce *)
    destruct (Nat.lt_ge_cases 0 (ll_used s)) as [U|U]; cmp_norm; [|simpl; auto].
    pose proof (Inv_can_erase s IS (or_introl U)) as C.
    destruct (l_back (ll_list s)) as [b|w] eqn:B.
    - destruct (l_back_is_deref_prev_end _ _ B) as [B1 B2]. rewrite ?B1; cbn [bind]; rewrite ?B2; cbn [bind].
      call_erase s b C; unfold bind; crush; finish.
    - destruct (l_back_UB_prev_end _ _ B) as [w' B1]. rewrite ?B1; cbn [bind]. unfold bind. crush; finish.
  Qed.

  Lemma index_erase_keeps_absent (ix ix' : list (K * nat)) it k :
    index_erase ix it = Ok ix' -> assoc k ix = None -> assoc k ix' = None.
  Proof.
    unfold index_erase. destruct it as [k0|]; [|discriminate].
    destruct (assoc k0 ix); [|discriminate]. intros E; inversion E; subst. intros A.
    destruct (Base.eqb_spec k k0) as [->|N].
    - apply assoc_remk_same.
    - rewrite assoc_remk_other; auto.
  Qed.

  Lemma ll_do_erase_keeps_absent (s s' : lrul K V) i k :
    ll_do_erase s i = Ok s' -> assoc k (ll_index s) = None -> assoc k (ll_index s') = None.
  Proof.
    unfold ll_do_erase, bind. intros Q A. revert Q. crush; intros Q; clean; proj.
    all: try discriminate; eapply index_erase_keeps_absent; eauto.
  Qed.

  Lemma ll_do_prune_keeps_absent (s s' : lrul K V) k :
    ll_do_prune s = Ok s' -> assoc k (ll_index s) = None -> assoc k (ll_index s') = None.
  Proof.
    unfold ll_do_prune, bind. destruct (0 <? ll_used s); [|intros E; inversion E; subst; auto].
    destruct (l_back (ll_list s)); [|discriminate]. apply ll_do_erase_keeps_absent.
  Qed.

  Lemma vget_upd A w (l : list A) i x : i < List.length l -> vget w (upd_nth i x l) i = Ok x.
  Proof. intros L. apply vget_inv. apply nth_error_upd_same; auto. Qed.
  Lemma vset_lt A w (l : list A) i y : i < List.length l -> vset w l i y = Ok (upd_nth i y l).
  Proof. intros L. apply vset_inv; auto. Qed.
  Lemma vset_upd A w (l : list A) i x y : i < List.length l -> vset w (upd_nth i x l) i y = Ok (upd_nth i y l).
  Proof. intros L. rewrite vset_lt by (rewrite upd_nth_length; auto). rewrite upd_nth_twice. auto. Qed.
  Lemma vref_lt A (l : list A) i : i < List.length l -> vref l i = Ok i.
  Proof. intros L. apply vref_inv; auto. Qed.

  (* ---- tactics that do not look at the SHAPE of the generated code ----
     cmp_norm: every comparison of naturals in the goal that the Prop facts of the context decide is replaced by its
     value, whatever its spelling (a <=? b, negb (b <? a), b >= a written with the operands swapped, ...);
     one first case-splits on the fact (Nat.le_gt_cases ...), never on a boolean expression of the generated code. *)
  (* (Ltac cmp_norm is defined at the top of the section) *)
  (* the cell idx of the vector exists (N : nth_error l idx = Some e0, L : idx < length l): every bounds-checked access to
     that cell, in either program and wherever it stands, is replaced by its value *)
  Ltac vec N L :=
    repeat (first [ rewrite (proj2 (vget_inv _ _ _ _) N)
                  | rewrite vref_lt by exact L
                  | rewrite vget_upd by exact L
                  | rewrite vset_upd by exact L
                  | rewrite vset_lt by exact L ];
            cbn [bind]; proj).
  (* the cell idx does not exist (N : nth_error l idx = None): both programs stop at their first access to it *)
  Ltac vec_none N :=
    apply nth_error_None in N; unfold vref, vget, vset; proj;
    repeat match goal with |- context [nth_error ?l ?i] => rewrite (proj2 (nth_error_None l i)) by exact N end;
    cmp_norm; simpl; auto.
  (* a call of do_access somewhere in the goal: its bridge lemma, with both states in normal form, goes in front *)
  Ltac setters := unfold set_ll_cap, set_ll_used, set_ll_end, set_ll_list, set_ll_elems, set_ll_index, set_le_keyed, set_le_pos, set_le_val in *;
                  cbn [ll_cap ll_elems ll_index ll_list ll_end ll_used le_keyed le_pos le_val] in *.
  Ltac use_access L :=
    match goal with |- context [g_do_access ?st ?i] =>
      let P := fresh "P" in pose proof (g_do_access_ok st i) as P; setters;
      rewrite vget_upd in P by exact L; cbn [bind] in P; revert P end.

  Lemma g_do_insert_ok (s : lrul K V) k v :
    Inv s -> assoc k (ll_index s) = None -> req (g_do_insert s k v) (ll_do_insert false s k v).
  Proof.
    intros IS A. unfold g_do_insert, ll_do_insert.
    (* the prune step: split on the FACT size() <= m_used_size, then the generated condition reduces in any spelling *)
    match goal with |- req (bind ?x _) (bind ?y _) => assert (R0 : req x y) end.
    { destruct (Nat.le_gt_cases (List.length (ll_elems s)) (ll_used s)); cmp_norm; [|simpl; auto].
      callee (g_do_prune_ok s IS). unfold bind. crush; finish. }
    apply req_bind; [exact R0|]. intros s1 E1. rewrite E1 in R0. apply req_sym, req_ok in R0.
    assert (A1 : assoc k (ll_index s1) = None).
    { destruct (List.length (ll_elems s) <=? ll_used s); [|inversion R0; subst; auto].
      eapply ll_do_prune_keeps_absent; eauto. }
    clear R0 E1.
    destruct (l_deref (ll_list s1) (ll_end s1)) as [idx|] eqn:Ed; cbn [bind]; [|simpl; auto].
    unfold umap_emplace. rewrite ?A1.
    destruct (index_emplace (ll_cap s1) (ll_index s1) k idx) as [ix|] eqn:Ex; cbn [bind]; [|simpl; auto]. proj.
    destruct (nth_error (ll_elems s1) idx) as [e0|] eqn:N; [|vec_none N].
    assert (L : idx < List.length (ll_elems s1)) by (apply nth_error_Some; congruence).
    vec N L.
    destruct (l_next (ll_list s1) (ll_end s1)) as [ne|] eqn:En; cbn [bind]; [|simpl; auto]. proj.
    rewrite ?Nat.add_1_r.       (* m_used_size += 1 / m_used_size++ for ++m_used_size *)
    use_access L. unfold req, bind. crush; finish.
  Qed.

  Lemma g_do_update_ok (s : lrul K V) k idx v :
    assoc k (ll_index s) = Some idx -> req (g_do_update s (Some k) v) (ll_do_update false s idx v).
  Proof.
    intros A. unfold g_do_update, ll_do_update, mit_second, mit_deref. rewrite ?A. cbn [bind].
    destruct (nth_error (ll_elems s) idx) as [e0|] eqn:N; [|vec_none N].
    assert (L : idx < List.length (ll_elems s)) by (apply nth_error_Some; congruence).
    vec N L.
    use_access L. unfold req, bind. crush; finish.
  Qed.

  (* the index lookup: split on the FACT assoc k ix = Some idx / None; then `it == end()`, `it != end()`,
     `end() != it`, an early return on the miss ... all reduce by computation *)
  Ltac lookup A := unfold mit_find, mit_second, mit_deref; cbn [mit_eqb negb bind]; rewrite ?A; cbn [mit_eqb negb bind].

  Lemma g_do_insert_update_ok (s : lrul K V) k v a : Inv s -> req (g_do_insert_update s k v a) (ll_ins false s k v a).
  Proof.
    intros IS. unfold g_do_insert_update, ll_ins.
    destruct (assoc k (ll_index s)) as [idx|] eqn:A; lookup A.
    - callee (g_do_update_ok s k idx v A). destruct (a_upd a); cbn [negb]; unfold bind; crush; finish.
    - callee (g_do_insert_ok s k v IS A). destruct (a_ins a); cbn [negb]; unfold bind; crush; finish.
  Qed.

  Lemma ll_access_elems (s s' : lrul K V) e : ll_access false s e = Ok s' -> ll_elems s' = ll_elems s.
  Proof. unfold ll_access, bind. crush; intros Q; clean; try discriminate; auto. Qed.

  Lemma g_do_find_ok (s : lrul K V) k pk : req (g_do_find s k pk) (ll_find false s k pk).
  Proof.
    unfold g_do_find, ll_find.
    destruct (assoc k (ll_index s)) as [idx|] eqn:A; lookup A; [|simpl; auto].
    destruct (nth_error (ll_elems s) idx) as [e0|] eqn:N; [|vec_none N].
    assert (L : idx < List.length (ll_elems s)) by (apply nth_error_Some; congruence).
    pose proof (g_do_access_ok s idx) as P. rewrite (proj2 (vget_inv _ _ _ _) N) in P. cbn [bind] in P. revert P.
    vec N L.
    destruct pk; cbn [Bool.eqb negb bind]; vec N L.
    - intros _. simpl. auto.
    - unfold req, bind.
      destruct (g_do_access s idx) as [s1|] eqn:G, (ll_access false s e0) as [s2|] eqn:Q; intros P; try contradiction; auto.
      subst s2. apply ll_access_elems in Q. unfold vget. rewrite Q, N. auto.
  Qed.

  Lemma g_erase_ok (s : lrul K V) k : Inv s -> req (g_erase s k) (ll_erase s k).
  Proof.
    intros IS. unfold g_erase, ll_erase.
    destruct (assoc k (ll_index s)) as [idx|] eqn:A; lookup A; [|simpl; auto].
    pose proof (Inv_can_erase s IS (or_intror (ex_intro _ k (ex_intro _ idx A)))) as C.
    call_erase s idx C; unfold bind; crush; finish.
  Qed.

  (* ---- the range calls: the generated range-for loops against the literal recursions ---- *)
  Definition strip (l : list (Z * K * V)) : list (K * V) := map (fun x => (snd (fst x), snd x)) l.

  Lemma g_insert_range_ok (s : lrul K V) l a : Inv s -> req (g_insert_range s (strip l) a) (ll_ins_range false s l a 0).
  Proof.
    intros IS. unfold g_insert_range.
    match goal with |- req (bind (foldM ?F _ _) _) _ =>
      assert (G : forall l s n, Inv s -> req (foldM F (strip l) (s, n)) (ll_ins_range false s l a n)) end.
    { clear. induction l as [|[[z k] v] r IH]; intros s n IS; simpl; auto.
      callee (g_do_insert_update_ok s k v a IS). unfold bind at 1 2 3.
      destruct (g_do_insert_update s k v a) as [[s1 b]|], (ll_ins false s k v a) as [[s2 b2]|] eqn:L; intros P; try contradiction; auto.
      inversion P; subst. pose proof (Inv_ins _ _ _ _ _ _ IS L) as IS2.
      destruct b2; cbn [bind]; rewrite ?Nat.add_1_r, ?Nat.add_0_r; apply IH; exact IS2. }
    specialize (G l s 0 IS). revert G.
    destruct (foldM _ _ _) as [[s' n']|]; cbn [bind]; auto.
  Qed.

  Lemma g_erase_range_ok (s : lrul K V) l : Inv s -> req (g_erase_range s l) (ll_erase_range s l 0).
  Proof.
    intros IS. unfold g_erase_range.
    match goal with |- req (bind (foldM ?F _ _) _) _ =>
      assert (G : forall l s n, Inv s -> req (foldM F l (s, n)) (ll_erase_range s l n)) end.
    { clear. induction l as [|k r IH]; intros s n IS; simpl; auto.
      pose proof (Inv_erase s k) as IE. revert IE. unfold ll_erase.
      destruct (assoc k (ll_index s)) as [idx|] eqn:A; lookup A; intros IE; [|apply IH; exact IS].
      pose proof (Inv_can_erase s IS (or_intror (ex_intro _ k (ex_intro _ idx A)))) as C.
      call_erase s idx C;
      destruct (g_do_erase s idx) as [s1|], (ll_do_erase s idx) as [s2|]; simpl; intros P; try contradiction; auto.
      subst. apply IH. eapply IE; [exact IS|reflexivity]. }
    specialize (G l s 0 IS). revert G.
    destruct (foldM _ _ _) as [[s' n']|]; cbn [bind]; auto.
  Qed.

  Lemma g_find_range_loop (pk : bool) F :
    (forall s acc k, F (s, acc) k = (do x <- g_do_find s k pk; let '(s1, r) := x in Ok (s1, acc ++ [(k, r)]))) ->
    forall l (s : lrul K V) (acc : list (K * option V)),
      req (foldM F l (s, acc)) (do y <- ll_find_range false s l pk; let '(s2, os) := y in Ok (s2, acc ++ os)).
  Proof.
    intros HF. induction l as [|k r IH]; intros s acc; simpl.
    - rewrite app_nil_r. auto.
    - rewrite HF. callee (g_do_find_ok s k pk). unfold bind at 1 2 4 5.
      destruct (g_do_find s k pk) as [[s1 o]|], (ll_find false s k pk) as [[s2 o2]|]; intros P; try contradiction; auto.
      inversion P; subst. eapply req_trans; [apply IH|]. unfold bind.
      destruct (ll_find_range false s2 r pk) as [[s3 os]|]; simpl; auto. rewrite <- app_assoc. reflexivity.
  Qed.

  Lemma g_find_range_ok (s : lrul K V) l pk : req (g_find_range s l pk) (ll_find_range false s l pk).
  Proof.
    unfold g_find_range.
    match goal with |- req (bind (foldM ?F _ _) _) _ => pose proof (g_find_range_loop pk F) as G end.
    specialize (G (fun s acc k => eq_refl) l s []). revert G.
    destruct (foldM _ _ _) as [[s' n']|]; cbn [bind]; destruct (ll_find_range false s l pk) as [[s2 os]|]; simpl; auto.
  Qed.

  Lemma g_find_fill_loop (pk : bool) F :
    (forall s acc k ov, F (s, acc) (k, ov) = (do x <- g_do_find s k pk; let '(s1, r) := x in Ok (s1, acc ++ [(k, r)]))) ->
    forall (l : list (K * option V)) (s : lrul K V) (acc : list (K * option V)),
      req (foldM F l (s, acc)) (do y <- ll_find_range false s (map fst l) pk; let '(s2, os) := y in Ok (s2, acc ++ os)).
  Proof.
    intros HF. induction l as [|[k ov] r IH]; intros s acc; simpl.
    - rewrite app_nil_r. auto.
    - rewrite HF. callee (g_do_find_ok s k pk). unfold bind at 1 2 4 5.
      destruct (g_do_find s k pk) as [[s1 o]|], (ll_find false s k pk) as [[s2 o2]|]; intros P; try contradiction; auto.
      inversion P; subst. eapply req_trans; [apply IH|]. unfold bind.
      destruct (ll_find_range false s2 (map fst r) pk) as [[s3 os]|]; simpl; auto. rewrite <- app_assoc. reflexivity.
  Qed.

  Lemma g_find_range_fill_ok (s : lrul K V) (l : list (K * option V)) pk :
    req (g_find_range_fill s l pk) (ll_find_range false s (map fst l) pk).
  Proof.
    unfold g_find_range_fill.
    match goal with |- req (bind (foldM ?F _ _) _) _ => pose proof (g_find_fill_loop pk F) as G end.
    specialize (G (fun s acc k ov => eq_refl) l s []). revert G.
    destruct (foldM _ _ _) as [[s' n']|]; cbn [bind]; destruct (ll_find_range false s (map fst l) pk) as [[s2 os]|]; simpl; auto.
  Qed.

  (* ---- one public call of the generated program; the glue from the operation alphabet of the
     models to the generated methods (what harness/common.hpp `apply` does for the real class) ---- *)
  Definition g_step (s : lrul K V) (e : ev K V) : res (lrul K V * ret K V) :=
    match e_op e with
    | Insert _ k v a => do x <- g_insert s k v a; let '(s1, b) := x in Ok (s1, RB b)
    | InsertRange l a => do x <- g_insert_range s (strip l) a; let '(s1, n) := x in Ok (s1, RN n)
    | Erase k => do x <- g_erase s k; let '(s1, b) := x in Ok (s1, RB b)
    | EraseRange l => do x <- g_erase_range s l; let '(s1, n) := x in Ok (s1, RN n)
    | Find k pk => do x <- g_find s k pk; let '(s1, r) := x in Ok (s1, RO r)
    | FindRange l pk => do x <- g_find_range s l pk; let '(s1, r) := x in Ok (s1, RL r)
    | FindRangeFill l pk => do x <- g_find_range_fill s (map (fun k => (k, None)) l) pk; let '(s1, r) := x in Ok (s1, RL r)
    | Size => do x <- g_size s; let '(s1, n) := x in Ok (s1, RN n)
    | Empty => do x <- g_empty s; let '(s1, b) := x in Ok (s1, RB b)
    | Capacity => do x <- g_capacity s; let '(s1, n) := x in Ok (s1, RN n)
    | _ => Ok (s, RUnsupported)
    end.

  Lemma map_fst_fill (l : list K) : map fst (map (fun k => (k, @None V)) l) = l.
  Proof. induction l; simpl; congruence. Qed.

  Theorem g_step_ok (s : lrul K V) (e : ev K V) :
    Inv s -> req (g_step s e) (ll_step false s (e_op e) (e_now e) (e_rnd e)).
  Proof.
    intros IS. unfold g_step, ll_step. destruct (e_op e); try (simpl; auto; fail).
    - unfold g_insert. callee (g_do_insert_update_ok s k v a IS). unfold bind. crush; finish.
    - callee (g_insert_range_ok s l a IS). unfold bind. crush; finish.
    - callee (g_erase_ok s k IS). unfold bind. crush; finish.
    - callee (g_erase_range_ok s l IS). unfold bind. crush; finish.
    - unfold g_find. callee (g_do_find_ok s k peek). unfold bind. crush; finish.
    - callee (g_find_range_ok s l peek). unfold bind. crush; finish.
    - callee (g_find_range_fill_ok s (map (fun k => (k, None)) l) peek). rewrite map_fst_fill. unfold bind. crush; finish.
  Qed.

  (* ---- the theorem the tie delivers: the program text that is in lru_cache.hpp NOW, run on any
     history of public calls from a fresh cache, never reaches undefined behaviour and returns
     exactly the results of the mid-level model (about which C01-C05, C09, C10, C18, C19 are proved) ---- *)
  Lemma ll_run_is_run_res : forall h (l : lrul K V),
      ll_run false l h = run_res (fun l e => ll_step false l (e_op e) (e_now e) (e_rnd e)) l h.
  Proof. induction h as [|e r IH]; intros l; simpl; auto. destruct (ll_step false l (e_op e) (e_now e) (e_rnd e)) as [[l1 y]|]; simpl; auto. rewrite IH. reflexivity. Qed.

  (* the constructor, translated: member initialisers + body give the literal machine's initial state *)
  Lemma g_init_ok (cap : nat) : (g_init cap : lrul K V) = lrul_init cap.
  Proof. reflexivity. Qed.

  (* the generated and the literal program run in step from a state of the invariant: the literal step keeps it *)
  Lemma run_res_req_inv (f g : lrul K V -> ev K V -> res (lrul K V * ret K V)) (I : lrul K V -> Prop) :
    (forall s e, I s -> req (f s e) (g s e)) ->
    (forall s e s' y, I s -> g s e = Ok (s', y) -> I s') ->
    forall h s, I s -> req (run_res f s h) (run_res g s h).
  Proof.
    intros Hfg Hp. induction h as [|e r IH]; intros s Is; simpl; [reflexivity|].
    apply req_bind; [auto|]. intros [s1 y] E.
    assert (Is1 : I s1).
    { apply (Hp s e s1 y Is). apply req_ok. apply req_sym. rewrite <- E. auto. }
    apply req_bind; [auto|]. intros [s2 ys] _. simpl. auto.
  Qed.

  Theorem generated_lru_no_UB_on_any_history : forall cap (h : list (ev K V)),
      1 <= cap ->
      exists l', run_res g_step (g_init cap) h = Ok (l', snd (run (lc_step (pol false)) (lc_init cap) h)) /\
                 ll_rep false l' (fst (run (lc_step (pol false)) (lc_init cap) h)).
  Proof.
    intros cap h Hc. rewrite g_init_ok.
    destruct (ll_no_UB_on_any_history false cap h Hc) as (l' & D & R).
    exists l'. split; auto.
    pose proof (run_res_req_inv g_step (fun l e => ll_step false l (e_op e) (e_now e) (e_rnd e)) Inv
                  g_step_ok (fun s e s' y Is E => Inv_step _ _ _ _ _ _ Is E) h (lrul_init cap) (Inv_init cap Hc)) as Q.
    rewrite <- ll_run_is_run_res, D in Q. apply req_ok. apply Q.
  Qed.

  (* ---- C06 on the translated program: in every execution of the lock-level machine (Conc.v, Section Lin: invoke,
     acquire, body = one call of the generated program, release, return) every call returns what the mid-level
     model returns when it runs the calls in the order of their critical sections ---- *)
  Theorem generated_lru_lock_level_executions_return_model_results : forall cap ex st,
      1 <= cap ->
      mexec _ _ _ (tstep g_step RUnsupported) (minit _ _ _ (g_init cap)) ex st ->
      let l := lin _ _ _ (tstep g_step RUnsupported) (g_init cap) (fun _ => None) ex in
      (fun _ => True) (map (fun c => snd (fst c)) l) ->
      map snd l = (fun h => snd (run (lc_step (pol false)) (lc_init cap) h)) (map (fun c => snd (fst c)) l).
  Proof.
    intros cap ex st Hc Hex.
    refine (executions_have_the_results_of_the_model g_step RUnsupported (fun _ => True) (fun h => snd (run (lc_step (pol false)) (lc_init cap) h)) (g_init cap) _ ex st Hex).
    intros h HP. destruct (generated_lru_no_UB_on_any_history cap h Hc) as (l' & D & _). eauto.
  Qed.
End LruBridge.

Print Assumptions generated_lru_no_UB_on_any_history.
Print Assumptions generated_lru_lock_level_executions_return_model_results.
