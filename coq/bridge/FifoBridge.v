(* FifoBridge.v — the functions cpp2coq.py (+ cpp2coq_fifo.py) generates from the CURRENT
   fifo_cache.hpp (CappGen.GenFifo) compute what the hand-written literal machine FifoLit.v
   computes, up to the reason given for undefined behaviour.  Compiled on every run against the
   freshly generated GenFifo.v: a change of the source that changes the meaning of a translated
   method breaks a lemma here. *)
Require Import Capp.Base Capp.Spec Capp.Rr Capp.ListCache Capp.ListCacheFacts Capp.RrLit Capp.LruLit
               Capp.FifoLit Capp.FifoLitFacts Capp.GenPrims Capp.Conc Capp.GenConc CappGen.GenFifo.
From Coq Require Import Strings.String Lia.

Section FifoBridge.
  Context {K V : Type} `{EqDec K}.
  Local Open Scope list_scope.
  Local Open Scope nat_scope.

  (* states equal up to the arithmetic form of their fields *)
  Lemma fifol_eq (a a' : fifol K V) :
    fl_cap a = fl_cap a' -> fl_list a = fl_list a' -> fl_cells a = fl_cells a' -> fl_index a = fl_index a' ->
    fl_used a = fl_used a' -> a = a'.
  Proof. destruct a, a'; simpl; intros; subst; reflexivity. Qed.

  (* case analysis on an innermost scrutinee of the goal *)
  Ltac inner :=
    match goal with
    | |- context [match ?x with _ => _ end] =>
        lazymatch x with
        | context [match _ with _ => _ end] => fail
        | _ => let E := fresh "E" in destruct x eqn:E; cbn [bind req negb andb orb] in *
        end
    end.
  Ltac proj := cbn [fl_cap fl_list fl_cells fl_index fl_used set_fl_cap set_fl_list set_fl_cells set_fl_index
                    set_fl_used fc_keyed fc_val set_fc_keyed set_fc_val fst snd] in *.
  Ltac clean :=
    repeat match goal with
           | H : ?x = ?x |- _ => clear H
           | H : Some _ = Some _ |- _ => injection H as H; try subst
           | H : Ok _ = Ok _ |- _ => injection H as H; try subst
           | H : It _ = It _ |- _ => injection H as H; try subst
           | H : (_, _) = (_, _) |- _ => injection H; intros; try subst; clear H
           | H : Some _ = None |- _ => discriminate H
           | H : None = Some _ |- _ => discriminate H
           | H : Ok _ = UB _ |- _ => discriminate H
           | H : UB _ = Ok _ |- _ => discriminate H
           | H : It _ = End |- _ => discriminate H
           | H : End = It _ |- _ => discriminate H
           | H : true = false |- _ => discriminate H
           | H : false = true |- _ => discriminate H
           end.
  (* residual arithmetic: the source may write the same counter update in several ways (m_used_size += 1 for
     ++m_used_size, `< 1` or `!= 0` negated for `== 0`, `b <= a` for `a >= b`, ...): boolean comparisons become
     Props and lia decides *)
  Ltac bprop :=
    repeat match goal with
           | H : negb _ = true |- _ => apply Bool.negb_true_iff in H
           | H : negb _ = false |- _ => apply Bool.negb_false_iff in H
           | H : (_ <? _) = true |- _ => apply Nat.ltb_lt in H
           | H : (_ <? _) = false |- _ => apply Nat.ltb_ge in H
           | H : (_ =? _) = true |- _ => apply Nat.eqb_eq in H
           | H : (_ =? _) = false |- _ => apply Nat.eqb_neq in H
           | H : (_ <=? _) = true |- _ => apply Nat.leb_le in H
           | H : (_ <=? _) = false |- _ => apply Nat.leb_gt in H
           end.
  Ltac fields := apply fifol_eq; cbn [fl_cap fl_list fl_cells fl_index fl_used]; solve [ reflexivity | lia ].
  Ltac arith := solve [ bprop; first [ exfalso; lia | lia | fields | apply (f_equal Ok); fields | f_equal; lia ] ].
  Ltac crush := repeat (proj; inner; clean); proj; simpl; try congruence; auto; try arith.
  (* two successor states that differ at most in the way m_used_size is written *)
  Ltac steq := cbv beta iota delta [req]; first [ reflexivity | fields | apply (f_equal Ok); fields ].
  (* use of an already bridged callee: its lemma goes in front of the goal, the case analysis does the rest *)
  Ltac callee L := let P := fresh "P" in pose proof L as P; unfold req in P; revert P.
  Ltac finish := intros; clean; subst; try contradiction; try congruence; auto; try arith.

  Lemma vget_upd A w (l : list A) i x : i < List.length l -> vget w (upd_nth i x l) i = Ok x.
  Proof. intros L. apply vget_inv. apply nth_error_upd_same; auto. Qed.
  Lemma vset_lt A w (l : list A) i y : i < List.length l -> vset w l i y = Ok (upd_nth i y l).
  Proof. intros L. apply vset_inv; auto. Qed.
  Lemma vset_upd A w (l : list A) i x y : i < List.length l -> vset w (upd_nth i x l) i y = Ok (upd_nth i y l).
  Proof. intros L. rewrite vset_lt by (rewrite upd_nth_length; auto). rewrite upd_nth_twice. auto. Qed.

  Lemma index_erase_keeps_absent (ix ix' : list (K * nat)) it k :
    index_erase ix it = Ok ix' -> assoc k ix = None -> assoc k ix' = None.
  Proof.
    unfold index_erase. destruct it as [k0|]; [|discriminate].
    destruct (assoc k0 ix); [|discriminate]. intros E; inversion E; subst. intros A.
    destruct (Base.eqb_spec k k0) as [->|N].
    - apply assoc_remk_same.
    - rewrite assoc_remk_other; auto.
  Qed.

  (* `keyed_position = m_keyed_elements.find(k)` compared with end(): the case split is on the SEMANTIC scrutinee
     (is k in the index?), after which the comparison computes, whichever way the source spells and orients it
     (`it != end()`, `end() != it`, `it == end()` with the branches swapped, an early return, ...) *)
  Ltac find_cases k s n A :=
    cbv zeta; unfold mit_find;
    destruct (assoc k (fl_index s)) as [n|] eqn:A; cbn [mit_eqb negb andb orb].

  (* ---- the private helpers ---- *)

  (* do_update(keyed_position, value): the literal function takes the node the iterator maps to *)
  Lemma g_do_update_ok (s : fifol K V) k n v :
    assoc k (fl_index s) = Some n -> req (g_do_update s (Some k) v) (fl_do_update s n v).
  Proof.
    intros A. unfold g_do_update, fl_do_update, cell_of, mit_second. rewrite A. cbn [bind].
    destruct (l_deref (fl_list s) (It n)) as [d|] eqn:D; [|simpl; auto]. cbn [bind].
    assert (d = n) by (unfold l_deref in D; destruct (mem_nat n (fl_list s)); inversion D; auto). subst d.
    unfold vget. destruct (nth_error (fl_cells s) n) as [e|] eqn:N; [|simpl; auto]. cbn [bind].
    assert (L : n < List.length (fl_cells s)) by (apply nth_error_Some; congruence).
    rewrite !vset_lt by auto. cbn [bind]. unfold set_fl_cells, set_fc_val. simpl. reflexivity.
  Qed.

  (* do_erase(fifo_position): the literal function takes the node of the (dereferenceable) iterator *)
  Lemma g_do_erase_ok (s : fifol K V) n : req (g_do_erase s (It n)) (fl_do_erase s n).
  Proof.
    unfold g_do_erase, fl_do_erase, cell_of.
    destruct (l_deref (fl_list s) (It n)) as [d|] eqn:D; [|simpl; auto]. cbn [bind].
    assert (d = n) by (unfold l_deref in D; destruct (mem_nat n (fl_list s)); inversion D; auto). subst d.
    unfold vget.
    destruct (iter_eqb (It n) (l_begin (fl_list s))); cbn [negb bind];
      [|destruct (l_splice (fl_list s) (l_begin (fl_list s)) (It n)) as [l|]; cbn [bind];
        [|destruct (nth_error (fl_cells s) n); simpl; auto]].
    all: proj; destruct (nth_error (fl_cells s) n) as [e|] eqn:N; cbn [bind]; [|simpl; auto].
    all: assert (L : n < List.length (fl_cells s)) by (apply nth_error_Some; congruence).
    all: destruct (fc_keyed e) as [k0|] eqn:Ek; cbn [opt_has_value opt_value bind negb]; proj; rewrite ?Ek;
         cbn [opt_has_value opt_value bind negb]; proj.
    all: try (destruct (index_erase (fl_index s) (Some k0)) as [ix|]; cbn [bind]; [|simpl; auto]; proj;
              rewrite ?N; cbn [bind]; rewrite !vset_lt by auto; cbn [bind]; proj).
    (* the decrement: whatever the guard of the source is, it fails exactly when m_used_size is 0 *)
    all: destruct (fl_used s =? 0) eqn:U0;
         repeat match goal with |- context [if ?c then _ else _] => let U := fresh "U" in destruct c eqn:U end;
         cbn [bind req]; auto; arith.
  Qed.

  Lemma l_prev_it (l : list nat) i j : l_prev l i = Ok j -> exists m, j = It m.
  Proof.
    unfold l_prev. destruct (valid_it l i); [|discriminate].
    destruct (iter_eqb i (l_begin l)); [discriminate|].
    destruct (before i l); [|discriminate]. intros E; inversion E; eauto.
  Qed.

  (* m_fifo_list.splice(end(), m_fifo_list, begin()): the head node becomes the last node.  Whatever way the source
     then names that node (std::prev(end()), the begin() iterator captured before the splice, back()), it is this one *)
  Lemma back_snoc (r : list nat) n : l_back (r ++ [n]) = Ok n.
  Proof.
    unfold l_back. destruct (r ++ [n]) as [|y t] eqn:E; [destruct r; discriminate|].
    rewrite <- E. rewrite last_last. reflexivity.
  Qed.
  Lemma mem_snoc (r : list nat) n : mem_nat n (r ++ [n]) = true.
  Proof. apply mem_nat_In. apply in_or_app. right. left. reflexivity. Qed.
  Lemma splice_head_to_tail (l l' : list nat) :
    l_splice l End (l_begin l) = Ok l' ->
    exists n, l_begin l = It n /\ l_prev l' End = Ok (It n) /\ l_back l' = Ok n /\ l_deref l' (It n) = Ok n.
  Proof.
    destruct l as [|n r]; [simpl; discriminate|]. rewrite splice_begin_to_end. intros E. inversion E; subst l'.
    exists n. repeat split.
    - apply prev_end_snoc.
    - apply back_snoc.
    - unfold l_deref. rewrite mem_snoc. reflexivity.
  Qed.

  (* rewriting with what is known about the primitives met so far *)
  Ltac hrew :=
    repeat match goal with
           | H : ?x = Ok _ |- context [?x] => rewrite H
           | H : ?x = Some _ |- context [?x] => rewrite H
           | H : ?x = None |- context [?x] => rewrite H
           | H : ?x = It _ |- context [?x] => rewrite H
           end.
  (* reads and writes of the cell of node m (L : m < length of the cells), in whatever order the source makes them *)
  Ltac vnorm L :=
    repeat progress (cbn [bind iter_node mit_engage opt_has_value opt_value negb]; proj; hrew;
                     rewrite ?nth_error_upd_same by exact L; rewrite ?vset_upd by exact L; rewrite ?vset_lt by exact L).

  (* do_insert(key, value): the source emplaces (no effect on a present key), the literal function
     appends; they agree when the key is absent, which is how do_insert_update calls it *)
  Lemma g_do_insert_ok (s : fifol K V) k v :
    assoc k (fl_index s) = None -> req (g_do_insert s k v) (fl_do_insert s k v).
  Proof.
    intros A. unfold g_do_insert, fl_do_insert, cell_of. cbv zeta.
    destruct (l_splice (fl_list s) End (l_begin (fl_list s))) as [l|] eqn:Sp; [|simpl; auto]. cbn [bind]. proj.
    destruct (splice_head_to_tail _ _ Sp) as (m & Hb & Hp & Hk & Hd).
    unfold vget. hrew. cbn [bind]. proj. hrew. cbn [bind].
    destruct (nth_error (fl_cells s) m) as [e|] eqn:N; cbn [bind]; [|simpl; auto].
    assert (L : m < List.length (fl_cells s)) by (apply nth_error_Some; congruence).
    unfold umap_emplace.
    destruct (fc_keyed e) as [k0|] eqn:Ek; vnorm L.
    - destruct (index_erase (fl_index s) (Some k0)) as [ix|] eqn:Ex; [|simpl; auto].
      pose proof (index_erase_keeps_absent _ _ _ _ Ex A) as A'. vnorm L.
      destruct (index_emplace (fl_cap s) ix k m) as [ix2|]; [|simpl; auto]. vnorm L.
      unfold set_fl_cells, set_fc_keyed, set_fc_val. simpl. steq.
    - destruct (index_emplace (fl_cap s) (fl_index s) k m) as [ix2|]; [|simpl; auto]. vnorm L.
      unfold set_fl_cells, set_fc_keyed, set_fc_val. simpl. steq.
  Qed.

  Lemma g_do_insert_update_ok (s : fifol K V) k v a : req (g_do_insert_update s k v a) (fl_ins s k v a).
  Proof.
    unfold g_do_insert_update, fl_ins. find_cases k s n A.
    - destruct (a_upd a); cbn [negb]; [|simpl; auto].
      callee (g_do_update_ok s k n v A). unfold bind. crush; finish.
    - destruct (a_ins a); cbn [negb]; [|simpl; auto].
      callee (g_do_insert_ok s k v A). unfold bind. crush; finish.
  Qed.

  (* do_find(key) is not const in the source: the generated function also returns the (unchanged) state *)
  Lemma g_do_find_ok (s : fifol K V) k : req (g_do_find s k) (do r <- fl_find s k; Ok (s, r)).
  Proof.
    unfold g_do_find, fl_find, cell_of. find_cases k s n A; [|simpl; auto].
    unfold mit_second. rewrite A. cbn [bind].
    destruct (l_deref (fl_list s) (It n)) as [d|] eqn:D; [|simpl; auto]. cbn [bind].
    destruct (vget "list node" (fl_cells s) d); simpl; auto.
  Qed.

  Lemma g_erase_1_ok (s : fifol K V) k : req (g_erase_1 s k) (fl_erase s k).
  Proof.
    unfold g_erase_1, fl_erase. find_cases k s n A; [|simpl; auto].
    unfold mit_second. rewrite A. cbn [bind].
    callee (g_do_erase_ok s n). unfold bind. crush; finish.
  Qed.

  (* ---- the range calls: the generated loops over the input range against the literal recursions ---- *)
  Definition strip (l : list (Z * K * V)) : list (K * V) := map (fun x => (snd (fst x), snd x)) l.

  Lemma g_insert_iter_ok (s : fifol K V) l a : req (g_insert_iter s (strip l) a) (fl_ins_range s l a 0).
  Proof.
    unfold g_insert_iter.
    match goal with |- req (bind (foldM ?F _ _) _) _ =>
      assert (G : forall l s n, req (foldM F (strip l) (s, n)) (fl_ins_range s l a n)) end.
    { clear. induction l as [|[[z k] v] r IH]; intros s n; simpl; auto.
      callee (g_do_insert_update_ok s k v a). unfold bind at 1 2 3.
      destruct (g_do_insert_update s k v a) as [[s1 b]|], (fl_ins s k v a) as [[s2 b2]|]; intros P; try contradiction; auto.
      inversion P; subst. destruct b2; cbn [bind].
      all: match goal with |- req (foldM _ _ (_, ?m)) (fl_ins_range _ _ _ ?m') => replace m with m' by lia end; apply IH. }
    specialize (G l s 0). revert G.
    destruct (foldM _ _ _) as [[s' n']|]; cbn [bind]; auto.
  Qed.

  Lemma g_insert_range_ok (s : fifol K V) l a : req (g_insert_range s (strip l) a) (fl_ins_range s l a 0).
  Proof.
    unfold g_insert_range. callee (g_insert_iter_ok s l a). unfold bind. crush; finish.
  Qed.

  Lemma g_erase_iter_ok (s : fifol K V) l : req (g_erase_iter s l) (fl_erase_range s l 0).
  Proof.
    unfold g_erase_iter.
    match goal with |- req (bind (foldM ?F _ _) _) _ =>
      assert (G : forall l s n, req (foldM F l (s, n)) (fl_erase_range s l n)) end.
    { clear. induction l as [|k r IH]; intros s n; simpl; auto.
      unfold fl_erase. find_cases k s idx A; cbn [bind]; [|apply IH].
      unfold mit_second. rewrite A. cbn [bind]. callee (g_do_erase_ok s idx).
      destruct (g_do_erase s (It idx)) as [s1|], (fl_do_erase s idx) as [s2|]; simpl; intros P; try contradiction; auto.
      subst. match goal with |- req (foldM _ _ (_, ?m)) (fl_erase_range _ _ ?m') => replace m with m' by lia end.
      apply IH. }
    specialize (G l s 0). revert G.
    destruct (foldM _ _ _) as [[s' n']|]; cbn [bind]; auto.
  Qed.

  Lemma g_erase_range_ok (s : fifol K V) l : req (g_erase_range s l) (fl_erase_range s l 0).
  Proof.
    unfold g_erase_range. callee (g_erase_iter_ok s l). unfold bind. crush; finish.
  Qed.

  Lemma g_find_loop F :
    (forall s acc k, F (s, acc) k = (do x <- g_do_find s k; let '(s1, r) := x in Ok (s1, acc ++ [(k, r)]))) ->
    forall l (s : fifol K V) (acc : list (K * option V)),
      req (foldM F l (s, acc)) (do os <- fl_find_range s l; Ok (s, acc ++ os)).
  Proof.
    intros HF. induction l as [|k r IH]; intros s acc; simpl.
    - rewrite app_nil_r. auto.
    - rewrite HF. callee (g_do_find_ok s k). unfold bind at 1 2 4 5.
      destruct (g_do_find s k) as [[s1 o]|], (fl_find s k) as [o2|]; intros P; try contradiction; auto.
      inversion P; subst. eapply req_trans; [apply IH|]. unfold bind.
      destruct (fl_find_range s r) as [os|]; simpl; auto. rewrite <- app_assoc. reflexivity.
  Qed.

  Lemma g_find_iter_ok (s : fifol K V) l d : req (g_find_iter s l d) (do os <- fl_find_range s l; Ok (s, os)).
  Proof.
    unfold g_find_iter.
    (* output.reserve(distance) has no observable effect, whether or not it is guarded by a test on the distance *)
    repeat match goal with |- context [if ?c then ?x else ?x] => destruct c end; cbn [bind].
    all: match goal with |- req (bind (foldM ?F _ _) _) _ => pose proof (g_find_loop F) as G end;
      specialize (G (fun s acc k => eq_refl) l s []); revert G;
      destruct (foldM _ _ _) as [[s' n']|]; cbn [bind]; destruct (fl_find_range s l) as [os|]; simpl; auto.
  Qed.

  Lemma g_find_range_ok (s : fifol K V) l : req (g_find_range s l) (do os <- fl_find_range s l; Ok (s, os)).
  Proof.
    unfold g_find_range. callee (g_find_iter_ok s l (List.length l)). unfold bind. crush; finish.
  Qed.

  Lemma g_fill_loop F :
    (forall s acc k ov, F (s, acc) (k, ov) = (do x <- g_do_find s k; let '(s1, r) := x in Ok (s1, acc ++ [(k, r)]))) ->
    forall (l : list (K * option V)) (s : fifol K V) (acc : list (K * option V)),
      req (foldM F l (s, acc)) (do os <- fl_find_range s (map fst l); Ok (s, acc ++ os)).
  Proof.
    intros HF. induction l as [|[k ov] r IH]; intros s acc; simpl.
    - rewrite app_nil_r. auto.
    - rewrite HF. callee (g_do_find_ok s k). unfold bind at 1 2 4 5.
      destruct (g_do_find s k) as [[s1 o]|], (fl_find s k) as [o2|]; intros P; try contradiction; auto.
      inversion P; subst. eapply req_trans; [apply IH|]. unfold bind.
      destruct (fl_find_range s (map fst r)) as [os|]; simpl; auto. rewrite <- app_assoc. reflexivity.
  Qed.

  Lemma g_find_range_fill_iter_ok (s : fifol K V) (l : list (K * option V)) :
    req (g_find_range_fill_iter s l) (do os <- fl_find_range s (map fst l); Ok (s, os)).
  Proof.
    unfold g_find_range_fill_iter.
    match goal with |- req (bind (foldM ?F _ _) _) _ => pose proof (g_fill_loop F) as G end.
    specialize (G (fun s acc k ov => eq_refl) l s []). revert G.
    destruct (foldM _ _ _) as [[s' n']|]; cbn [bind]; destruct (fl_find_range s (map fst l)) as [os|]; simpl; auto.
  Qed.

  Lemma g_find_range_fill_1_ok (s : fifol K V) (l : list (K * option V)) :
    req (g_find_range_fill_1 s l) (do os <- fl_find_range s (map fst l); Ok (s, os)).
  Proof.
    unfold g_find_range_fill_1. callee (g_find_range_fill_iter_ok s l). unfold bind. crush; finish.
  Qed.

  (* ---- one public call of the generated program; the glue from the operation alphabet of the
     models to the generated methods (what harness/common.hpp `apply` does for the real class).
     fifo_cache has no peek parameter: it is dropped, as fl_step drops it ---- *)
  Definition g_step (s : fifol K V) (e : ev K V) : res (fifol K V * ret K V) :=
    match e_op e with
    | Insert _ k v a => do x <- g_insert_3 s k v a; let '(s1, b) := x in Ok (s1, RB b)
    | InsertRange l a => do x <- g_insert_range s (strip l) a; let '(s1, n) := x in Ok (s1, RN n)
    | Erase k => do x <- g_erase_1 s k; let '(s1, b) := x in Ok (s1, RB b)
    | EraseRange l => do x <- g_erase_range s l; let '(s1, n) := x in Ok (s1, RN n)
    | Find k _ => do x <- g_find_1 s k; let '(s1, r) := x in Ok (s1, RO r)
    | FindRange l _ => do x <- g_find_range s l; let '(s1, r) := x in Ok (s1, RL r)
    | FindRangeFill l _ => do x <- g_find_range_fill_1 s (map (fun k => (k, None)) l); let '(s1, r) := x in Ok (s1, RL r)
    | Size => do x <- g_size s; let '(s1, n) := x in Ok (s1, RN n)
    | Empty => do x <- g_empty s; let '(s1, b) := x in Ok (s1, RB b)
    | Capacity => do x <- g_capacity s; let '(s1, n) := x in Ok (s1, RN n)
    | _ => Ok (s, RUnsupported)
    end.

  Lemma map_fst_fill (l : list K) : map fst (map (fun k => (k, @None V)) l) = l.
  Proof. induction l; simpl; congruence. Qed.

  Theorem g_step_ok (s : fifol K V) (e : ev K V) :
    req (g_step s e) (fl_step s (e_op e) (e_now e) (e_rnd e)).
  Proof.
    unfold g_step, fl_step. destruct (e_op e); try (simpl; auto; fail).
    (* size / empty / capacity, when the source writes the observed quantity in another arithmetic form *)
    all: try (unfold g_size, g_empty, g_capacity; cbn [bind req]; apply (f_equal (pair s)); f_equal;
              first [ lia | match goal with |- ?a = ?b :> bool => destruct a eqn:?, b eqn:?; try reflexivity; arith end ]; fail).
    - unfold g_insert_3. callee (g_do_insert_update_ok s k v a). unfold bind. crush; finish.
    - callee (g_insert_range_ok s l a). unfold bind. crush; finish.
    - callee (g_erase_1_ok s k). unfold bind. crush; finish.
    - callee (g_erase_range_ok s l). unfold bind. crush; finish.
    - unfold g_find_1. callee (g_do_find_ok s k). unfold bind. crush; finish.
    - callee (g_find_range_ok s l). unfold bind. crush; finish.
    - callee (g_find_range_fill_1_ok s (map (fun k => (k, None)) l)). rewrite map_fst_fill. unfold bind. crush; finish.
  Qed.

  (* ---- the theorem the tie delivers: the program text that is in fifo_cache.hpp NOW, run on any
     history of public calls from a fresh cache, never reaches undefined behaviour and returns
     exactly the results of the mid-level model ---- *)
  Lemma fl_run_is_run_res : forall h (l : fifol K V),
      fl_run l h = run_res (fun l e => fl_step l (e_op e) (e_now e) (e_rnd e)) l h.
  Proof.
    induction h as [|e r IH]; intros l; simpl; auto.
    destruct (fl_step l (e_op e) (e_now e) (e_rnd e)) as [[l1 y]|]; simpl; auto. rewrite IH. reflexivity.
  Qed.

  Theorem generated_fifo_no_UB_on_any_history : forall cap (h : list (ev K V)),
      1 <= cap ->
      exists l', run_res g_step (fifol_init cap) h = Ok (l', snd (run (lc_step fifo_policy) (lc_init cap) h)) /\
                 fl_rep l' (fst (run (lc_step fifo_policy) (lc_init cap) h)).
  Proof.
    intros cap h Hc.
    destruct (fl_no_UB_on_any_history cap h Hc) as (l' & D & R).
    exists l'. split; auto.
    pose proof (run_res_req g_step (fun l e => fl_step l (e_op e) (e_now e) (e_rnd e)) (fun _ => True)
                  (fun s e _ => g_step_ok s e) h (fifol_init cap)) as Q.
    rewrite <- fl_run_is_run_res, D in Q. apply req_ok. apply Q. clear. induction h; constructor; auto.
  Qed.

  (* ---- the constructor, translated (member initialisers + body): it builds the literal machine's initial state,
     so the whole-history theorem starts from what the source constructs ---- *)
  Lemma g_init_ok (cap : nat) : (g_init cap : fifol K V) = fifol_init cap.
  Proof. reflexivity. Qed.
  Theorem generated_fifo_constructed_no_UB_on_any_history : forall cap (h : list (ev K V)),
      1 <= cap ->
      exists l', run_res g_step (g_init cap) h = Ok (l', snd (run (lc_step fifo_policy) (lc_init cap) h)) /\
                 fl_rep l' (fst (run (lc_step fifo_policy) (lc_init cap) h)).
  Proof. intros cap h Hc. rewrite g_init_ok. apply generated_fifo_no_UB_on_any_history; auto. Qed.

  (* ---- C06 on the translated program: in every execution of the lock-level machine (Conc.v, Section Lin: invoke,
     acquire, body = one call of the generated program, release, return) every call returns what the mid-level
     model returns when it runs the calls in the order of their critical sections ---- *)
  Theorem generated_fifo_lock_level_executions_return_model_results : forall cap ex st,
      1 <= cap ->
      mexec _ _ _ (tstep g_step RUnsupported) (minit _ _ _ (g_init cap)) ex st ->
      let l := lin _ _ _ (tstep g_step RUnsupported) (g_init cap) (fun _ => None) ex in
      (fun _ => True) (map (fun c => snd (fst c)) l) ->
      map snd l = (fun h => snd (run (lc_step fifo_policy) (lc_init cap) h)) (map (fun c => snd (fst c)) l).
  Proof.
    intros cap ex st Hc Hex.
    refine (executions_have_the_results_of_the_model g_step RUnsupported (fun _ => True) (fun h => snd (run (lc_step fifo_policy) (lc_init cap) h)) (g_init cap) _ ex st Hex).
    intros h HP. destruct (generated_fifo_constructed_no_UB_on_any_history cap h Hc) as (l' & D & _). eauto.
  Qed.
End FifoBridge.

Print Assumptions generated_fifo_no_UB_on_any_history.
Print Assumptions generated_fifo_constructed_no_UB_on_any_history.
Print Assumptions generated_fifo_lock_level_executions_return_model_results.
