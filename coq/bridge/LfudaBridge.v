(* LfudaBridge.v — the functions cpp2coq.py (+ cpp2coq_lfuda.py) generates from the CURRENT lfuda_cache.hpp
   (CappGen.GenLfuda) compute what the hand-written literal machine LfudaLit.v (da := true) computes, up to
   the reason given for undefined behaviour.  Compiled on every run against the freshly generated
   GenLfuda.v: a change of the source that changes the meaning of a translated method breaks a lemma here.
   Preconditions used: "the node is in the list" for do_access (its callers bind the element reference by
   dereferencing the list iterator, which checks exactly that), "the key is absent" for do_insert and
   "keyed_position is the node of a present key" for do_update (do_insert_update establishes both by its
   find).  Every lemma about a public method, g_step_ok included, is unconditional: it holds on ALL states,
   not only on those the representation relation of LfudaLitFacts.v allows.  The while loop of
   do_dynamic_age runs on the fuel S (size of the list) the schema states, the same bound the literal
   machine uses; that it suffices is part of dl_no_UB_on_any_history. *)
Require Import Capp.Base Capp.Spec Capp.Rr Capp.Lfuda Capp.LfudaFacts Capp.ListCacheFacts Capp.RrLit Capp.LruLit Capp.LfudaLit Capp.LfudaLitFacts
               Capp.GenPrims Capp.Conc Capp.GenConc CappGen.GenLfuda.
From Coq Require Import Strings.String Lia ZArith.

Section LfudaBridge.
  Context {K V : Type} `{EqDec K}.
  Local Open Scope list_scope.
  Local Open Scope nat_scope.

  Ltac inner :=
    match goal with
    | |- context [match ?x with _ => _ end] =>
        lazymatch x with
        | context [match _ with _ => _ end] => fail
        | _ => let E := fresh "E" in destruct x eqn:E; cbn [bind req negb andb orb] in *
        end
    end.
  Ltac proj := cbn [dl_cap dl_tick dl_rnum dl_rk dl_list dl_cells dl_end dl_index dl_mm dl_used
                    set_dl_cap set_dl_tick set_dl_rnum set_dl_rk set_dl_list set_dl_cells set_dl_end set_dl_index set_dl_mm set_dl_used
                    dc_keyed dc_lfu dc_age dc_val set_dc_keyed set_dc_lfu set_dc_age set_dc_val with_cells fst snd] in *.
  Ltac clean :=
    repeat match goal with
           | H : ?x = ?x |- _ => clear H
           | H : Some _ = Some _ |- _ => injection H as H; try subst
           | H : Ok _ = Ok _ |- _ => injection H as H; try subst
           | H : (_, _) = (_, _) |- _ => injection H; intros; try subst; clear H
           | H : Some _ = None |- _ => discriminate H
           | H : None = Some _ |- _ => discriminate H
           | H : Ok _ = UB _ |- _ => discriminate H
           | H : UB _ = Ok _ |- _ => discriminate H
           | H : true = false |- _ => discriminate H
           | H : false = true |- _ => discriminate H
           end.
  (* residual arithmetic: the source may say m_used_size += 1 for ++m_used_size, < 1 for == 0, != 0 for > 0, ...;
     the proofs below never depend on which of these forms the translator printed *)
  Ltac b2p :=
    repeat match goal with
           | H : negb _ = true |- _ => apply Bool.negb_true_iff in H
           | H : negb _ = false |- _ => apply Bool.negb_false_iff in H
           | H : (_ <? _) = true |- _ => apply Nat.ltb_lt in H
           | H : (_ <? _) = false |- _ => apply Nat.ltb_ge in H
           | H : (_ =? _) = true |- _ => apply Nat.eqb_eq in H
           | H : (_ =? _) = false |- _ => apply Nat.eqb_neq in H
           | H : (_ <=? _) = true |- _ => apply Nat.leb_le in H
           | H : (_ <=? _) = false |- _ => apply Nat.leb_gt in H
           end.
  Ltac arith := solve [ b2p; first [ exfalso; lia | f_equal; lia | lia ] ].
  (* two boolean tests over nat that say the same thing *)
  Ltac bdestr :=
    repeat match goal with
           | |- context [?a <? ?b] => destruct (Nat.ltb_spec a b)
           | |- context [?a <=? ?b] => destruct (Nat.leb_spec a b)
           | |- context [?a =? ?b] => destruct (Nat.eqb_spec a b)
           end.
  Ltac barith := solve [ reflexivity | bdestr; cbn [negb andb orb]; first [ reflexivity | exfalso; lia ] ].
  (* [same c d]: the test [c] of the generated code is rewritten into the test [d] of the literal machine *)
  Ltac same c d := first [ constr_eq c d | let E := fresh "E" in assert (E : c = d) by barith; rewrite E; clear E ].
  (* [samen a b]: same for two numbers *)
  Ltac samen a b := first [ constr_eq a b | let E := fresh "E" in assert (E : a = b) by lia; rewrite E; clear E ].
  (* the test on which the literal machine (right-hand side) branches next *)
  Ltac lit_if := match goal with |- req _ (if ?d then _ else _) => destruct d
                            | |- req _ (bind (if ?d then _ else _) _) => destruct d end.
  Ltac crush := repeat (proj; inner; clean); proj; simpl; try congruence; auto; try arith.
  Ltac callee L := let P := fresh "P" in pose proof L as P; unfold req in P; revert P.
  Ltac finish := intros; clean; subst; try contradiction; try congruence; auto; try arith.

  (* ---- vector algebra used to join several field writes into one ---- *)
  Lemma vget_upd A w (l : list A) i x : i < List.length l -> vget w (upd_nth i x l) i = Ok x.
  Proof. intros L. apply vget_inv. apply nth_error_upd_same; auto. Qed.
  Lemma vset_lt A w (l : list A) i y : i < List.length l -> vset w l i y = Ok (upd_nth i y l).
  Proof. intros L. apply vset_inv; auto. Qed.
  Lemma vset_upd A w (l : list A) i x y : i < List.length l -> vset w (upd_nth i x l) i y = Ok (upd_nth i y l).
  Proof. intros L. rewrite vset_lt by (rewrite upd_nth_length; auto). rewrite upd_nth_twice. auto. Qed.
  Lemma vget_none_ub A w (l : list A) i : nth_error l i = None -> exists u, vget w l i = UB u.
  Proof. intros E. unfold vget. rewrite E. eauto. Qed.

  (* rewriting with the known content of node [n] *)
  Ltac red1 := repeat progress (proj; cbn [bind]).
  (* after a case split of a natural number into 0 / S u: every comparison of it with a numeral computes *)
  Ltac nred := repeat progress (proj; cbn [bind negb andb orb Nat.ltb Nat.leb Nat.eqb]).
  Ltac vnorm N L :=
    red1; repeat (first [ rewrite (vget_ok _ _ _ _ _ N)
                        | rewrite (vset_lt _ _ _ _ _ L)
                        | rewrite (vget_upd _ _ _ _ _ L)
                        | rewrite (vset_upd _ _ _ _ _ _ L) ]; red1).

  (* equality of records field by field (the nested setters are never unfolded as a whole) *)
  Lemma lfdl_ext (a b : lfdl K V) :
    dl_cap a = dl_cap b -> dl_tick a = dl_tick b -> dl_rnum a = dl_rnum b -> dl_rk a = dl_rk b -> dl_list a = dl_list b ->
    dl_cells a = dl_cells b -> dl_end a = dl_end b -> dl_index a = dl_index b -> dl_mm a = dl_mm b -> dl_used a = dl_used b -> a = b.
  Proof. destruct a, b; cbn; intros; subst; reflexivity. Qed.
  Lemma dcell_ext (a b : dcell K V) :
    dc_keyed a = dc_keyed b -> dc_lfu a = dc_lfu b -> dc_age a = dc_age b -> dc_val a = dc_val b -> a = b.
  Proof. destruct a, b; cbn; intros; subst; reflexivity. Qed.
  Ltac rec_eq := apply lfdl_ext; proj; try reflexivity; try congruence; try lia; try (f_equal; lia);
                 try (f_equal; try reflexivity; apply dcell_ext; proj; try reflexivity; try congruence; try lia).
  Ltac okeq := cbn [req]; first [ rec_eq | f_equal; rec_eq ].

  (* ---- do_access ----
     The proof does not follow the ORDER in which the source reads e.m_keyed_position->second, the use count, the
     previous-of-end ..., nor how often it reads them (spelled out at every use, or read once into a local): all
     these reads are of the unchanged index / multimap / list of the entry state, so each is a SEMANTIC fact that
     is split when it is met, on whichever side it is met first, and remembered ([known] rewrites later
     occurrences with it).  Both sides are then values, compared field by field. *)
  (* rewrite with every fact of the form  x = <constructor ..>  recorded by a case split *)
  Ltac known :=
    repeat match goal with
           | H : ?x = Some _ |- context [?x] => rewrite H
           | H : ?x = None |- context [?x] => rewrite H
           | H : ?x = Ok _ |- context [?x] => rewrite H
           | H : ?x = UB _ |- context [?x] => rewrite H
           | H : ?x = true |- context [?x] => rewrite H
           | H : ?x = false |- context [?x] => rewrite H
           end.
  Ltac anorm0 := repeat progress (red1; cbn [it_node negb req]; known).
  Ltac anorm N L := repeat progress (vnorm N L; cbn [it_node negb req]; known).
  (* the next read of the entry state that stands in the goal (on either side) *)
  Ltac sem_split :=
    let E := fresh "Q" in
    match goal with
    | |- context [dc_keyed ?e] => is_var e; destruct (dc_keyed e) eqn:E
    | |- context [assoc ?k (dl_index ?s)] => is_var k; is_var s; destruct (assoc k (dl_index s)) eqn:E
    | |- context [mm_deref (dl_mm ?s) (dc_lfu ?e)] => is_var s; is_var e; destruct (mm_deref (dl_mm s) (dc_lfu e)) eqn:E
    | |- context [mm_erase (dl_mm ?s) (dc_lfu ?e)] => is_var s; is_var e; destruct (mm_erase (dl_mm s) (dc_lfu e)) eqn:E
    | |- context [l_prev (dl_list ?s) (dl_end ?s)] => is_var s; destruct (l_prev (dl_list s) (dl_end s)) eqn:E
    | |- context [iter_eqb (It ?a) ?b] => is_var a; is_var b; destruct (iter_eqb (It a) b) eqn:E
    | |- context [l_splice (dl_list ?s) (dl_end ?s) (It ?a)] => is_var s; is_var a; destruct (l_splice (dl_list s) (dl_end s) (It a)) eqn:E
    end.

  Lemma g_do_access_ok (s : lfdl K V) (n : nat) now :
    mem_nat n (dl_list s) = true -> req (g_do_access s n now) (dl_access true s n now).
  Proof.
    intros M. unfold g_do_access, dl_access, dcell_of, keyed_second, mit_second. cbn [l_deref]. rewrite M. cbn [bind].
    destruct (nth_error (dl_cells s) n) as [e|] eqn:N.
    2:{ (* the node has no cell: the first read through the element reference is undefined on both sides, whatever
           reads of the entry state precede it *)
        destruct (vget_none_ub _ "list node"%string _ _ N) as [u Hu].
        anorm0. repeat (sem_split; anorm0). all: exact I. }
    assert (L : n < List.length (dl_cells s)) by (apply nth_error_Some; congruence).
    anorm N L.
    repeat (sem_split; anorm N L).
    all: first [ exact I | solve [okeq] ].
  Qed.

  Lemma g_do_erase_ok (s : lfdl K V) (n : nat) : req (g_do_erase s (It n)) (dl_do_erase s n).
  Proof.
    unfold g_do_erase, dl_do_erase, dcell_of. cbn [l_deref].
    destruct (mem_nat n (dl_list s)) eqn:M; [|simpl; auto]. red1.
    destruct (nth_error (dl_cells s) n) as [e|] eqn:N.
    2:{ destruct (vget_none_ub _ "list node"%string _ _ N) as [u Hu]. rewrite Hu.
        unfold bind. crush; rewrite Hu in *; discriminate. }
    assert (L : n < List.length (dl_cells s)) by (apply nth_error_Some; congruence).
    vnorm N L.
    destruct (l_prev (dl_list s) (dl_end s)) as [pe|]; [|simpl; auto]. vnorm N L.
    destruct (iter_eqb (It n) pe); cbn [negb]; vnorm N L.
    - unfold bind. crush; okeq.
    - destruct (l_splice (dl_list s) (dl_end s) (It n)) as [l|]; [|simpl; auto]. vnorm N L.
      unfold bind. crush; okeq.
  Qed.


  (* ---- splice keeps the set of nodes ---- *)
  Lemma mem_insert_before pos n l x : mem_nat x (insert_before pos n l) = (Nat.eqb x n || mem_nat x l)%bool.
  Proof.
    induction l as [|y r IH]; simpl; auto.
    destruct (iter_eqb pos (It y)); simpl; auto.
    rewrite IH. destruct (Nat.eqb x n), (Nat.eqb x y); auto.
  Qed.
  Lemma mem_remove_nat_other n l x : x <> n -> mem_nat x (remove_nat n l) = mem_nat x l.
  Proof.
    intros D. induction l as [|y r IH]; simpl; auto.
    destruct (Nat.eqb_spec n y) as [->|Ny]; simpl.
    - destruct (Nat.eqb_spec x y); [congruence|auto].
    - rewrite IH. auto.
  Qed.
  Lemma l_splice_mem l pos it l' x : l_splice l pos it = Ok l' -> mem_nat x l' = mem_nat x l.
  Proof.
    unfold l_splice. destruct it as [n|]; [|discriminate].
    destruct (mem_nat n l) eqn:M; [|discriminate]. destruct (valid_it l pos); [|discriminate].
    destruct (iter_eqb pos (It n)); intros E; inversion E; subst; auto.
    rewrite mem_insert_before. destruct (Nat.eqb_spec x n) as [->|D]; simpl; auto.
    apply mem_remove_nat_other; auto.
  Qed.

  (* The loop of do_dynamic_age.  What the source carries from one round to the next besides the state and the
     counter is not looked at: either (aged, da_start, da_last) with da_start re-read from begin() at the end of every
     round, or (aged, da_last) with da_start a local of the round read from begin() at its top (the test of the head
     may then sit in a local lambda, which the translator places where it is called).  In both forms the invariant is
     "da_start is begin() of the current list", and the round is the round of the literal machine. *)
  Ltac age_round IH n :=
    match goal with
    | |- req (bind (whileB _ _ _ (?S1, ?A1, _, _)) _) (dl_age_loop _ ?S2 _ _ ?A2) =>
        let P := fresh "P" in let E := fresh "E" in
        pose proof (IH S2 A2 (It n)) as P; assert (E : S1 = S2) by rec_eq; samen A1 A2; rewrite E; proj; exact P
    | |- req (bind (whileB _ _ _ (?S1, ?A1, _)) _) (dl_age_loop _ ?S2 _ _ ?A2) =>
        let P := fresh "P" in let E := fresh "E" in
        pose proof (IH S2 A2 (It n)) as P; assert (E : S1 = S2) by rec_eq; samen A1 A2; rewrite E; proj; exact P
    end.

  Lemma g_do_dynamic_age_ok (s : lfdl K V) now : req (g_do_dynamic_age s now) (dl_dynamic_age s now).
  Proof.
    unfold g_do_dynamic_age, dl_dynamic_age.
    match goal with
    | |- req (bind (whileB _ ?C ?B (_, _, _, _)) ?F) _ =>
      assert (G : forall fuel (s : lfdl K V) aged da_last,
                 req (bind (whileB fuel C B (s, aged, l_begin (dl_list s), da_last)) F) (dl_age_loop fuel s da_last now aged))
    | |- req (bind (whileB _ ?C ?B (_, _, _)) ?F) _ =>
      assert (G : forall fuel (s : lfdl K V) aged da_last,
                 req (bind (whileB fuel C B (s, aged, da_last)) F) (dl_age_loop fuel s da_last now aged))
    end.
    { clear s. induction fuel as [|fuel IH]; intros s aged da_last; [simpl; auto|].
      cbn [whileB dl_age_loop]. 
      destruct (iter_eqb (l_begin (dl_list s)) (dl_end s)) eqn:Q; cbn [negb bind]; [simpl; auto|].
      unfold dcell_of.
      destruct (l_deref (dl_list s) (l_begin (dl_list s))) as [n|] eqn:D; [|simpl; auto]. red1.
      assert (B0 : l_begin (dl_list s) = It n /\ mem_nat n (dl_list s) = true).
      { unfold l_deref in D. destruct (l_begin (dl_list s)) as [m|]; [|discriminate].
        destruct (mem_nat m (dl_list s)) eqn:M; inversion D; subst; auto. }
      destruct B0 as [B0 M]. rewrite B0 in *.
      destruct (nth_error (dl_cells s) n) as [e|] eqn:N.
      2:{ destruct (vget_none_ub _ "list node"%string _ _ N) as [u ->]. simpl. auto. }
      assert (L : n < List.length (dl_cells s)) by (apply nth_error_Some; congruence).
      vnorm N L.
      destruct (dc_age e + ms (dl_tick s) <? now)%Z; [|simpl; auto]. red1.
      destruct (iter_eqb (It n) da_last); cbn [negb]; red1.
      - cbn [l_deref]. rewrite M. vnorm N L.
        destruct (mm_deref (dl_mm s) (dc_lfu e)) as [c|]; [|simpl; auto]. vnorm N L.
        destruct (mm_erase (dl_mm s) (dc_lfu e)) as [m1|]; [|simpl; auto]. cbn [it_node]. vnorm N L.
        age_round IH n.
      - destruct (l_splice (dl_list s) da_last (It n)) as [l|] eqn:Sp; [|simpl; auto]. red1.
        cbn [l_deref]. rewrite (l_splice_mem _ _ _ _ n Sp), M. vnorm N L.
        destruct (mm_deref (dl_mm s) (dc_lfu e)) as [c|]; [|simpl; auto]. vnorm N L.
        destruct (mm_erase (dl_mm s) (dc_lfu e)) as [m1|]; [|simpl; auto]. cbn [it_node]. vnorm N L.
        age_round IH n. }
    apply G.
  Qed.


  Lemma g_do_prune_ok (s : lfdl K V) now : req (g_do_prune s now) (dl_do_prune true s now).
  Proof.
    (* the test "the cache is not empty" is never looked at in the form the source gives it (> 0, != 0, an
       early return on == 0, !(... > 0), < 1, ...), nor is the shape of the statement around it (if/else in a
       bind, or a guard clause whose branches come in the other order): the SEMANTIC fact — is m_used_size
       zero? — is split first, and every test over the numeral 0 / S u computes on both sides *)
    unfold g_do_prune, dl_do_prune.
    destruct (dl_used s) as [|u] eqn:U; nred; [cbn [req]; reflexivity|].
    callee (g_do_dynamic_age_ok s now).
    destruct (g_do_dynamic_age s now) as [[s1 a1]|], (dl_dynamic_age s now) as [[s2 a2]|]; red1; intros P; try contradiction; auto.
    inversion P; subst. unfold mm_second, mm_begin.
    destruct (dl_mm s2) as [|[c n] r]; [simpl; auto|]. cbn [mm_count]. rewrite Nat.eqb_refl. red1.
    callee (g_do_erase_ok s2 n). unfold bind. crush; finish.
  Qed.

  (* ---- a key that is absent stays absent through do_prune (so emplace does insert) ---- *)
  Lemma index_erase_keeps_absent (ix ix' : list (K * nat)) it k :
    index_erase ix it = Ok ix' -> assoc k ix = None -> assoc k ix' = None.
  Proof.
    unfold index_erase. destruct it as [k0|]; [|discriminate].
    destruct (assoc k0 ix); [|discriminate]. intros E; inversion E; subst. intros A.
    destruct (Base.eqb_spec k k0) as [->|N].
    - apply assoc_remk_same.
    - rewrite assoc_remk_other; auto.
  Qed.

  Lemma dl_do_erase_keeps_absent (s s' : lfdl K V) n k :
    dl_do_erase s n = Ok s' -> assoc k (dl_index s) = None -> assoc k (dl_index s') = None.
  Proof.
    unfold dl_do_erase, bind. intros Q A. revert Q. crush; intros Q; clean; proj.
    all: try discriminate; eapply index_erase_keeps_absent; eauto.
  Qed.

  Lemma dl_age_loop_index : forall fuel (s : lfdl K V) da_last now aged s' a',
      dl_age_loop fuel s da_last now aged = Ok (s', a') -> dl_index s' = dl_index s.
  Proof.
    induction fuel as [|fuel IH]; intros s da_last now aged s' a' E; [discriminate|].
    cbn [dl_age_loop] in E.
    destruct (iter_eqb (l_begin (dl_list s)) (dl_end s)); [inversion E; auto|].
    destruct (dcell_of s (l_begin (dl_list s))) as [[n e]|]; cbn [bind] in E; [|discriminate].
    destruct (dc_age e + ms (dl_tick s) <? now)%Z; [|inversion E; auto].
    destruct (if iter_eqb (l_begin (dl_list s)) da_last then Ok (dl_list s) else l_splice (dl_list s) da_last (l_begin (dl_list s)));
      cbn [bind] in E; [|discriminate].
    destruct (mm_deref (dl_mm s) (dc_lfu e)); cbn [bind] in E; [|discriminate].
    destruct (mm_erase (dl_mm s) (dc_lfu e)); cbn [bind] in E; [|discriminate].
    destruct (vset _ _ _ _); cbn [bind] in E; [|discriminate].
    apply IH in E. exact E.
  Qed.

  Lemma dl_do_prune_keeps_absent (s s' : lfdl K V) now k :
    dl_do_prune true s now = Ok s' -> assoc k (dl_index s) = None -> assoc k (dl_index s') = None.
  Proof.
    unfold dl_do_prune. destruct (0 <? dl_used s); [|intros E; inversion E; subst; auto].
    unfold dl_dynamic_age.
    destruct (dl_age_loop _ s (dl_end s) now 0) as [[s1 a1]|] eqn:G; cbn [bind fst]; [|discriminate].
    apply dl_age_loop_index in G. destruct (dl_mm s1) as [|[c n] r]; [discriminate|].
    intros E A. eapply dl_do_erase_keeps_absent; eauto. rewrite G. auto.
  Qed.

  Lemma g_do_insert_ok (s : lfdl K V) k v now :
    assoc k (dl_index s) = None -> req (g_do_insert s k v now) (dl_do_insert true s k v now).
  Proof.
    intros A. unfold g_do_insert, dl_do_insert.
    match goal with |- req (bind (if ?c then _ else _) _) (bind (if ?d then _ else _) _) => same c d end.
    apply req_bind.
    - lit_if; [|simpl; auto].
      callee (g_do_prune_ok s now). unfold bind. crush; finish.
    - intros s1 E1.
      assert (A1 : assoc k (dl_index s1) = None).
      { match type of E1 with (if ?d then _ else _) = _ => destruct d end; [|inversion E1; subst; auto].
        pose proof (g_do_prune_ok s now) as P. unfold bind in E1.
        destruct (g_do_prune s now) eqn:G; [|discriminate]. inversion E1; subst.
        destruct (dl_do_prune true s now) eqn:L; simpl in P; [|contradiction]. subst.
        eapply dl_do_prune_keeps_absent; eauto. }
      unfold dcell_of.
      destruct (l_deref (dl_list s1) (dl_end s1)) as [n|] eqn:D; [|simpl; auto]. red1.
      assert (B0 : dl_end s1 = It n).
      { unfold l_deref in D. destruct (dl_end s1) as [m|]; [|discriminate].
        destruct (mem_nat m (dl_list s1)); inversion D; subst; auto. }
      rewrite B0 in *. cbn [it_node]. red1.
      destruct (nth_error (dl_cells s1) n) as [e|] eqn:N.
      2:{ destruct (vget_none_ub _ "list node"%string _ _ N) as [u Hu]. rewrite Hu.
          unfold bind. crush; rewrite Hu in *; discriminate. }
      assert (L : n < List.length (dl_cells s1)) by (apply nth_error_Some; congruence).
      unfold umap_emplace. rewrite A1. vnorm N L.
      destruct (index_emplace (dl_cap s1) (dl_index s1) k n) as [ix|]; [|simpl; auto]. vnorm N L.
      destruct (l_next (dl_list s1) (It n)) as [ne|]; [|simpl; auto]. red1. okeq.
  Qed.

  Lemma g_do_update_ok (s : lfdl K V) k n v now :
    assoc k (dl_index s) = Some n -> req (g_do_update s (Some k) v now) (dl_do_update true s n v now).
  Proof.
    intros A. unfold g_do_update, dl_do_update, mit_second, dcell_of. rewrite A. red1. cbn [l_deref].
    destruct (mem_nat n (dl_list s)) eqn:M; [|simpl; auto]. red1.
    destruct (nth_error (dl_cells s) n) as [e|] eqn:N.
    2:{ destruct (vget_none_ub _ "list node"%string _ _ N) as [u ->]. simpl. auto. }
    assert (L : n < List.length (dl_cells s)) by (apply nth_error_Some; congruence).
    vnorm N L.
    match goal with |- req (bind (g_do_access ?st _ _) _) (dl_access true ?st2 _ _) =>
      assert (E : st2 = st) by rec_eq; rewrite E; callee (g_do_access_ok st n now M) end.
    unfold bind. crush; finish.
  Qed.

  (* ---- the lookups: m_keyed_elements.find(key) compared with end() ----
     The proofs below never look at HOW the generated code tests the result of the find (== end() or != end(),
     end() on the left or on the right, if/else or an early return, inline or through a private helper the
     translator inlined, an element reference or an element pointer compared with nullptr): they split on the
     SEMANTIC fact — is the key in the index? — and let [gred] compute every such test on both sides. *)
  Ltac gred := repeat progress (proj; cbn [bind negb andb orb mit_eqb opt_has_value ptr_deref opt_value]).
  (* [ixcase k s n A]: is key [k] in the index of [s]?  (find, it->second and every test on the iterator reduce) *)
  Ltac ixcase k s n A :=
    unfold mit_find, mit_second;
    destruct (assoc k (dl_index s)) as [n|] eqn:A; gred; rewrite ?A; gred.

  Lemma g_do_insert_update_ok (s : lfdl K V) k v now a : req (g_do_insert_update s k v now a) (dl_ins true s k v a now).
  Proof.
    unfold g_do_insert_update, dl_ins. ixcase k s n A.
    - destruct (a_upd a); gred; [|simpl; auto].
      callee (g_do_update_ok s k n v now A). unfold bind. crush; finish.
    - destruct (a_ins a); gred; [|simpl; auto].
      callee (g_do_insert_ok s k v now A). unfold bind. crush; finish.
  Qed.

  (* do_access keeps the set of list nodes *)
  Lemma dl_access_mem (s s1 : lfdl K V) n now x :
    dl_access true s n now = Ok s1 -> mem_nat x (dl_list s1) = mem_nat x (dl_list s).
  Proof.
    unfold dl_access. destruct (dcell_of s (It n)) as [[m e]|]; cbn [bind]; [|discriminate].
    destruct (mm_deref (dl_mm s) (dc_lfu e)); cbn [bind]; [|discriminate].
    destruct (mm_erase (dl_mm s) (dc_lfu e)); cbn [bind]; [|discriminate].
    destruct (keyed_second s e) as [kn|]; cbn [bind]; [|discriminate].
    destruct (l_prev (dl_list s) (dl_end s)) as [last|]; cbn [bind]; [|discriminate].
    destruct (iter_eqb (It kn) last); cbn [bind].
    - destruct (vset _ _ _ _); cbn [bind]; intros E; inversion E; subst; auto.
    - destruct (l_splice (dl_list s) (dl_end s) (It kn)) as [l|] eqn:Sp; cbn [bind]; [|discriminate].
      destruct (vset _ _ _ _); cbn [bind]; intros E; inversion E; subst. proj.
      eapply l_splice_mem; eauto.
  Qed.

  Ltac find_tail := unfold bind, vget, val_pair; crush.

  (* the shared shape of do_find / do_find_with_use_count: key present at node n; is n a node of the list (the
     element reference binds)?; peek or access; then the reads through the element *)
  Ltac find_body s k pk now n A :=
    cbn [l_deref];
    destruct (mem_nat n (dl_list s)) eqn:M; gred;
    [ destruct pk; gred;
      [ unfold dcell_of; cbn [l_deref]; rewrite M; find_tail
      | callee (g_do_access_ok s n now M);
        let DA := fresh "DA" in
        destruct (g_do_access s n now) as [s1|], (dl_access true s n now) as [s2|] eqn:DA; gred; intros P; try contradiction; auto;
        subst; unfold dcell_of; cbn [l_deref]; rewrite (dl_access_mem _ _ _ _ n DA), M; find_tail ]
    | destruct pk; gred; unfold dl_access, dcell_of; cbn [l_deref]; rewrite M; simpl; auto ].

  Lemma g_do_find_ok (s : lfdl K V) k pk now : req (g_do_find s k pk now) (dl_find true s k pk now).
  Proof.
    unfold g_do_find, dl_find. ixcase k s n A; [|simpl; auto].
    find_body s k pk now n A.
  Qed.

  Lemma g_do_find_with_use_count_ok (s : lfdl K V) k pk now :
    req (g_do_find_with_use_count s k pk now) (dl_find_use true s k pk now).
  Proof.
    unfold g_do_find_with_use_count, dl_find_use. ixcase k s n A; [|simpl; auto].
    find_body s k pk now n A.
  Qed.

  Lemma g_erase_ok (s : lfdl K V) k : req (g_erase s k) (dl_erase s k).
  Proof.
    unfold g_erase, dl_erase. ixcase k s n A; [|simpl; auto].
    callee (g_do_erase_ok s n). unfold bind. crush; finish.
  Qed.

  (* ---- the range calls: the generated range-for loops against the literal recursions ---- *)
  Definition strip (l : list (Z * K * V)) : list (K * V) := map (fun x => (snd (fst x), snd x)) l.

  Lemma g_insert_range_ok clk (s : lfdl K V) l a : req (g_insert_range clk s (strip l) a) (dl_ins_range true s l a clk 0).
  Proof.
    unfold g_insert_range.
    match goal with |- req (bind (foldM ?F _ _) _) _ =>
      assert (G : forall l s n, req (foldM F (strip l) (s, n)) (dl_ins_range true s l a clk n)) end.
    { clear. induction l as [|[[z k] v] r IH]; intros s n; simpl; auto.
      callee (g_do_insert_update_ok s k v clk a). unfold bind at 1 2 3.
      destruct (g_do_insert_update s k v clk a) as [[s1 b]|], (dl_ins true s k v a clk) as [[s2 b2]|]; intros P; try contradiction; auto.
      inversion P; subst. destruct b2; cbn [bind];
        match goal with |- req (foldM _ _ (_, ?n1)) (dl_ins_range _ _ _ _ _ ?n2) => samen n1 n2 end; apply IH. }
    specialize (G l s 0). revert G.
    destruct (foldM _ _ _) as [[s' n']|]; cbn [bind]; auto.
  Qed.

  Lemma g_erase_range_ok (s : lfdl K V) l : req (g_erase_range s l) (dl_erase_range s l 0).
  Proof.
    unfold g_erase_range.
    match goal with |- req (bind (foldM ?F _ _) _) _ =>
      assert (G : forall l s n, req (foldM F l (s, n)) (dl_erase_range s l n)) end.
    { clear. induction l as [|k r IH]; intros s n; simpl; auto.
      unfold dl_erase. ixcase k s idx A; [|apply IH].
      callee (g_do_erase_ok s idx).
      destruct (g_do_erase s (It idx)) as [s1|], (dl_do_erase s idx) as [s2|]; simpl; intros P; try contradiction; auto.
      subst. match goal with |- req (foldM _ _ (_, ?n1)) (dl_erase_range _ _ ?n2) => samen n1 n2 end. apply IH. }
    specialize (G l s 0). revert G.
    destruct (foldM _ _ _) as [[s' n']|]; cbn [bind]; auto.
  Qed.

  Lemma g_find_range_loop (pk : bool) now F :
    (forall s acc k, F (s, acc) k = (do x <- g_do_find s k pk now; let '(s1, r) := x in Ok (s1, acc ++ [(k, r)]))) ->
    forall l (s : lfdl K V) (acc : list (K * option V)),
      req (foldM F l (s, acc)) (do y <- dl_find_range true s l pk now; let '(s2, os) := y in Ok (s2, acc ++ os)).
  Proof.
    intros HF. induction l as [|k r IH]; intros s acc; simpl.
    - rewrite app_nil_r. auto.
    - rewrite HF. callee (g_do_find_ok s k pk now). unfold bind at 1 2 4 5.
      destruct (g_do_find s k pk now) as [[s1 o]|], (dl_find true s k pk now) as [[s2 o2]|]; intros P; try contradiction; auto.
      inversion P; subst. eapply req_trans; [apply IH|]. unfold bind.
      destruct (dl_find_range true s2 r pk now) as [[s3 os]|]; simpl; auto. rewrite <- app_assoc. reflexivity.
  Qed.

  Lemma g_find_range_ok clk (s : lfdl K V) l pk : req (g_find_range clk s l pk) (dl_find_range true s l pk clk).
  Proof.
    unfold g_find_range.
    match goal with |- req (bind (foldM ?F _ _) _) _ => pose proof (g_find_range_loop pk clk F) as G end.
    specialize (G (fun s acc k => eq_refl) l s []). revert G.
    destruct (foldM _ _ _) as [[s' n']|]; cbn [bind]; destruct (dl_find_range true s l pk clk) as [[s2 os]|]; simpl; auto.
  Qed.

  Lemma g_find_fill_loop (pk : bool) now F :
    (forall s acc k ov, F (s, acc) (k, ov) = (do x <- g_do_find s k pk now; let '(s1, r) := x in Ok (s1, acc ++ [(k, r)]))) ->
    forall (l : list (K * option V)) (s : lfdl K V) (acc : list (K * option V)),
      req (foldM F l (s, acc)) (do y <- dl_find_range true s (map fst l) pk now; let '(s2, os) := y in Ok (s2, acc ++ os)).
  Proof.
    intros HF. induction l as [|[k ov] r IH]; intros s acc; simpl.
    - rewrite app_nil_r. auto.
    - rewrite HF. callee (g_do_find_ok s k pk now). unfold bind at 1 2 4 5.
      destruct (g_do_find s k pk now) as [[s1 o]|], (dl_find true s k pk now) as [[s2 o2]|]; intros P; try contradiction; auto.
      inversion P; subst. eapply req_trans; [apply IH|]. unfold bind.
      destruct (dl_find_range true s2 (map fst r) pk now) as [[s3 os]|]; simpl; auto. rewrite <- app_assoc. reflexivity.
  Qed.

  Lemma g_find_range_fill_ok clk (s : lfdl K V) (l : list (K * option V)) pk :
    req (g_find_range_fill clk s l pk) (dl_find_range true s (map fst l) pk clk).
  Proof.
    unfold g_find_range_fill.
    match goal with |- req (bind (foldM ?F _ _) _) _ => pose proof (g_find_fill_loop pk clk F) as G end.
    specialize (G (fun s acc k ov => eq_refl) l s []). revert G.
    destruct (foldM _ _ _) as [[s' n']|]; cbn [bind]; destruct (dl_find_range true s (map fst l) pk clk) as [[s2 os]|]; simpl; auto.
  Qed.

  (* ---- one public call of the generated program: the glue from the operation alphabet of the models to the
     generated methods; the clock reading of the call (std::chrono::steady_clock::now()) is e_now of the event ---- *)
  Definition g_step (s : lfdl K V) (e : ev K V) : res (lfdl K V * ret K V) :=
    match e_op e with
    | Insert _ k v a => do x <- g_insert (e_now e) s k v a; let '(s1, b) := x in Ok (s1, RB b)
    | InsertRange l a => do x <- g_insert_range (e_now e) s (strip l) a; let '(s1, n) := x in Ok (s1, RN n)
    | Erase k => do x <- g_erase s k; let '(s1, b) := x in Ok (s1, RB b)
    | EraseRange l => do x <- g_erase_range s l; let '(s1, n) := x in Ok (s1, RN n)
    | Find k pk => do x <- g_find (e_now e) s k pk; let '(s1, r) := x in Ok (s1, RO r)
    | FindUse k pk => do x <- g_find_with_use_count (e_now e) s k pk; let '(s1, r) := x in Ok (s1, RU r)
    | FindRange l pk => do x <- g_find_range (e_now e) s l pk; let '(s1, r) := x in Ok (s1, RL r)
    | FindRangeFill l pk => do x <- g_find_range_fill (e_now e) s (map (fun k => (k, None)) l) pk; let '(s1, r) := x in Ok (s1, RL r)
    | DynAge => do x <- g_dynamically_age (e_now e) s; let '(s1, n) := x in Ok (s1, RN n)
    | Size => do x <- g_size s; let '(s1, n) := x in Ok (s1, RN n)
    | Empty => do x <- g_empty s; let '(s1, b) := x in Ok (s1, RB b)
    | Capacity => do x <- g_capacity s; let '(s1, n) := x in Ok (s1, RN n)
    | _ => Ok (s, RUnsupported)
    end.

  Lemma map_fst_fill (l : list K) : map fst (map (fun k => (k, @None V)) l) = l.
  Proof. induction l; simpl; congruence. Qed.

  Theorem g_step_ok (s : lfdl K V) (e : ev K V) :
    req (g_step s e) (dl_step true s (e_op e) (e_now e) (e_rnd e)).
  Proof.
    unfold g_step, dl_step. destruct (e_op e); try (simpl; auto; fail);
      try (try unfold g_size; try unfold g_empty; try unfold g_capacity; cbn [bind req]; barith; fail).
    - unfold g_insert. callee (g_do_insert_update_ok s k v (e_now e) a). unfold bind. crush; finish.
    - callee (g_insert_range_ok (e_now e) s l a). unfold bind. crush; finish.
    - callee (g_erase_ok s k). unfold bind. crush; finish.
    - callee (g_erase_range_ok s l). unfold bind. crush; finish.
    - unfold g_find. callee (g_do_find_ok s k peek (e_now e)). unfold bind. crush; finish.
    - callee (g_find_range_ok (e_now e) s l peek). unfold bind. crush; finish.
    - callee (g_find_range_fill_ok (e_now e) s (map (fun k => (k, None)) l) peek). rewrite map_fst_fill. unfold bind. crush; finish.
    - unfold g_find_with_use_count. callee (g_do_find_with_use_count_ok s k peek (e_now e)). unfold bind. crush; finish.
    - unfold g_dynamically_age. callee (g_do_dynamic_age_ok s (e_now e)). unfold bind. crush; finish.
  Qed.

  (* ---- the theorem the tie delivers: the program text that is in lfuda_cache.hpp NOW, run on any history of
     public calls at non-decreasing clock readings from a fresh cache (tick >= 0), never reaches undefined
     behaviour — in particular the while loop of do_dynamic_age ends within S (capacity) rounds — and returns
     exactly the results of the mid-level model Lfuda.v ---- *)
  Lemma dl_run_is_run_res : forall h (l : lfdl K V),
      dl_run l h = run_res (fun l e => dl_step true l (e_op e) (e_now e) (e_rnd e)) l h.
  Proof. induction h as [|e r IH]; intros l; simpl; auto. destruct (dl_step true l (e_op e) (e_now e) (e_rnd e)) as [[l1 y]|]; simpl; auto. rewrite IH. reflexivity. Qed.

  Theorem generated_lfuda_no_UB_on_any_history : forall cap tick rnum rk (h : list (ev K V)),
      1 <= cap -> (0 <= tick)%Z -> mono_from 0 h ->
      exists l', run_res g_step (lfdl_init cap tick rnum rk) h
                 = Ok (l', snd (run lf_step (lf_init cap tick rnum rk) h)) /\
                 dl_rep l' (fst (run lf_step (lf_init cap tick rnum rk) h)).
  Proof.
    intros cap tick rnum rk h Hc Ht M.
    destruct (dl_no_UB_on_any_history cap tick rnum rk h Hc Ht M) as (l' & D & R).
    exists l'. split; auto.
    pose proof (run_res_req g_step (fun l e => dl_step true l (e_op e) (e_now e) (e_rnd e)) (fun _ => True)
                  (fun s e _ => g_step_ok s e) h (lfdl_init cap tick rnum rk)) as Q.
    rewrite <- dl_run_is_run_res, D in Q. apply req_ok. apply Q. clear. induction h; constructor; auto.
  Qed.

  (* ---- the constructor, translated (member initialisers + body): it builds the literal machine's initial state,
     so the whole-history theorem starts from what the source constructs ---- *)
  (* the float ratio of the C++ constructor is the dyadic rnum / 2^rk *)
  Lemma g_init_ok (cap : nat) tick rnum rk : (g_init cap tick rnum rk : lfdl K V) = lfdl_init cap tick rnum rk.
  Proof. reflexivity. Qed.
  Theorem generated_lfuda_constructed_no_UB_on_any_history : forall cap tick rnum rk (h : list (ev K V)),
      1 <= cap -> (0 <= tick)%Z -> mono_from 0 h ->
      exists l', run_res g_step (g_init cap tick rnum rk) h
                 = Ok (l', snd (run lf_step (lf_init cap tick rnum rk) h)) /\
                 dl_rep l' (fst (run lf_step (lf_init cap tick rnum rk) h)).
  Proof. intros cap tick rnum rk h Hc Ht M. rewrite g_init_ok. apply generated_lfuda_no_UB_on_any_history; auto. Qed.

  (* ---- C06 on the translated program: in every execution of the lock-level machine (Conc.v, Section Lin: invoke,
     acquire, body = one call of the generated program, release, return) every call returns what the mid-level
     model returns when it runs the calls in the order of their critical sections — provided the clock readings
     are monotone in that order, which is the case when a call reads the clock inside its critical section; where
     the source reads it before taking the lock, this is an assumption about the schedule (the scheduler check of
     C06 examines such schedules on the real code) ---- *)
  Theorem generated_lfuda_lock_level_executions_return_model_results : forall cap tick rnum rk ex st,
      1 <= cap -> (0 <= tick)%Z ->
      mexec _ _ _ (tstep g_step RUnsupported) (minit _ _ _ (g_init cap tick rnum rk)) ex st ->
      let l := lin _ _ _ (tstep g_step RUnsupported) (g_init cap tick rnum rk) (fun _ => None) ex in
      (fun h => mono_from 0 h) (map (fun c => snd (fst c)) l) ->
      map snd l = (fun h => snd (run lf_step (lf_init cap tick rnum rk) h)) (map (fun c => snd (fst c)) l).
  Proof.
    intros cap tick rnum rk ex st Hc Ht Hex.
    refine (executions_have_the_results_of_the_model g_step RUnsupported (fun h => mono_from 0 h) (fun h => snd (run lf_step (lf_init cap tick rnum rk) h)) (g_init cap tick rnum rk) _ ex st Hex).
    intros h HP. destruct (generated_lfuda_constructed_no_UB_on_any_history cap tick rnum rk h Hc Ht HP) as (l' & D & _). eauto.
  Qed.
End LfudaBridge.

Print Assumptions generated_lfuda_no_UB_on_any_history.
Print Assumptions generated_lfuda_constructed_no_UB_on_any_history.
Print Assumptions generated_lfuda_lock_level_executions_return_model_results.
