(* Container.v — the ten containers behind one interface (kind, config, state, step,
   side-effect-free view).  Everything the driver and the generic properties use. *)
Require Import Capp.Base Capp.ListCache Capp.Rr Capp.Lfuda Capp.TtlLru Capp.UtMap.

Inductive kind := KLru | KMru | KFifo | KRr | KLfu | KLfuda | KTlru | KUtlru | KUtMap | KUtSet.

Record config := {
  c_cap  : nat;     (* capacity (ignored by ut_map / ut_set) *)
  c_ttl  : Z;       (* ms: utlru / ut_map / ut_set constructor TTL *)
  c_tick : Z;       (* ms: lfuda dynamic_age_tick *)
  c_rnum : nat;     (* lfuda dynamic_age_ratio = c_rnum / 2^c_rk *)
  c_rk   : nat
}.

Section Container.
  Context {K V : Type} `{EqDec K}.

  Inductive cstate :=
  | SLc (p : lc_policy) (s : lc K V)
  | SRr (s : rr K V)
  | SLf (frozen : bool) (s : lf K V)
  | STl (s : tl K V)
  | SUm (s : um K V).

  Definition c_init (kd : kind) (c : config) : cstate :=
    match kd with
    | KLru => SLc lru_policy (lc_init (c_cap c))
    | KMru => SLc mru_policy (lc_init (c_cap c))
    | KFifo => SLc fifo_policy (lc_init (c_cap c))
    | KRr => SRr (rr_init (c_cap c))
    | KLfu => SLf true (lfu_init (c_cap c))
    | KLfuda => SLf false (lf_init (c_cap c) (c_tick c) (c_rnum c) (c_rk c))
    | KTlru => STl (tl_init false (c_cap c) 0)
    | KUtlru => STl (tl_init true (c_cap c) (c_ttl c))
    | KUtMap | KUtSet => SUm (um_init (c_ttl c))
    end.

  Definition c_step (s : cstate) (o : op K V) (now : Z) (rnd : list nat) : cstate * ret K V :=
    match s with
    | SLc p s => let '(s1, r) := lc_step p s o now rnd in (SLc p s1, r)
    | SRr s => let '(s1, r) := rr_step s o now rnd in (SRr s1, r)
    | SLf true s => let '(s1, r) := lfu_step s o now rnd in (SLf true s1, r)
    | SLf false s => let '(s1, r) := lf_step s o now rnd in (SLf false s1, r)
    | STl s => let '(s1, r) := tl_step s o now rnd in (STl s1, r)
    | SUm s => let '(s1, r) := um_step s o now rnd in (SUm s1, r)
    end.

  Definition c_view (s : cstate) (now : Z) (k : K) : option V :=
    match s with
    | SLc _ s => lc_view s now k
    | SRr s => rr_view s now k
    | SLf _ s => lf_view s now k
    | STl s => tl_view s now k
    | SUm s => um_view s now k
    end.

  Definition c_view_use (s : cstate) (k : K) : option (V * nat) :=
    match s with
    | SLf _ s => lf_view_use s k
    | _ => None
    end.

  Definition c_get (s : cstate) (k : K) : option (V * dl) :=
    match s with
    | SLc _ s => lc_get s k
    | SRr s => rr_get s k
    | SLf _ s => lf_get s k
    | STl s => tl_get s k
    | SUm s => um_get s k
    end.

  Definition c_size (s : cstate) : nat :=
    match s with
    | SLc _ s => lc_size s
    | SRr s => rr_end s
    | SLf _ s => lf_size s
    | STl s => tl_size s
    | SUm s => um_size s
    end.

  Definition c_capacity (s : cstate) : option nat :=
    match s with
    | SLc _ s => Some (lc_cap s)
    | SRr s => Some (rr_cap s)
    | SLf _ s => Some (lf_cap s)
    | STl s => Some (tl_cap s)
    | SUm _ => None
    end.
End Container.
Arguments cstate : clear implicits.
