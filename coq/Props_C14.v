(* C14 LFUDA dynamic aging: idle entries decay exactly at aging points. *)
Require Import Capp.Base Capp.Spec Capp.Lfuda Capp.LfudaFacts.

(* an aging point at [now] ages exactly the resident entries that have not been used or aged
   for strictly longer than the tick: count := floor(count * ratio), idle timer := now; every
   other entry keeps count and timer; the number aged is returned *)
Theorem C14_aging_point_exact :
  forall (K V : Type) (E : EqDec K) t (s : lf K V) now s' n,
    lf_inv t s -> (t <= now)%Z -> lf_dyn_age s now = (s', n) ->
    lf_inv now s' /\
    (forall k, lf_get s' k = lf_get s k) /\
    (forall k, ageable s now k ->
               lf_stamp s' k = Some now /\ lf_count s' k = scale (lf_rnum s) (lf_rk s) (lf_count s k)) /\
    (forall k, lf_get s k <> None -> ~ ageable s now k ->
               lf_stamp s' k = lf_stamp s k /\ lf_count s' k = lf_count s k) /\
    n = length (filter (fun x => (snd (snd x) + ms (lf_tick s) <? now)%Z) (lf_ents s)).
Proof. exact @lfuda_dyn_age_exact. Qed.
Print Assumptions C14_aging_point_exact.

(* dynamically_age() is that aging point and returns that number *)
Theorem C14_dynamically_age_is_an_aging_point :
  forall (K V : Type) (E : EqDec K) (s : lf K V) now rnd,
    lf_step s DynAge now rnd = (fst (lf_dyn_age s now), RN (snd (lf_dyn_age s now))).
Proof. exact @lfuda_dynage_op. Qed.
Print Assumptions C14_dynamically_age_is_an_aging_point.

(* just before a victim is chosen there is an aging point; the victim then has minimal count *)
Theorem C14_eviction_ages_first_then_takes_minimum :
  forall (K V : Type) (E : EqDec K) t (s : lf K V) ttl k v a now rnd s',
    lf_inv t s -> (t <= now)%Z -> lf_size s = lf_cap s -> lf_get s k = None ->
    lf_step s (Insert ttl k v a) now rnd = (s', RB true) ->
    let s1 := fst (lf_dyn_age s now) in
    exists kv, kv <> k /\ lf_get s kv <> None /\ lf_get s' kv = None /\
      (forall k', k' <> k -> k' <> kv ->
                  lf_get s' k' = lf_get s k' /\ lf_count s' k' = lf_count s1 k' /\
                  lf_stamp s' k' = lf_stamp s1 k') /\
      (forall k', lf_get s k' <> None -> lf_count s1 kv <= lf_count s1 k') /\
      lf_count s' k = 1 /\ lf_stamp s' k = Some now.
Proof. exact @lfuda_evicting_insert. Qed.
Print Assumptions C14_eviction_ages_first_then_takes_minimum.

(* a use counts like lfu and restarts the idle timer, touching no other entry *)
Theorem C14_use_counts_and_restarts_timer :
  forall (K V : Type) (E : EqDec K) t (s : lf K V) k v now,
    lf_inv t s -> (t <= now)%Z -> lf_get s k <> None ->
    let s' := lf_access s k v now in
    lf_count s' k = S (lf_count s k) /\ lf_stamp s' k = Some now /\
    (forall k', k' <> k -> lf_count s' k' = lf_count s k' /\ lf_stamp s' k' = lf_stamp s k' /\
                           lf_get s' k' = lf_get s k').
Proof. exact @lfuda_use. Qed.
Print Assumptions C14_use_counts_and_restarts_timer.

(* everything else (no aging point, entry not used) leaves count and timer alone *)
Theorem C14_no_decay_between_aging_points :
  forall (K V : Type) (E : EqDec K) t (s : lf K V) o now rnd s' r k',
    lf_inv t s -> (t <= now)%Z -> single o = true -> lf_step s o now rnd = (s', r) ->
    o <> DynAge -> (forall ttl k v a, o = Insert ttl k v a -> lf_get s k = None -> lf_size s < lf_cap s) ->
    (forall ttl v a, o <> Insert ttl k' v a) -> (forall pk, o <> Find k' pk) -> (forall pk, o <> FindUse k' pk) ->
    lf_get s' k' <> None ->
    lf_count s' k' = lf_count s k' /\ lf_stamp s' k' = lf_stamp s k'.
Proof. exact @lfuda_frame. Qed.
Print Assumptions C14_no_decay_between_aging_points.

(* non-vacuity: tick 5 ms, ratio 1/2: insert 1, 2; +10 ms; find 1 (count 2); the idle entry 2
   is aged by dynamically_age(), entry 1 (just used) is not; it returns 1 *)
Example C14_example :
  let both := {| a_ins := true; a_upd := true |} in
  let s0 := lf_init (K := Z) (V := Z) 2 5 1 1 in
  let '(s1, _) := lf_step s0 (Insert 0 1 10 both)%Z 0%Z [] in
  let '(s2, _) := lf_step s1 (Insert 0 2 20 both)%Z 0%Z [] in
  let '(s3, _) := lf_step s2 (Find 1 false)%Z 10000000%Z [] in
  let '(s4, r) := lf_step s3 DynAge 10000000%Z [] in
  (r, lf_count s4 1%Z, lf_count s4 2%Z) = (RN 1, 2, 0).
Proof. vm_compute. reflexivity. Qed.
