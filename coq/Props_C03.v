(* C03 Retention: loss only by erase, clear, expiry, or one victim per full insert. *)
Require Import Capp.Base Capp.Spec Capp.Generic Capp.Container Capp.AllKinds Capp.Lift.

(* A live entry that a call does not itself erase, overwrite or clear survives the call
   unchanged (value and expiry) — for every single call: lookups, updates, rejected inserts,
   erases of other keys, dynamically_age, clean_expired_values, observers — unless the call
   is a successful insert of a NEW key into a store whose size equals its capacity; then at
   most that one live entry is lost, no resident entry was expired, size stays at capacity. *)
Theorem C03_retention :
  forall (K V : Type) (E : EqDec K) (kd : kind) (cfg : config), valid_config kd cfg ->
  forall tr t s o now rnd s' r k,
    let M := kind_model (K:=K) (V:=V) kd in
    wruns M 0 (kind_init kd cfg) tr t s ->
    single o = true -> (t <= now)%Z -> m_rnd_ok M s rnd -> m_step M s o now rnd = (s', r) ->
    touches o k = false -> livek (m_get M s) now k ->
    m_get M s' k = m_get M s k \/
    (m_get M s' k = None /\ m_bounded M = true /\
     (exists ttl k0 v a, o = Insert ttl k0 v a /\ r = RB true /\ m_get M s k0 = None /\ k0 <> k) /\
     m_size M s = m_cap M s /\ m_size M s' = m_cap M s /\
     (forall k'', ~ deadk (m_get M s) now k'') /\
     (forall k'', touches o k'' = false -> lost_live (m_get M s) (m_get M s') now k'' -> k'' = k)).
Proof. intros K V E kd cfg Hv. exact (L_retention kd cfg Hv). Qed.
Print Assumptions C03_retention.

(* every successful insert of a new key into a full cache removes EXACTLY one previously
   resident entry and leaves size() at capacity() *)
Theorem C03_full_insert_removes_exactly_one :
  forall (K V : Type) (E : EqDec K) (kd : kind) (cfg : config), valid_config kd cfg ->
  forall tr t s ttl k v a now rnd s',
    let M := kind_model (K:=K) (V:=V) kd in
    m_bounded M = true -> wruns M 0 (kind_init kd cfg) tr t s ->
    (t <= now)%Z -> m_rnd_ok M s rnd ->
    m_step M s (Insert ttl k v a) now rnd = (s', RB true) ->
    m_get M s k = None -> m_size M s = m_cap M s ->
    m_size M s' = m_cap M s /\
    exists kv, kv <> k /\ m_get M s kv <> None /\ m_get M s' kv = None /\
      (forall k', k' <> k -> k' <> kv -> m_get M s' k' = m_get M s k').
Proof. intros K V E kd cfg Hv. exact (L_exactly_one kd cfg Hv). Qed.
Print Assumptions C03_full_insert_removes_exactly_one.

(* an insert into a non-full cache removes no live entry *)
Theorem C03_no_loss_when_not_full :
  forall (K V : Type) (E : EqDec K) (kd : kind) (cfg : config), valid_config kd cfg ->
  forall tr t s o now rnd s' r k,
    let M := kind_model (K:=K) (V:=V) kd in
    wruns M 0 (kind_init kd cfg) tr t s ->
    single o = true -> (t <= now)%Z -> m_rnd_ok M s rnd -> m_step M s o now rnd = (s', r) ->
    touches o k = false -> livek (m_get M s) now k -> m_size M s <> m_cap M s ->
    m_get M s' k = m_get M s k.
Proof. intros K V E kd cfg Hv. exact (L_not_full kd cfg Hv). Qed.
Print Assumptions C03_no_loss_when_not_full.

(* no call other than a successful insert of a new key removes a live entry it does not address *)
Theorem C03_only_new_key_inserts_evict :
  forall (K V : Type) (E : EqDec K) (kd : kind) (cfg : config), valid_config kd cfg ->
  forall tr t s o now rnd s' r k,
    let M := kind_model (K:=K) (V:=V) kd in
    wruns M 0 (kind_init kd cfg) tr t s ->
    single o = true -> (t <= now)%Z -> m_rnd_ok M s rnd -> m_step M s o now rnd = (s', r) ->
    touches o k = false -> livek (m_get M s) now k ->
    (forall ttl k0 v a, o = Insert ttl k0 v a -> r = RB true -> m_get M s k0 <> None) ->
    m_get M s' k = m_get M s k.
Proof. intros K V E kd cfg Hv. exact (L_only_new kd cfg Hv). Qed.
Print Assumptions C03_only_new_key_inserts_evict.

(* ut_map and ut_set never evict *)
Theorem C03_ut_map_set_never_evict :
  forall (K V : Type) (E : EqDec K) (kd : kind) (cfg : config), valid_config kd cfg ->
  forall tr t s o now rnd s' r k,
    let M := kind_model (K:=K) (V:=V) kd in
    m_bounded M = false -> wruns M 0 (kind_init kd cfg) tr t s ->
    single o = true -> (t <= now)%Z -> m_rnd_ok M s rnd -> m_step M s o now rnd = (s', r) ->
    touches o k = false -> livek (m_get M s) now k -> m_get M s' k = m_get M s k.
Proof. intros K V E kd cfg Hv. exact (L_unbounded kd cfg Hv). Qed.
Print Assumptions C03_ut_map_set_never_evict.
