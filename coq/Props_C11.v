(* C11 LFU order and truthful use counts. *)
Require Import Capp.Base Capp.Spec Capp.Lfuda Capp.LfudaFacts.

(* the stored count of every resident equals [use_count] of its history: 1 when inserted,
   +1 for each successful update and each successful non-peek lookup, nothing else *)
Theorem C11_count_is_use_count :
  forall (K V : Type) (E : EqDec K) cap tr t (s : lf K V),
    1 <= cap -> wruns lfu_model 0 (lfu_init cap) tr t s ->
    forall k, lf_get s k <> None -> lf_count s k = use_count lfu_model k tr.
Proof. exact @lfu_count_is_use_count. Qed.
Print Assumptions C11_count_is_use_count.

(* find_with_use_count reports that count, including the current access when not peeking *)
Theorem C11_find_with_use_count_reports_count :
  forall (K V : Type) (E : EqDec K) t (s : lf K V) k pk now rnd s' v c,
    lfu_inv t s -> lfu_step s (FindUse k pk) now rnd = (s', RU (Some (v, c))) ->
    lf_view s now k = Some v /\ c = lf_count s' k /\
    c = (if pk then lf_count s k else S (lf_count s k)).
Proof. exact @lfu_find_use_reports_count. Qed.
Print Assumptions C11_find_with_use_count_reports_count.

(* the victim of an evicting insert has a minimal use count among the residents *)
Theorem C11_victim_has_minimal_count :
  forall (K V : Type) (E : EqDec K) t (s : lf K V) ttl k v a now rnd s',
    lfu_inv t s -> lf_size s = lf_cap s -> lf_get s k = None ->
    lfu_step s (Insert ttl k v a) now rnd = (s', RB true) ->
    exists kv, kv <> k /\ lf_get s kv <> None /\ lf_get s' kv = None /\
      (forall k', k' <> k -> k' <> kv -> lf_get s' k' = lf_get s k' /\ lf_count s' k' = lf_count s k') /\
      (forall k', lf_get s k' <> None -> lf_count s kv <= lf_count s k') /\
      lf_count s' k = 1.
Proof. exact @lfu_victim_min_count. Qed.
Print Assumptions C11_victim_has_minimal_count.
