(* LfudaLit.v — LITERAL model (L3) of lfuda_cache.hpp: std::list<element> m_dynamic_age_list
   with stable node identities (the element lives in the node), the partition iterator
   m_open_list_end, m_keyed_elements (key -> list iterator), the std::multimap<size_t,
   list iterator> m_lfu_list with its own iterators stored in the elements; every do_* helper
   transcribed line by line into the undefined-behaviour monad, the aging loop included.
   ([da] = false gives lfu_cache.hpp: the same code without the aging parts.) *)
Require Import Capp.Base Capp.Rr Capp.Lfuda Capp.RrLit Capp.LruLit.
From Coq Require Import Strings.String.

Section LfudaLit.
  Context {K V : Type} `{EqDec K}.
  Local Open Scope string_scope.
  Local Open Scope list_scope.
  Local Open Scope nat_scope.

  (* struct element { keyed_iterator; lfu_iterator; time_point m_dynamic_age; value_type } *)
  Record dcell := {
    dc_keyed : option K;       (* iterator into the index: the key of its node; None = singular *)
    dc_lfu   : option nat;     (* iterator into the multimap: the list node its pair refers to; None = singular *)
    dc_age   : Z;
    dc_val   : option V
  }.

  Record lfdl := {
    dl_cap   : nat;
    dl_tick  : Z;                     (* m_dynamic_age_tick, ms *)
    dl_rnum  : nat;                   (* m_dynamic_age_ratio = dl_rnum / 2^dl_rk *)
    dl_rk    : nat;
    dl_list  : list nat;              (* m_dynamic_age_list: node identities in list order *)
    dl_cells : list dcell;            (* the element stored in node n *)
    dl_end   : iter;                  (* m_open_list_end *)
    dl_index : list (K * nat);        (* m_keyed_elements: key -> list node *)
    dl_mm    : list (nat * nat);      (* m_lfu_list in iteration order: (use count, list node); an iterator to
                                         the pair of node n is valid iff such a pair is present *)
    dl_used  : nat
  }.

  Definition lfdl_init (cap : nat) (tick : Z) (rnum rk : nat) : lfdl :=
    {| dl_cap := cap; dl_tick := tick; dl_rnum := rnum; dl_rk := rk;
       dl_list := seq 0 cap;
       dl_cells := repeat {| dc_keyed := None; dc_lfu := None; dc_age := 0%Z; dc_val := None |} cap;
       dl_end := l_begin (seq 0 cap); dl_index := []; dl_mm := []; dl_used := 0 |}.

  Variable da : bool.   (* true: lfuda_cache.hpp; false: lfu_cache.hpp *)

  (* ---- the multimap ---- *)
  Fixpoint mm_count (n : nat) (m : list (nat * nat)) : option nat :=
    match m with [] => None | (c, x) :: r => if Nat.eqb n x then Some c else mm_count n r end.
  Fixpoint mm_remove (n : nat) (m : list (nat * nat)) : list (nat * nat) :=
    match m with [] => [] | (c, x) :: r => if Nat.eqb n x then r else (c, x) :: mm_remove n r end.
  (* emplace(c, node): at the upper bound of c *)
  Fixpoint mm_emplace (c n : nat) (m : list (nat * nat)) : list (nat * nat) :=
    match m with
    | [] => [(c, n)]
    | (c', x) :: r => if c' <=? c then (c', x) :: mm_emplace c n r else (c, n) :: m
    end.
  (* it->first through a stored multimap iterator *)
  Definition mm_deref (m : list (nat * nat)) (it : option nat) : res nat :=
    match it with
    | None => UB "dereference of a singular multimap iterator"
    | Some n => match mm_count n m with Some c => Ok c | None => UB "dereference of an erased multimap iterator" end
    end.
  Definition mm_erase (m : list (nat * nat)) (it : option nat) : res (list (nat * nat)) :=
    match it with
    | None => UB "multimap erase through a singular iterator"
    | Some n => match mm_count n m with Some _ => Ok (mm_remove n m) | None => UB "multimap erase through an erased iterator" end
    end.

  Definition with_cells (s : lfdl) (cs : list dcell) : lfdl :=
    {| dl_cap := dl_cap s; dl_tick := dl_tick s; dl_rnum := dl_rnum s; dl_rk := dl_rk s; dl_list := dl_list s;
       dl_cells := cs; dl_end := dl_end s; dl_index := dl_index s; dl_mm := dl_mm s; dl_used := dl_used s |}.

  (* *it for a list iterator *)
  Definition dcell_of (s : lfdl) (i : iter) : res (nat * dcell) :=
    do n <- l_deref (dl_list s) i;
    do c <- vget "list node" (dl_cells s) n;
    Ok (n, c).

  (* e.m_keyed_position->second : the list node the index maps the element's key to *)
  Definition keyed_second (s : lfdl) (e : dcell) : res nat :=
    match dc_keyed e with
    | None => UB "dereference of a singular index iterator"
    | Some k => match assoc k (dl_index s) with Some n => Ok n | None => UB "dereference of an erased index iterator" end
    end.

  (* do_access(e, now) for the element of node n *)
  Definition dl_access (s : lfdl) (n : nat) (now : Z) : res lfdl :=
    do nc <- dcell_of s (It n);
    let '(_, e) := nc in
    do c <- mm_deref (dl_mm s) (dc_lfu e);
    do m1 <- mm_erase (dl_mm s) (dc_lfu e);
    do kn <- keyed_second s e;
    let m2 := mm_emplace (S c) kn m1 in
    if da then
      do last <- l_prev (dl_list s) (dl_end s);
      do l <- (if iter_eqb (It kn) last then Ok (dl_list s) else l_splice (dl_list s) (dl_end s) (It kn));
      do cs <- vset "list node" (dl_cells s) n {| dc_keyed := dc_keyed e; dc_lfu := Some kn; dc_age := now; dc_val := dc_val e |};
      Ok {| dl_cap := dl_cap s; dl_tick := dl_tick s; dl_rnum := dl_rnum s; dl_rk := dl_rk s; dl_list := l;
            dl_cells := cs; dl_end := dl_end s; dl_index := dl_index s; dl_mm := m2; dl_used := dl_used s |}
    else
      do cs <- vset "list node" (dl_cells s) n {| dc_keyed := dc_keyed e; dc_lfu := Some kn; dc_age := dc_age e; dc_val := dc_val e |};
      Ok {| dl_cap := dl_cap s; dl_tick := dl_tick s; dl_rnum := dl_rnum s; dl_rk := dl_rk s; dl_list := dl_list s;
            dl_cells := cs; dl_end := dl_end s; dl_index := dl_index s; dl_mm := m2; dl_used := dl_used s |}.

  (* do_erase(list iterator) *)
  Definition dl_do_erase (s : lfdl) (n : nat) : res lfdl :=
    do nc <- dcell_of s (It n);
    let '(_, e) := nc in
    do pe <- l_prev (dl_list s) (dl_end s);
    do l <- (if iter_eqb (It n) pe then Ok (dl_list s) else l_splice (dl_list s) (dl_end s) (It n));
    do ne <- l_prev l (dl_end s);
    do ix <- index_erase (dl_index s) (dc_keyed e);
    do m <- mm_erase (dl_mm s) (dc_lfu e);
    if dl_used s =? 0 then UB "--m_used_size underflows" else
    Ok {| dl_cap := dl_cap s; dl_tick := dl_tick s; dl_rnum := dl_rnum s; dl_rk := dl_rk s; dl_list := l;
          dl_cells := dl_cells s; dl_end := ne; dl_index := ix; dl_mm := m; dl_used := dl_used s - 1 |}.

  (* do_dynamic_age(now): the loop, with [da_last] and a fuel that the loop cannot exhaust when
     tick >= 0 (every iteration stamps one more node with [now]) *)
  Fixpoint dl_age_loop (fuel : nat) (s : lfdl) (da_last : iter) (now : Z) (aged : nat) : res (lfdl * nat) :=
    match fuel with
    | O => UB "do_dynamic_age does not terminate"
    | S fuel' =>
        let da_start := l_begin (dl_list s) in
        if iter_eqb da_start (dl_end s) then Ok (s, aged) else
        do nc <- dcell_of s da_start;
        let '(n, e) := nc in
        if (dc_age e + ms (dl_tick s) <? now)%Z then
          do l <- (if iter_eqb da_start da_last then Ok (dl_list s) else l_splice (dl_list s) da_last da_start);
          do c <- mm_deref (dl_mm s) (dc_lfu e);
          do m1 <- mm_erase (dl_mm s) (dc_lfu e);
          let m2 := mm_emplace (scale (dl_rnum s) (dl_rk s) c) n m1 in
          do cs <- vset "list node" (dl_cells s) n {| dc_keyed := dc_keyed e; dc_lfu := Some n; dc_age := now; dc_val := dc_val e |};
          dl_age_loop fuel'
            {| dl_cap := dl_cap s; dl_tick := dl_tick s; dl_rnum := dl_rnum s; dl_rk := dl_rk s; dl_list := l;
               dl_cells := cs; dl_end := dl_end s; dl_index := dl_index s; dl_mm := m2; dl_used := dl_used s |}
            da_start now (S aged)
        else Ok (s, aged)
    end.
  Definition dl_dynamic_age (s : lfdl) (now : Z) : res (lfdl * nat) :=
    dl_age_loop (S (List.length (dl_list s))) s (dl_end s) now 0.

  (* do_prune(now) *)
  Definition dl_do_prune (s : lfdl) (now : Z) : res lfdl :=
    if 0 <? dl_used s then
      do s1 <- (if da then (do x <- dl_dynamic_age s now; Ok (fst x)) else Ok s);
      match dl_mm s1 with
      | [] => UB "begin() of an empty multimap dereferenced"
      | (_, n) :: _ => dl_do_erase s1 n
      end
    else Ok s.

  (* do_insert(key, value, now) *)
  Definition dl_do_insert (s : lfdl) (k : K) (v : V) (now : Z) : res lfdl :=
    do s1 <- (if List.length (dl_list s) <=? dl_used s then dl_do_prune s now else Ok s);
    do nc <- dcell_of s1 (dl_end s1);
    let '(n, e) := nc in
    do ix <- index_emplace (dl_cap s1) (dl_index s1) k n;
    let m := mm_emplace 1 n (dl_mm s1) in
    do cs <- vset "list node" (dl_cells s1) n
                  {| dc_keyed := Some k; dc_lfu := Some n; dc_age := (if da then now else dc_age e); dc_val := Some v |};
    do ne <- l_next (dl_list s1) (dl_end s1);
    Ok {| dl_cap := dl_cap s1; dl_tick := dl_tick s1; dl_rnum := dl_rnum s1; dl_rk := dl_rk s1; dl_list := dl_list s1;
          dl_cells := cs; dl_end := ne; dl_index := ix; dl_mm := m; dl_used := S (dl_used s1) |}.

  (* do_update(keyed_position, value, now) *)
  Definition dl_do_update (s : lfdl) (n : nat) (v : V) (now : Z) : res lfdl :=
    do nc <- dcell_of s (It n);
    let '(_, e) := nc in
    do cs <- vset "list node" (dl_cells s) n {| dc_keyed := dc_keyed e; dc_lfu := dc_lfu e; dc_age := dc_age e; dc_val := Some v |};
    dl_access (with_cells s cs) n now.

  Definition dl_ins (s : lfdl) (k : K) (v : V) (a : allow) (now : Z) : res (lfdl * bool) :=
    match assoc k (dl_index s) with
    | Some n => if a_upd a then (do s1 <- dl_do_update s n v now; Ok (s1, true)) else Ok (s, false)
    | None => if a_ins a then (do s1 <- dl_do_insert s k v now; Ok (s1, true)) else Ok (s, false)
    end.

  Definition dl_erase (s : lfdl) (k : K) : res (lfdl * bool) :=
    match assoc k (dl_index s) with
    | Some n => do s1 <- dl_do_erase s n; Ok (s1, true)
    | None => Ok (s, false)
    end.

  (* do_find_with_use_count(key, peek, now) *)
  Definition dl_find_use (s : lfdl) (k : K) (peek : bool) (now : Z) : res (lfdl * option (V * nat)) :=
    match assoc k (dl_index s) with
    | Some n =>
        do s1 <- (if peek then Ok s else dl_access s n now);
        do nc <- dcell_of s1 (It n);
        let '(_, e) := nc in
        do c <- mm_deref (dl_mm s1) (dc_lfu e);
        Ok (s1, match dc_val e with Some v => Some (v, c) | None => None end)
    | None => Ok (s, None)
    end.

  (* do_find(key, peek, now) *)
  Definition dl_find (s : lfdl) (k : K) (peek : bool) (now : Z) : res (lfdl * option V) :=
    match assoc k (dl_index s) with
    | Some n =>
        do s1 <- (if peek then Ok s else dl_access s n now);
        do nc <- dcell_of s1 (It n);
        Ok (s1, dc_val (snd nc))
    | None => Ok (s, None)
    end.

  Fixpoint dl_ins_range (s : lfdl) (l : list (Z * K * V)) (a : allow) (now : Z) (n : nat) : res (lfdl * nat) :=
    match l with
    | [] => Ok (s, n)
    | (_, k, v) :: r => do x <- dl_ins s k v a now; let '(s1, b) := x in dl_ins_range s1 r a now (if b then S n else n)
    end.
  Fixpoint dl_erase_range (s : lfdl) (l : list K) (n : nat) : res (lfdl * nat) :=
    match l with
    | [] => Ok (s, n)
    | k :: r => do x <- dl_erase s k; let '(s1, b) := x in dl_erase_range s1 r (if b then S n else n)
    end.
  Fixpoint dl_find_range (s : lfdl) (l : list K) (peek : bool) (now : Z) : res (lfdl * list (K * option V)) :=
    match l with
    | [] => Ok (s, [])
    | k :: r => do x <- dl_find s k peek now; let '(s1, o) := x in
                do y <- dl_find_range s1 r peek now; let '(s2, os) := y in Ok (s2, (k, o) :: os)
    end.

  Definition dl_step (s : lfdl) (o : op K V) (now : Z) (rnd : list nat) : res (lfdl * ret K V) :=
    match o with
    | Insert _ k v a => do x <- dl_ins s k v a now; let '(s1, b) := x in Ok (s1, RB b)
    | InsertRange l a => do x <- dl_ins_range s l a now 0; let '(s1, n) := x in Ok (s1, RN n)
    | Erase k => do x <- dl_erase s k; let '(s1, b) := x in Ok (s1, RB b)
    | EraseRange l => do x <- dl_erase_range s l 0; let '(s1, n) := x in Ok (s1, RN n)
    | Find k pk => do x <- dl_find s k pk now; let '(s1, r) := x in Ok (s1, RO r)
    | FindUse k pk => do x <- dl_find_use s k pk now; let '(s1, r) := x in Ok (s1, RU r)
    | FindRange l pk => do x <- dl_find_range s l pk now; let '(s1, r) := x in Ok (s1, RL r)
    | FindRangeFill l pk => do x <- dl_find_range s l pk now; let '(s1, r) := x in Ok (s1, RL r)
    | DynAge => if da then (do x <- dl_dynamic_age s now; let '(s1, n) := x in Ok (s1, RN n)) else Ok (s, RUnsupported)
    | Size => Ok (s, RN (dl_used s))
    | Empty => Ok (s, RB (Nat.eqb (dl_used s) 0))
    | Capacity => Ok (s, RN (List.length (dl_list s)))
    | _ => Ok (s, RUnsupported)
    end.

  (* ---- representation (lfuda, da = true): the used part of the list read through the cells is
     lf_ents (oldest first), the multimap read through the cells is lf_ord ---- *)
  Definition dl_entry (s : lfdl) (n : nat) : option (K * (V * Z)) :=
    match nth_error (dl_cells s) n with
    | Some {| dc_keyed := Some k; dc_lfu := _; dc_age := a; dc_val := Some v |} => Some (k, (v, a))
    | _ => None
    end.
  Definition dl_key (s : lfdl) (n : nat) : option K :=
    match nth_error (dl_cells s) n with Some c => dc_keyed c | None => None end.

  Definition dl_rep (l : lfdl) (s : lf K V) : Prop :=
    exists used free,
      dl_list l = used ++ free /\ dl_end l = l_begin free /\
      dl_cap l = lf_cap s /\ dl_tick l = lf_tick s /\ dl_rnum l = lf_rnum s /\ dl_rk l = lf_rk s /\
      List.length (dl_cells l) = lf_cap s /\ NoDup (dl_list l) /\ List.length (dl_list l) = lf_cap s /\
      (forall n, In n (dl_list l) -> n < lf_cap s) /\
      dl_used l = List.length used /\ List.length (dl_index l) = List.length used /\ NoDup (keys (dl_index l)) /\
      map (dl_entry l) used = map (@Some (K * (V * Z))) (lf_ents s) /\
      map (fun cn => match dl_key l (snd cn) with Some k => Some (fst cn, k) | None => None end) (dl_mm l)
        = map (@Some (nat * K)) (lf_ord s) /\
      NoDup (map snd (dl_mm l)) /\
      (forall n, In n used <-> In n (map snd (dl_mm l))) /\
      (forall n k v a, In n used -> dl_entry l n = Some (k, (v, a)) ->
                       assoc k (dl_index l) = Some n /\
                       exists c, nth_error (dl_cells l) n = Some c /\ dc_lfu c = Some n) /\
      (forall k n, assoc k (dl_index l) = Some n -> In n used /\ dl_key l n = Some k).
End LfudaLit.

Arguments lfdl : clear implicits.
Arguments dcell : clear implicits.
