(* Rr.v — mid-level model (L2) of rr_cache (rr_cache.hpp).
   The API can see slot numbers (the victim is "the entry in slot r", r drawn
   uniformly from [0, size-1]), so the model keeps the slot array, the open-list
   permutation and the partition index.  The per-slot back-pointer
   m_open_list_position is represented by the position of the slot number in the
   open list (what the back-pointer holds once do_erase refreshes it after the
   swap; the literal model in RrLit.v stores it and proves the two agree). *)
Require Import Capp.Base.

Section Rr.
  Context {K V : Type} `{EqDec K}.

  Record rr := {
    rr_cap   : nat;
    rr_slots : list (option (K * V));   (* m_elements[i] + whether the index maps a key to i *)
    rr_open  : list nat;                (* m_open_list *)
    rr_end   : nat                      (* m_open_list_end = size() *)
  }.

  Definition rr_init (cap : nat) : rr :=
    {| rr_cap := cap; rr_slots := repeat None cap; rr_open := seq 0 cap; rr_end := 0 |}.

  Fixpoint upd_nth {A} (i : nat) (x : A) (l : list A) : list A :=
    match l, i with
    | [], _ => []
    | _ :: r, O => x :: r
    | y :: r, S j => y :: upd_nth j x r
    end.

  Fixpoint index_of (x : nat) (l : list nat) : nat :=
    match l with
    | [] => O
    | y :: r => if Nat.eqb x y then O else S (index_of x r)
    end.

  (* m_keyed_elements.find(key): slot number and value *)
  Fixpoint rr_lookup_from (i : nat) (sl : list (option (K * V))) (k : K) : option (nat * V) :=
    match sl with
    | [] => None
    | Some (k', v) :: r => if eqb k k' then Some (i, v) else rr_lookup_from (S i) r k
    | None :: r => rr_lookup_from (S i) r k
    end.
  Definition rr_lookup (s : rr) (k : K) : option (nat * V) := rr_lookup_from 0 (rr_slots s) k.

  Definition swap_nth (i j : nat) (l : list nat) : list nat :=
    let a := nth i l 0 in let b := nth j l 0 in upd_nth j a (upd_nth i b l).

  (* do_erase(element_idx) *)
  Definition rr_erase_slot (s : rr) (i : nat) : rr :=
    let p := index_of i (rr_open s) in
    let last := rr_end s - 1 in
    {| rr_cap := rr_cap s;
       rr_slots := upd_nth i None (rr_slots s);
       rr_open := if Nat.eqb p last then rr_open s else swap_nth p last (rr_open s);
       rr_end := last |}.

  (* do_find *)
  Definition rr_find (s : rr) (k : K) : option V :=
    match rr_lookup s k with Some (_, v) => Some v | None => None end.

  (* do_insert_update; consumes one draw per eviction *)
  Definition rr_ins (s : rr) (k : K) (v : V) (a : allow) (rnd : list nat) : rr * bool * list nat :=
    match rr_lookup s k with
    | Some (i, _) =>
        if a_upd a
        then ({| rr_cap := rr_cap s; rr_slots := upd_nth i (Some (k, v)) (rr_slots s);
                 rr_open := rr_open s; rr_end := rr_end s |}, true, rnd)
        else (s, false, rnd)
    | None =>
        if a_ins a then
          let '(s1, rnd1) :=
            if rr_cap s <=? rr_end s
            then (if 0 <? rr_end s then (rr_erase_slot s (hd 0 rnd), tl rnd) else (s, rnd))
            else (s, rnd) in
          let idx := nth (rr_end s1) (rr_open s1) 0 in
          ({| rr_cap := rr_cap s1; rr_slots := upd_nth idx (Some (k, v)) (rr_slots s1);
              rr_open := rr_open s1; rr_end := S (rr_end s1) |}, true, rnd1)
        else (s, false, rnd)
    end.

  Definition rr_erase (s : rr) (k : K) : rr * bool :=
    match rr_lookup s k with
    | Some (i, _) => (rr_erase_slot s i, true)
    | None => (s, false)
    end.

  Fixpoint rr_ins_range (s : rr) (l : list (Z * K * V)) (a : allow) (rnd : list nat) (n : nat) : rr * nat :=
    match l with
    | [] => (s, n)
    | (_, k, v) :: r => let '(s1, b, rnd1) := rr_ins s k v a rnd in
                        rr_ins_range s1 r a rnd1 (if b then S n else n)
    end.
  Fixpoint rr_erase_range (s : rr) (l : list K) (n : nat) : rr * nat :=
    match l with
    | [] => (s, n)
    | k :: r => let '(s1, b) := rr_erase s k in rr_erase_range s1 r (if b then S n else n)
    end.
  Definition rr_find_range (s : rr) (l : list K) : list (K * option V) :=
    map (fun k => (k, rr_find s k)) l.

  Definition rr_step (s : rr) (o : op K V) (now : Z) (rnd : list nat) : rr * ret K V :=
    match o with
    | Insert _ k v a => let '(s1, b, _) := rr_ins s k v a rnd in (s1, RB b)
    | InsertRange l a => let '(s1, n) := rr_ins_range s l a rnd 0 in (s1, RN n)
    | Erase k => let '(s1, b) := rr_erase s k in (s1, RB b)
    | EraseRange l => let '(s1, n) := rr_erase_range s l 0 in (s1, RN n)
    | Find k _ => (s, RO (rr_find s k))
    | FindRange l _ => (s, RL (rr_find_range s l))
    | FindRangeFill l _ => (s, RL (rr_find_range s l))
    | Size => (s, RN (rr_end s))
    | Empty => (s, RB (Nat.eqb (rr_end s) 0))
    | Capacity => (s, RN (rr_cap s))
    | _ => (s, RUnsupported)
    end.

  Definition rr_view (s : rr) (now : Z) (k : K) : option V := rr_find s k.
  Definition rr_get (s : rr) (k : K) : option (V * dl) :=
    match rr_find s k with Some v => Some (v, None) | None => None end.

  (* number of draws an operation consumes (how many evictions it performs) is
     data dependent; the driver supplies enough. *)
End Rr.
Arguments rr : clear implicits.
