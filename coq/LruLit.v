(* LruLit.v — LITERAL model (L3) of lru_cache.hpp and mru_cache.hpp ([mru] flag): the
   structures the headers have — m_elements with their stored iterators, m_keyed_elements,
   the std::list<size_t> m_lru_list / m_mru_list with stable node identities, the partition
   iterator m_lru_end / m_mru_end, m_used_size — and every do_* helper transcribed line by
   line into the undefined-behaviour monad of RrLit.v.  UB: dereferencing / incrementing
   end(), decrementing / std::prev of begin(), using an iterator whose node is not in the
   list, back() of an empty list, vector index out of range, erase through a singular or dead
   index iterator, emplace beyond the reserved index size, unsigned underflow of the count. *)
Require Import Capp.Base Capp.Rr Capp.ListCache Capp.RrLit.
From Coq Require Import Strings.String.

Section StlList.
  Local Open Scope string_scope.
  Local Open Scope list_scope.
  Local Open Scope nat_scope.

  (* std::list<size_t> pre-filled by iota: node n holds the value n for ever; the list is the
     sequence of its node identities; an iterator is a node identity or end() *)
  Inductive iter := It (n : nat) | End.
  Definition iter_eqb (a b : iter) : bool :=
    match a, b with It x, It y => Nat.eqb x y | End, End => true | _, _ => false end.

  Fixpoint mem_nat (n : nat) (l : list nat) : bool :=
    match l with [] => false | x :: r => Nat.eqb n x || mem_nat n r end.
  Definition valid_it (l : list nat) (i : iter) : bool :=
    match i with End => true | It n => mem_nat n l end.

  Definition l_begin (l : list nat) : iter := match l with [] => End | n :: _ => It n end.

  (* the element after n *)
  Fixpoint after (n : nat) (l : list nat) : iter :=
    match l with
    | [] => End
    | x :: r => if Nat.eqb n x then l_begin r else after n r
    end.
  (* the element before position i (i may be End) ; None if i is begin() *)
  Fixpoint before (i : iter) (l : list nat) : option nat :=
    match l with
    | [] => None
    | x :: r => match r with
                | [] => (match i with End => Some x | It _ => None end)
                | y :: _ => if iter_eqb i (It y) then Some x else before i r
                end
    end.

  Definition l_deref (l : list nat) (i : iter) : res nat :=
    match i with
    | End => UB "dereference of end()"
    | It n => if mem_nat n l then Ok n else UB "dereference of an invalid list iterator"
    end.
  Definition l_next (l : list nat) (i : iter) : res iter :=
    match i with
    | End => UB "increment of end()"
    | It n => if mem_nat n l then Ok (after n l) else UB "increment of an invalid list iterator"
    end.
  Definition l_prev (l : list nat) (i : iter) : res iter :=
    if valid_it l i then
      (if iter_eqb i (l_begin l) then UB "decrement / std::prev of begin()"
       else match before i l with Some n => Ok (It n) | None => UB "decrement / std::prev of begin()" end)
    else UB "decrement of an invalid list iterator".
  Definition l_back (l : list nat) : res nat :=
    match l with [] => UB "back() of an empty list" | _ => Ok (last l 0) end.

  Fixpoint remove_nat (n : nat) (l : list nat) : list nat :=
    match l with [] => [] | x :: r => if Nat.eqb n x then r else x :: remove_nat n r end.
  Fixpoint insert_before (pos : iter) (n : nat) (l : list nat) : list nat :=
    match l with
    | [] => [n]
    | x :: r => if iter_eqb pos (It x) then n :: x :: r else x :: insert_before pos n r
    end.
  (* list.splice(pos, list, it): move node [it] in front of [pos] *)
  Definition l_splice (l : list nat) (pos it : iter) : res (list nat) :=
    match it with
    | End => UB "splice of end()"
    | It n =>
        if mem_nat n l then
          (if valid_it l pos then
             (if iter_eqb pos it then Ok l else Ok (insert_before pos n (remove_nat n l)))
           else UB "splice to an invalid position")
        else UB "splice of an invalid list iterator"
    end.
End StlList.

Section LruLit.
  Context {K V : Type} `{EqDec K}.
  Local Open Scope string_scope.
  Local Open Scope list_scope.
  Local Open Scope nat_scope.

  (* struct element { keyed_iterator m_keyed_position; lru_iterator m_lru_position; value_type m_value; } *)
  Record lelem := {
    le_keyed : option K;      (* node of the index it points at (its key); None = singular *)
    le_pos   : option iter;   (* iterator into the list; None = singular *)
    le_val   : option V
  }.

  Record lrul := {
    ll_cap   : nat;                (* reserve(capacity) of the index *)
    ll_elems : list lelem;         (* m_elements *)
    ll_index : list (K * nat);     (* m_keyed_elements *)
    ll_list  : list nat;           (* m_lru_list / m_mru_list: node identities in order *)
    ll_end   : iter;               (* m_lru_end / m_mru_end *)
    ll_used  : nat                 (* m_used_size *)
  }.

  Definition lrul_init (cap : nat) : lrul :=
    {| ll_cap := cap;
       ll_elems := repeat {| le_keyed := None; le_pos := None; le_val := None |} cap;
       ll_index := [];
       ll_list := seq 0 cap;
       ll_end := l_begin (seq 0 cap);
       ll_used := 0 |}.

  Variable mru : bool.   (* false: lru_cache.hpp, true: mru_cache.hpp *)

  Definition get_pos (e : lelem) : res iter :=
    match le_pos e with Some i => Ok i | None => UB "use of a singular list iterator" end.

  (* do_access(e) *)
  Definition ll_access (s : lrul) (e : lelem) : res lrul :=
    do p <- get_pos e;
    do l <- l_splice (ll_list s) (if mru then ll_end s else l_begin (ll_list s)) p;
    Ok {| ll_cap := ll_cap s; ll_elems := ll_elems s; ll_index := ll_index s; ll_list := l;
          ll_end := ll_end s; ll_used := ll_used s |}.

  (* do_erase(element_idx) *)
  Definition ll_do_erase (s : lrul) (idx : nat) : res lrul :=
    do e <- vget "m_elements[element_idx]" (ll_elems s) idx;
    do p <- get_pos e;
    do pe <- l_prev (ll_list s) (ll_end s);
    do l <- (if iter_eqb p pe then Ok (ll_list s) else l_splice (ll_list s) (ll_end s) p);
    do ne <- l_prev l (ll_end s);
    do ix <- index_erase (ll_index s) (le_keyed e);
    if ll_used s =? 0 then UB "--m_used_size underflows" else
    Ok {| ll_cap := ll_cap s; ll_elems := ll_elems s; ll_index := ix; ll_list := l; ll_end := ne;
          ll_used := ll_used s - 1 |}.

  (* do_prune() *)
  Definition ll_do_prune (s : lrul) : res lrul :=
    if 0 <? ll_used s then (do b <- l_back (ll_list s); ll_do_erase s b) else Ok s.

  (* do_insert(key, value) *)
  Definition ll_do_insert (s : lrul) (k : K) (v : V) : res lrul :=
    do s1 <- (if List.length (ll_elems s) <=? ll_used s then ll_do_prune s else Ok s);
    do idx <- l_deref (ll_list s1) (ll_end s1);
    do ix <- index_emplace (ll_cap s1) (ll_index s1) k idx;
    let e := {| le_keyed := Some k; le_pos := Some (ll_end s1); le_val := Some v |} in
    do es <- vset "m_elements[element_idx]" (ll_elems s1) idx e;
    do ne <- l_next (ll_list s1) (ll_end s1);
    let s2 := {| ll_cap := ll_cap s1; ll_elems := es; ll_index := ix; ll_list := ll_list s1; ll_end := ne;
                 ll_used := S (ll_used s1) |} in
    if mru then Ok s2 else ll_access s2 e.

  (* do_update(keyed_position, value) *)
  Definition ll_do_update (s : lrul) (idx : nat) (v : V) : res lrul :=
    do e <- vget "m_elements[keyed_position->second]" (ll_elems s) idx;
    let e' := {| le_keyed := le_keyed e; le_pos := le_pos e; le_val := Some v |} in
    do es <- vset "m_elements[keyed_position->second]" (ll_elems s) idx e';
    ll_access {| ll_cap := ll_cap s; ll_elems := es; ll_index := ll_index s; ll_list := ll_list s;
                 ll_end := ll_end s; ll_used := ll_used s |} e'.

  (* do_insert_update(key, value, allow) *)
  Definition ll_ins (s : lrul) (k : K) (v : V) (a : allow) : res (lrul * bool) :=
    match assoc k (ll_index s) with
    | Some idx => if a_upd a then (do s1 <- ll_do_update s idx v; Ok (s1, true)) else Ok (s, false)
    | None => if a_ins a then (do s1 <- ll_do_insert s k v; Ok (s1, true)) else Ok (s, false)
    end.

  (* erase(key) *)
  Definition ll_erase (s : lrul) (k : K) : res (lrul * bool) :=
    match assoc k (ll_index s) with
    | Some idx => do s1 <- ll_do_erase s idx; Ok (s1, true)
    | None => Ok (s, false)
    end.

  (* do_find(key, peek) *)
  Definition ll_find (s : lrul) (k : K) (peek : bool) : res (lrul * option V) :=
    match assoc k (ll_index s) with
    | Some idx =>
        do e <- vget "m_elements[element_idx]" (ll_elems s) idx;
        do s1 <- (if peek then Ok s else ll_access s e);
        Ok (s1, le_val e)
    | None => Ok (s, None)
    end.

  Fixpoint ll_ins_range (s : lrul) (l : list (Z * K * V)) (a : allow) (n : nat) : res (lrul * nat) :=
    match l with
    | [] => Ok (s, n)
    | (_, k, v) :: r => do x <- ll_ins s k v a; let '(s1, b) := x in ll_ins_range s1 r a (if b then S n else n)
    end.
  Fixpoint ll_erase_range (s : lrul) (l : list K) (n : nat) : res (lrul * nat) :=
    match l with
    | [] => Ok (s, n)
    | k :: r => do x <- ll_erase s k; let '(s1, b) := x in ll_erase_range s1 r (if b then S n else n)
    end.
  Fixpoint ll_find_range (s : lrul) (l : list K) (peek : bool) : res (lrul * list (K * option V)) :=
    match l with
    | [] => Ok (s, [])
    | k :: r => do x <- ll_find s k peek; let '(s1, o) := x in
                do y <- ll_find_range s1 r peek; let '(s2, os) := y in Ok (s2, (k, o) :: os)
    end.

  Definition ll_step (s : lrul) (o : op K V) (now : Z) (rnd : list nat) : res (lrul * ret K V) :=
    match o with
    | Insert _ k v a => do x <- ll_ins s k v a; let '(s1, b) := x in Ok (s1, RB b)
    | InsertRange l a => do x <- ll_ins_range s l a 0; let '(s1, n) := x in Ok (s1, RN n)
    | Erase k => do x <- ll_erase s k; let '(s1, b) := x in Ok (s1, RB b)
    | EraseRange l => do x <- ll_erase_range s l 0; let '(s1, n) := x in Ok (s1, RN n)
    | Find k pk => do x <- ll_find s k pk; let '(s1, r) := x in Ok (s1, RO r)
    | FindRange l pk => do x <- ll_find_range s l pk; let '(s1, r) := x in Ok (s1, RL r)
    | FindRangeFill l pk => do x <- ll_find_range s l pk; let '(s1, r) := x in Ok (s1, RL r)
    | Size => Ok (s, RN (ll_used s))
    | Empty => Ok (s, RB (Nat.eqb (ll_used s) 0))
    | Capacity => Ok (s, RN (List.length (ll_elems s)))
    | _ => Ok (s, RUnsupported)
    end.

  (* the used nodes: the part of the list in front of the partition iterator *)
  Fixpoint used_part (l : list nat) (e : iter) : list nat :=
    match l with
    | [] => []
    | x :: r => if iter_eqb e (It x) then [] else x :: used_part r e
    end.

  (* key and value stored in the cell of node n *)
  Definition cell_entry (s : lrul) (n : nat) : option (K * V) :=
    match nth_error (ll_elems s) n with
    | Some {| le_keyed := Some k; le_pos := _; le_val := Some v |} => Some (k, v)
    | _ => None
    end.

  (* representation: the mid-level list (oldest first) is the used part of the node list —
     reversed for lru (its list is most-recent-first) — read through the cells *)
  Definition ll_rep (l : lrul) (s : lc K V) : Prop :=
    let used := used_part (ll_list l) (ll_end l) in
    ll_cap l = lc_cap s /\ List.length (ll_elems l) = lc_cap s /\
    NoDup (ll_list l) /\ List.length (ll_list l) = lc_cap s /\ (forall n, In n (ll_list l) -> n < lc_cap s) /\
    valid_it (ll_list l) (ll_end l) = true /\
    ll_used l = List.length used /\ List.length (ll_index l) = List.length used /\ NoDup (keys (ll_index l)) /\
    map (cell_entry l) (if mru then used else rev used) = map (@Some (K * V)) (lc_items s) /\
    (forall n, In n used ->
       exists k v, nth_error (ll_elems l) n = Some {| le_keyed := Some k; le_pos := Some (It n); le_val := Some v |} /\
                   assoc k (ll_index l) = Some n) /\
    (forall k n, assoc k (ll_index l) = Some n -> In n used).
End LruLit.

Arguments lrul : clear implicits.
Arguments lelem : clear implicits.
