(* Skel.v — the lock-skeleton language whose instances are GENERATED from the headers
   on every run (tools/skel_extract.py), and the obligations computed on them
   (DESIGN §2.2b, C06/C07).  Executable definitions only; theorems in Conc.v. *)
From Coq Require Import Strings.String Lists.List Bool Arith.
Import ListNotations.
Local Open Scope string_scope.

(* kind of an access to a data member of the container object *)
Inductive akind :=
| AR   (* read of a scalar member / const "header" query of a container member *)
| AE   (* access to the contents of a container member *)
| AW.  (* write of a scalar member / mutating call on a container member / unknown *)

Inductive skel :=
| SAcc (f : string) (k : akind)
| SClock                                (* steady_clock::now() *)
| SRefDecl (x : string)                 (* a local of reference / pointer / iterator type is declared *)
| SSkip
| SThen (a b : skel)                    (* sequencing *)
| SLocked (b : skel)                    (* lock_guard scope: from the declaration to the end of its block *)
| SLoop (b : skel)
| SChoice (a b : skel).

(* n-ary sequencing, as the generated files write it *)
Definition SSeq (l : list skel) : skel := fold_right SThen SSkip l.

Definition akind_eqb (a b : akind) : bool :=
  match a, b with AR, AR | AE, AE | AW, AW => true | _, _ => false end.

(* all accesses with a flag "made while holding the lock" *)
Fixpoint accesses (held : bool) (s : skel) : list (string * akind * bool) :=
  match s with
  | SAcc f k => [(f, k, held)]
  | SClock | SRefDecl _ | SSkip => []
  | SThen a b => accesses held a ++ accesses held b
  | SLocked b => accesses true b
  | SLoop b => accesses held b
  | SChoice a b => accesses held a ++ accesses held b
  end.

(* number of lock regions on the worst path; a region inside a loop counts twice (= "many") *)
Fixpoint regions (s : skel) : nat :=
  match s with
  | SThen a b => regions a + regions b
  | SLocked b => 1 + regions b
  | SLoop b => 2 * regions b
  | SChoice a b => Nat.max (regions a) (regions b)
  | _ => 0
  end.

(* a lock region nested in a lock region (self-deadlock on std::mutex) *)
Fixpoint nested (held : bool) (s : skel) : bool :=
  match s with
  | SThen a b => nested held a || nested held b
  | SLocked b => held || nested true b
  | SLoop b => nested held b
  | SChoice a b => nested held a || nested held b
  | _ => false
  end.

(* a reference-like local declared outside every lock region *)
Fixpoint ref_outside (held : bool) (s : skel) : bool :=
  match s with
  | SRefDecl _ => negb held
  | SThen a b => ref_outside held a || ref_outside held b
  | SLocked b => false
  | SLoop b => ref_outside held b
  | SChoice a b => ref_outside held a || ref_outside held b
  | _ => false
  end.

Definition class_skel := list (string * skel).

Definition all_accesses (c : class_skel) : list (string * akind * bool) :=
  flat_map (fun m => accesses false (snd m)) c.

Definition has_kind (c : class_skel) (f : string) (k : akind) : bool :=
  existsb (fun a => match a with (f', k', _) => String.eqb f f' && akind_eqb k k' end) (all_accesses c).

(* may this access be made without the lock?  only a read (AR) of a member that no public
   method ever writes (AW) after construction *)
Definition may_be_unlocked (c : class_skel) (f : string) (k : akind) : bool :=
  match k with
  | AR => negb (has_kind c f AW)
  | _ => false
  end.

(* the unguarded accesses of a method: (field, kind) made without the lock that must be guarded *)
Definition unguarded (c : class_skel) (s : skel) : list (string * akind) :=
  flat_map (fun a => match a with
                     | (f, k, false) => if may_be_unlocked c f k then [] else [(f, k)]
                     | _ => []
                     end) (accesses false s).

(* C07 obligation: every public method is guarded and takes the lock at most once at a time *)
Definition method_guarded (c : class_skel) (m : string * skel) : bool :=
  match unguarded c (snd m) with [] => negb (nested false (snd m)) | _ => false end.
Definition class_guarded (c : class_skel) : bool := forallb (method_guarded c) c.

(* C06 obligation: in addition exactly one critical section (none for a method touching
   nothing shared), not inside a loop, no reference-like local outliving it *)
Definition method_atomic (c : class_skel) (m : string * skel) : bool :=
  method_guarded c m && Nat.leb (regions (snd m)) 1 && negb (ref_outside false (snd m)).
Definition class_atomic (c : class_skel) : bool := forallb (method_atomic c) c.

(* diagnostics printed by the checker *)
Definition class_report (c : class_skel)
  : list (string * list (string * akind) * nat * bool * bool) :=
  map (fun m => (fst m, unguarded c (snd m), regions (snd m), nested false (snd m),
                 ref_outside false (snd m))) c.
