(* C13 MRU order: the victim is the most recently used entry. *)
Require Import Capp.Base Capp.Spec Capp.ListCache Capp.ListCacheFacts.

Theorem C13_mru_victim_is_most_recently_used :
  forall (K V : Type) (E : EqDec K) cap tr (s : lc K V) k s',
    evicting mru_policy cap tr s k s' ->
    exists kv, kv <> k /\ lc_get s kv <> None /\ lc_get s' kv = None /\
      (forall k', k' <> k -> k' <> kv -> lc_get s' k' = lc_get s k') /\
      (forall k', lc_get s k' <> None -> k' <> kv ->
                  last_use (lc_model mru_policy) k' tr < last_use (lc_model mru_policy) kv tr).
Proof. exact @mru_victim_most_recent. Qed.
Print Assumptions C13_mru_victim_is_most_recently_used.

(* the newly inserted key then is the most recently used *)
Theorem C13_new_key_becomes_most_recent :
  forall (K V : Type) (E : EqDec K) cap tr t (s : lc K V) e s' ttl k v a,
    1 <= cap -> wruns (lc_model mru_policy) 0 (lc_init cap) (tr ++ [(s, e, RB true)]) t s' ->
    e_op e = Insert ttl k v a ->
    forall k', lc_get s' k' <> None -> k' <> k ->
      last_use (lc_model mru_policy) k' (tr ++ [(s, e, RB true)]) <
      last_use (lc_model mru_policy) k (tr ++ [(s, e, RB true)]).
Proof. exact @mru_new_key_is_most_recent. Qed.
Print Assumptions C13_new_key_becomes_most_recent.
