(* FifoLitFacts.v — C08 for fifo_cache: the literal machine (FifoLit.v) never reaches UB and
   computes exactly what the mid-level model (ListCache.v, fifo_policy) computes. *)
Require Import Capp.Base Capp.Spec Capp.Rr Capp.ListCache Capp.ListCacheFacts Capp.RrLit Capp.LruLit Capp.FifoLit.
From Coq Require Import Strings.String.

Section FifoLitFacts.
  Context {K V : Type} `{EqDec K}.
  Local Open Scope list_scope.
  Local Open Scope nat_scope.

  (* ---------------- the std::list model: splice / prev / remove ---------------- *)
  Lemma mem_nat_In : forall n l, mem_nat n l = true <-> In n l.
  Proof.
    intros n l. induction l as [|x r IH]; simpl.
    - split; [discriminate|tauto].
    - rewrite orb_true_iff, IH, Nat.eqb_eq. split; intros [E|I]; [left; congruence|right; exact I|left; congruence|right; exact I].
  Qed.

  Lemma insert_before_End : forall n l, insert_before End n l = l ++ [n].
  Proof. intros n l. induction l as [|x r IH]; simpl; [reflexivity|]. rewrite IH. reflexivity. Qed.

  Lemma before_End_cons : forall x y t, before End (x :: y :: t) = before End (y :: t).
  Proof. reflexivity. Qed.

  Lemma before_End_snoc : forall l n, before End (l ++ [n]) = Some n.
  Proof.
    induction l as [|x r IH]; intros n; [reflexivity|].
    destruct r as [|y t]; [reflexivity|].
    change (before End (x :: y :: (t ++ [n])) = Some n).
    rewrite before_End_cons. exact (IH n).
  Qed.

  Lemma splice_begin_to_end : forall n r, l_splice (n :: r) End (l_begin (n :: r)) = Ok (r ++ [n]).
  Proof.
    intros n r. unfold l_splice, l_begin. simpl. rewrite Nat.eqb_refl. simpl.
    rewrite insert_before_End. reflexivity.
  Qed.

  Lemma prev_end_snoc : forall r n, l_prev (r ++ [n]) End = Ok (It n).
  Proof.
    intros r n. unfold l_prev. simpl valid_it. cbv iota.
    assert (E : iter_eqb End (l_begin (r ++ [n])) = false) by (destruct r; reflexivity).
    rewrite E, before_End_snoc. reflexivity.
  Qed.

  (* the splice of do_erase: the node goes to the front *)
  Lemma erase_splice_ok : forall l n, In n l ->
    (if iter_eqb (It n) (l_begin l) then Ok l else l_splice l (l_begin l) (It n)) = Ok (n :: remove_nat n l).
  Proof.
    intros l n I. destruct l as [|h r]; [contradiction|].
    simpl l_begin. simpl iter_eqb. destruct (Nat.eqb_spec n h) as [E|N].
    - subst h. simpl. rewrite Nat.eqb_refl. reflexivity.
    - unfold l_splice. rewrite (proj2 (mem_nat_In n (h :: r)) I).
      simpl valid_it. rewrite Nat.eqb_refl. simpl orb. cbv iota.
      assert (E1 : Nat.eqb h n = false) by (apply Nat.eqb_neq; congruence).
      assert (E2 : Nat.eqb n h = false) by (apply Nat.eqb_neq; congruence).
      simpl. rewrite E1, E2. simpl. rewrite Nat.eqb_refl. reflexivity.
  Qed.

  Lemma remove_nat_notin : forall n l, ~ In n l -> remove_nat n l = l.
  Proof.
    intros n l. induction l as [|x r IH]; simpl; intros NI; [reflexivity|].
    destruct (Nat.eqb_spec n x) as [E|N]; [exfalso; apply NI; left; congruence|].
    f_equal. apply IH. intros I. apply NI. right. exact I.
  Qed.

  Lemma remove_nat_app : forall n a b, ~ In n a -> remove_nat n (a ++ b) = a ++ remove_nat n b.
  Proof.
    intros n a b. induction a as [|x r IH]; simpl; intros NI; [reflexivity|].
    destruct (Nat.eqb_spec n x) as [E|N]; [exfalso; apply NI; left; congruence|].
    f_equal. apply IH. intros I. apply NI. right. exact I.
  Qed.

  Lemma in_remove_nat : forall n l m, NoDup l -> (In m (remove_nat n l) <-> In m l /\ m <> n).
  Proof.
    intros n l m. induction l as [|x r IH]; simpl; intros ND; [tauto|].
    inversion ND as [|y t NI ND']; subst.
    destruct (Nat.eqb_spec n x) as [E|N].
    - subst x. split.
      + intros I. split; [right; exact I|]. intros E. subst m. contradiction.
      + intros [[E|I] Nm]; [congruence|exact I].
    - simpl. rewrite (IH ND'). split.
      + intros [E|[I Nm]]; [subst x; split; [left; reflexivity|congruence]|split; [right; exact I|exact Nm]].
      + intros [[E|I] Nm]; [left; exact E|right; split; assumption].
  Qed.

  Lemma nodup_remove_nat : forall n l, NoDup l -> NoDup (remove_nat n l).
  Proof.
    intros n l. induction l as [|x r IH]; simpl; intros ND; [constructor|].
    inversion ND as [|y t NI ND']; subst.
    destruct (Nat.eqb_spec n x) as [E|N]; [exact ND'|].
    constructor; [|apply IH; exact ND'].
    intros I. apply (in_remove_nat n r x ND') in I. tauto.
  Qed.

  Lemma length_remove_nat : forall n l, In n l -> S (List.length (remove_nat n l)) = List.length l.
  Proof.
    intros n l. induction l as [|x r IH]; simpl; intros I; [contradiction|].
    destruct (Nat.eqb_spec n x) as [E|N]; [reflexivity|].
    simpl. f_equal. apply IH. destruct I as [E|I]; [congruence|exact I].
  Qed.

  Lemma nodup_app_disj : forall (a b : list nat) x, NoDup (a ++ b) -> In x a -> In x b -> False.
  Proof.
    induction a as [|y r IH]; simpl; intros b x ND Ia Ib; [contradiction|].
    inversion ND as [|z l NI ND']; subst. destruct Ia as [E|Ia].
    - subst. apply NI. apply in_or_app. right. exact Ib.
    - eapply IH; eauto.
  Qed.

  Lemma nodup_app_right : forall (a b : list nat), NoDup (a ++ b) -> NoDup b.
  Proof.
    induction a as [|y r IH]; simpl; intros b ND; [exact ND|].
    inversion ND; subst. apply IH. assumption.
  Qed.

  Lemma nodup_rotate : forall (x : nat) l, NoDup (x :: l) -> NoDup (l ++ [x]).
  Proof.
    intros x l ND. inversion ND as [|y t NI ND']; subst. clear ND.
    induction l as [|z r IH]; simpl.
    - constructor; [intros []|constructor].
    - inversion ND' as [|y t NI' ND'']; subst. constructor.
      + rewrite in_app_iff. simpl. intros [I|[E|[]]]; [contradiction|]. apply NI. left. symmetry. exact E.
      + apply IH; [|exact ND'']. intros I. apply NI. right. exact I.
  Qed.

  (* ---------------- vectors ---------------- *)
  Lemma upd_length : forall A (l : list A) i x, List.length (upd_nth i x l) = List.length l.
  Proof. induction l as [|y r IH]; intros [|i] x; simpl; auto. Qed.

  Lemma nth_error_upd_eq : forall A (l : list A) i x, i < List.length l -> nth_error (upd_nth i x l) i = Some x.
  Proof. induction l as [|y r IH]; intros [|j] x Hi; simpl in *; try lia; auto. apply IH; lia. Qed.

  Lemma nth_error_upd_neq : forall A (l : list A) i j x, j <> i -> nth_error (upd_nth i x l) j = nth_error l j.
  Proof. induction l as [|y r IH]; intros [|i] [|j] x Hne; simpl; try congruence; auto. Qed.

  Lemma vget_ok : forall A what (l : list A) i a, nth_error l i = Some a -> vget what l i = Ok a.
  Proof. intros A what l i a E. unfold vget. rewrite E. reflexivity. Qed.

  Lemma vset_ok : forall A what (l : list A) i a, i < List.length l -> vset what l i a = Ok (upd_nth i a l).
  Proof.
    intros A what l i a Hi. unfold vset.
    destruct (Nat.ltb_spec i (List.length l)); [reflexivity|lia].
  Qed.

  (* ---------------- the index ---------------- *)
  Lemma remk_notin_id : forall (ix : list (K * nat)) k, ~ In k (keys ix) -> remk k ix = ix.
  Proof.
    induction ix as [|[k0 j] r IH]; intros k NI; simpl in *; [reflexivity|].
    destruct (Base.eqb_spec k k0) as [E|N]; [exfalso; apply NI; left; auto|].
    f_equal. apply IH. intros I. apply NI. right. exact I.
  Qed.

  Lemma length_remk_nodup : forall (ix : list (K * nat)) k i, NoDup (keys ix) -> assoc k ix = Some i ->
    S (List.length (remk k ix)) = List.length ix.
  Proof.
    induction ix as [|[k0 j] r IH]; intros k i ND A; simpl in *; [discriminate|].
    inversion ND as [|x l NI ND']; subst.
    destruct (Base.eqb_spec k k0) as [E|N].
    - subst k0. rewrite remk_notin_id; auto.
    - simpl. f_equal. eapply IH; eauto.
  Qed.

  (* ---------------- cells read as entries ---------------- *)
  Definition centry (cs : list (fcell K V)) (n : nat) : option (K * V) :=
    match nth_error cs n with
    | Some {| fc_keyed := Some k; fc_val := Some v |} => Some (k, v)
    | _ => None
    end.

  Lemma fl_entry_centry : forall (l : fifol K V) n, fl_entry l n = centry (fl_cells l) n.
  Proof. reflexivity. Qed.

  Lemma centry_some : forall cs n k v, centry cs n = Some (k, v) ->
    nth_error cs n = Some {| fc_keyed := Some k; fc_val := Some v |}.
  Proof.
    intros cs n k v E. unfold centry in E.
    destruct (nth_error cs n) as [[[k0|] [v0|]]|]; try discriminate.
    inversion E; subst. reflexivity.
  Qed.

  Lemma centry_of_cell : forall cs n k v,
    nth_error cs n = Some {| fc_keyed := Some k; fc_val := Some v |} -> centry cs n = Some (k, v).
  Proof. intros cs n k v E. unfold centry. rewrite E. reflexivity. Qed.

  Lemma centry_upd_eq : forall cs n k v, n < List.length cs ->
    centry (upd_nth n {| fc_keyed := Some k; fc_val := Some v |} cs) n = Some (k, v).
  Proof. intros. apply centry_of_cell. apply nth_error_upd_eq. assumption. Qed.

  Lemma centry_upd_neq : forall cs n c m, m <> n -> centry (upd_nth n c cs) m = centry cs m.
  Proof. intros. unfold centry. rewrite nth_error_upd_neq by assumption. reflexivity. Qed.

  (* ---------------- used nodes read through f  vs  the mid-level list ---------------- *)
  Lemma assoc_of_in : forall (items : list (K * V)) k v, NoDup (keys items) -> In (k, v) items ->
    assoc k items = Some v.
  Proof.
    induction items as [|[k1 v1] r IH]; simpl; intros k v ND I; [contradiction|].
    inversion ND as [|x l NI ND']; subst.
    destruct I as [E|I].
    - inversion E; subst. rewrite keqb_refl. reflexivity.
    - destruct (Base.eqb_spec k k1) as [E|N].
      + subst. exfalso. apply NI. change (In (fst (k1, v)) (map fst r)). apply in_map. exact I.
      + apply IH; auto.
  Qed.

  Lemma assoc_some_in : forall (items : list (K * V)) k v, assoc k items = Some v -> In (k, v) items.
  Proof.
    induction items as [|[k1 v1] r IH]; simpl; intros k v E; [discriminate|].
    destruct (Base.eqb_spec k k1) as [Ek|N].
    - inversion E; subst. left. reflexivity.
    - right. apply IH. exact E.
  Qed.

  Lemma map_some_in : forall (f : nat -> option (K * V)) used items n kv,
    map f used = map (@Some (K * V)) items -> In n used -> f n = Some kv -> In kv items.
  Proof.
    intros f used items n kv M I E.
    assert (J : In (Some kv) (map f used)) by (rewrite <- E; apply in_map; exact I).
    rewrite M in J. apply in_map_iff in J. destruct J as (x & Ex & Ix). inversion Ex; subst. exact Ix.
  Qed.

  Lemma map_some_in_rev : forall (f : nat -> option (K * V)) used items kv,
    map f used = map (@Some (K * V)) items -> In kv items -> exists n, In n used /\ f n = Some kv.
  Proof.
    intros f used items kv M I.
    assert (J : In (Some kv) (map f used)) by (rewrite M; apply in_map; exact I).
    apply in_map_iff in J. destruct J as (n & En & In_). exists n. auto.
  Qed.

  Lemma map_some_length : forall (f : nat -> option (K * V)) used items,
    map f used = map (@Some (K * V)) items -> List.length used = List.length items.
  Proof.
    intros f used items M. rewrite <- (map_length f used), M, map_length. reflexivity.
  Qed.

  Lemma map_setk_gen : forall used items (f g : nat -> option (K * V)) n k v,
    NoDup used -> map f used = map (@Some (K * V)) items ->
    (forall m v', In m used -> f m = Some (k, v') -> m = n) ->
    (exists v0, f n = Some (k, v0)) ->
    g n = Some (k, v) -> (forall m, m <> n -> g m = f m) ->
    map g used = map (@Some (K * V)) (setk k v items).
  Proof.
    induction used as [|m us IH]; intros items f g n k v ND M Inj (v0 & Fn) Gn Go.
    - destruct items; [reflexivity|discriminate].
    - destruct items as [|[k1 v1] its]; [discriminate|].
      simpl in M. injection M as M1 M2.
      inversion ND as [|y t NI ND']; subst.
      destruct (Nat.eq_dec m n) as [E|N].
      + subst m. rewrite Fn in M1. inversion M1; subst k1 v1.
        simpl. rewrite keqb_refl. simpl. rewrite Gn. f_equal.
        rewrite <- M2. apply map_ext_in. intros a Ia. apply Go. intros Ea. subst a. contradiction.
      + assert (Nk : k <> k1).
        { intros Ek. subst k1. apply N. apply (Inj m v1); [left; reflexivity|exact M1]. }
        simpl. rewrite (keqb_neq _ _ Nk). simpl. rewrite (Go m N), M1. f_equal.
        apply (IH its f g n k v); auto.
        * intros a v' Ia Fa. apply (Inj a v'); [right; exact Ia|exact Fa].
        * exists v0. exact Fn.
  Qed.

  Lemma map_remk_gen : forall used items (f : nat -> option (K * V)) n k,
    NoDup used -> map f used = map (@Some (K * V)) items ->
    (forall m v', In m used -> f m = Some (k, v') -> m = n) ->
    (exists v0, f n = Some (k, v0)) ->
    map f (remove_nat n used) = map (@Some (K * V)) (remk k items).
  Proof.
    induction used as [|m us IH]; intros items f n k ND M Inj (v0 & Fn).
    - destruct items; [reflexivity|discriminate].
    - destruct items as [|[k1 v1] its]; [discriminate|].
      simpl in M. injection M as M1 M2.
      inversion ND as [|y t NI ND']; subst.
      assert (IHus : map f (remove_nat n us) = map (@Some (K * V)) (remk k its)).
      { apply IH; auto.
        - intros a v' Ia Fa. apply (Inj a v'); [right; exact Ia|exact Fa].
        - exists v0. exact Fn. }
      simpl. destruct (Nat.eqb_spec n m) as [E|N].
      + subst m. rewrite Fn in M1. inversion M1; subst k1 v1.
        rewrite keqb_refl. rewrite <- IHus. rewrite remove_nat_notin by exact NI. reflexivity.
      + assert (Nk : k <> k1).
        { intros Ek. subst k1. apply N. symmetry. apply (Inj m v1); [left; reflexivity|exact M1]. }
        rewrite (keqb_neq _ _ Nk). simpl. rewrite M1, IHus. reflexivity.
  Qed.

  (* ---------------- the representation relation with its witnesses exposed ---------------- *)
  Definition repw (l : fifol K V) (s : lc K V) (free used : list nat) : Prop :=
      fl_list l = free ++ used /\
      fl_cap l = lc_cap s /\ List.length (fl_cells l) = lc_cap s /\
      NoDup (fl_list l) /\ List.length (fl_list l) = lc_cap s /\ (forall n, In n (fl_list l) -> n < lc_cap s) /\
      fl_used l = List.length used /\ List.length (fl_index l) = List.length used /\ NoDup (keys (fl_index l)) /\
      (forall n, In n free -> exists c, nth_error (fl_cells l) n = Some c /\ fc_keyed c = None) /\
      map (fl_entry l) used = map (@Some (K * V)) (lc_items s) /\
      (forall n k v, In n used -> fl_entry l n = Some (k, v) -> assoc k (fl_index l) = Some n) /\
      (forall k n, assoc k (fl_index l) = Some n -> In n used /\ exists v, fl_entry l n = Some (k, v)).

  Lemma fl_rep_repw : forall l s, fl_rep l s <-> exists free used, repw l s free used.
  Proof. intros l s. unfold fl_rep, repw. tauto. Qed.

  Theorem fl_rep_init : forall cap, 1 <= cap -> fl_rep (K := K) (V := V) (fifol_init cap) (lc_init cap).
  Proof.
    intros cap Hc. exists (seq 0 cap), []. unfold fifol_init, lc_init; simpl.
    rewrite app_nil_r, repeat_length, seq_length.
    split; [reflexivity|]. split; [reflexivity|]. split; [reflexivity|].
    split; [apply seq_NoDup|]. split; [reflexivity|].
    split. { intros n I. apply in_seq in I. lia. }
    split; [reflexivity|]. split; [reflexivity|]. split; [constructor|].
    split.
    { intros n I. apply in_seq in I. exists {| fc_keyed := None; fc_val := None |}. split; [|reflexivity].
      apply nth_error_repeat. lia. }
    split; [reflexivity|]. split; [intros n k v []|]. intros k n E. discriminate.
  Qed.

  Lemma cell_of_ok : forall (s : fifol K V) n c, In n (fl_list s) -> nth_error (fl_cells s) n = Some c ->
    cell_of s (It n) = Ok (n, c).
  Proof.
    intros s n c I E. unfold cell_of, l_deref. rewrite (proj2 (mem_nat_In n _) I). cbn [bind].
    rewrite (vget_ok _ _ _ _ _ E). reflexivity.
  Qed.

  Lemma cell_of_ok_rec : forall cap li (cs : list (fcell K V)) ix u n c, In n li -> nth_error cs n = Some c ->
    cell_of {| fl_cap := cap; fl_list := li; fl_cells := cs; fl_index := ix; fl_used := u |} (It n) = Ok (n, c).
  Proof. intros. apply cell_of_ok; assumption. Qed.

  (* what the index says about the mid-level lookup *)
  Lemma repw_some : forall t l s free used k n,
    lc_inv t s -> repw l s free used -> assoc k (fl_index l) = Some n ->
    In n used /\ exists v, nth_error (fl_cells l) n = Some {| fc_keyed := Some k; fc_val := Some v |} /\
                           fl_entry l n = Some (k, v) /\ assoc k (lc_items s) = Some v.
  Proof.
    intros t l s free used k n I R A.
    destruct R as (Rl & Rc & Rcl & Rnd & Rll & Rb & Ru & Ril & Rik & Rf & Rm & Rfw & Rbw).
    destruct (Rbw k n A) as (Iu & v & E). split; [exact Iu|]. exists v.
    split; [apply centry_some; exact E|]. split; [exact E|].
    destruct I as (Ind & _). apply assoc_of_in; [exact Ind|].
    eapply map_some_in; eauto.
  Qed.

  Lemma repw_none : forall l s free used k,
    repw l s free used -> assoc k (fl_index l) = None -> assoc k (lc_items s) = None.
  Proof.
    intros l s free used k R A.
    destruct R as (Rl & Rc & Rcl & Rnd & Rll & Rb & Ru & Ril & Rik & Rf & Rm & Rfw & Rbw).
    destruct (assoc k (lc_items s)) as [v|] eqn:E; [|reflexivity]. exfalso.
    apply assoc_some_in in E. destruct (map_some_in_rev _ _ _ _ Rm E) as (n & Iu & Fn).
    rewrite (Rfw n k v Iu Fn) in A. discriminate.
  Qed.

  (* ---------------- do_find ---------------- *)
  Lemma lc_find_fifo : forall (s : lc K V) k pk, lc_find fifo_policy s k pk = (s, assoc k (lc_items s)).
  Proof. intros s k pk. unfold lc_find. destruct (assoc k (lc_items s)); reflexivity. Qed.

  Lemma lc_find_range_fifo : forall ks (s : lc K V) pk,
    lc_find_range fifo_policy s ks pk = (s, map (fun k => (k, assoc k (lc_items s))) ks).
  Proof.
    induction ks as [|k r IH]; intros s pk; simpl; [reflexivity|].
    rewrite lc_find_fifo, IH. reflexivity.
  Qed.

  Lemma fl_find_refines : forall t (l : fifol K V) (s : lc K V) k,
    lc_inv t s -> fl_rep l s -> fl_find l k = Ok (assoc k (lc_items s)).
  Proof.
    intros t l s k I (free & used & R). unfold fl_find.
    destruct (assoc k (fl_index l)) as [n|] eqn:A.
    - destruct (repw_some t l s free used k n I R A) as (Iu & v & Ec & _ & Ea).
      destruct R as (Rl & _).
      rewrite (cell_of_ok l n _) with (2 := Ec) by (rewrite Rl; apply in_or_app; right; exact Iu).
      cbn [bind snd fc_val]. rewrite Ea. reflexivity.
    - rewrite (repw_none l s free used k R A). reflexivity.
  Qed.

  Lemma fl_find_range_refines : forall t (l : fifol K V) (s : lc K V) ks,
    lc_inv t s -> fl_rep l s ->
    fl_find_range l ks = Ok (map (fun k => (k, assoc k (lc_items s))) ks).
  Proof.
    intros t l s ks I R. induction ks as [|k r IH]; simpl; [reflexivity|].
    rewrite (fl_find_refines t l s k I R). cbn [bind]. rewrite IH. reflexivity.
  Qed.

  (* ---------------- do_update ---------------- *)
  Lemma fl_update_refines : forall t (l : fifol K V) (s : lc K V) k n v,
    lc_inv t s -> fl_rep l s -> assoc k (fl_index l) = Some n ->
    exists l', fl_do_update l n v = Ok l' /\ fl_rep l' (lc_with s (setk k v (lc_items s))).
  Proof.
    intros t l s k n v I (free & used & R) A.
    destruct (repw_some t l s free used k n I R A) as (Iu & v0 & Ec & Ee & Ea).
    destruct R as (Rl & Rc & Rcl & Rnd & Rll & Rb & Ru & Ril & Rik & Rf & Rm & Rfw & Rbw).
    assert (Il : In n (fl_list l)) by (rewrite Rl; apply in_or_app; right; exact Iu).
    assert (Hn : n < List.length (fl_cells l)) by (rewrite Rcl; apply Rb; exact Il).
    unfold fl_do_update. rewrite (cell_of_ok l n _ Il Ec). cbn [bind fc_keyed].
    rewrite vset_ok by exact Hn. cbn [bind].
    eexists. split; [reflexivity|]. exists free, used.
    unfold repw. cbn [fl_list fl_cap fl_cells fl_index fl_used lc_with lc_cap lc_items].
    rewrite upd_length.
    split; [exact Rl|]. split; [exact Rc|]. split; [exact Rcl|]. split; [exact Rnd|].
    split; [exact Rll|]. split; [exact Rb|]. split; [exact Ru|]. split; [exact Ril|]. split; [exact Rik|].
    assert (Eo : forall m, m <> n ->
              fl_entry {| fl_cap := fl_cap l; fl_list := fl_list l;
                          fl_cells := upd_nth n {| fc_keyed := Some k; fc_val := Some v |} (fl_cells l);
                          fl_index := fl_index l; fl_used := fl_used l |} m = fl_entry l m).
    { intros m Nm. rewrite !fl_entry_centry. cbn [fl_cells]. apply centry_upd_neq. exact Nm. }
    assert (En : fl_entry {| fl_cap := fl_cap l; fl_list := fl_list l;
                          fl_cells := upd_nth n {| fc_keyed := Some k; fc_val := Some v |} (fl_cells l);
                          fl_index := fl_index l; fl_used := fl_used l |} n = Some (k, v)).
    { rewrite fl_entry_centry. cbn [fl_cells]. apply centry_upd_eq. exact Hn. }
    split.
    { intros m Im. destruct (Rf m Im) as (c & Em & Ek). exists c. split; [|exact Ek].
      rewrite nth_error_upd_neq; [exact Em|]. intros E. subst m.
      rewrite Rl in Rnd. exact (nodup_app_disj _ _ _ Rnd Im Iu). }
    split.
    { apply (map_setk_gen used (lc_items s) (fl_entry l) _ n k v); auto.
      - rewrite Rl in Rnd. eapply nodup_app_right; eauto.
      - intros m v' Im Fm. pose proof (Rfw m k v' Im Fm) as A'. congruence.
      - exists v0. exact Ee. }
    split.
    - intros m k' v' Im Fm. destruct (Nat.eq_dec m n) as [E|N].
      + subst m. rewrite En in Fm. inversion Fm; subst. exact A.
      + rewrite (Eo m N) in Fm. eapply Rfw; eauto.
    - intros k' m A'. destruct (Rbw k' m A') as (Im & v' & Fm). split; [exact Im|].
      destruct (Nat.eq_dec m n) as [E|N].
      + subst m. rewrite Ee in Fm. inversion Fm; subst. exists v. exact En.
      + exists v'. rewrite (Eo m N). exact Fm.
  Qed.

  (* ---------------- do_erase ---------------- *)
  Lemma fl_do_erase_refines : forall t (l : fifol K V) (s : lc K V) k n,
    lc_inv t s -> fl_rep l s -> assoc k (fl_index l) = Some n ->
    exists l', fl_do_erase l n = Ok l' /\ fl_rep l' (lc_with s (remk k (lc_items s))).
  Proof.
    intros t l s k n I (free & used & R) A.
    destruct (repw_some t l s free used k n I R A) as (Iu & v0 & Ec & Ee & Ea).
    destruct R as (Rl & Rc & Rcl & Rnd & Rll & Rb & Ru & Ril & Rik & Rf & Rm & Rfw & Rbw).
    assert (Il : In n (fl_list l)) by (rewrite Rl; apply in_or_app; right; exact Iu).
    assert (Hn : n < List.length (fl_cells l)) by (rewrite Rcl; apply Rb; exact Il).
    assert (NDu : NoDup used) by (rewrite Rl in Rnd; eapply nodup_app_right; eauto).
    assert (Nf : ~ In n free).
    { intros If. rewrite Rl in Rnd. exact (nodup_app_disj _ _ _ Rnd If Iu). }
    unfold fl_do_erase. rewrite (cell_of_ok l n _ Il Ec). cbn [bind fc_keyed fc_val].
    rewrite (erase_splice_ok _ _ Il). cbn [bind].
    unfold index_erase. rewrite A. cbn [bind].
    rewrite vset_ok by exact Hn. cbn [bind].
    destruct (Nat.eqb_spec (fl_used l) 0) as [Ez|Nz].
    { exfalso. rewrite Ru in Ez. destruct used; [contradiction|discriminate]. }
    eexists. split; [reflexivity|]. exists (n :: free), (remove_nat n used).
    unfold repw. cbn [fl_list fl_cap fl_cells fl_index fl_used lc_with lc_cap lc_items].
    rewrite upd_length.
    pose proof (length_remove_nat n used Iu) as Lu.
    pose proof (length_remove_nat n (fl_list l) Il) as Ll.
    assert (Eo : forall m, m <> n ->
              fl_entry {| fl_cap := fl_cap l; fl_list := n :: remove_nat n (fl_list l);
                          fl_cells := upd_nth n {| fc_keyed := None; fc_val := Some v0 |} (fl_cells l);
                          fl_index := remk k (fl_index l); fl_used := fl_used l - 1 |} m = fl_entry l m).
    { intros m Nm. rewrite !fl_entry_centry. cbn [fl_cells]. apply centry_upd_neq. exact Nm. }
    split. { rewrite Rl, remove_nat_app by exact Nf. reflexivity. }
    split; [exact Rc|]. split; [exact Rcl|].
    split.
    { constructor; [|apply nodup_remove_nat; exact Rnd].
      intros J. apply (in_remove_nat n _ n Rnd) in J. tauto. }
    split. { simpl. lia. }
    split.
    { intros m [E|J]; [subst m; apply Rb; exact Il|].
      apply (in_remove_nat n _ m Rnd) in J. apply Rb. tauto. }
    split; [lia|].
    split. { pose proof (length_remk_nodup _ _ _ Rik A). lia. }
    split; [apply nodup_remk; exact Rik|].
    split.
    { intros m [E|Im].
      - subst m. eexists. split; [apply nth_error_upd_eq; exact Hn|reflexivity].
      - destruct (Rf m Im) as (c & Em & Ek). exists c. split; [|exact Ek].
        rewrite nth_error_upd_neq; [exact Em|]. intros E. subst m. contradiction. }
    split.
    { rewrite <- (map_remk_gen used (lc_items s) (fl_entry l) n k NDu Rm).
      - apply map_ext_in. intros m Im. apply Eo. apply (in_remove_nat n _ m NDu) in Im. tauto.
      - intros m v' Im Fm. pose proof (Rfw m k v' Im Fm) as A'. congruence.
      - exists v0. exact Ee. }
    split.
    - intros m k' v' Im Fm. apply (in_remove_nat n _ m NDu) in Im. destruct Im as [Im Nm].
      rewrite (Eo m Nm) in Fm. pose proof (Rfw m k' v' Im Fm) as A'.
      rewrite assoc_remk_other; [exact A'|]. intros Ek. subst k'. congruence.
    - intros k' m A'.
      assert (Nk : k' <> k).
      { intros Ek. subst k'. rewrite assoc_remk_same in A'. discriminate. }
      rewrite assoc_remk_other in A' by exact Nk.
      destruct (Rbw k' m A') as (Im & v' & Fm).
      assert (Nm : m <> n).
      { intros E. subst m. rewrite Ee in Fm. inversion Fm; subst. congruence. }
      split; [apply (in_remove_nat n _ m NDu); tauto|].
      exists v'. rewrite (Eo m Nm). exact Fm.
  Qed.

  (* ---------------- do_insert ---------------- *)
  Lemma fl_do_insert_refines : forall t (l : fifol K V) (s : lc K V) k v,
    lc_inv t s -> fl_rep l s -> assoc k (fl_index l) = None ->
    exists l', fl_do_insert l k v = Ok l' /\
               fl_rep l' (lc_with s (lc_evict fifo_policy s ++ [(k, v)])).
  Proof.
    intros t l s k v I (free & used & R) A.
    destruct I as (Ind & Ilen & Icap).
    destruct R as (Rl & Rc & Rcl & Rnd & Rll & Rb & Ru & Ril & Rik & Rf & Rm & Rfw & Rbw).
    pose proof (map_some_length _ _ _ Rm) as Lm.
    assert (Nk : ~ In k (keys (fl_index l))) by (apply assoc_none; exact A).
    destruct free as [|n fr].
    - (* the cache is full: the head is the oldest used node *)
      simpl in Rl.
      destruct used as [|n0 us].
      { rewrite Rl in Rll. simpl in Rll. lia. }
      destruct (lc_items s) as [|[k0 v0] its] eqn:Eit; [discriminate|].
      simpl in Rm. injection Rm as Rm1 Rm2.
      assert (Il : In n0 (fl_list l)) by (rewrite Rl; left; reflexivity).
      assert (Hn : n0 < List.length (fl_cells l)) by (rewrite Rcl; apply Rb; exact Il).
      assert (A0 : assoc k0 (fl_index l) = Some n0) by (apply (Rfw n0 k0 v0); [left; reflexivity|exact Rm1]).
      assert (Ec : nth_error (fl_cells l) n0 = Some {| fc_keyed := Some k0; fc_val := Some v0 |})
        by (apply centry_some; exact Rm1).
      assert (Nk0 : k <> k0) by (intros E; subst k0; congruence).
      rewrite Rl in Rnd. inversion Rnd as [|y t0 NI NDus]; subst y t0.
      pose proof (length_remk_nodup _ _ _ Rik A0) as Lr.
      unfold fl_do_insert. rewrite Rl. rewrite splice_begin_to_end. cbn [bind].
      rewrite prev_end_snoc. cbn [bind].
      rewrite (cell_of_ok_rec _ _ _ _ _ n0 _) with (2 := Ec)
        by (apply in_or_app; right; left; reflexivity).
      cbn [bind fc_keyed]. unfold index_erase. rewrite A0. cbn [bind].
      unfold index_emplace.
      assert (C : (List.length (remk k0 (fl_index l)) <? fl_cap l) = true).
      { apply Nat.ltb_lt. rewrite Rl in Rll. simpl in Rll, Ril. lia. }
      rewrite C. cbn [bind]. rewrite vset_ok by exact Hn. cbn [bind].
      eexists. split; [reflexivity|]. exists [], (us ++ [n0]).
      unfold repw. cbn [fl_list fl_cap fl_cells fl_index fl_used lc_with lc_cap lc_items].
      rewrite upd_length.
      assert (Eo : forall m, m <> n0 ->
                fl_entry {| fl_cap := fl_cap l; fl_list := us ++ [n0];
                            fl_cells := upd_nth n0 {| fc_keyed := Some k; fc_val := Some v |} (fl_cells l);
                            fl_index := remk k0 (fl_index l) ++ [(k, n0)]; fl_used := fl_used l |} m = fl_entry l m).
      { intros m Nm. rewrite !fl_entry_centry. cbn [fl_cells]. apply centry_upd_neq. exact Nm. }
      assert (En : fl_entry {| fl_cap := fl_cap l; fl_list := us ++ [n0];
                            fl_cells := upd_nth n0 {| fc_keyed := Some k; fc_val := Some v |} (fl_cells l);
                            fl_index := remk k0 (fl_index l) ++ [(k, n0)]; fl_used := fl_used l |} n0 = Some (k, v)).
      { rewrite fl_entry_centry. cbn [fl_cells]. apply centry_upd_eq. exact Hn. }
      assert (Ev : lc_evict fifo_policy s = its).
      { unfold lc_evict. rewrite Eit. simpl lc_victim_back. cbv iota.
        assert (C2 : (lc_cap s <=? List.length ((k0, v0) :: its)) = true).
        { apply Nat.leb_le. rewrite Rl in Rll. simpl in *. lia. }
        rewrite C2. reflexivity. }
      rewrite Ev.
      split; [reflexivity|]. split; [exact Rc|]. split; [exact Rcl|].
      split; [apply nodup_rotate; constructor; assumption|].
      split. { rewrite Rl in Rll. rewrite app_length. simpl in *. lia. }
      split.
      { intros m J. apply Rb. rewrite Rl. apply in_app_or in J. destruct J as [J|[J|[]]]; [right; exact J|left; exact J]. }
      split. { rewrite Ru, app_length. simpl. lia. }
      split. { rewrite !app_length. simpl in *. lia. }
      split.
      { rewrite keys_app. simpl. apply nodup_snoc; [apply nodup_remk; exact Rik|].
        intros J. apply in_keys_remk in J. tauto. }
      split; [intros m []|].
      split.
      { rewrite !map_app. simpl. rewrite En. f_equal.
        rewrite <- Rm2. apply map_ext_in. intros m Im. apply Eo. intros E. subst m. contradiction. }
      split.
      + intros m k' v' Im Fm. apply in_app_or in Im. destruct Im as [Im|[Im|[]]].
        * assert (Nm : m <> n0) by (intros E; subst m; contradiction).
          rewrite (Eo m Nm) in Fm. pose proof (Rfw m k' v' (or_intror Im) Fm) as A'.
          assert (Nk' : k' <> k0) by (intros E; subst k'; congruence).
          rewrite assoc_app, assoc_remk_other by exact Nk'. rewrite A'. reflexivity.
        * subst m. rewrite En in Fm. inversion Fm; subst k' v'.
          rewrite assoc_app, assoc_remk_other by exact Nk0. rewrite A. simpl. rewrite keqb_refl. reflexivity.
      + intros k' m A'. rewrite assoc_app in A'.
        destruct (assoc k' (remk k0 (fl_index l))) as [m0|] eqn:A1.
        * inversion A'; subst m0.
          assert (Nk' : k' <> k0).
          { intros E. subst k'. rewrite assoc_remk_same in A1. discriminate. }
          rewrite assoc_remk_other in A1 by exact Nk'.
          destruct (Rbw k' m A1) as (Im & v' & Fm).
          assert (Nm : m <> n0).
          { intros E. subst m. rewrite Rm1 in Fm. inversion Fm; subst. congruence. }
          destruct Im as [E|Im]; [congruence|].
          split; [apply in_or_app; left; exact Im|]. exists v'. rewrite (Eo m Nm). exact Fm.
        * simpl in A'. destruct (Base.eqb_spec k' k) as [E|N]; [|discriminate].
          inversion A'; subst. split; [apply in_or_app; right; left; reflexivity|].
          exists v. exact En.
    - (* there is a free node at the head *)
      simpl in Rl.
      assert (Il : In n (fl_list l)) by (rewrite Rl; left; reflexivity).
      assert (Hn : n < List.length (fl_cells l)) by (rewrite Rcl; apply Rb; exact Il).
      destruct (Rf n (or_introl eq_refl)) as (c & Ec & Ekc).
      rewrite Rl in Rnd. inversion Rnd as [|y t0 NI NDr]; subst y t0.
      assert (Nu : ~ In n used) by (intros J; apply NI; apply in_or_app; right; exact J).
      assert (Nfr : ~ In n fr) by (intros J; apply NI; apply in_or_app; left; exact J).
      unfold fl_do_insert. rewrite Rl. rewrite splice_begin_to_end. cbn [bind].
      rewrite prev_end_snoc. cbn [bind].
      rewrite (cell_of_ok_rec _ _ _ _ _ n _) with (2 := Ec)
        by (apply in_or_app; right; left; reflexivity).
      cbn [bind]. rewrite Ekc. cbn [bind].
      unfold index_emplace.
      assert (C : (List.length (fl_index l) <? fl_cap l) = true).
      { apply Nat.ltb_lt. rewrite Rl in Rll. simpl in Rll. rewrite app_length in Rll. lia. }
      rewrite C. cbn [bind]. rewrite vset_ok by exact Hn. cbn [bind].
      eexists. split; [reflexivity|]. exists fr, (used ++ [n]).
      unfold repw. cbn [fl_list fl_cap fl_cells fl_index fl_used lc_with lc_cap lc_items].
      rewrite upd_length.
      assert (Eo : forall m, m <> n ->
                fl_entry {| fl_cap := fl_cap l; fl_list := (fr ++ used) ++ [n];
                            fl_cells := upd_nth n {| fc_keyed := Some k; fc_val := Some v |} (fl_cells l);
                            fl_index := fl_index l ++ [(k, n)]; fl_used := S (fl_used l) |} m = fl_entry l m).
      { intros m Nm. rewrite !fl_entry_centry. cbn [fl_cells]. apply centry_upd_neq. exact Nm. }
      assert (En : fl_entry {| fl_cap := fl_cap l; fl_list := (fr ++ used) ++ [n];
                            fl_cells := upd_nth n {| fc_keyed := Some k; fc_val := Some v |} (fl_cells l);
                            fl_index := fl_index l ++ [(k, n)]; fl_used := S (fl_used l) |} n = Some (k, v)).
      { rewrite fl_entry_centry. cbn [fl_cells]. apply centry_upd_eq. exact Hn. }
      assert (Ev : lc_evict fifo_policy s = lc_items s).
      { unfold lc_evict.
        assert (C2 : (lc_cap s <=? List.length (lc_items s)) = false).
        { apply Nat.leb_gt. rewrite Rl in Rll. simpl in Rll. rewrite app_length in Rll. lia. }
        rewrite C2. reflexivity. }
      rewrite Ev.
      split; [rewrite app_assoc; reflexivity|]. split; [exact Rc|]. split; [exact Rcl|].
      split; [apply nodup_rotate; constructor; assumption|].
      split. { rewrite Rl in Rll. rewrite app_length. simpl in *. lia. }
      split.
      { intros m J. apply Rb. rewrite Rl. apply in_app_or in J. destruct J as [J|[J|[]]]; [right; exact J|left; exact J]. }
      split. { rewrite Ru, app_length. simpl. lia. }
      split. { rewrite !app_length. simpl. lia. }
      split. { rewrite keys_app. simpl. apply nodup_snoc; [exact Rik|exact Nk]. }
      split.
      { intros m Im. destruct (Rf m (or_intror Im)) as (c' & Em & Ek'). exists c'. split; [|exact Ek'].
        rewrite nth_error_upd_neq; [exact Em|]. intros E. subst m. contradiction. }
      split.
      { rewrite !map_app. simpl. rewrite En. f_equal.
        rewrite <- Rm. apply map_ext_in. intros m Im. apply Eo. intros E. subst m. contradiction. }
      split.
      + intros m k' v' Im Fm. apply in_app_or in Im. destruct Im as [Im|[Im|[]]].
        * assert (Nm : m <> n) by (intros E; subst m; contradiction).
          rewrite (Eo m Nm) in Fm. pose proof (Rfw m k' v' Im Fm) as A'.
          rewrite assoc_app, A'. reflexivity.
        * subst m. rewrite En in Fm. inversion Fm; subst k' v'.
          rewrite assoc_app, A. simpl. rewrite keqb_refl. reflexivity.
      + intros k' m A'. rewrite assoc_app in A'.
        destruct (assoc k' (fl_index l)) as [m0|] eqn:A1.
        * inversion A'; subst m0.
          destruct (Rbw k' m A1) as (Im & v' & Fm).
          assert (Nm : m <> n) by (intros E; subst m; contradiction).
          split; [apply in_or_app; left; exact Im|]. exists v'. rewrite (Eo m Nm). exact Fm.
        * simpl in A'. destruct (Base.eqb_spec k' k) as [E|N]; [|discriminate].
          inversion A'; subst. split; [apply in_or_app; right; left; reflexivity|].
          exists v. exact En.
  Qed.

  Lemma lc_inv_any : forall t t' (s : lc K V), lc_inv t s -> lc_inv t' s.
  Proof. intros t t' s I. exact I. Qed.

  Lemma fl_rep_lookup_none : forall (l : fifol K V) (s : lc K V) k,
    fl_rep l s -> assoc k (fl_index l) = None -> assoc k (lc_items s) = None.
  Proof. intros l s k (free & used & R) A. eapply repw_none; eauto. Qed.

  Lemma fl_rep_lookup_some : forall t (l : fifol K V) (s : lc K V) k n,
    lc_inv t s -> fl_rep l s -> assoc k (fl_index l) = Some n -> exists v, assoc k (lc_items s) = Some v.
  Proof.
    intros t l s k n I (free & used & R) A.
    destruct (repw_some t l s free used k n I R A) as (_ & v & _ & _ & Ea). eauto.
  Qed.

  (* ---------------- do_insert_update ---------------- *)
  Lemma fl_ins_refines : forall t t' (l : fifol K V) (s : lc K V) k v a s1 b,
    lc_inv t s -> fl_rep l s -> lc_ins fifo_policy s k v a = (s1, b) ->
    exists l', fl_ins l k v a = Ok (l', b) /\ fl_rep l' s1 /\ lc_inv t' s1.
  Proof.
    intros t t' l s k v a s1 b I R E. unfold lc_ins in E. unfold fl_ins.
    destruct (assoc k (fl_index l)) as [n|] eqn:A.
    - destruct (fl_rep_lookup_some t l s k n I R A) as (v0 & Ea). rewrite Ea in E.
      destruct (a_upd a).
      + simpl in E. injection E as E1 E2. subst s1 b.
        destruct (fl_update_refines t l s k n v I R A) as (l' & D & R').
        rewrite D. cbn [bind]. exists l'. split; [reflexivity|]. split; [exact R'|].
        apply inv_set with t. exact I.
      + injection E as E1 E2. subst s1 b. exists l. auto.
    - rewrite (fl_rep_lookup_none l s k R A) in E.
      destruct (a_ins a).
      + injection E as E1 E2. subst s1 b.
        destruct (fl_do_insert_refines t l s k v I R A) as (l' & D & R').
        rewrite D. cbn [bind]. exists l'. split; [reflexivity|]. split; [exact R'|].
        apply inv_new with t; [exact I|]. exact (fl_rep_lookup_none l s k R A).
      + injection E as E1 E2. subst s1 b. exists l. auto.
  Qed.

  (* ---------------- erase(key) ---------------- *)
  Lemma fl_erase_refines : forall t t' (l : fifol K V) (s : lc K V) k s1 b,
    lc_inv t s -> fl_rep l s -> lc_erase s k = (s1, b) ->
    exists l', fl_erase l k = Ok (l', b) /\ fl_rep l' s1 /\ lc_inv t' s1.
  Proof.
    intros t t' l s k s1 b I R E. unfold lc_erase in E. unfold fl_erase.
    destruct (assoc k (fl_index l)) as [n|] eqn:A.
    - destruct (fl_rep_lookup_some t l s k n I R A) as (v0 & Ea). rewrite Ea in E.
      injection E as E1 E2. subst s1 b.
      destruct (fl_do_erase_refines t l s k n I R A) as (l' & D & R').
      rewrite D. cbn [bind]. exists l'. split; [reflexivity|]. split; [exact R'|].
      apply inv_rem with t. exact I.
    - rewrite (fl_rep_lookup_none l s k R A) in E. injection E as E1 E2. subst s1 b.
      exists l. auto.
  Qed.

  (* ---------------- range calls ---------------- *)
  Lemma fl_ins_range_refines : forall xs t t' (l : fifol K V) (s : lc K V) a n,
    lc_inv t s -> fl_rep l s ->
    exists l', fl_ins_range l xs a n = Ok (l', snd (lc_ins_range fifo_policy s xs a n)) /\
               fl_rep l' (fst (lc_ins_range fifo_policy s xs a n)) /\
               lc_inv t' (fst (lc_ins_range fifo_policy s xs a n)).
  Proof.
    induction xs as [|[[z k] v] r IH]; intros t t' l s a n I R; simpl.
    - exists l. auto.
    - destruct (lc_ins fifo_policy s k v a) as [s1 b] eqn:E.
      destruct (fl_ins_refines t t l s k v a s1 b I R E) as (l1 & D1 & R1 & I1).
      rewrite D1. cbn [bind].
      exact (IH t t' l1 s1 a (if b then S n else n) I1 R1).
  Qed.

  Lemma fl_erase_range_refines : forall ks t t' (l : fifol K V) (s : lc K V) n,
    lc_inv t s -> fl_rep l s ->
    exists l', fl_erase_range l ks n = Ok (l', snd (lc_erase_range s ks n)) /\
               fl_rep l' (fst (lc_erase_range s ks n)) /\
               lc_inv t' (fst (lc_erase_range s ks n)).
  Proof.
    induction ks as [|k r IH]; intros t t' l s n I R; simpl.
    - exists l. auto.
    - destruct (lc_erase s k) as [s1 b] eqn:E.
      destruct (fl_erase_refines t t l s k s1 b I R E) as (l1 & D1 & R1 & I1).
      rewrite D1. cbn [bind].
      exact (IH t t' l1 s1 (if b then S n else n) I1 R1).
  Qed.

  Lemma fl_rep_sizes : forall (l : fifol K V) (s : lc K V), fl_rep l s ->
    fl_used l = lc_size s /\ List.length (fl_list l) = lc_cap s /\ List.length (fl_cells l) = lc_cap s.
  Proof.
    intros l s (free & used & R).
    destruct R as (Rl & Rc & Rcl & Rnd & Rll & Rb & Ru & Ril & Rik & Rf & Rm & Rfw & Rbw).
    split; [|split; assumption]. unfold lc_size. rewrite Ru. eapply map_some_length; eauto.
  Qed.

  (* ---------------- one public call ---------------- *)
  (* one public call: from related states (the mid-level one satisfying its invariant) the
     literal machine does not hit UB, returns the same result as the mid-level model, and the
     successor states are related again *)
  Theorem fl_step_refines : forall t (l : fifol K V) (s : lc K V) o now rnd,
      lc_inv t s -> fl_rep l s ->
      exists l', fl_step l o now rnd = Ok (l', snd (lc_step fifo_policy s o now rnd)) /\
                 fl_rep l' (fst (lc_step fifo_policy s o now rnd)) /\
                 lc_inv now (fst (lc_step fifo_policy s o now rnd)).
  Proof.
    intros t l s o now rnd I R.
    destruct (fl_rep_sizes l s R) as (Su & Sl & _).
    destruct o; simpl; try (exists l; rewrite ?Su, ?Sl; auto; fail).
    - destruct (lc_ins fifo_policy s k v a) as [s1 b] eqn:E.
      destruct (fl_ins_refines t now l s k v a s1 b I R E) as (l1 & D1 & R1 & I1).
      rewrite D1. cbn [bind]. exists l1. auto.
    - destruct (fl_ins_range_refines l0 t now l s a 0 I R) as (l1 & D1 & R1 & I1).
      rewrite D1. cbn [bind].
      destruct (lc_ins_range fifo_policy s l0 a 0) as [s1 n]. exists l1. auto.
    - destruct (lc_erase s k) as [s1 b] eqn:E.
      destruct (fl_erase_refines t now l s k s1 b I R E) as (l1 & D1 & R1 & I1).
      rewrite D1. cbn [bind]. exists l1. auto.
    - destruct (fl_erase_range_refines l0 t now l s 0 I R) as (l1 & D1 & R1 & I1).
      rewrite D1. cbn [bind].
      destruct (lc_erase_range s l0 0) as [s1 n]. exists l1. auto.
    - rewrite (fl_find_refines t l s k I R), lc_find_fifo. cbn [bind]. exists l. auto.
    - rewrite (fl_find_range_refines t l s l0 I R), lc_find_range_fifo. cbn [bind]. exists l. auto.
    - rewrite (fl_find_range_refines t l s l0 I R), lc_find_range_fifo. cbn [bind]. exists l. auto.
  Qed.

  Lemma lc_step_cap : forall t (s : lc K V) o now rnd, lc_inv t s ->
    lc_cap (fst (lc_step fifo_policy s o now rnd)) = lc_cap s.
  Proof.
    assert (Hi : forall (s : lc K V) k v a, lc_cap (fst (lc_ins fifo_policy s k v a)) = lc_cap s).
    { intros s k v a. unfold lc_ins. destruct (assoc k (lc_items s)); [destruct (a_upd a)|destruct (a_ins a)]; reflexivity. }
    assert (He : forall (s : lc K V) k, lc_cap (fst (lc_erase s k)) = lc_cap s).
    { intros s k. unfold lc_erase. destruct (assoc k (lc_items s)); reflexivity. }
    intros t s o now rnd _. destruct o; simpl; try reflexivity.
    - specialize (Hi s k v a). destruct (lc_ins fifo_policy s k v a). exact Hi.
    - assert (G : forall xs (s0 : lc K V) n, lc_cap (fst (lc_ins_range fifo_policy s0 xs a n)) = lc_cap s0).
      { induction xs as [|[[z k] v] r IH]; intros s0 n; simpl; [reflexivity|].
        specialize (Hi s0 k v a). destruct (lc_ins fifo_policy s0 k v a) as [s1 b]. rewrite IH. exact Hi. }
      specialize (G l s 0). destruct (lc_ins_range fifo_policy s l a 0). exact G.
    - specialize (He s k). destruct (lc_erase s k). exact He.
    - assert (G : forall ks (s0 : lc K V) n, lc_cap (fst (lc_erase_range s0 ks n)) = lc_cap s0).
      { induction ks as [|k r IH]; intros s0 n; simpl; [reflexivity|].
        specialize (He s0 k). destruct (lc_erase s0 k) as [s1 b]. rewrite IH. exact He. }
      specialize (G l s 0). destruct (lc_erase_range s l 0). exact G.
    - rewrite lc_find_fifo. reflexivity.
    - rewrite lc_find_range_fifo. reflexivity.
    - rewrite lc_find_range_fifo. reflexivity.
  Qed.

  (* whole histories: the literal machine started on a fresh cache never reaches UB, and
     returns the results of the mid-level model, call by call *)
  Fixpoint fl_run (l : fifol K V) (h : list (ev K V)) : res (fifol K V * list (ret K V)) :=
    match h with
    | [] => Ok (l, [])
    | e :: r => do x <- fl_step l (e_op e) (e_now e) (e_rnd e);
                let '(l1, y) := x in
                do z <- fl_run l1 r; let '(l2, ys) := z in Ok (l2, y :: ys)
    end.

  Lemma fl_run_refines : forall h t (l : fifol K V) (s : lc K V),
      lc_inv t s -> fl_rep l s ->
      exists l', fl_run l h = Ok (l', snd (run (lc_step fifo_policy) s h)) /\
                 fl_rep l' (fst (run (lc_step fifo_policy) s h)) /\
                 lc_cap (fst (run (lc_step fifo_policy) s h)) = lc_cap s.
  Proof.
    induction h as [|e r IH]; intros t l s I R; simpl.
    - exists l. auto.
    - destruct (fl_step_refines t l s (e_op e) (e_now e) (e_rnd e) I R) as (l1 & D1 & R1 & I1).
      pose proof (lc_step_cap t s (e_op e) (e_now e) (e_rnd e) I) as C1.
      rewrite D1. cbn [bind]. unfold step_ev.
      destruct (lc_step fifo_policy s (e_op e) (e_now e) (e_rnd e)) as [s1 y1]. simpl in *.
      destruct (IH (e_now e) l1 s1 I1 R1) as (l2 & D2 & R2 & C2).
      rewrite D2. cbn [bind].
      destruct (run (lc_step fifo_policy) s1 r) as [s2 ys]. simpl in *.
      exists l2. split; [reflexivity|]. split; [exact R2|]. congruence.
  Qed.

  Theorem fl_no_UB_on_any_history : forall cap h,
      1 <= cap ->
      exists l', fl_run (fifol_init cap) h = Ok (l', snd (run (lc_step fifo_policy) (lc_init cap) h)) /\
                 fl_rep l' (fst (run (lc_step fifo_policy) (lc_init cap) h)).
  Proof.
    intros cap h Hc.
    destruct (fl_run_refines h 0%Z (fifol_init cap) (lc_init cap)
                (lc_inv_init cap 0%Z Hc) (fl_rep_init cap Hc)) as (l' & D & R & _).
    exists l'. auto.
  Qed.

  (* the number of value cells (list nodes) never changes *)
  Theorem fl_value_cells_constant : forall cap h l' rs,
      1 <= cap -> fl_run (fifol_init cap) h = Ok (l', rs) ->
      List.length (fl_cells l') = cap /\ List.length (fl_list l') = cap.
  Proof.
    intros cap h l' rs Hc E.
    destruct (fl_run_refines h 0%Z (fifol_init cap) (lc_init cap)
                (lc_inv_init cap 0%Z Hc) (fl_rep_init cap Hc)) as (l2 & D & R & C).
    rewrite D in E. injection E as E1 E2. subst l2.
    destruct (fl_rep_sizes _ _ R) as (_ & Sl & Sc). rewrite Sl, Sc, C. simpl. auto.
  Qed.
End FifoLitFacts.

Print Assumptions fl_rep_init.
Print Assumptions fl_step_refines.
Print Assumptions fl_no_UB_on_any_history.
Print Assumptions fl_value_cells_constant.
