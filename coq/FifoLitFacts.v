(* FifoLitFacts.v — C08 for fifo_cache: the literal machine (FifoLit.v) never reaches UB and
   computes exactly what the mid-level model (ListCache.v, fifo_policy) computes. *)
Require Import Capp.Base Capp.Spec Capp.ListCache Capp.ListCacheFacts Capp.RrLit Capp.LruLit Capp.FifoLit.
From Coq Require Import Strings.String.

Section FifoLitFacts.
  Context {K V : Type} `{EqDec K}.

  Theorem fl_rep_init : forall cap, 1 <= cap -> fl_rep (K := K) (V := V) (fifol_init cap) (lc_init cap).
  Admitted.

  Theorem fl_step_refines : forall t (l : fifol K V) (s : lc K V) o now rnd,
      lc_inv t s -> fl_rep l s ->
      exists l', fl_step l o now rnd = Ok (l', snd (lc_step fifo_policy s o now rnd)) /\
                 fl_rep l' (fst (lc_step fifo_policy s o now rnd)) /\
                 lc_inv now (fst (lc_step fifo_policy s o now rnd)).
  Admitted.

  Fixpoint fl_run (l : fifol K V) (h : list (ev K V)) : res (fifol K V * list (ret K V)) :=
    match h with
    | [] => Ok (l, [])
    | e :: r => do x <- fl_step l (e_op e) (e_now e) (e_rnd e);
                let '(l1, y) := x in
                do z <- fl_run l1 r; let '(l2, ys) := z in Ok (l2, y :: ys)
    end.

  Theorem fl_no_UB_on_any_history : forall cap h,
      1 <= cap ->
      exists l', fl_run (fifol_init cap) h = Ok (l', snd (run (lc_step fifo_policy) (lc_init cap) h)) /\
                 fl_rep l' (fst (run (lc_step fifo_policy) (lc_init cap) h)).
  Admitted.

  (* the number of value cells (list nodes) never changes *)
  Theorem fl_value_cells_constant : forall cap h l' rs,
      1 <= cap -> fl_run (fifol_init cap) h = Ok (l', rs) ->
      List.length (fl_cells l') = cap /\ List.length (fl_list l') = cap.
  Admitted.
End FifoLitFacts.
