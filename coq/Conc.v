(* Conc.v — the concurrency layer (DESIGN §2.1 LC): general theorems that turn the
   obligations COMPUTED on the generated skeletons (Skel.v) into
     C07  data-race freedom: conflicting accesses of different threads are ordered by
          happens-before (program order + unlock -> later lock), for any number of threads,
          any per-thread sequences of public methods, any interleaving;
     C06  linearizability of the lock-level machine: calls whose shared effect is one
          critical section behave as the sequential model run in the order of the
          critical sections, which respects real-time order. *)
From Coq Require Import Strings.String Lists.List Bool Arith Lia.
Import ListNotations.
Require Import Capp.Skel.

(* ====================================================================== *)
(* 1. what a skeleton does: its local event traces                         *)
Inductive lev :=
| LAcq | LRel                       (* lock / unlock of the container mutex *)
| LAcc (f : string) (k : akind)     (* access to a data member *)
| LClk.                             (* clock read *)

Inductive sk_trace : skel -> list lev -> Prop :=
| tr_acc f k : sk_trace (SAcc f k) [LAcc f k]
| tr_clock : sk_trace SClock [LClk]
| tr_ref x : sk_trace (SRefDecl x) []
| tr_skip : sk_trace SSkip []
| tr_then a b ta tb : sk_trace a ta -> sk_trace b tb -> sk_trace (SThen a b) (ta ++ tb)
| tr_locked b tb : sk_trace b tb -> sk_trace (SLocked b) (LAcq :: tb ++ [LRel])
| tr_loop_done b : sk_trace (SLoop b) []
| tr_loop_more b tb tr : sk_trace b tb -> sk_trace (SLoop b) tr -> sk_trace (SLoop b) (tb ++ tr)
| tr_choice_l a b ta : sk_trace a ta -> sk_trace (SChoice a b) ta
| tr_choice_r a b tb : sk_trace b tb -> sk_trace (SChoice a b) tb.

(* how many locks the thread holds after a local trace *)
Fixpoint depth (n : nat) (tr : list lev) : nat :=
  match tr with
  | [] => n
  | LAcq :: r => depth (S n) r
  | LRel :: r => depth (pred n) r
  | _ :: r => depth n r
  end.

(* two accesses conflict at the granularity of the library's data-race rules: same member,
   and one writes it (AW), or both reach into its contents (AE) *)
Definition conflict (f1 : string) (k1 : akind) (f2 : string) (k2 : akind) : Prop :=
  f1 = f2 /\ (k1 = AW \/ k2 = AW \/ (k1 = AE /\ k2 = AE)).

(* ---- helper: the two-state lock automaton of a non-nesting thread ---- *)
(* [aut P d l]: scanning l from lock state d (false = not holding, true = holding), every
   LAcq is taken when not holding, every LRel when holding, and every other event seen
   while not holding satisfies P.  [fin d l] is the state reached. *)
Fixpoint aut (P : lev -> Prop) (d : bool) (l : list lev) : Prop :=
  match l with
  | [] => True
  | LAcq :: r => d = false /\ aut P true r
  | LRel :: r => d = true /\ aut P false r
  | e :: r => (d = false -> P e) /\ aut P d r
  end.

Fixpoint fin (d : bool) (l : list lev) : bool :=
  match l with
  | [] => d
  | LAcq :: r => fin true r
  | LRel :: r => fin false r
  | _ :: r => fin d r
  end.

Definition b2n (b : bool) : nat := if b then 1 else 0.

(* an event is allowed outside the lock of class c *)
Definition Pc (c : class_skel) (e : lev) : Prop :=
  forall f k, e = LAcc f k -> may_be_unlocked c f k = true.

Lemma aut_mono : forall (P Q : lev -> Prop), (forall e, P e -> Q e) ->
    forall l d, aut P d l -> aut Q d l.
Proof.
  intros P Q HPQ l; induction l as [|e l IH]; intros d H; simpl in *; [exact I|].
  destruct e; destruct H as [H1 H2]; split; auto.
Qed.

Lemma fin_app : forall a d b, fin d (a ++ b) = fin (fin d a) b.
Proof.
  induction a as [|e a IH]; intros d b; simpl; [reflexivity|].
  destruct e; apply IH.
Qed.

Lemma aut_app : forall P a d b, aut P d a -> aut P (fin d a) b -> aut P d (a ++ b).
Proof.
  intros P a; induction a as [|e a IH]; intros d b Ha Hb; simpl in *; [exact Hb|].
  destruct e; destruct Ha as [H1 H2]; split; auto.
Qed.

Lemma aut_app_inv : forall P a d b, aut P d (a ++ b) -> aut P d a /\ aut P (fin d a) b.
Proof.
  intros P a; induction a as [|e a IH]; intros d b H; simpl in *; [split; [exact I|exact H]|].
  destruct e; destruct H as [H1 H2]; apply IH in H2; destruct H2 as [H2 H3];
    (split; [split; assumption|assumption]).
Qed.

Lemma aut_depth : forall P l d, aut P d l -> depth (b2n d) l = b2n (fin d l).
Proof.
  intros P l; induction l as [|e l IH]; intros d H; simpl in *; [reflexivity|].
  destruct e; destruct H as [H1 H2].
  - subst d. simpl. apply (IH true H2).
  - subst d. simpl. apply (IH false H2).
  - apply (IH d H2).
  - apply (IH d H2).
Qed.

Lemma depth_app : forall a n b, depth n (a ++ b) = depth (depth n a) b.
Proof.
  induction a as [|e a IH]; intros n b; simpl; [reflexivity|].
  destruct e; apply IH.
Qed.

(* every trace of a skeleton without nested lock regions runs the automaton from the
   ambient state h back to h, and the accesses it makes while not holding are exactly
   "false"-flagged elements of [accesses h s] *)
Lemma sk_aut : forall s tr, sk_trace s tr -> forall h, nested h s = false ->
    aut (fun e => forall f k, e = LAcc f k -> In (f, k, false) (accesses h s)) h tr /\
    fin h tr = h.
Proof.
  intros s tr H; induction H; intros h Hn; simpl in *.
  - split; [|reflexivity]. split; [|exact I].
    intros Hh f0 k0 E. inversion E; subst. left; reflexivity.
  - split; [|reflexivity]. split; [|exact I]. intros _ f k E; discriminate E.
  - split; [exact I|reflexivity].
  - split; [exact I|reflexivity].
  - apply orb_false_elim in Hn. destruct Hn as [Hna Hnb].
    destruct (IHsk_trace1 h Hna) as [A1 F1]. destruct (IHsk_trace2 h Hnb) as [A2 F2].
    split.
    + apply aut_app.
      * eapply aut_mono; [|exact A1]. intros e He f k E. apply in_or_app. left. eauto.
      * rewrite F1. eapply aut_mono; [|exact A2]. intros e He f k E. apply in_or_app. right. eauto.
    + rewrite fin_app, F1. exact F2.
  - apply orb_false_elim in Hn. destruct Hn as [Hh Hnb]. subst h.
    destruct (IHsk_trace true Hnb) as [A F].
    split.
    + split; [reflexivity|]. apply aut_app.
      * eapply aut_mono; [|exact A]. intros e He; exact He.
      * rewrite F. simpl. split; [reflexivity|exact I].
    + rewrite fin_app, F. reflexivity.
  - split; [exact I|reflexivity].
  - destruct (IHsk_trace1 h Hn) as [A1 F1]. destruct (IHsk_trace2 h Hn) as [A2 F2].
    split.
    + apply aut_app.
      * eapply aut_mono; [|exact A1]. intros e He; exact He.
      * rewrite F1. exact A2.
    + rewrite fin_app, F1. exact F2.
  - apply orb_false_elim in Hn. destruct Hn as [Hna Hnb].
    destruct (IHsk_trace h Hna) as [A F]. split; [|exact F].
    eapply aut_mono; [|exact A]. intros e He f k E. apply in_or_app. left. eauto.
  - apply orb_false_elim in Hn. destruct Hn as [Hna Hnb].
    destruct (IHsk_trace h Hnb) as [A F]. split; [|exact F].
    eapply aut_mono; [|exact A]. intros e He f k E. apply in_or_app. right. eauto.
Qed.

Lemma flat_map_nil : forall (A B : Type) (g : A -> list B) (l : list A),
    flat_map g l = [] -> forall x, In x l -> g x = [].
Proof.
  intros A B g l; induction l as [|a l IH]; intros H x Hin; simpl in *; [contradiction|].
  apply app_eq_nil in H. destruct H as [H1 H2].
  destruct Hin as [<-|Hin]; [exact H1|apply IH; assumption].
Qed.

Lemma unguarded_nil : forall c s f k,
    unguarded c s = [] -> In (f, k, false) (accesses false s) -> may_be_unlocked c f k = true.
Proof.
  intros c s f k H Hin. unfold unguarded in H.
  pose proof (flat_map_nil _ _ _ _ H _ Hin) as E. simpl in E.
  destruct (may_be_unlocked c f k); [reflexivity|discriminate E].
Qed.

Lemma guarded_aut : forall c m tr,
    method_guarded c m = true -> sk_trace (snd m) tr ->
    aut (Pc c) false tr /\ fin false tr = false.
Proof.
  intros c m tr G T. unfold method_guarded in G.
  destruct (unguarded c (snd m)) eqn:U; [|discriminate G].
  apply negb_true_iff in G.
  destruct (sk_aut _ _ T false G) as [A F]. split; [|exact F].
  eapply aut_mono; [|exact A]. intros e He f k E.
  eapply unguarded_nil; [exact U|]. apply He; exact E.
Qed.

(* ---- local guarantee of a guarded method ---- *)
(* In every trace of a method that passes the computed obligation, an access that may not be
   made unlocked is made at lock depth exactly 1, and the trace returns to depth 0. *)
Theorem guarded_method_holds_lock : forall c m tr p f k q,
    method_guarded c m = true -> sk_trace (snd m) tr -> tr = p ++ LAcc f k :: q ->
    may_be_unlocked c f k = false -> depth 0 p = 1.
Proof.
  intros c m tr p f k q G T E M. subst tr.
  destruct (guarded_aut _ _ _ G T) as [A _].
  apply aut_app_inv in A. destruct A as [A1 A2].
  simpl in A2. destruct A2 as [A2 _].
  apply aut_depth in A1. simpl in A1.
  destruct (fin false p) eqn:Ef.
  - exact A1.
  - exfalso. specialize (A2 eq_refl f k eq_refl). congruence.
Qed.

Theorem guarded_method_balanced : forall c m tr,
    method_guarded c m = true -> sk_trace (snd m) tr ->
    depth 0 tr = 0 /\ (forall p q, tr = p ++ q -> depth 0 p <= 1).
Proof.
  intros c m tr G T.
  destruct (guarded_aut _ _ _ G T) as [A F].
  split.
  - pose proof (aut_depth _ _ _ A) as D. simpl in D. rewrite F in D. exact D.
  - intros p q E. subst tr. apply aut_app_inv in A. destruct A as [A1 _].
    apply aut_depth in A1. simpl in A1. rewrite A1.
    destruct (fin false p); simpl; lia.
Qed.

(* ====================================================================== *)
(* 2. the lock-level machine: interleavings of local traces                *)
Definition tid := nat.
Definition gev : Type := (tid * lev)%type.

(* the mutex: who holds it after an execution, None if the execution breaks the protocol *)
Fixpoint holder_after (h : option tid) (ex : list gev) : option (option tid) :=
  match ex with
  | [] => Some h
  | (t, LAcq) :: r => match h with None => holder_after (Some t) r | Some _ => None end
  | (t, LRel) :: r => match h with
                      | Some t' => if Nat.eqb t t' then holder_after None r else None
                      | None => None
                      end
  | _ :: r => holder_after h r
  end.
Definition lock_ok (ex : list gev) : Prop := holder_after None ex <> None.

Definition proj (t : tid) (ex : list gev) : list lev :=
  map snd (filter (fun e => Nat.eqb (fst e) t) ex).

(* a thread runs public methods of class c one after the other; the execution may stop
   anywhere (prefix) *)
Inductive prog_trace (c : class_skel) : list lev -> Prop :=
| pt_nil : prog_trace c []
| pt_call m tr rest : In m c -> sk_trace (snd m) tr -> prog_trace c rest -> prog_trace c (tr ++ rest).
Definition thread_ok (c : class_skel) (l : list lev) : Prop :=
  exists full, prog_trace c full /\ exists rest, full = l ++ rest.

(* ---- helpers for C07 ---- *)
Lemma holder_app : forall a h b,
    holder_after h (a ++ b) =
    match holder_after h a with Some h' => holder_after h' b | None => None end.
Proof.
  induction a as [|[t e] a IH]; intros h b; simpl; [reflexivity|].
  destruct e; try apply IH.
  - destruct h; [reflexivity|apply IH].
  - destruct h as [t'|]; [|reflexivity].
    destruct (Nat.eqb t t'); [apply IH|reflexivity].
Qed.

Lemma proj_app : forall t a b, proj t (a ++ b) = proj t a ++ proj t b.
Proof. intros t a b. unfold proj. rewrite filter_app, map_app. reflexivity. Qed.

(* local depth of thread t as seen from the global holder *)
Definition hdepth (t : tid) (h : option tid) : nat :=
  match h with Some t' => if Nat.eqb t' t then 1 else 0 | None => 0 end.

(* under the mutex protocol alone, a thread's local lock depth is 1 iff it is the holder *)
Lemma holder_depth : forall pre h, holder_after None pre = Some h ->
    forall t, depth 0 (proj t pre) = hdepth t h.
Proof.
  induction pre as [|x pre IH] using rev_ind; intros h H t.
  - simpl in H. inversion H; subst. reflexivity.
  - rewrite holder_app in H.
    destruct (holder_after None pre) as [h0|] eqn:E; [|discriminate H].
    specialize (IH h0 eq_refl t).
    rewrite proj_app, depth_app, IH.
    destruct x as [t0 e]. unfold proj. simpl.
    destruct (Nat.eqb t0 t) eqn:Et; simpl.
    + apply Nat.eqb_eq in Et. subst t0.
      destruct e; simpl in H.
      * destruct h0; [discriminate H|]. inversion H; subst. simpl.
        rewrite Nat.eqb_refl. reflexivity.
      * destruct h0 as [t'|]; [|discriminate H].
        destruct (Nat.eqb t t') eqn:E2; [|discriminate H].
        inversion H; subst. apply Nat.eqb_eq in E2. subst t'. simpl.
        rewrite Nat.eqb_refl. reflexivity.
      * inversion H; subst. reflexivity.
      * inversion H; subst. reflexivity.
    + destruct e; simpl in H.
      * destruct h0; [discriminate H|]. inversion H; subst. simpl.
        rewrite Et. reflexivity.
      * destruct h0 as [t'|]; [|discriminate H].
        destruct (Nat.eqb t0 t') eqn:E2; [|discriminate H].
        inversion H; subst. apply Nat.eqb_eq in E2. subst t'. simpl.
        rewrite Et. reflexivity.
      * inversion H; subst. reflexivity.
      * inversion H; subst. reflexivity.
Qed.

(* the holder changes from t1 to something else only through an LRel of t1 *)
Lemma first_release : forall m t1 h', holder_after (Some t1) m = Some h' -> h' <> Some t1 ->
    exists a b, m = a ++ (t1, LRel) :: b /\ holder_after None b = Some h'.
Proof.
  induction m as [|[t e] m IH]; intros t1 h' H Hne; simpl in H.
  - inversion H; subst. exfalso; apply Hne; reflexivity.
  - destruct e.
    + discriminate H.
    + destruct (Nat.eqb t t1) eqn:E; [|discriminate H].
      apply Nat.eqb_eq in E. subst t. exists [], m. split; [reflexivity|exact H].
    + destruct (IH _ _ H Hne) as [a [b [E Hb]]].
      exists ((t, LAcc f k) :: a), b. split; [rewrite E; reflexivity|exact Hb].
    + destruct (IH _ _ H Hne) as [a [b [E Hb]]].
      exists ((t, LClk) :: a), b. split; [rewrite E; reflexivity|exact Hb].
Qed.

(* t2 becomes the holder only through an LAcq of t2 *)
Lemma find_acq : forall m h t2, holder_after h m = Some (Some t2) ->
    h = Some t2 \/ exists a b, m = a ++ (t2, LAcq) :: b.
Proof.
  induction m as [|[t e] m IH]; intros h t2 H; simpl in H.
  - inversion H; subst. left; reflexivity.
  - destruct e.
    + destruct h; [discriminate H|].
      destruct (IH _ _ H) as [X|[a [b E]]].
      * inversion X; subst. right. exists [], m. reflexivity.
      * right. exists ((t, LAcq) :: a), b. rewrite E; reflexivity.
    + destruct h as [t'|]; [|discriminate H].
      destruct (Nat.eqb t t'); [|discriminate H].
      destruct (IH _ _ H) as [X|[a [b E]]]; [discriminate X|].
      right. exists ((t, LRel) :: a), b. rewrite E; reflexivity.
    + destruct (IH _ _ H) as [X|[a [b E]]]; [left; exact X|].
      right. exists ((t, LAcc f k) :: a), b. rewrite E; reflexivity.
    + destruct (IH _ _ H) as [X|[a [b E]]]; [left; exact X|].
      right. exists ((t, LClk) :: a), b. rewrite E; reflexivity.
Qed.

Lemma nth_mid : forall (A : Type) (l1 : list A) a l2 n,
    n = length l1 -> nth_error (l1 ++ a :: l2) n = Some a.
Proof.
  intros A l1 a l2 n E. subst n. rewrite nth_error_app2 by lia.
  rewrite Nat.sub_diag. reflexivity.
Qed.

Lemma akind_eqb_refl : forall k, akind_eqb k k = true.
Proof. destruct k; reflexivity. Qed.

Lemma has_kind_in : forall c f k,
    In (f, k) (map (fun a => (fst (fst a), snd (fst a))) (all_accesses c)) ->
    has_kind c f k = true.
Proof.
  intros c f k H. apply in_map_iff in H. destruct H as [[[f' k'] b] [E Hin]].
  simpl in E. inversion E; subst. unfold has_kind. apply existsb_exists.
  exists (f, k, b). split; [exact Hin|].
  rewrite String.eqb_refl, akind_eqb_refl. reflexivity.
Qed.

(* both sides of a conflict need the lock *)
Lemma conflict_guard : forall c f1 k1 f2 k2,
    conflict f1 k1 f2 k2 ->
    In (f1, k1) (map (fun a => (fst (fst a), snd (fst a))) (all_accesses c)) ->
    In (f2, k2) (map (fun a => (fst (fst a), snd (fst a))) (all_accesses c)) ->
    may_be_unlocked c f1 k1 = false /\ may_be_unlocked c f2 k2 = false.
Proof.
  intros c f1 k1 f2 k2 [Ef Hk] In1 In2. subst f2.
  destruct Hk as [H|[H|[H1 H2]]]; subst.
  - split; [reflexivity|]. destruct k2; simpl; try reflexivity.
    rewrite (has_kind_in _ _ _ In1). reflexivity.
  - split; [|reflexivity]. destruct k1; simpl; try reflexivity.
    rewrite (has_kind_in _ _ _ In2). reflexivity.
  - split; reflexivity.
Qed.

(* a thread of a guarded class runs the two-state automaton *)
Lemma prog_aut : forall c full, class_guarded c = true -> prog_trace c full ->
    aut (Pc c) false full /\ fin false full = false.
Proof.
  intros c full G H; induction H as [|m tr rest Hin Htr Hrest IH].
  - split; [exact I|reflexivity].
  - unfold class_guarded in G. pose proof (proj1 (forallb_forall _ _) G m Hin) as Gm.
    destruct (guarded_aut _ _ _ Gm Htr) as [A F]. destruct IH as [A' F'].
    split.
    + apply aut_app; [exact A|]. rewrite F. exact A'.
    + rewrite fin_app, F. exact F'.
Qed.

(* a guard-needing access of thread t is made while t is the global holder *)
Lemma access_holds : forall c ex l1 l2 t f k h,
    class_guarded c = true -> thread_ok c (proj t ex) ->
    ex = l1 ++ (t, LAcc f k) :: l2 -> may_be_unlocked c f k = false ->
    holder_after None l1 = Some h -> h = Some t.
Proof.
  intros c ex l1 l2 t f k h G [full [PT [rest E]]] Eex M H.
  destruct (prog_aut _ _ G PT) as [A _].
  subst ex. rewrite proj_app in E.
  assert (Ep : proj t ((t, LAcc f k) :: l2) = LAcc f k :: proj t l2).
  { unfold proj. simpl. rewrite Nat.eqb_refl. reflexivity. }
  rewrite Ep in E. rewrite <- app_assoc in E. subst full.
  apply aut_app_inv in A. destruct A as [A1 A2].
  simpl in A2. destruct A2 as [A2 _].
  pose proof (holder_depth _ _ H t) as D.
  apply aut_depth in A1. simpl in A1.
  destruct (fin false (proj t l1)).
  - simpl in A1. rewrite A1 in D.
    destruct h as [t'|]; simpl in D; [|discriminate D].
    destruct (Nat.eqb t' t) eqn:Et; [|discriminate D].
    apply Nat.eqb_eq in Et. subst t'. reflexivity.
  - exfalso. specialize (A2 eq_refl f k eq_refl). congruence.
Qed.

(* ---- C07 ---- *)
(* Any two conflicting accesses made by different threads are separated by an unlock of the
   first thread followed by a lock of the second: they are ordered by happens-before. *)
Theorem guarded_class_is_race_free : forall c ex i j t1 t2 f1 k1 f2 k2,
    class_guarded c = true ->
    lock_ok ex -> (forall t, thread_ok c (proj t ex)) ->
    i < j -> nth_error ex i = Some (t1, LAcc f1 k1) -> nth_error ex j = Some (t2, LAcc f2 k2) ->
    t1 <> t2 -> conflict f1 k1 f2 k2 ->
    In (f1, k1) (map (fun a => (fst (fst a), snd (fst a))) (all_accesses c)) ->
    In (f2, k2) (map (fun a => (fst (fst a), snd (fst a))) (all_accesses c)) ->
    exists r q, i < r /\ r < q /\ q < j /\
                nth_error ex r = Some (t1, LRel) /\ nth_error ex q = Some (t2, LAcq).
Proof.
  intros c ex i j t1 t2 f1 k1 f2 k2 G L TO Hij Hi Hj Ht C In1 In2.
  destruct (conflict_guard _ _ _ _ _ C In1 In2) as [M1 M2].
  (* split ex = l1 ++ x :: m1 ++ y :: m2 *)
  destruct (nth_error_split _ _ Hi) as [l1 [l2 [E1 Len1]]].
  assert (Hj' : nth_error l2 (j - i - 1) = Some (t2, LAcc f2 k2)).
  { rewrite E1 in Hj. rewrite nth_error_app2 in Hj by lia. rewrite Len1 in Hj.
    destruct (j - i) as [|d] eqn:Ed; [lia|]. simpl in Hj.
    replace (S d - 1) with d by lia. exact Hj. }
  destruct (nth_error_split _ _ Hj') as [m1 [m2 [E2 Len2]]].
  unfold lock_ok in L.
  assert (Eex : ex = (l1 ++ (t1, LAcc f1 k1) :: m1) ++ (t2, LAcc f2 k2) :: m2).
  { rewrite E1, E2. rewrite <- app_assoc. reflexivity. }
  (* holders *)
  destruct (holder_after None (l1 ++ (t1, LAcc f1 k1) :: m1)) as [hb|] eqn:Hb.
  2:{ exfalso. apply L. rewrite Eex, holder_app, Hb. reflexivity. }
  assert (Ehb : hb = Some t2).
  { eapply access_holds; [exact G|apply (TO t2)|exact Eex|exact M2|exact Hb]. }
  subst hb.
  rewrite holder_app in Hb.
  destruct (holder_after None l1) as [ha|] eqn:Ha; [|discriminate Hb].
  assert (Eha : ha = Some t1).
  { eapply access_holds; [exact G|apply (TO t1)|exact E1|exact M1|exact Ha]. }
  subst ha. simpl in Hb.
  assert (Hne : Some t2 <> Some t1) by (intro X; inversion X; subst; apply Ht; reflexivity).
  destruct (first_release _ _ _ Hb Hne) as [a [b [Em1 Hb']]].
  destruct (find_acq _ _ _ Hb') as [X|[a' [b' Eb]]]; [discriminate X|].
  exists (length l1 + 1 + length a), (length l1 + 1 + length a + 1 + length a').
  assert (Lm1 : length m1 = length a + 1 + length a' + 1 + length b').
  { rewrite Em1, Eb. rewrite !app_length. simpl. rewrite !app_length. simpl. lia. }
  split; [lia|]. split; [lia|]. split; [lia|]. split.
  - assert (Er : ex = (l1 ++ (t1, LAcc f1 k1) :: a) ++ (t1, LRel) :: (b ++ (t2, LAcc f2 k2) :: m2)).
    { rewrite E1, E2, Em1. repeat (rewrite <- app_assoc; simpl). reflexivity. }
    rewrite Er at 1.
    apply (nth_mid _ (l1 ++ (t1, LAcc f1 k1) :: a) (t1, LRel)).
    rewrite app_length. simpl. unfold gev, tid in *. lia.
  - assert (Eq : ex = (l1 ++ (t1, LAcc f1 k1) :: a ++ (t1, LRel) :: a') ++ (t2, LAcq) :: (b' ++ (t2, LAcc f2 k2) :: m2)).
    { rewrite E1, E2, Em1, Eb. repeat (rewrite <- app_assoc; simpl). reflexivity. }
    rewrite Eq at 1.
    apply (nth_mid _ (l1 ++ (t1, LAcc f1 k1) :: a ++ (t1, LRel) :: a') (t2, LAcq)).
    rewrite app_length. simpl. rewrite app_length. simpl. unfold gev, tid in *. lia.
Qed.

Lemma sk_acc_in : forall s tr, sk_trace s tr -> forall f k, In (LAcc f k) tr ->
    forall h, exists b, In (f, k, b) (accesses h s).
Proof.
  intros s tr H; induction H; intros f0 k0 Hin h; simpl in *.
  - destruct Hin as [E|[]]. inversion E; subst. exists h. left; reflexivity.
  - destruct Hin as [E|[]]. discriminate E.
  - contradiction.
  - contradiction.
  - apply in_app_or in Hin. destruct Hin as [Hin|Hin].
    + destruct (IHsk_trace1 _ _ Hin h) as [b0 Hb]. exists b0. apply in_or_app. left; exact Hb.
    + destruct (IHsk_trace2 _ _ Hin h) as [b0 Hb]. exists b0. apply in_or_app. right; exact Hb.
  - destruct Hin as [E|Hin]; [discriminate E|].
    apply in_app_or in Hin. destruct Hin as [Hin|[E|[]]]; [|discriminate E].
    apply (IHsk_trace _ _ Hin true).
  - contradiction.
  - apply in_app_or in Hin. destruct Hin as [Hin|Hin].
    + apply (IHsk_trace1 _ _ Hin h).
    + apply (IHsk_trace2 _ _ Hin h).
  - destruct (IHsk_trace _ _ Hin h) as [b0 Hb]. exists b0. apply in_or_app. left; exact Hb.
  - destruct (IHsk_trace _ _ Hin h) as [b0 Hb]. exists b0. apply in_or_app. right; exact Hb.
Qed.

Lemma prog_acc_in : forall c full f k, prog_trace c full -> In (LAcc f k) full ->
    In (f, k) (map (fun a => (fst (fst a), snd (fst a))) (all_accesses c)).
Proof.
  intros c full f k H; induction H as [|m tr rest Hin Htr Hrest IH]; intros Hacc.
  - contradiction.
  - apply in_app_or in Hacc. destruct Hacc as [Hacc|Hacc]; [|apply IH; exact Hacc].
    destruct (sk_acc_in _ _ Htr _ _ Hacc false) as [b0 Hb].
    apply in_map_iff. exists (f, k, b0). split; [reflexivity|].
    unfold all_accesses. apply in_flat_map. exists m. split; assumption.
Qed.

(* accesses that appear in a thread's trace are accesses of the class *)
Lemma trace_accesses_in_class : forall c l f k,
    thread_ok c l -> In (LAcc f k) l ->
    In (f, k) (map (fun a => (fst (fst a), snd (fst a))) (all_accesses c)).
Proof.
  intros c l f k [full [PT [rest E]]] Hin.
  eapply prog_acc_in; [exact PT|]. rewrite E. apply in_or_app. left; exact Hin.
Qed.

(* ---- shape of an atomic method (C06 obligation) ---- *)
(* A method passing [method_atomic] does all its guard-needing accesses inside ONE
   critical section: its trace is  pre ++ LAcq :: body ++ LRel :: post  with no lock events
   and no guard-needing access in pre/post (pre: clock reads), or has no lock event and no
   guard-needing access at all. *)
Definition quiet (c : class_skel) (l : list lev) : Prop :=
  forall e, In e l -> e <> LAcq /\ e <> LRel /\
                      (forall f k, e = LAcc f k -> may_be_unlocked c f k = true).
(* number of lock acquisitions in a local trace *)
Fixpoint count_acq (l : list lev) : nat :=
  match l with
  | [] => 0
  | LAcq :: r => S (count_acq r)
  | _ :: r => count_acq r
  end.

Lemma count_app : forall a b, count_acq (a ++ b) = count_acq a + count_acq b.
Proof.
  induction a as [|e a IH]; intros b; simpl; [reflexivity|].
  destruct e; rewrite IH; reflexivity.
Qed.

(* with at most one region on the worst path (so none inside a loop), [regions] bounds the
   number of acquisitions of every trace *)
Lemma sk_count : forall s tr, sk_trace s tr -> regions s <= 1 -> count_acq tr <= regions s.
Proof.
  intros s tr H; induction H; intros R; simpl in *.
  - lia.
  - lia.
  - lia.
  - lia.
  - rewrite count_app.
    assert (Ra : regions a <= 1) by lia. assert (Rb : regions b <= 1) by lia.
    specialize (IHsk_trace1 Ra). specialize (IHsk_trace2 Rb). lia.
  - rewrite count_app. simpl.
    assert (Rb : regions b <= 1) by lia. specialize (IHsk_trace Rb). lia.
  - lia.
  - rewrite count_app.
    assert (Rb : regions b <= 1) by lia.
    specialize (IHsk_trace1 Rb). specialize (IHsk_trace2 R). lia.
  - assert (Ra : regions a <= 1) by lia. specialize (IHsk_trace Ra). lia.
  - assert (Rb : regions b <= 1) by lia. specialize (IHsk_trace Rb). lia.
Qed.

Lemma quiet_nil : forall c, quiet c [].
Proof. intros c e []. Qed.

Lemma quiet_cons : forall c e l,
    e <> LAcq -> e <> LRel -> Pc c e -> quiet c l -> quiet c (e :: l).
Proof.
  intros c e l H1 H2 H3 Hq e' [<-|Hin].
  - split; [exact H1|]. split; [exact H2|]. exact H3.
  - apply Hq; exact Hin.
Qed.

(* no acquisition and not holding: everything is quiet *)
Lemma aut_quiet0 : forall c l, aut (Pc c) false l -> count_acq l = 0 -> quiet c l.
Proof.
  intros c l; induction l as [|e l IH]; intros A Cn; [apply quiet_nil|].
  destruct e; simpl in A, Cn; destruct A as [A1 A2].
  - discriminate Cn.
  - discriminate A1.
  - apply quiet_cons; [discriminate|discriminate|exact (A1 eq_refl)|apply IH; assumption].
  - apply quiet_cons; [discriminate|discriminate|exact (A1 eq_refl)|apply IH; assumption].
Qed.

(* holding, no further acquisition, ends not holding: a lock-free body, the release, and a
   quiet tail *)
Lemma aut_body : forall c l, aut (Pc c) true l -> count_acq l = 0 -> fin true l = false ->
    exists body post, l = body ++ LRel :: post /\
                      (forall e, In e body -> e <> LAcq /\ e <> LRel) /\ quiet c post.
Proof.
  intros c l; induction l as [|e l IH]; intros A Cn F; simpl in F; [discriminate F|].
  destruct e; simpl in A, Cn, F; destruct A as [A1 A2].
  - discriminate Cn.
  - exists [], l. split; [reflexivity|]. split; [intros e []|].
    apply aut_quiet0; assumption.
  - destruct (IH A2 Cn F) as [body [post [E [Hb Hq]]]].
    exists (LAcc f k :: body), post. split; [rewrite E; reflexivity|]. split; [|exact Hq].
    intros e [<-|Hin]; [split; discriminate|apply Hb; exact Hin].
  - destruct (IH A2 Cn F) as [body [post [E [Hb Hq]]]].
    exists (LClk :: body), post. split; [rewrite E; reflexivity|]. split; [|exact Hq].
    intros e [<-|Hin]; [split; discriminate|apply Hb; exact Hin].
Qed.

Lemma aut_shape : forall c l, aut (Pc c) false l -> count_acq l <= 1 -> fin false l = false ->
    quiet c l \/
    exists pre body post, l = pre ++ LAcq :: body ++ LRel :: post /\
                          quiet c pre /\ quiet c post /\
                          (forall e, In e body -> e <> LAcq /\ e <> LRel).
Proof.
  intros c l; induction l as [|e l IH]; intros A Cn F; [left; apply quiet_nil|].
  destruct e; simpl in A, Cn, F; destruct A as [A1 A2].
  - right. assert (C0 : count_acq l = 0) by lia.
    destruct (aut_body _ _ A2 C0 F) as [body [post [E [Hb Hq]]]].
    exists [], body, post. split; [rewrite E; reflexivity|].
    split; [apply quiet_nil|]. split; assumption.
  - discriminate A1.
  - destruct (IH A2 Cn F) as [Hq|[pre [body [post [E [Hpre [Hpost Hb]]]]]]].
    + left. apply quiet_cons; [discriminate|discriminate|exact (A1 eq_refl)|exact Hq].
    + right. exists (LAcc f k :: pre), body, post. split; [rewrite E; reflexivity|].
      split; [|split; assumption].
      apply quiet_cons; [discriminate|discriminate|exact (A1 eq_refl)|exact Hpre].
  - destruct (IH A2 Cn F) as [Hq|[pre [body [post [E [Hpre [Hpost Hb]]]]]]].
    + left. apply quiet_cons; [discriminate|discriminate|exact (A1 eq_refl)|exact Hq].
    + right. exists (LClk :: pre), body, post. split; [rewrite E; reflexivity|].
      split; [|split; assumption].
      apply quiet_cons; [discriminate|discriminate|exact (A1 eq_refl)|exact Hpre].
Qed.

Theorem atomic_method_shape : forall c m tr,
    method_atomic c m = true -> sk_trace (snd m) tr ->
    quiet c tr \/
    exists pre body post, tr = pre ++ LAcq :: body ++ LRel :: post /\
                          quiet c pre /\ quiet c post /\
                          (forall e, In e body -> e <> LAcq /\ e <> LRel).
Proof.
  intros c m tr H T. unfold method_atomic in H.
  apply andb_true_iff in H. destruct H as [H _].
  apply andb_true_iff in H. destruct H as [G R].
  apply Nat.leb_le in R.
  destruct (guarded_aut _ _ _ G T) as [A F].
  pose proof (sk_count _ _ T R) as Cn.
  apply aut_shape; [exact A|lia|exact F].
Qed.

(* ====================================================================== *)
(* 3. linearizability of the lock-level machine (C06)                      *)
Section Lin.
  Variables (St Op Ret : Type).
  Variable step : St -> Op -> St * Ret.       (* the sequential model: one public call *)

  (* a call: invoke (arguments, clock reading and draws are part of Op), take the lock, run
     the body = one sequential step, release, return *)
  Inductive cev :=
  | CInv (t : tid) (o : Op)
  | CAcq (t : tid)
  | CBody (t : tid)
  | CRel (t : tid)
  | CRet (t : tid) (r : Ret).

  Inductive phase := Idle | Invoked (o : Op) | Locked (o : Op) | Ran (r : Ret) | Unlocked (r : Ret).

  Record mstate := { sigma : St; lockh : option tid; ph : tid -> phase }.
  Definition set_ph (p : tid -> phase) (t : tid) (x : phase) : tid -> phase :=
    fun t' => if Nat.eqb t' t then x else p t'.

  Inductive mstep : mstate -> cev -> mstate -> Prop :=
  | ms_inv s t o : ph s t = Idle ->
      mstep s (CInv t o) {| sigma := sigma s; lockh := lockh s; ph := set_ph (ph s) t (Invoked o) |}
  | ms_acq s t o : ph s t = Invoked o -> lockh s = None ->
      mstep s (CAcq t) {| sigma := sigma s; lockh := Some t; ph := set_ph (ph s) t (Locked o) |}
  | ms_body s t o : ph s t = Locked o -> lockh s = Some t ->
      mstep s (CBody t) {| sigma := fst (step (sigma s) o); lockh := lockh s;
                           ph := set_ph (ph s) t (Ran (snd (step (sigma s) o))) |}
  | ms_rel s t r : ph s t = Ran r -> lockh s = Some t ->
      mstep s (CRel t) {| sigma := sigma s; lockh := None; ph := set_ph (ph s) t (Unlocked r) |}
  | ms_ret s t r : ph s t = Unlocked r ->
      mstep s (CRet t r) {| sigma := sigma s; lockh := lockh s; ph := set_ph (ph s) t Idle |}.

  Inductive mexec : mstate -> list cev -> mstate -> Prop :=
  | me_nil s : mexec s [] s
  | me_snoc s ex s1 e s2 : mexec s ex s1 -> mstep s1 e s2 -> mexec s (ex ++ [e]) s2.

  Definition minit (s0 : St) : mstate := {| sigma := s0; lockh := None; ph := fun _ => Idle |}.

  (* the linearization: the calls in the order of their bodies, with the result each got *)
  Fixpoint lin (s : St) (pend : tid -> option Op) (ex : list cev) : list (tid * Op * Ret) :=
    match ex with
    | [] => []
    | CInv t o :: r => lin s (fun t' => if Nat.eqb t' t then Some o else pend t') r
    | CBody t :: r => match pend t with
                      | Some o => (t, o, snd (step s o)) :: lin (fst (step s o)) pend r
                      | None => lin s pend r
                      end
    | _ :: r => lin s pend r
    end.

  (* running the sequential model over a list of calls *)
  Fixpoint seq_run (s : St) (l : list (tid * Op * Ret)) : St * bool :=
    match l with
    | [] => (s, true)
    | (_, o, r) :: rest => let '(s1, _) := step s o in seq_run s1 rest
    end.
  Fixpoint seq_results (s : St) (l : list (tid * Op)) : list Ret :=
    match l with
    | [] => []
    | (_, o) :: rest => snd (step s o) :: seq_results (fst (step s o)) rest
    end.

  (* ---- helpers: the accumulators of [lin] after scanning a prefix ---- *)
  Fixpoint scan (s : St) (pend : tid -> option Op) (ex : list cev) : St * (tid -> option Op) :=
    match ex with
    | [] => (s, pend)
    | CInv t o :: r => scan s (fun t' => if Nat.eqb t' t then Some o else pend t') r
    | CBody t :: r => match pend t with
                      | Some o => scan (fst (step s o)) pend r
                      | None => scan s pend r
                      end
    | _ :: r => scan s pend r
    end.

  Lemma lin_app : forall ex s pend ex',
      lin s pend (ex ++ ex') =
      lin s pend ex ++ lin (fst (scan s pend ex)) (snd (scan s pend ex)) ex'.
  Proof.
    induction ex as [|e ex IH]; intros s pend ex'; simpl; [reflexivity|].
    destruct e; simpl; try apply IH.
    destruct (pend t); simpl; [f_equal|]; apply IH.
  Qed.

  Lemma scan_app : forall ex s pend ex',
      scan s pend (ex ++ ex') = scan (fst (scan s pend ex)) (snd (scan s pend ex)) ex'.
  Proof.
    induction ex as [|e ex IH]; intros s pend ex'; simpl; [reflexivity|].
    destruct e; simpl; try apply IH.
    destruct (pend t); apply IH.
  Qed.

  Lemma scan_fold : forall ex s pend,
      fst (scan s pend ex) =
      fold_left (fun st c => fst (step st (snd (fst c)))) (lin s pend ex) s.
  Proof.
    induction ex as [|e ex IH]; intros s pend; simpl; [reflexivity|].
    destruct e; simpl; try apply IH.
    destruct (pend t); simpl; apply IH.
  Qed.

  Lemma lin_results : forall ex s pend,
      map snd (lin s pend ex) = seq_results s (map fst (lin s pend ex)).
  Proof.
    induction ex as [|e ex IH]; intros s pend; simpl; [reflexivity|].
    destruct e; simpl; try apply IH.
    destruct (pend t); simpl; [f_equal|]; apply IH.
  Qed.

  (* the machine state agrees with the scan: same model state, and a call that is invoked
     or holds the lock is the pending operation of its thread *)
  Lemma mexec_inv : forall s0 ex st, mexec (minit s0) ex st ->
      sigma st = fst (scan s0 (fun _ => None) ex) /\
      (forall t o, ph st t = Invoked o \/ ph st t = Locked o ->
                   snd (scan s0 (fun _ => None) ex) t = Some o).
  Proof.
    intros s0 ex st H. remember (minit s0) as si eqn:Esi.
    induction H as [s|s ex s1 e s2 Hex IH Hstep].
    - subst s. simpl. split; [reflexivity|]. intros t o [X|X]; discriminate X.
    - destruct (IH Esi) as [Hs Hp]. clear IH. rewrite scan_app.
      destruct (scan s0 (fun _ => None) ex) as [s' p'] eqn:Esc. simpl in Hs, Hp. simpl.
      inversion Hstep as [x t o Hph|x t o Hph Hl|x t o Hph Hl|x t r Hph Hl|x t r Hph]; subst; simpl.
      + split; [reflexivity|]. intros t1 o1. unfold set_ph.
        destruct (Nat.eqb t1 t) eqn:Et.
        * intros [X|X]; [inversion X; reflexivity|discriminate X].
        * apply Hp.
      + split; [reflexivity|]. intros t1 o1. unfold set_ph.
        destruct (Nat.eqb t1 t) eqn:Et.
        * apply Nat.eqb_eq in Et. subst t1.
          intros [X|X]; [discriminate X|inversion X; subst]. apply Hp. left; exact Hph.
        * apply Hp.
      + rewrite (Hp t o (or_intror Hph)). simpl. split; [reflexivity|].
        intros t1 o1. unfold set_ph.
        destruct (Nat.eqb t1 t) eqn:Et.
        * intros [X|X]; discriminate X.
        * apply Hp.
      + split; [reflexivity|]. intros t1 o1. unfold set_ph.
        destruct (Nat.eqb t1 t) eqn:Et.
        * intros [X|X]; discriminate X.
        * apply Hp.
      + split; [reflexivity|]. intros t1 o1. unfold set_ph.
        destruct (Nat.eqb t1 t) eqn:Et.
        * intros [X|X]; discriminate X.
        * apply Hp.
  Qed.

  (* a call whose body ran has its entry, with its result, in the linearization *)
  Lemma mexec_ran : forall s0 ex st, mexec (minit s0) ex st ->
      forall t r, ph st t = Ran r \/ ph st t = Unlocked r ->
                  exists o, In (t, o, r) (lin s0 (fun _ => None) ex).
  Proof.
    intros s0 ex st H. remember (minit s0) as si eqn:Esi.
    induction H as [s|s ex s1 e s2 Hex IH Hstep].
    - subst s. simpl. intros t r [X|X]; discriminate X.
    - specialize (IH Esi). subst s.
      destruct (mexec_inv _ _ _ Hex) as [Hs Hp].
      intros t1 r1. rewrite lin_app.
      destruct (scan s0 (fun _ => None) ex) as [s' p'] eqn:Esc. simpl in Hs, Hp. simpl.
      assert (Keep : (ph s1 t1 = Ran r1 \/ ph s1 t1 = Unlocked r1) ->
                     exists o, In (t1, o, r1) (lin s0 (fun _ => None) ex ++ lin s' p' [e])).
      { intros X. destruct (IH _ _ X) as [o Ho]. exists o. apply in_or_app. left; exact Ho. }
      inversion Hstep as [x t o Hph|x t o Hph Hl|x t o Hph Hl|x t r Hph Hl|x t r Hph]; subst;
        simpl ph; unfold set_ph; destruct (Nat.eqb t1 t) eqn:Et; try exact Keep.
      + intros [X|X]; discriminate X.
      + intros [X|X]; discriminate X.
      + apply Nat.eqb_eq in Et. subst t1.
        intros [X|X]; [|discriminate X]. inversion X; subst.
        exists o. apply in_or_app. right. simpl.
        rewrite (Hp t o (or_intror Hph)). left. reflexivity.
      + apply Nat.eqb_eq in Et. subst t1.
        intros [X|X]; [discriminate X|]. inversion X; subst.
        apply Keep. left; exact Hph.
      + intros [X|X]; discriminate X.
  Qed.

  (* (1) the shared state after any execution is the sequential model run over the
         linearization, and every call in it carries exactly the sequential result *)
  Theorem lin_is_sequential : forall s0 ex s,
      mexec (minit s0) ex s ->
      let l := lin s0 (fun _ => None) ex in
      sigma s = fold_left (fun st c => fst (step st (snd (fst c)))) l s0 /\
      map snd l = seq_results s0 (map fst l).
  Proof.
    intros s0 ex s H l. subst l. split.
    - destruct (mexec_inv _ _ _ H) as [Hs _]. rewrite Hs. apply scan_fold.
    - apply lin_results.
  Qed.

  (* (2) every returned result is the one its body computed: a CRet t r is preceded by a
         body of t whose linearization entry carries r *)
  Theorem returned_result_is_linearized : forall s0 ex s t r,
      mexec (minit s0) (ex ++ [CRet t r]) s ->
      exists o, In (t, o, r) (lin s0 (fun _ => None) ex).
  Proof.
    intros s0 ex s t r H.
    inversion H as [x E1 E2|x ex0 s1 e s2 Hex Hstep E1 E2 E3].
    - exfalso. symmetry in E2. apply app_eq_nil in E2. destruct E2 as [_ E2]. discriminate E2.
    - apply app_inj_tail in E2. destruct E2 as [E2 E4]. subst.
      inversion Hstep as [| | | |x t' r' Hph]; subst.
      eapply mexec_ran; [exact Hex|]. right; exact Hph.
  Qed.

  (* ---- helpers: positions in an execution extended at the end ---- *)
  Lemma nth_snoc_lt : forall (ex : list cev) e c, c < length ex ->
      nth_error (ex ++ [e]) c = nth_error ex c.
  Proof. intros ex e c H. apply nth_error_app1. exact H. Qed.

  Lemma nth_snoc_eq : forall (ex : list cev) e, nth_error (ex ++ [e]) (length ex) = Some e.
  Proof. intros ex e. rewrite nth_error_app2 by lia. rewrite Nat.sub_diag. reflexivity. Qed.

  Lemma nth_snoc_some : forall (ex : list cev) e a x,
      nth_error ex a = Some x -> nth_error (ex ++ [e]) a = Some x.
  Proof.
    intros ex e a x H. rewrite nth_error_app1; [exact H|].
    apply nth_error_Some. rewrite H. discriminate.
  Qed.

  Lemma nth_snoc_cases : forall (ex : list cev) e c x, nth_error (ex ++ [e]) c = Some x ->
      (c < length ex /\ nth_error ex c = Some x) \/ (c = length ex /\ x = e).
  Proof.
    intros ex e c x H. destruct (lt_dec c (length ex)) as [Hlt|Hge].
    - left. rewrite nth_error_app1 in H by exact Hlt. split; assumption.
    - right. rewrite nth_error_app2 in H by lia.
      destruct (c - length ex) as [|d] eqn:Ed; simpl in H.
      + inversion H; subst. split; [lia|reflexivity].
      + destruct d; discriminate H.
  Qed.

  (* no invoke of t after position a *)
  Definition noinv (ex : list cev) (t : tid) (a : nat) : Prop :=
    forall c, a < c -> forall o', nth_error ex c <> Some (CInv t o').

  (* what the phase of a thread says about the past of the execution *)
  Definition tinv (ex : list cev) (t : tid) (p : phase) : Prop :=
    match p with
    | Idle => True
    | Invoked o | Locked o =>
        exists a, nth_error ex a = Some (CInv t o) /\ noinv ex t a
    | Ran _ | Unlocked _ =>
        exists a b o, a < b /\ b < length ex /\ nth_error ex a = Some (CInv t o) /\
                      nth_error ex b = Some (CBody t) /\ noinv ex t a
    end.

  Lemma noinv_ext : forall ex t a e, noinv ex t a -> (forall o, e <> CInv t o) ->
      noinv (ex ++ [e]) t a.
  Proof.
    intros ex t a e H He c Hc o' Hn.
    apply nth_snoc_cases in Hn. destruct Hn as [[_ Hn]|[_ Hn]].
    - apply (H c Hc o' Hn).
    - apply (He o'). symmetry. exact Hn.
  Qed.

  Lemma tinv_ext : forall ex t p e, tinv ex t p -> (forall o, e <> CInv t o) ->
      tinv (ex ++ [e]) t p.
  Proof.
    intros ex t p e H He. destruct p as [|o|o|r|r]; simpl in *.
    - exact I.
    - destruct H as [a [Ha Hn]]. exists a. split; [apply nth_snoc_some; exact Ha|].
      apply noinv_ext; assumption.
    - destruct H as [a [Ha Hn]]. exists a. split; [apply nth_snoc_some; exact Ha|].
      apply noinv_ext; assumption.
    - destruct H as [a [b [o [Hab [Hb [Ha [Hbb Hn]]]]]]]. exists a, b, o.
      split; [exact Hab|]. split; [rewrite app_length; simpl; lia|].
      split; [apply nth_snoc_some; exact Ha|]. split; [apply nth_snoc_some; exact Hbb|].
      apply noinv_ext; assumption.
    - destruct H as [a [b [o [Hab [Hb [Ha [Hbb Hn]]]]]]]. exists a, b, o.
      split; [exact Hab|]. split; [rewrite app_length; simpl; lia|].
      split; [apply nth_snoc_some; exact Ha|]. split; [apply nth_snoc_some; exact Hbb|].
      apply noinv_ext; assumption.
  Qed.

  Lemma body_inv : forall s0 ex st, mexec (minit s0) ex st ->
      (forall t, tinv ex t (ph st t)) /\
      (forall t i r, nth_error ex i = Some (CRet t r) ->
         exists a b o, a < b /\ b < i /\ nth_error ex a = Some (CInv t o) /\
                       nth_error ex b = Some (CBody t) /\
                       (forall c, a < c -> c < i -> forall o', nth_error ex c <> Some (CInv t o'))).
  Proof.
    intros s0 ex st H. remember (minit s0) as si eqn:Esi.
    induction H as [s|s ex s1 e s2 Hex IH Hstep].
    - subst s. split.
      + intros t. simpl. exact I.
      + intros t i r Hn. destruct i; discriminate Hn.
    - destruct (IH Esi) as [IH1 IH2]. clear IH. split.
      + (* phases *)
        intros t1.
        inversion Hstep as [x t o Hph|x t o Hph Hl|x t o Hph Hl|x t r Hph Hl|x t r Hph]; subst;
          simpl ph; unfold set_ph; destruct (Nat.eqb t1 t) eqn:Et.
        * apply Nat.eqb_eq in Et. subst t1. simpl. exists (length ex).
          split; [apply nth_snoc_eq|].
          intros c Hc o' Hn.
          assert (Hlt : c < length (ex ++ [CInv t o])) by (apply nth_error_Some; rewrite Hn; discriminate).
          rewrite app_length in Hlt. simpl in Hlt. lia.
        * apply tinv_ext; [apply IH1|]. intros o0 X. inversion X; subst.
          rewrite Nat.eqb_refl in Et. discriminate Et.
        * apply Nat.eqb_eq in Et. subst t1.
          pose proof (IH1 t) as Ht. rewrite Hph in Ht.
          apply (tinv_ext _ _ _ (CAcq t)) in Ht; [exact Ht|intros o0 X; discriminate X].
        * apply tinv_ext; [apply IH1|]. intros o0 X. discriminate X.
        * apply Nat.eqb_eq in Et. subst t1.
          pose proof (IH1 t) as Ht. rewrite Hph in Ht. simpl in Ht.
          destruct Ht as [a [Ha Hn]]. simpl. exists a, (length ex), o.
          assert (Hlt : a < length ex) by (apply nth_error_Some; rewrite Ha; discriminate).
          split; [exact Hlt|]. split; [rewrite app_length; simpl; lia|].
          split; [apply nth_snoc_some; exact Ha|]. split; [apply nth_snoc_eq|].
          apply noinv_ext; [exact Hn|]. intros o0 X. discriminate X.
        * apply tinv_ext; [apply IH1|]. intros o0 X. discriminate X.
        * apply Nat.eqb_eq in Et. subst t1.
          pose proof (IH1 t) as Ht. rewrite Hph in Ht.
          apply (tinv_ext _ _ _ (CRel t)) in Ht; [exact Ht|intros o0 X; discriminate X].
        * apply tinv_ext; [apply IH1|]. intros o0 X. discriminate X.
        * simpl. exact I.
        * apply tinv_ext; [apply IH1|]. intros o0 X. discriminate X.
      + (* returns *)
        intros t i r Hn. apply nth_snoc_cases in Hn. destruct Hn as [[Hi Hn]|[Hi He]].
        * destruct (IH2 t i r Hn) as [a [b [o [Hab [Hbi [Ha [Hb Hno]]]]]]].
          exists a, b, o. split; [exact Hab|]. split; [exact Hbi|].
          split; [apply nth_snoc_some; exact Ha|]. split; [apply nth_snoc_some; exact Hb|].
          intros c Hac Hci o'. rewrite nth_snoc_lt by lia. apply Hno; assumption.
        * subst e i.
          inversion Hstep as [| | | |x t' r' Hph]; subst.
          pose proof (IH1 t) as Ht. rewrite Hph in Ht. simpl in Ht.
          destruct Ht as [a [b [o [Hab [Hb [Ha [Hbb Hno]]]]]]].
          exists a, b, o. split; [exact Hab|]. split; [exact Hb|].
          split; [apply nth_snoc_some; exact Ha|]. split; [apply nth_snoc_some; exact Hbb|].
          intros c Hac Hci o'. rewrite nth_snoc_lt by exact Hci. apply Hno; exact Hac.
  Qed.

  (* the lock is held by the thread of the last unreleased CAcq; and the theorem itself *)
  Lemma lock_inv : forall s0 ex st, mexec (minit s0) ex st ->
      (forall i t, nth_error ex i = Some (CAcq t) ->
                   (forall c, i < c -> nth_error ex c <> Some (CRel t)) -> lockh st = Some t) /\
      (forall i j t, i < j -> nth_error ex i = Some (CAcq t) ->
         (forall c, i < c -> c <= j -> nth_error ex c <> Some (CRel t)) ->
         forall c t', i < c -> c <= j -> t' <> t ->
                      nth_error ex c <> Some (CAcq t') /\ nth_error ex c <> Some (CBody t') /\
                      nth_error ex c <> Some (CRel t')).
  Proof.
    intros s0 ex st H. remember (minit s0) as si eqn:Esi.
    induction H as [s|s ex s1 e s2 Hex IH Hstep].
    - split.
      + intros i t Hn. destruct i; discriminate Hn.
      + intros i j t _ Hn. destruct i; discriminate Hn.
    - destruct (IH Esi) as [J T]. clear IH. split.
      + intros i t Hn Hno. apply nth_snoc_cases in Hn. destruct Hn as [[Hi Hn]|[Hi He]].
        * assert (Hl : lockh s1 = Some t).
          { apply (J i t Hn). intros c Hc X. apply (Hno c Hc). apply nth_snoc_some. exact X. }
          assert (Hne : e <> CRel t).
          { intros X. apply (Hno (length ex) Hi). rewrite nth_snoc_eq, X. reflexivity. }
          inversion Hstep as [x t0 o Hph|x t0 o Hph Hl0|x t0 o Hph Hl0|x t0 r Hph Hl0|x t0 r Hph];
            subst; simpl; try exact Hl.
          -- congruence.
          -- exfalso. apply Hne. congruence.
        * subst e. inversion Hstep; subst; simpl. reflexivity.
      + intros i j t Hij Hn Hno c t' Hic Hcj Ht.
        destruct (lt_eq_lt_dec c (length ex)) as [[Hc|Hc]|Hc].
        * rewrite nth_snoc_lt by exact Hc.
          assert (Hi : i < length ex) by lia.
          rewrite nth_snoc_lt in Hn by exact Hi.
          apply (T i c t Hic Hn); [|exact Hic|apply le_n|exact Ht].
          intros c' H1 H2. rewrite <- (nth_snoc_lt ex e c') by lia. apply Hno; lia.
        * subst c. rewrite nth_snoc_eq.
          rewrite nth_snoc_lt in Hn by exact Hic.
          assert (Hl : lockh s1 = Some t).
          { apply (J i t Hn). intros c' H1 X.
            assert (H2 : c' < length ex) by (apply nth_error_Some; rewrite X; discriminate).
            apply (Hno c'); [exact H1|lia|]. apply nth_snoc_some. exact X. }
          inversion Hstep as [x t0 o Hph|x t0 o Hph Hl0|x t0 o Hph Hl0|x t0 r Hph Hl0|x t0 r Hph];
            subst; (split; [|split]); intros X; inversion X; subst; congruence.
        * assert (Hnone : nth_error (ex ++ [e]) c = None).
          { apply nth_error_None. rewrite app_length. simpl. lia. }
          rewrite Hnone. split; [|split]; discriminate.
  Qed.

  (* (3) real-time order: if a call returned before another was invoked, its body — its
         linearization point — comes first.  Stated on positions in the execution: the body of
         the earlier call precedes the return, the body of the later call follows the invoke. *)
  Theorem body_between_invoke_and_return : forall s0 ex s t,
      mexec (minit s0) ex s ->
      forall i r, nth_error ex i = Some (CRet t r) ->
      exists a b o, a < b /\ b < i /\ nth_error ex a = Some (CInv t o) /\ nth_error ex b = Some (CBody t) /\
                    (forall c, a < c -> c < i -> forall o', nth_error ex c <> Some (CInv t o')).
  Proof.
    intros s0 ex s t H i r Hn.
    destruct (body_inv _ _ _ H) as [_ B]. apply (B t i r Hn).
  Qed.

  (* (4) mutual exclusion: no two bodies overlap — between a thread's CAcq and its CRel no
         other thread performs CAcq, CBody or CRel.  (A range method is one body, so no thread
         observes part of it.) *)
  Theorem bodies_do_not_overlap : forall s0 ex s i j t,
      mexec (minit s0) ex s ->
      i < j -> nth_error ex i = Some (CAcq t) ->
      (forall c, i < c -> c <= j -> nth_error ex c <> Some (CRel t)) ->
      forall c t', i < c -> c <= j -> t' <> t ->
                   nth_error ex c <> Some (CAcq t') /\ nth_error ex c <> Some (CBody t') /\
                   nth_error ex c <> Some (CRel t').
  Proof.
    intros s0 ex s i j t H Hij Hn Hno c t' Hic Hcj Ht.
    destruct (lock_inv _ _ _ H) as [_ T]. apply (T i j t Hij Hn Hno c t' Hic Hcj Ht).
  Qed.
End Lin.
