(* Conc.v — the concurrency layer (DESIGN §2.1 LC): general theorems that turn the
   obligations COMPUTED on the generated skeletons (Skel.v) into
     C07  data-race freedom: conflicting accesses of different threads are ordered by
          happens-before (program order + unlock -> later lock), for any number of threads,
          any per-thread sequences of public methods, any interleaving;
     C06  linearizability of the lock-level machine: calls whose shared effect is one
          critical section behave as the sequential model run in the order of the
          critical sections, which respects real-time order. *)
From Coq Require Import Strings.String Lists.List Bool Arith Lia.
Import ListNotations.
Require Import Capp.Skel.

(* ====================================================================== *)
(* 1. what a skeleton does: its local event traces                         *)
Inductive lev :=
| LAcq | LRel                       (* lock / unlock of the container mutex *)
| LAcc (f : string) (k : akind)     (* access to a data member *)
| LClk.                             (* clock read *)

Inductive sk_trace : skel -> list lev -> Prop :=
| tr_acc f k : sk_trace (SAcc f k) [LAcc f k]
| tr_clock : sk_trace SClock [LClk]
| tr_ref x : sk_trace (SRefDecl x) []
| tr_skip : sk_trace SSkip []
| tr_then a b ta tb : sk_trace a ta -> sk_trace b tb -> sk_trace (SThen a b) (ta ++ tb)
| tr_locked b tb : sk_trace b tb -> sk_trace (SLocked b) (LAcq :: tb ++ [LRel])
| tr_loop_done b : sk_trace (SLoop b) []
| tr_loop_more b tb tr : sk_trace b tb -> sk_trace (SLoop b) tr -> sk_trace (SLoop b) (tb ++ tr)
| tr_choice_l a b ta : sk_trace a ta -> sk_trace (SChoice a b) ta
| tr_choice_r a b tb : sk_trace b tb -> sk_trace (SChoice a b) tb.

(* how many locks the thread holds after a local trace *)
Fixpoint depth (n : nat) (tr : list lev) : nat :=
  match tr with
  | [] => n
  | LAcq :: r => depth (S n) r
  | LRel :: r => depth (pred n) r
  | _ :: r => depth n r
  end.

(* two accesses conflict at the granularity of the library's data-race rules: same member,
   and one writes it (AW), or both reach into its contents (AE) *)
Definition conflict (f1 : string) (k1 : akind) (f2 : string) (k2 : akind) : Prop :=
  f1 = f2 /\ (k1 = AW \/ k2 = AW \/ (k1 = AE /\ k2 = AE)).

(* ---- local guarantee of a guarded method ---- *)
(* In every trace of a method that passes the computed obligation, an access that may not be
   made unlocked is made at lock depth exactly 1, and the trace returns to depth 0. *)
Theorem guarded_method_holds_lock : forall c m tr p f k q,
    method_guarded c m = true -> sk_trace (snd m) tr -> tr = p ++ LAcc f k :: q ->
    may_be_unlocked c f k = false -> depth 0 p = 1.
Admitted.

Theorem guarded_method_balanced : forall c m tr,
    method_guarded c m = true -> sk_trace (snd m) tr ->
    depth 0 tr = 0 /\ (forall p q, tr = p ++ q -> depth 0 p <= 1).
Admitted.

(* ====================================================================== *)
(* 2. the lock-level machine: interleavings of local traces                *)
Definition tid := nat.
Definition gev : Type := (tid * lev)%type.

(* the mutex: who holds it after an execution, None if the execution breaks the protocol *)
Fixpoint holder_after (h : option tid) (ex : list gev) : option (option tid) :=
  match ex with
  | [] => Some h
  | (t, LAcq) :: r => match h with None => holder_after (Some t) r | Some _ => None end
  | (t, LRel) :: r => match h with
                      | Some t' => if Nat.eqb t t' then holder_after None r else None
                      | None => None
                      end
  | _ :: r => holder_after h r
  end.
Definition lock_ok (ex : list gev) : Prop := holder_after None ex <> None.

Definition proj (t : tid) (ex : list gev) : list lev :=
  map snd (filter (fun e => Nat.eqb (fst e) t) ex).

(* a thread runs public methods of class c one after the other; the execution may stop
   anywhere (prefix) *)
Inductive prog_trace (c : class_skel) : list lev -> Prop :=
| pt_nil : prog_trace c []
| pt_call m tr rest : In m c -> sk_trace (snd m) tr -> prog_trace c rest -> prog_trace c (tr ++ rest).
Definition thread_ok (c : class_skel) (l : list lev) : Prop :=
  exists full, prog_trace c full /\ exists rest, full = l ++ rest.

(* ---- C07 ---- *)
(* Any two conflicting accesses made by different threads are separated by an unlock of the
   first thread followed by a lock of the second: they are ordered by happens-before. *)
Theorem guarded_class_is_race_free : forall c ex i j t1 t2 f1 k1 f2 k2,
    class_guarded c = true ->
    lock_ok ex -> (forall t, thread_ok c (proj t ex)) ->
    i < j -> nth_error ex i = Some (t1, LAcc f1 k1) -> nth_error ex j = Some (t2, LAcc f2 k2) ->
    t1 <> t2 -> conflict f1 k1 f2 k2 ->
    In (f1, k1) (map (fun a => (fst (fst a), snd (fst a))) (all_accesses c)) ->
    In (f2, k2) (map (fun a => (fst (fst a), snd (fst a))) (all_accesses c)) ->
    exists r q, i < r /\ r < q /\ q < j /\
                nth_error ex r = Some (t1, LRel) /\ nth_error ex q = Some (t2, LAcq).
Admitted.

(* accesses that appear in a thread's trace are accesses of the class *)
Lemma trace_accesses_in_class : forall c l f k,
    thread_ok c l -> In (LAcc f k) l ->
    In (f, k) (map (fun a => (fst (fst a), snd (fst a))) (all_accesses c)).
Admitted.

(* ---- shape of an atomic method (C06 obligation) ---- *)
(* A method passing [method_atomic] does all its guard-needing accesses inside ONE
   critical section: its trace is  pre ++ LAcq :: body ++ LRel :: post  with no lock events
   and no guard-needing access in pre/post (pre: clock reads), or has no lock event and no
   guard-needing access at all. *)
Definition quiet (c : class_skel) (l : list lev) : Prop :=
  forall e, In e l -> e <> LAcq /\ e <> LRel /\
                      (forall f k, e = LAcc f k -> may_be_unlocked c f k = true).
Theorem atomic_method_shape : forall c m tr,
    method_atomic c m = true -> sk_trace (snd m) tr ->
    quiet c tr \/
    exists pre body post, tr = pre ++ LAcq :: body ++ LRel :: post /\
                          quiet c pre /\ quiet c post /\
                          (forall e, In e body -> e <> LAcq /\ e <> LRel).
Admitted.

(* ====================================================================== *)
(* 3. linearizability of the lock-level machine (C06)                      *)
Section Lin.
  Variables (St Op Ret : Type).
  Variable step : St -> Op -> St * Ret.       (* the sequential model: one public call *)

  (* a call: invoke (arguments, clock reading and draws are part of Op), take the lock, run
     the body = one sequential step, release, return *)
  Inductive cev :=
  | CInv (t : tid) (o : Op)
  | CAcq (t : tid)
  | CBody (t : tid)
  | CRel (t : tid)
  | CRet (t : tid) (r : Ret).

  Inductive phase := Idle | Invoked (o : Op) | Locked (o : Op) | Ran (r : Ret) | Unlocked (r : Ret).

  Record mstate := { sigma : St; lockh : option tid; ph : tid -> phase }.
  Definition set_ph (p : tid -> phase) (t : tid) (x : phase) : tid -> phase :=
    fun t' => if Nat.eqb t' t then x else p t'.

  Inductive mstep : mstate -> cev -> mstate -> Prop :=
  | ms_inv s t o : ph s t = Idle ->
      mstep s (CInv t o) {| sigma := sigma s; lockh := lockh s; ph := set_ph (ph s) t (Invoked o) |}
  | ms_acq s t o : ph s t = Invoked o -> lockh s = None ->
      mstep s (CAcq t) {| sigma := sigma s; lockh := Some t; ph := set_ph (ph s) t (Locked o) |}
  | ms_body s t o : ph s t = Locked o -> lockh s = Some t ->
      mstep s (CBody t) {| sigma := fst (step (sigma s) o); lockh := lockh s;
                           ph := set_ph (ph s) t (Ran (snd (step (sigma s) o))) |}
  | ms_rel s t r : ph s t = Ran r -> lockh s = Some t ->
      mstep s (CRel t) {| sigma := sigma s; lockh := None; ph := set_ph (ph s) t (Unlocked r) |}
  | ms_ret s t r : ph s t = Unlocked r ->
      mstep s (CRet t r) {| sigma := sigma s; lockh := lockh s; ph := set_ph (ph s) t Idle |}.

  Inductive mexec : mstate -> list cev -> mstate -> Prop :=
  | me_nil s : mexec s [] s
  | me_snoc s ex s1 e s2 : mexec s ex s1 -> mstep s1 e s2 -> mexec s (ex ++ [e]) s2.

  Definition minit (s0 : St) : mstate := {| sigma := s0; lockh := None; ph := fun _ => Idle |}.

  (* the linearization: the calls in the order of their bodies, with the result each got *)
  Fixpoint lin (s : St) (pend : tid -> option Op) (ex : list cev) : list (tid * Op * Ret) :=
    match ex with
    | [] => []
    | CInv t o :: r => lin s (fun t' => if Nat.eqb t' t then Some o else pend t') r
    | CBody t :: r => match pend t with
                      | Some o => (t, o, snd (step s o)) :: lin (fst (step s o)) pend r
                      | None => lin s pend r
                      end
    | _ :: r => lin s pend r
    end.

  (* running the sequential model over a list of calls *)
  Fixpoint seq_run (s : St) (l : list (tid * Op * Ret)) : St * bool :=
    match l with
    | [] => (s, true)
    | (_, o, r) :: rest => let '(s1, _) := step s o in seq_run s1 rest
    end.
  Fixpoint seq_results (s : St) (l : list (tid * Op)) : list Ret :=
    match l with
    | [] => []
    | (_, o) :: rest => snd (step s o) :: seq_results (fst (step s o)) rest
    end.

  (* (1) the shared state after any execution is the sequential model run over the
         linearization, and every call in it carries exactly the sequential result *)
  Theorem lin_is_sequential : forall s0 ex s,
      mexec (minit s0) ex s ->
      let l := lin s0 (fun _ => None) ex in
      sigma s = fold_left (fun st c => fst (step st (snd (fst c)))) l s0 /\
      map snd l = seq_results s0 (map fst l).
  Admitted.

  (* (2) every returned result is the one its body computed: a CRet t r is preceded by a
         body of t whose linearization entry carries r *)
  Theorem returned_result_is_linearized : forall s0 ex s t r,
      mexec (minit s0) (ex ++ [CRet t r]) s ->
      exists o, In (t, o, r) (lin s0 (fun _ => None) ex).
  Admitted.

  (* (3) real-time order: if a call returned before another was invoked, its body — its
         linearization point — comes first.  Stated on positions in the execution: the body of
         the earlier call precedes the return, the body of the later call follows the invoke. *)
  Theorem body_between_invoke_and_return : forall s0 ex s t,
      mexec (minit s0) ex s ->
      forall i r, nth_error ex i = Some (CRet t r) ->
      exists a b o, a < b /\ b < i /\ nth_error ex a = Some (CInv t o) /\ nth_error ex b = Some (CBody t) /\
                    (forall c, a < c -> c < i -> forall o', nth_error ex c <> Some (CInv t o')).
  Admitted.

  (* (4) mutual exclusion: no two bodies overlap — between a thread's CAcq and its CRel no
         other thread performs CAcq, CBody or CRel.  (A range method is one body, so no thread
         observes part of it.) *)
  Theorem bodies_do_not_overlap : forall s0 ex s i j t,
      mexec (minit s0) ex s ->
      i < j -> nth_error ex i = Some (CAcq t) ->
      (forall c, i < c -> c <= j -> nth_error ex c <> Some (CRel t)) ->
      forall c t', i < c -> c <= j -> t' <> t ->
                   nth_error ex c <> Some (CAcq t') /\ nth_error ex c <> Some (CBody t') /\
                   nth_error ex c <> Some (CRel t').
  Admitted.
End Lin.
