(* C18 Range operations equal the same single operations applied in order. *)
Require Import Capp.Base Capp.Spec Capp.Range.
Require Import Capp.ListCache Capp.Rr Capp.Lfuda Capp.TtlLru Capp.UtMap Capp.UtMapFacts.

(* [range_ok step rest s o now rnd] (Range.v): running the range call o equals running its
   single calls [expand o] in iteration order at the one clock reading [now] (rr: the draws
   are handed on from one element to the next), and the reported result is their aggregate:
   the number of successes for insert_range / erase_range, one result per input key in input
   order (duplicates included) for find_range / find_range_fill.  fifo's iterator-pair
   overloads are what its *_range methods forward to (checked by the translator). *)
Theorem C18_range_is_singles_in_order :
  forall (K V : Type) (E : EqDec K),
    (forall p (s : lc K V) o now rnd, range_ok (lc_step p) no_rest s o now rnd) /\
    (forall (s : rr K V) o now rnd, range_ok rr_step rr_rest s o now rnd) /\
    (forall (s : lf K V) o now rnd, range_ok lf_step no_rest s o now rnd) /\
    (forall (s : lf K V) o now rnd, range_ok lfu_step no_rest s o now rnd) /\
    (forall (s : tl K V) o now rnd, range_ok tl_step no_rest s o now rnd).
Proof.
  intros K V E.
  exact (conj (@lc_range_is_singles K V E) (conj (@rr_range_is_singles K V E)
        (conj (@lf_range_is_singles K V E) (conj (@lfu_range_is_singles K V E) (@tl_range_is_singles K V E))))).
Qed.
Print Assumptions C18_range_is_singles_in_order.

(* ut_map / ut_set, TTL > 0: the range call is its purge followed by the single calls *)
Theorem C18_utmap_insert_range :
  forall (K V : Type) (E : EqDec K) t (s : um K V) l a now rnd,
    um_inv t s -> (t <= now)%Z -> (0 < um_ttl s)%Z ->
    um_step s (InsertRange l a) now rnd =
    (let '(s', n) := fold_left (fun '(s0, n0) '(ttl, k, v) =>
                                  match um_step s0 (Insert ttl k v a) now rnd with
                                  | (s1, RB true) => (s1, S n0)
                                  | (s1, _) => (s1, n0)
                                  end) l (fst (um_prune s now), 0)
     in (s', RN n)).
Proof. exact @um_insert_range_singles. Qed.
Print Assumptions C18_utmap_insert_range.

Theorem C18_utmap_erase_range :
  forall (K V : Type) (E : EqDec K) t (s : um K V) l now rnd,
    um_inv t s -> (t <= now)%Z ->
    um_step s (EraseRange l) now rnd =
    (let '(s', n) := fold_left (fun '(s0, n0) k =>
                                  match um_step s0 (Erase k) now rnd with
                                  | (s1, RB true) => (s1, S n0)
                                  | (s1, _) => (s1, n0)
                                  end) l (fst (um_prune s now), 0)
     in (s', RN n)).
Proof. exact @um_erase_range_singles. Qed.
Print Assumptions C18_utmap_erase_range.

Theorem C18_utmap_find_range :
  forall (K V : Type) (E : EqDec K) t (s : um K V) l pk now rnd,
    um_inv t s -> (t <= now)%Z ->
    um_step s (FindRange l pk) now rnd =
    (fst (um_prune s now),
     RL (map (fun k => (k, match snd (um_step (fst (um_prune s now)) (Find k pk) now rnd) with
                           | RO o => o | _ => None end)) l)) /\
    um_step s (FindRangeFill l pk) now rnd = um_step s (FindRange l pk) now rnd /\
    (forall k, fst (um_step (fst (um_prune s now)) (Find k pk) now rnd) = fst (um_prune s now)).
Proof. exact @um_find_range_singles. Qed.
Print Assumptions C18_utmap_find_range.

(* KNOWN FINDING F7: with TTL 0 insert_range differs from the singles *)
Theorem C18_utmap_ttl0_refuted :
  let s0 := um_init (K := Z) (V := Z) 0 in
  let ins := {| a_ins := true; a_upd := false |} in
  snd (um_step s0 (InsertRange [(0, 1, 7); (0, 1, 8)]%Z ins) 5%Z []) = RN 1 /\
  (let '(s1, r1) := um_step s0 (Insert 0 1 7 ins)%Z 5%Z [] in
   let '(s2, r2) := um_step s1 (Insert 0 1 8 ins)%Z 5%Z [] in (r1, r2)) = (RB true, RB true).
Proof. exact um_ttl0_range_differs_refuted. Qed.
Print Assumptions C18_utmap_ttl0_refuted.
