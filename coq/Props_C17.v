(* C17 clean_expired_values removes all and only expired entries, reports the count. *)
Require Import Capp.Base Capp.Spec Capp.Generic Capp.Container Capp.AllKinds Capp.Lift.
Require Import Capp.TtlLru Capp.TtlLruFacts Capp.UtMap Capp.UtMapFacts.

Theorem C17_clean_removes_exactly_the_expired :
  forall (K V : Type) (E : EqDec K) (kd : kind) (cfg : config), valid_config kd cfg ->
  forall tr t s now rnd s' r,
    let M := kind_model (K:=K) (V:=V) kd in
    m_has_clean M = true -> wruns M 0 (kind_init kd cfg) tr t s ->
    (t <= now)%Z -> m_rnd_ok M s rnd -> m_step M s Clean now rnd = (s', r) ->
    exists n, r = RN n /\ n + m_size M s' = m_size M s /\
      (forall k, deadk (m_get M s) now k -> m_get M s' k = None) /\
      (forall k, ~ deadk (m_get M s) now k -> m_get M s' k = m_get M s k) /\
      (forall k, ~ deadk (m_get M s') now k).
Proof. intros K V E kd cfg Hv. exact (L_clean kd cfg Hv). Qed.
Print Assumptions C17_clean_removes_exactly_the_expired.

(* the four TTL containers are the ones with clean_expired_values *)
Theorem C17_which_containers_clean :
  forall (K V : Type) (E : EqDec K) kd,
    m_has_clean (kind_model (K:=K) (V:=V) kd) =
    match kd with KTlru | KUtlru | KUtMap | KUtSet => true | _ => false end.
Proof. intros K V E []; reflexivity. Qed.
Print Assumptions C17_which_containers_clean.

(* tlru / utlru: exactly the live entries remain, in their recency order; the count is the
   number of expired entries; size afterwards = number of live entries *)
Theorem C17_tlru_utlru_clean_exact :
  forall (K V : Type) (E : EqDec K) u t (s : tl K V) now s' n,
    tl_inv u t s -> (t <= now)%Z -> tl_clean s now = (s', n) ->
    tl_inv u now s' /\
    tl_lru s' = filter (fun x => (now <? snd (snd x))%Z) (tl_lru s) /\
    n = length (filter (fun x => (snd (snd x) <=? now)%Z) (tl_lru s)) /\
    tl_size s' + n = tl_size s /\
    (forall k, ~ deadk (tl_get s') now k).
Proof. exact @tl_clean_exact. Qed.
Print Assumptions C17_tlru_utlru_clean_exact.

(* ut_map / ut_set: the purge removes exactly the expired entries ... *)
Theorem C17_utmap_purge_exact :
  forall (K V : Type) (E : EqDec K) t (s : um K V) now s' n,
    um_inv t s -> um_prune s now = (s', n) ->
    um_list s' = filter (fun x => (now <? um_dl x)%Z) (um_list s) /\
    n = length (filter (fun x => (um_dl x <=? now)%Z) (um_list s)) /\
    um_size s' + n = um_size s /\ um_ttl s' = um_ttl s.
Proof. intros K V E. exact (@um_prune_exact K V). Qed.
Print Assumptions C17_utmap_purge_exact.

(* ... and every insert, erase and lookup (single and range) starts with that same purge *)
Theorem C17_utmap_every_call_purges_first :
  forall (K V : Type) (E : EqDec K) (s : um K V) o now rnd,
    purging o = true ->
    fst (um_step s o now rnd) = fst (um_step (fst (um_prune s now)) o now rnd) /\
    (o <> Clean -> um_step s o now rnd = um_step (fst (um_prune s now)) o now rnd).
Proof. exact @um_purge_first_ok. Qed.
Print Assumptions C17_utmap_every_call_purges_first.
