(* UtMapFacts.v — proofs about the ut_map / ut_set model (UtMap.v): the ModelOK instance
   (Spec.v), the purge (C17), truthful size (C02), range = singles (C18), no-effect calls
   (C19), clear (C20); and the TTL-0 counterexamples. *)
Require Import Capp.Base Capp.Spec Capp.UtMap.
From Coq Require Import Sorted.

Section UmFacts.
  Context {K V : Type} `{EqDec K}.

  Definition um_dl (x : K * (V * Z)) : Z := snd (snd x).

  (* keys distinct; the list is sorted by deadline (it is in write order, the clock is
     monotone and the TTL constant); no deadline lies beyond (last clock reading + TTL) *)
  Definition um_inv (t : Z) (s : um K V) : Prop :=
    (0 <= um_ttl s)%Z /\ NoDup (keys (um_list s)) /\
    StronglySorted Z.le (map um_dl (um_list s)) /\
    (forall x, In x (um_list s) -> (um_dl x <= t + ms (um_ttl s))%Z).

  Definition um_model : model K V := {|
    St := um K V;
    m_step := um_step;
    m_get := um_get;
    m_view := um_view;
    m_keys := fun s => keys (um_list s);
    m_size := um_size;
    m_cap := fun _ => 0;
    m_bounded := false;
    m_dl := fun s _ now => Some (now + ms (um_ttl s))%Z;
    m_inv := um_inv;
    m_rnd_ok := fun _ _ => True;
    m_has_find_use := false;
    m_has_clean := true;
    m_has_clear := true
  |}.

  Lemma um_inv_init : forall ttl t, (0 <= ttl)%Z -> um_inv t (um_init ttl).
  Admitted.

  Global Instance um_ok : ModelOK um_model.
  Admitted.

  (* the invariant also survives the range calls *)
  Lemma um_inv_step_any : forall t (s : um K V) o now rnd s' r,
      um_inv t s -> (t <= now)%Z -> um_step s o now rnd = (s', r) -> um_inv now s'.
  Admitted.

  (* ---------------- C17: the purge ---------------- *)
  (* do_prune(now) removes exactly the entries dead at now, keeps the others in order,
     and returns how many it removed *)
  Theorem um_prune_exact : forall t (s : um K V) now s' n,
      um_inv t s -> um_prune s now = (s', n) ->
      um_list s' = filter (fun x => (now <? um_dl x)%Z) (um_list s) /\
      n = length (filter (fun x => (um_dl x <=? now)%Z) (um_list s)) /\
      um_size s' + n = um_size s /\ um_ttl s' = um_ttl s.
  Admitted.

  (* insert, erase and every lookup run that purge first (and clean is that purge) *)
  Definition purging (o : op K V) : bool :=
    match o with
    | Insert _ _ _ _ | InsertRange _ _ | Erase _ | EraseRange _ | Find _ _ | FindRange _ _
    | FindRangeFill _ _ | Clean => true
    | _ => false
    end.
  Theorem um_purge_first : forall t (s : um K V) o now rnd,
      um_inv t s -> purging o = true ->
      um_step s o now rnd = um_step (fst (um_prune s now)) o now rnd.
  Admitted.

  (* ---------------- C02: size() is the number of live keys right after a purging call
     (TTL > 0) ---------------- *)
  Theorem um_all_live_after : forall t (s : um K V) o now rnd s' r,
      um_inv t s -> (t <= now)%Z -> (0 < um_ttl s)%Z -> purging o = true ->
      um_step s o now rnd = (s', r) ->
      forall x, In x (um_list s') -> (now < um_dl x)%Z.
  Admitted.

  (* ---------------- C18: a range call is the same single calls in order (TTL > 0) ------ *)
  Theorem um_insert_range_singles : forall t (s : um K V) l a now rnd,
      um_inv t s -> (t <= now)%Z -> (0 < um_ttl s)%Z ->
      um_step s (InsertRange l a) now rnd =
      (let '(s', n) := fold_left (fun '(s0, n0) '(ttl, k, v) =>
                                    match um_step s0 (Insert ttl k v a) now rnd with
                                    | (s1, RB true) => (s1, S n0)
                                    | (s1, _) => (s1, n0)
                                    end) l (fst (um_prune s now), 0)
       in (s', RN n)).
  Admitted.
  Theorem um_erase_range_singles : forall t (s : um K V) l now rnd,
      um_inv t s -> (t <= now)%Z ->
      um_step s (EraseRange l) now rnd =
      (let '(s', n) := fold_left (fun '(s0, n0) k =>
                                    match um_step s0 (Erase k) now rnd with
                                    | (s1, RB true) => (s1, S n0)
                                    | (s1, _) => (s1, n0)
                                    end) l (fst (um_prune s now), 0)
       in (s', RN n)).
  Admitted.
  Theorem um_find_range_singles : forall t (s : um K V) l pk now rnd,
      um_inv t s -> (t <= now)%Z ->
      um_step s (FindRange l pk) now rnd =
      (fst (um_prune s now),
       RL (map (fun k => (k, match snd (um_step (fst (um_prune s now)) (Find k pk) now rnd) with
                             | RO o => o | _ => None end)) l)) /\
      um_step s (FindRangeFill l pk) now rnd = um_step s (FindRange l pk) now rnd /\
      (forall k, fst (um_step (fst (um_prune s now)) (Find k pk) now rnd) = fst (um_prune s now)).
  Admitted.

  (* ---------------- C19: calls without effect only purge; purging is unobservable except
     through size()/empty() ---------------- *)
  Lemma um_find_is_purge : forall (s : um K V) k pk now rnd,
      fst (um_step s (Find k pk) now rnd) = fst (um_prune s now).
  Admitted.
  Lemma um_rejected_insert_is_purge : forall (s : um K V) ttl k v a now rnd s',
      um_step s (Insert ttl k v a) now rnd = (s', RB false) -> s' = fst (um_prune s now).
  Admitted.
  Lemma um_erase_absent_is_purge : forall (s : um K V) k now rnd s',
      um_step s (Erase k) now rnd = (s', RB false) -> s' = fst (um_prune s now).
  Admitted.
  (* two states that agree after purging at [now] are indistinguishable by every later insert,
     erase, lookup, clean or clear (all but size()/empty()): same result and the very same successor state *)
  Theorem um_purge_unobservable : forall t (s1 s2 : um K V) now now' o rnd,
      um_inv t s1 -> um_inv t s2 -> (now <= now')%Z ->
      fst (um_prune s1 now) = fst (um_prune s2 now) ->
      purging o = true \/ o = Clear ->
      um_step s1 o now' rnd = um_step s2 o now' rnd.
  Admitted.

  (* ---------------- C20: clear() ---------------- *)
  Lemma um_clear_is_init : forall (s : um K V) now rnd,
      um_step s Clear now rnd = (um_init (um_ttl s), RUnit).
  Admitted.
End UmFacts.

(* ---------------- TTL 0: the properties' statements fail (known finding F7) ----------- *)
Local Open Scope Z_scope.
(* C02: right after an insert at t the entry is already dead (deadline t <= t) yet size() = 1 *)
Example um_ttl0_size_counts_dead_refuted :
  let s0 := um_init (K := Z) (V := Z) 0 in
  let s1 := fst (um_step s0 (Insert 0 1 7 {| a_ins := true; a_upd := true |}) 5 []) in
  um_size s1 = 1%nat /\ um_view s1 5 1 = None.
Admitted.
(* C18: insert_range({1,7},{1,8}, allow::insert) returns 1, the two single inserts return 2 *)
Example um_ttl0_range_differs_refuted :
  let s0 := um_init (K := Z) (V := Z) 0 in
  let ins := {| a_ins := true; a_upd := false |} in
  snd (um_step s0 (InsertRange [(0, 1, 7); (0, 1, 8)] ins) 5 []) = RN 1%nat /\
  (let '(s1, r1) := um_step s0 (Insert 0 1 7 ins) 5 [] in
   let '(s2, r2) := um_step s1 (Insert 0 1 8 ins) 5 [] in (r1, r2)) = (RB true, RB true).
Admitted.
