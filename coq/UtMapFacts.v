(* UtMapFacts.v — proofs about the ut_map / ut_set model (UtMap.v): the ModelOK instance
   (Spec.v), the purge (C17), truthful size (C02), range = singles (C18), no-effect calls
   (C19), clear (C20); and the TTL-0 counterexamples. *)
Require Import Capp.Base Capp.Spec Capp.UtMap.
From Coq Require Import Sorted.

Section UmFacts.
  Context {K V : Type} `{EqDec K}.

  Definition um_dl (x : K * (V * Z)) : Z := snd (snd x).

  (* keys distinct; the list is sorted by deadline (it is in write order, the clock is
     monotone and the TTL constant); no deadline lies beyond (last clock reading + TTL) *)
  Definition um_inv (t : Z) (s : um K V) : Prop :=
    (0 <= um_ttl s)%Z /\ NoDup (keys (um_list s)) /\
    StronglySorted Z.le (map um_dl (um_list s)) /\
    (forall x, In x (um_list s) -> (um_dl x <= t + ms (um_ttl s))%Z).

  Definition um_model : model K V := {|
    St := um K V;
    m_step := um_step;
    m_get := um_get;
    m_view := um_view;
    m_keys := fun s => keys (um_list s);
    m_size := um_size;
    m_cap := fun _ => 0;
    m_bounded := false;
    m_dl := fun s _ now => Some (now + ms (um_ttl s))%Z;
    m_inv := um_inv;
    m_rnd_ok := fun _ _ => True;
    m_has_find_use := false;
    m_has_clean := true;
    m_has_clear := true
  |}.


  (* ================= helpers ================= *)
  Lemma eqb_rfl : forall k : K, eqb k k = true.
  Proof. intro k. destruct (eqb_spec k k) as [_|N]; [reflexivity | congruence]. Qed.

  Lemma eqb_ne : forall a b : K, a <> b -> eqb a b = false.
  Proof. intros a b N. destruct (eqb_spec a b) as [E|_]; [congruence | reflexivity]. Qed.

  Section AssocFacts.
    Context {A : Type}.

    Lemma assoc_app : forall (k : K) (l l' : list (K * A)),
        assoc k (l ++ l') = match assoc k l with Some a => Some a | None => assoc k l' end.
    Proof.
      induction l as [|[k' a] r IH]; intros l'; simpl; [reflexivity|].
      destruct (eqb k k'); [reflexivity | apply IH].
    Qed.

    Lemma assoc_keys : forall (k : K) (l : list (K * A)), In k (keys l) <-> assoc k l <> None.
    Proof.
      induction l as [|[k' a] r IH]; simpl.
      - split; [tauto | congruence].
      - destruct (eqb_spec k k') as [E|N].
        + subst. split; [congruence | auto].
        + rewrite <- IH. split; [intros [E|I]; [congruence | exact I] | auto].
    Qed.

    Lemma assoc_none : forall (k : K) (l : list (K * A)), assoc k l = None <-> ~ In k (keys l).
    Proof.
      intros k l. rewrite assoc_keys. destruct (assoc k l) as [a|]; split; intro Hx.
      - discriminate Hx.
      - exfalso; apply Hx; discriminate.
      - intro N; apply N; reflexivity.
      - reflexivity.
    Qed.

    Lemma assoc_remk_same : forall (k : K) (l : list (K * A)), assoc k (remk k l) = None.
    Proof.
      induction l as [|[k' a] r IH]; simpl; [reflexivity|].
      destruct (eqb k k') eqn:E; [exact IH | simpl; rewrite E; exact IH].
    Qed.

    Lemma assoc_remk_other : forall (k k' : K) (l : list (K * A)),
        k' <> k -> assoc k' (remk k l) = assoc k' l.
    Proof.
      induction l as [|[k0 a] r IH]; intros N; simpl; [reflexivity|].
      destruct (eqb_spec k k0) as [E|N0].
      - subst k0. rewrite (eqb_ne k' k N). apply IH; exact N.
      - simpl. destruct (eqb k' k0); [reflexivity | apply IH; exact N].
    Qed.

    Lemma in_remk : forall (k : K) x (l : list (K * A)), In x (remk k l) -> In x l.
    Proof.
      induction l as [|[k0 a] r IH]; simpl; [tauto|].
      destruct (eqb k k0); simpl;
        [intro I; right; apply IH; exact I
        | intros [E|I]; [left; exact E | right; apply IH; exact I]].
    Qed.

    Lemma keys_remk_in : forall (k k' : K) (l : list (K * A)),
        In k' (keys (remk k l)) -> In k' (keys l) /\ k' <> k.
    Proof.
      intros k k' l I. apply assoc_keys in I. destruct (eqb_spec k' k) as [E|N].
      - subst. rewrite assoc_remk_same in I. congruence.
      - rewrite assoc_remk_other in I by exact N. split; [apply assoc_keys; exact I | exact N].
    Qed.

    Lemma nodup_remk : forall (k : K) (l : list (K * A)), NoDup (keys l) -> NoDup (keys (remk k l)).
    Proof.
      induction l as [|[k0 a] r IH]; simpl; intros ND; [constructor|].
      inversion ND as [|x xs NI ND']; subst.
      destruct (eqb k k0); [apply IH; exact ND'|].
      simpl. constructor; [|apply IH; exact ND'].
      intro I. apply keys_remk_in in I. tauto.
    Qed.

    Lemma keys_filter_in : forall (P : K * A -> bool) k l, In k (keys (filter P l)) -> In k (keys l).
    Proof.
      unfold keys. intros P k l I. apply in_map_iff in I. destruct I as [x [E I]].
      apply filter_In in I. apply in_map_iff. exists x. tauto.
    Qed.

    Lemma nodup_filter_keys : forall (P : K * A -> bool) l, NoDup (keys l) -> NoDup (keys (filter P l)).
    Proof.
      induction l as [|x r IH]; simpl; intros ND; [constructor|].
      inversion ND as [|y ys NI ND']; subst.
      destruct (P x); [|apply IH; exact ND'].
      simpl. constructor; [|apply IH; exact ND'].
      intro I. apply NI. eapply keys_filter_in; exact I.
    Qed.

    Lemma assoc_filter : forall (P : K * A -> bool) (k : K) l, NoDup (keys l) ->
        assoc k (filter P l) =
        match assoc k l with Some a => if P (k, a) then Some a else None | None => None end.
    Proof.
      induction l as [|[k' a] r IH]; simpl; intros ND; [reflexivity|].
      inversion ND as [|y ys NI ND']; subst.
      destruct (eqb_spec k k') as [E|N].
      - subst k'. destruct (P (k, a)).
        + simpl. rewrite eqb_rfl. reflexivity.
        + rewrite (IH ND'). apply assoc_none in NI. simpl in NI. rewrite NI. reflexivity.
      - destruct (P (k', a)).
        + simpl. rewrite (eqb_ne k k' N). apply IH; exact ND'.
        + apply IH; exact ND'.
    Qed.

    Lemma nodup_snoc : forall (l : list K) k, NoDup l -> ~ In k l -> NoDup (l ++ [k]).
    Proof.
      induction l as [|x r IH]; simpl; intros k ND NI.
      - constructor; [simpl; tauto | constructor].
      - inversion ND as [|y ys NI' ND']; subst. constructor.
        + intro I. apply in_app_or in I. destruct I as [I|[E|[]]]; [tauto | subst; tauto].
        + apply IH; tauto.
    Qed.

    Lemma filter_all : forall (P : A -> bool) l, (forall x, In x l -> P x = true) -> filter P l = l.
    Proof.
      induction l as [|x r IH]; simpl; intros Hl; [reflexivity|].
      rewrite (Hl x) by (left; reflexivity). f_equal. apply IH. intros y I. apply Hl. right; exact I.
    Qed.
  End AssocFacts.

  (* ---- sortedness of the deadline column ---- *)
  Lemma ss_cons_iff : forall (x : K * (V * Z)) l,
      StronglySorted Z.le (map um_dl (x :: l)) <->
      StronglySorted Z.le (map um_dl l) /\ (forall y, In y l -> (um_dl x <= um_dl y)%Z).
  Proof.
    intros x l. simpl. split.
    - intro S. apply StronglySorted_inv in S. destruct S as [S F]. split; [exact S|].
      intros y I. rewrite Forall_forall in F. apply F. apply in_map. exact I.
    - intros [S F]. constructor; [exact S|]. rewrite Forall_forall. intros z I.
      apply in_map_iff in I. destruct I as [y [E I]]. subst z. apply F. exact I.
  Qed.

  Lemma ss_filter : forall (P : K * (V * Z) -> bool) l,
      StronglySorted Z.le (map um_dl l) -> StronglySorted Z.le (map um_dl (filter P l)).
  Proof.
    induction l as [|x r IH]; intros S; [exact S|].
    apply ss_cons_iff in S. destruct S as [S F]. simpl.
    destruct (P x); [|apply IH; exact S].
    apply ss_cons_iff. split; [apply IH; exact S|].
    intros y I. apply filter_In in I. apply F. tauto.
  Qed.

  Lemma ss_remk : forall k (l : list (K * (V * Z))),
      StronglySorted Z.le (map um_dl l) -> StronglySorted Z.le (map um_dl (remk k l)).
  Proof.
    induction l as [|[k0 a] r IH]; intros S; [exact S|].
    apply ss_cons_iff in S. destruct S as [S F]. simpl.
    destruct (eqb k k0); [apply IH; exact S|].
    apply ss_cons_iff. split; [apply IH; exact S|].
    intros y I. apply F. eapply in_remk; exact I.
  Qed.

  Lemma ss_snoc : forall (l : list (K * (V * Z))) x,
      StronglySorted Z.le (map um_dl l) -> (forall y, In y l -> (um_dl y <= um_dl x)%Z) ->
      StronglySorted Z.le (map um_dl (l ++ [x])).
  Proof.
    induction l as [|z r IH]; intros x S F.
    - simpl. constructor; constructor.
    - apply ss_cons_iff in S. destruct S as [S Fz]. change ((z :: r) ++ [x]) with (z :: (r ++ [x])).
      apply ss_cons_iff. split.
      + apply IH; [exact S|]. intros y I. apply F. right; exact I.
      + intros y I. apply in_app_or in I. destruct I as [I|[E|[]]].
        * apply Fz; exact I.
        * subst y. apply F. left; reflexivity.
  Qed.

  (* ---- the purge as a function without accumulator ---- *)
  Fixpoint dropdead (now : Z) (l : list (K * (V * Z))) : list (K * (V * Z)) :=
    match l with
    | [] => []
    | x :: r => if (um_dl x <=? now)%Z then dropdead now r else l
    end.

  Lemma prune_list_spec : forall now l n,
      fst (um_prune_list now l n) = dropdead now l /\
      snd (um_prune_list now l n) + length (dropdead now l) = n + length l.
  Proof.
    induction l as [|[k [v e]] r IH]; intros n; simpl.
    - split; [reflexivity | lia].
    - unfold um_dl; simpl. destruct (e <=? now)%Z.
      + destruct (IH (S n)) as [A B]. split; [exact A | lia].
      + simpl. split; [reflexivity | lia].
  Qed.

  Lemma um_prune_fst : forall (s : um K V) now,
      fst (um_prune s now) = um_with s (dropdead now (um_list s)).
  Proof.
    intros s now. unfold um_prune.
    pose proof (prune_list_spec now (um_list s) 0) as [A _].
    destruct (um_prune_list now (um_list s) 0) as [l n]. simpl in *. subst l. reflexivity.
  Qed.

  Lemma um_prune_snd : forall (s : um K V) now,
      snd (um_prune s now) + length (dropdead now (um_list s)) = length (um_list s).
  Proof.
    intros s now. unfold um_prune.
    pose proof (prune_list_spec now (um_list s) 0) as [_ B].
    destruct (um_prune_list now (um_list s) 0) as [l n]. simpl in *. exact B.
  Qed.

  Lemma dropdead_filter : forall now l, StronglySorted Z.le (map um_dl l) ->
      dropdead now l = filter (fun x => (now <? um_dl x)%Z) l.
  Proof.
    induction l as [|x r IH]; intros S; [reflexivity|].
    apply ss_cons_iff in S. destruct S as [S F]. simpl.
    destruct (Z.leb_spec (um_dl x) now) as [L|L]; destruct (Z.ltb_spec now (um_dl x)) as [L'|L']; try lia.
    - apply IH; exact S.
    - f_equal. symmetry. apply filter_all. intros y I. apply Z.ltb_lt. specialize (F y I). lia.
  Qed.

  Lemma filter_split_len : forall now (l : list (K * (V * Z))),
      length (filter (fun x => (um_dl x <=? now)%Z) l) + length (filter (fun x => (now <? um_dl x)%Z) l)
      = length l.
  Proof.
    induction l as [|x r IH]; simpl; [reflexivity|].
    destruct (Z.leb_spec (um_dl x) now) as [L|L]; destruct (Z.ltb_spec now (um_dl x)) as [L'|L'];
      try lia; simpl; lia.
  Qed.

  Lemma dropdead_live : forall now l, (forall x, In x l -> (now < um_dl x)%Z) -> dropdead now l = l.
  Proof.
    intros now [|x r] Hl; simpl; [reflexivity|].
    destruct (Z.leb_spec (um_dl x) now) as [L|L]; [|reflexivity].
    specialize (Hl x (or_introl eq_refl)). lia.
  Qed.

  Lemma dropdead_dropdead : forall now now' l, (now <= now')%Z ->
      dropdead now' (dropdead now l) = dropdead now' l.
  Proof.
    induction l as [|x r IH]; intros L; simpl; [reflexivity|].
    destruct (Z.leb_spec (um_dl x) now) as [A|A].
    - destruct (Z.leb_spec (um_dl x) now') as [B|B]; [apply IH; exact L | lia].
    - reflexivity.
  Qed.

  Lemma dropdead_in : forall now x l, In x (dropdead now l) -> In x l.
  Proof.
    induction l as [|y r IH]; simpl; [tauto|].
    destruct (um_dl y <=? now)%Z; [intro I; right; apply IH; exact I | simpl; tauto].
  Qed.

  Lemma um_with_self : forall s : um K V, um_with s (um_list s) = s.
  Proof. intros [ttl l]; reflexivity. Qed.

  Lemma um_inv_init : forall ttl t, (0 <= ttl)%Z -> um_inv t (um_init ttl).
  Proof.
    intros ttl t L. unfold um_inv, um_init; simpl.
    split; [exact L|]. split; [constructor|]. split; [constructor|]. intros x [].
  Qed.

  (* ---- the invariant through purge / insert / erase ---- *)
  Lemma um_inv_mono : forall t t' (s : um K V), um_inv t s -> (t <= t')%Z -> um_inv t' s.
  Proof.
    intros t t' s (A & B & C & D) L. repeat split; try assumption.
    intros x I. specialize (D x I). lia.
  Qed.

  Lemma um_inv_prune : forall t (s : um K V) now, um_inv t s -> (t <= now)%Z ->
      um_inv now (um_with s (dropdead now (um_list s))).
  Proof.
    intros t s now (A & B & C & D) L. unfold um_inv; simpl.
    rewrite (dropdead_filter now _ C).
    split; [exact A|]. split; [apply nodup_filter_keys; exact B|]. split; [apply ss_filter; exact C|].
    intros x I. apply filter_In in I. destruct I as [I _]. specialize (D x I). lia.
  Qed.

  Lemma um_ins_inv : forall now (s : um K V) k v a s' b,
      um_inv now s -> um_ins s k v a (now + ms (um_ttl s))%Z = (s', b) ->
      um_inv now s' /\ um_ttl s' = um_ttl s.
  Proof.
    intros now s k v a s' b (A & B & C & D) E. unfold um_ins in E.
    destruct (assoc k (um_list s)) as [x|] eqn:Ek.
    - destruct (a_upd a); inversion E; subst; clear E; [|split; [repeat split; assumption | reflexivity]].
      split; [|reflexivity]. unfold um_inv; simpl.
      split; [exact A|]. split; [|split].
      + unfold keys. rewrite map_app. simpl. apply nodup_snoc; [apply nodup_remk; exact B|].
        intro I. apply keys_remk_in in I. tauto.
      + apply ss_snoc; [apply ss_remk; exact C|]. intros y I. apply in_remk in I.
        specialize (D y I). unfold um_dl at 2; simpl. exact D.
      + intros y I. apply in_app_or in I. destruct I as [I|[I|[]]].
        * apply in_remk in I. apply D; exact I.
        * subst y. unfold um_dl; simpl. lia.
    - destruct (a_ins a); inversion E; subst; clear E; [|split; [repeat split; assumption | reflexivity]].
      split; [|reflexivity]. unfold um_inv; simpl.
      split; [exact A|]. split; [|split].
      + unfold keys. rewrite map_app. simpl. apply nodup_snoc; [exact B|].
        apply assoc_none; exact Ek.
      + apply ss_snoc; [exact C|]. intros y I.
        specialize (D y I). unfold um_dl at 2; simpl. exact D.
      + intros y I. apply in_app_or in I. destruct I as [I|[I|[]]].
        * apply D; exact I.
        * subst y. unfold um_dl; simpl. lia.
  Qed.

  Lemma um_erase_inv : forall t (s : um K V) k s' b,
      um_inv t s -> um_erase s k = (s', b) -> um_inv t s' /\ um_ttl s' = um_ttl s.
  Proof.
    intros t s k s' b (A & B & C & D) E. unfold um_erase in E.
    destruct (assoc k (um_list s)) as [x|]; inversion E; subst; clear E;
      [|split; [repeat split; assumption | reflexivity]].
    split; [|reflexivity]. unfold um_inv; simpl.
    split; [exact A|]. split; [apply nodup_remk; exact B|]. split; [apply ss_remk; exact C|].
    intros y I. apply in_remk in I. apply D; exact I.
  Qed.

  Lemma um_ins_range_inv : forall now ttl a l (s : um K V) n s' n',
      um_inv now s -> um_ttl s = ttl -> um_ins_range s l a (now + ms ttl)%Z n = (s', n') ->
      um_inv now s' /\ um_ttl s' = ttl.
  Proof.
    induction l as [|[[z k] v] r IH]; intros s n s' n' I T E; simpl in E.
    - inversion E; subst. split; [exact I | reflexivity].
    - destruct (um_ins s k v a (now + ms ttl)%Z) as [s1 b] eqn:E1.
      rewrite <- T in E1. destruct (um_ins_inv _ _ _ _ _ _ _ I E1) as [I1 T1].
      eapply IH; [exact I1 | congruence | exact E].
  Qed.

  Lemma um_erase_range_inv : forall t l (s : um K V) n s' n',
      um_inv t s -> um_erase_range s l n = (s', n') -> um_inv t s' /\ um_ttl s' = um_ttl s.
  Proof.
    induction l as [|k r IH]; intros s n s' n' I E; simpl in E.
    - inversion E; subst. split; [exact I | reflexivity].
    - destruct (um_erase s k) as [s1 b] eqn:E1.
      destruct (um_erase_inv _ _ _ _ _ I E1) as [I1 T1].
      destruct (IH _ _ _ _ I1 E) as [I2 T2]. split; [exact I2 | congruence].
  Qed.

  (* the invariant also survives the range calls *)
  Lemma um_inv_step_any : forall t (s : um K V) o now rnd s' r,
      um_inv t s -> (t <= now)%Z -> um_step s o now rnd = (s', r) -> um_inv now s'.
  Proof.
    intros t s o now rnd s' r I L E.
    pose proof (um_inv_prune t s now I L) as IP.
    pose proof (um_inv_mono t now s I L) as IM.
    unfold um_step in E; destruct o; try rewrite um_prune_fst in E;
      try (inversion E; subst; assumption).
    - (* Insert *)
      destruct (um_ins _ k v a _) as [s1 b] eqn:E1. inversion E; subst; clear E.
      change (um_ttl s) with (um_ttl (um_with s (dropdead now (um_list s)))) in E1.
      apply (um_ins_inv _ _ _ _ _ _ _ IP E1).
    - (* InsertRange *)
      destruct (um_ins_range _ l a _ 0) as [s1 n] eqn:E1. inversion E; subst; clear E.
      eapply (um_ins_range_inv now (um_ttl s)); [exact IP | reflexivity | exact E1].
    - (* Erase *)
      destruct (um_erase _ k) as [s1 b] eqn:E1. inversion E; subst; clear E.
      apply (um_erase_inv _ _ _ _ _ IP E1).
    - (* EraseRange *)
      destruct (um_erase_range _ l 0) as [s1 n] eqn:E1. inversion E; subst; clear E.
      apply (um_erase_range_inv _ _ _ _ _ _ IP E1).
    - (* Clear *)
      inversion E; subst. destruct I as (A & _). unfold um_inv; simpl.
      split; [exact A|]. split; [constructor|]. split; [constructor|]. intros x [].
    - (* Clean *)
      destruct (um_prune s now) as [s0 n] eqn:E1. inversion E; subst; clear E.
      replace s' with (fst (um_prune s now)) by (rewrite E1; reflexivity).
      rewrite um_prune_fst. exact IP.
  Qed.

  (* ---- content after the purge / insert / erase ---- *)
  Lemma assoc_prune : forall t (s : um K V) now k, um_inv t s ->
      assoc k (dropdead now (um_list s)) =
      match assoc k (um_list s) with
      | Some a => if (now <? snd a)%Z then Some a else None
      | None => None
      end.
  Proof.
    intros t s now k (A & B & C & D). rewrite (dropdead_filter now _ C).
    rewrite (assoc_filter _ k _ B). reflexivity.
  Qed.

  Lemma um_ins_effect : forall (s : um K V) k v a e s' b, um_ins s k v a e = (s', b) ->
      um_ttl s' = um_ttl s /\
      b = (match assoc k (um_list s) with Some _ => a_upd a | None => a_ins a end) /\
      (b = true -> assoc k (um_list s') = Some (v, e)) /\
      (b = false -> s' = s) /\
      (forall k', k' <> k -> assoc k' (um_list s') = assoc k' (um_list s)).
  Proof.
    intros s k v a e s' b E. unfold um_ins in E.
    destruct (assoc k (um_list s)) as [x|] eqn:Ek.
    - destruct (a_upd a); inversion E; subst; clear E; simpl.
      + repeat split; try congruence.
        * intros _. rewrite assoc_app, assoc_remk_same. simpl. rewrite eqb_rfl. reflexivity.
        * intros k' N. rewrite assoc_app, (assoc_remk_other k k' _ N). simpl.
          rewrite (eqb_ne k' k N). destruct (assoc k' (um_list s)); reflexivity.
      + repeat split; congruence.
    - destruct (a_ins a); inversion E; subst; clear E; simpl.
      + repeat split; try congruence.
        * intros _. rewrite assoc_app, Ek. simpl. rewrite eqb_rfl. reflexivity.
        * intros k' N. rewrite assoc_app. simpl.
          rewrite (eqb_ne k' k N). destruct (assoc k' (um_list s)); reflexivity.
      + repeat split; congruence.
  Qed.

  Lemma um_erase_effect : forall (s : um K V) k s' b, um_erase s k = (s', b) ->
      um_ttl s' = um_ttl s /\ assoc k (um_list s') = None /\
      (b = true <-> assoc k (um_list s) <> None) /\ (b = false -> s' = s) /\
      (forall k', k' <> k -> assoc k' (um_list s') = assoc k' (um_list s)).
  Proof.
    intros s k s' b E. unfold um_erase in E.
    destruct (assoc k (um_list s)) as [x|] eqn:Ek; inversion E; subst; clear E; simpl.
    - split; [reflexivity|]. split; [apply assoc_remk_same|].
      split; [split; congruence|]. split; [congruence|].
      intros k' N. apply assoc_remk_other; exact N.
    - split; [reflexivity|]. split; [exact Ek|].
      split; [split; congruence|]. split; [reflexivity|]. reflexivity.
  Qed.

  Lemma livek_assoc : forall (s : um K V) now k,
      livek (um_get s) now k <-> exists v e, assoc k (um_list s) = Some (v, e) /\ (now < e)%Z.
  Proof.
    intros s now k. unfold livek, um_get. split.
    - intros (v & d & E & L). destruct (assoc k (um_list s)) as [[v0 e0]|]; [|discriminate].
      inversion E; subst. simpl in L. apply Z.ltb_lt in L. exists v, e0. split; [reflexivity | exact L].
    - intros (v & e & E & L). rewrite E. exists v, (Some e). split; [reflexivity|].
      simpl. apply Z.ltb_lt; exact L.
  Qed.

  Lemma deadk_assoc : forall (s : um K V) now k,
      deadk (um_get s) now k <-> exists v e, assoc k (um_list s) = Some (v, e) /\ (e <= now)%Z.
  Proof.
    intros s now k. unfold deadk, um_get. split.
    - intros (v & d & E & L). destruct (assoc k (um_list s)) as [[v0 e0]|]; [|discriminate].
      inversion E; subst. exists v, d. split; [reflexivity | exact L].
    - intros (v & e & E & L). rewrite E. exists v, e. split; [reflexivity | exact L].
  Qed.

  Lemma get_none_assoc : forall (s : um K V) k, um_get s k = None <-> assoc k (um_list s) = None.
  Proof.
    intros s k. unfold um_get. destruct (assoc k (um_list s)) as [[v e]|]; split; congruence.
  Qed.

  Lemma get_eq_assoc : forall (s s' : um K V) k k',
      assoc k (um_list s) = assoc k' (um_list s') -> um_get s k = um_get s' k'.
  Proof. intros s s' k k' E. unfold um_get. rewrite E. reflexivity. Qed.

  (* ---- the ModelOK fields ---- *)
  Lemma umf_keys_get : forall t (s : um K V) k, um_inv t s ->
      (In k (keys (um_list s)) <-> um_get s k <> None).
  Proof.
    intros t s k _. rewrite assoc_keys. unfold um_get.
    destruct (assoc k (um_list s)) as [[v e]|]; split; congruence.
  Qed.

  Lemma umf_view : forall t (s : um K V) now k, um_inv t s -> (t <= now)%Z ->
      um_view s now k = view_of (um_get s) now k.
  Proof.
    intros t s now k I _. unfold um_view, um_find, view_of, um_get.
    rewrite um_prune_fst. simpl. rewrite (assoc_prune t s now k I).
    destruct (assoc k (um_list s)) as [[v e]|]; [|reflexivity]. simpl.
    destruct (now <? e)%Z; reflexivity.
  Qed.

  (* every single call either leaves an unaddressed key's entry alone or shows the purged one *)
  Lemma um_step_frame : forall (s : um K V) o now rnd s' r k',
      single o = true -> touches o k' = false -> um_step s o now rnd = (s', r) ->
      assoc k' (um_list s') = assoc k' (um_list s) \/
      assoc k' (um_list s') = assoc k' (dropdead now (um_list s)).
  Proof.
    intros s o now rnd s' r k' Sg T E.
    unfold um_step in E; destruct o; simpl in Sg, T; try discriminate;
      try rewrite um_prune_fst in E; try (inversion E; subst; auto; fail).
    - (* Insert *)
      destruct (um_ins _ k v a _) as [s1 b] eqn:E1. inversion E; subst; clear E.
      apply um_ins_effect in E1. destruct E1 as (_ & _ & _ & _ & F).
      right. rewrite F; [reflexivity|]. intro X; subst. rewrite eqb_rfl in T. discriminate.
    - (* Erase *)
      destruct (um_erase _ k) as [s1 b] eqn:E1. inversion E; subst; clear E.
      apply um_erase_effect in E1. destruct E1 as (_ & _ & _ & _ & F).
      right. rewrite F; [reflexivity|]. intro X; subst. rewrite eqb_rfl in T. discriminate.
    - (* Clean *)
      destruct (um_prune s now) as [s0 n] eqn:E1. inversion E; subst; clear E.
      replace s' with (fst (um_prune s now)) by (rewrite E1; reflexivity).
      rewrite um_prune_fst. right. reflexivity.
  Qed.

  Lemma umf_no_appear : forall t (s : um K V) o now rnd s' r k', um_inv t s -> (t <= now)%Z ->
      single o = true -> True -> um_step s o now rnd = (s', r) ->
      touches o k' = false -> um_get s' k' <> None -> um_get s' k' = um_get s k'.
  Proof.
    intros t s o now rnd s' r k' I L Sg _ E T NN.
    destruct (um_step_frame s o now rnd s' r k' Sg T E) as [F|F].
    - apply get_eq_assoc; exact F.
    - rewrite (assoc_prune t s now k' I) in F. unfold um_get in *. rewrite F in *.
      destruct (assoc k' (um_list s)) as [[v e]|]; [|congruence]. simpl in *.
      destruct (now <? e)%Z; congruence.
  Qed.

  Lemma umf_not_lost : forall t (s : um K V) o now rnd s' r k', um_inv t s -> (t <= now)%Z ->
      single o = true -> um_step s o now rnd = (s', r) ->
      touches o k' = false -> lost_live (um_get s) (um_get s') now k' -> False.
  Proof.
    intros t s o now rnd s' r k' I L Sg E T [Lv N].
    apply livek_assoc in Lv. destruct Lv as (v & e & Ea & Le).
    apply get_none_assoc in N.
    destruct (um_step_frame s o now rnd s' r k' Sg T E) as [F|F].
    - congruence.
    - rewrite (assoc_prune t s now k' I), Ea in F. simpl in F.
      destruct (Z.ltb_spec now e); [congruence | lia].
  Qed.

  Lemma umf_find : forall t (s : um K V) k (pk : bool) now (rnd : list nat) s' r,
      um_inv t s -> (t <= now)%Z -> True ->
      um_step s (Find k pk) now rnd = (s', r) ->
      r = RO (um_view s now k) /\ (um_view s now k = None -> um_get s' k = None).
  Proof.
    intros t s k pk now rnd s' r I L _ E. simpl in E. inversion E; subst; clear E.
    split; [reflexivity|]. unfold um_view, um_find, um_get.
    destruct (assoc k (um_list (fst (um_prune s now)))) as [[v e]|]; congruence.
  Qed.

  Lemma umf_ins : forall t (s : um K V) (ttl : Z) k v a now (rnd : list nat) s' r,
      um_inv t s -> (t <= now)%Z -> True ->
      um_step s (Insert ttl k v a) now rnd = (s', r) ->
      exists b, r = RB b /\
        (livek (um_get s) now k -> b = a_upd a) /\
        (um_get s k = None -> b = a_ins a) /\
        (deadk (um_get s) now k -> (a_ins a = true -> b = true) /\
                                    (b = true -> a_ins a = true \/ a_upd a = true)) /\
        (b = true -> um_get s' k = Some (v, Some (now + ms (um_ttl s))%Z)) /\
        (b = false -> keeps (um_get s) (um_get s') now k).
  Proof.
    intros t s ttl k v a now rnd s' r I L _ E. unfold um_step in E. rewrite um_prune_fst in E.
    destruct (um_ins _ k v a _) as [s1 b] eqn:E1. inversion E; subst; clear E.
    apply um_ins_effect in E1. destruct E1 as (_ & Eb & Ew & Er & _). simpl in Eb.
    rewrite (assoc_prune t s now k I) in Eb.
    exists b. split; [reflexivity|].
    rewrite livek_assoc, deadk_assoc, get_none_assoc.
    destruct (assoc k (um_list s)) as [[v0 e0]|] eqn:Ea.
    - simpl in Eb. destruct (Z.ltb_spec now e0) as [Lt|Ge].
      + (* live *)
        split; [intros _; exact Eb|]. split; [congruence|].
        split; [intros (v1 & e1 & X & Y); inversion X; subst; lia|].
        split; [intros Bt; unfold um_get; rewrite (Ew Bt); reflexivity|].
        intros Bf. left. rewrite (Er Bf). apply get_eq_assoc. simpl.
        rewrite (assoc_prune t s now k I), Ea. simpl.
        destruct (Z.ltb_spec now e0); [reflexivity | lia].
      + (* dead *)
        split; [intros (v1 & e1 & X & Y); inversion X; subst; lia|]. split; [congruence|].
        split; [intros _; split; [congruence | intros Bt; left; congruence]|].
        split; [intros Bt; unfold um_get; rewrite (Ew Bt); reflexivity|].
        intros Bf. right. split.
        * rewrite (Er Bf). apply get_none_assoc. simpl.
          rewrite (assoc_prune t s now k I), Ea. simpl.
          destruct (Z.ltb_spec now e0); [lia | reflexivity].
        * apply deadk_assoc. exists v0, e0. split; [exact Ea | exact Ge].
    - split; [intros (v1 & e1 & X & Y); discriminate|]. split; [intros _; exact Eb|].
      split; [intros (v1 & e1 & X & Y); discriminate|].
      split; [intros Bt; unfold um_get; rewrite (Ew Bt); reflexivity|].
      intros Bf. left. rewrite (Er Bf). apply get_eq_assoc. simpl.
      rewrite (assoc_prune t s now k I), Ea. reflexivity.
  Qed.

  Lemma umf_erase : forall t (s : um K V) k now (rnd : list nat) s' r,
      um_inv t s -> (t <= now)%Z -> True ->
      um_step s (Erase k) now rnd = (s', r) ->
      exists b, r = RB b /\ um_get s' k = None /\
        (livek (um_get s) now k -> b = true) /\ (b = true -> um_get s k <> None).
  Proof.
    intros t s k now rnd s' r I L _ E. unfold um_step in E. rewrite um_prune_fst in E.
    destruct (um_erase _ k) as [s1 b] eqn:E1. inversion E; subst; clear E.
    apply um_erase_effect in E1. destruct E1 as (_ & En & Eb & _ & _). simpl in Eb.
    rewrite (assoc_prune t s now k I) in Eb.
    exists b. split; [reflexivity|]. split; [apply get_none_assoc; exact En|].
    rewrite livek_assoc. split.
    - intros (v & e & Ea & Lt). apply Eb. rewrite Ea. simpl.
      destruct (Z.ltb_spec now e); [congruence | lia].
    - intros Bt. apply Eb in Bt. rewrite get_none_assoc.
      destruct (assoc k (um_list s)); congruence.
  Qed.

  Lemma umf_clean : forall t (s : um K V) now (rnd : list nat) s' r,
      um_inv t s -> (t <= now)%Z -> True ->
      um_step s Clean now rnd = (s', r) ->
      exists n, r = RN n /\ n + um_size s' = um_size s /\
        (forall k, deadk (um_get s) now k -> um_get s' k = None) /\
        (forall k, ~ deadk (um_get s) now k -> um_get s' k = um_get s k).
  Proof.
    intros t s now rnd s' r I L _ E. unfold um_step in E.
    pose proof (um_prune_fst s now) as Pf. pose proof (um_prune_snd s now) as Ps.
    destruct (um_prune s now) as [s0 n]. simpl in Pf, Ps. inversion E; subst; clear E.
    exists n. split; [reflexivity|]. split; [unfold um_size; simpl; exact Ps|]. split.
    - intros k Dk. apply deadk_assoc in Dk. destruct Dk as (v & e & Ea & Le).
      apply get_none_assoc. simpl. rewrite (assoc_prune t s now k I), Ea. simpl.
      destruct (Z.ltb_spec now e); [lia | reflexivity].
    - intros k ND. apply get_eq_assoc. simpl. rewrite (assoc_prune t s now k I).
      destruct (assoc k (um_list s)) as [[v e]|] eqn:Ea; [|reflexivity]. simpl.
      destruct (Z.ltb_spec now e) as [Lt|Ge]; [reflexivity|].
      exfalso. apply ND. apply deadk_assoc. exists v, e. split; [exact Ea | exact Ge].
  Qed.

  Global Instance um_ok : ModelOK um_model.
  Proof.
    constructor; simpl.
    - (* keys_nodup *) intros t s (_ & B & _). exact B.
    - (* keys_get *) exact umf_keys_get.
    - (* size *) intros t s _. unfold um_size, keys. rewrite map_length. reflexivity.
    - (* bound *) intros; discriminate.
    - (* inv_mono *) exact um_inv_mono.
    - (* view *) exact umf_view.
    - (* inv_step *) intros t s o now rnd s' r I L _ _ E. split; [|reflexivity].
      exact (um_inv_step_any t s o now rnd s' r I L E).
    - (* no_appear *) exact umf_no_appear.
    - (* loss *) intros t s o now rnd s' r k' I L Sg _ E T LL. exfalso.
      exact (umf_not_lost t s o now rnd s' r k' I L Sg E T LL).
    - (* find *) exact umf_find.
    - (* find_use *) intros t s k pk now rnd s' r _ _ _ E. inversion E; subst. split; reflexivity.
    - (* ins *) intros t s ttl k v a now rnd s' r I L T E.
      destruct (umf_ins t s ttl k v a now rnd s' r I L T E) as (b & A1 & A2 & A3 & A4 & A5 & A6).
      exists b. repeat (split; [assumption|]). intros; discriminate.
    - (* erase *) exact umf_erase.
    - (* clean *) exact umf_clean.
    - (* clear *) intros t s now rnd s' r _ _ _ E. inversion E; subst. repeat split.
    - (* size_op *) reflexivity.
    - (* empty_op *) reflexivity.
    - (* cap_op *) intros; discriminate.
    - (* dynage *) intros t s now rnd s' r _ _ E k. inversion E; subst. reflexivity.
    - (* updttl *) intros t s d now rnd s' r _ _ E k. inversion E; subst. reflexivity.
  Qed.


  (* ---------------- C17: the purge ---------------- *)
  (* do_prune(now) removes exactly the entries dead at now, keeps the others in order,
     and returns how many it removed *)
  Theorem um_prune_exact : forall t (s : um K V) now s' n,
      um_inv t s -> um_prune s now = (s', n) ->
      um_list s' = filter (fun x => (now <? um_dl x)%Z) (um_list s) /\
      n = length (filter (fun x => (um_dl x <=? now)%Z) (um_list s)) /\
      um_size s' + n = um_size s /\ um_ttl s' = um_ttl s.
  Proof.
    intros t s now s' n (A & B & C & D) E.
    pose proof (um_prune_fst s now) as Pf. pose proof (um_prune_snd s now) as Ps.
    rewrite E in Pf, Ps. simpl in Pf, Ps. subst s'. unfold um_size. simpl.
    rewrite (dropdead_filter now _ C) in Ps |- *.
    pose proof (filter_split_len now (um_list s)) as FL.
    split; [reflexivity|]. split; [lia|]. split; [lia | reflexivity].
  Qed.

  (* insert, erase and every lookup run that purge first (and clean is that purge) *)
  Definition purging (o : op K V) : bool :=
    match o with
    | Insert _ _ _ _ | InsertRange _ _ | Erase _ | EraseRange _ | Find _ _ | FindRange _ _
    | FindRangeFill _ _ | Clean => true
    | _ => false
    end.

  (* purging twice (the second time not earlier) is purging once at the later instant *)
  Lemma um_prune_idem : forall (s : um K V) now now', (now <= now')%Z ->
      fst (um_prune (fst (um_prune s now)) now') = fst (um_prune s now').
  Proof.
    intros s now now' L. rewrite !um_prune_fst. unfold um_with; simpl.
    rewrite (dropdead_dropdead now now' _ L). reflexivity.
  Qed.

  Lemma um_prune_ttl : forall (s : um K V) now, um_ttl (fst (um_prune s now)) = um_ttl s.
  Proof. intros s now. rewrite um_prune_fst. reflexivity. Qed.

  Lemma um_clean_fst : forall (s : um K V) now rnd,
      fst (um_step s Clean now rnd) = fst (um_prune s now).
  Proof. intros s now rnd. unfold um_step. destruct (um_prune s now); reflexivity. Qed.

  (* STATEMENT-PROBLEM: the statement below (um_purge_first, as given) is FALSE for o = Clean:
     clean returns the number of entries the purge removed, and on the already purged state
     that number is 0.  Counterexample (proved below as um_purge_first_clean_counterexample):
       s = {| um_ttl := 1; um_list := [(1, (7, 5))] |}, um_inv 0 s, now = 5:
       um_step s Clean 5 [] = ({| um_ttl := 1; um_list := [] |}, RN 1)  but
       um_step (fst (um_prune s 5)) Clean 5 [] = ({| um_ttl := 1; um_list := [] |}, RN 0).
     Original statement, kept verbatim (it cannot be proved, so it is not declared):

       Theorem um_purge_first : forall t (s : um K V) o now rnd,
           um_inv t s -> purging o = true ->
           um_step s o now rnd = um_step (fst (um_prune s now)) o now rnd.

     Closest true variant, um_purge_first_ok: the successor states always agree, and the
     whole step (state and result) agrees for every purging call other than Clean.  The
     invariant is not needed. *)
  Theorem um_purge_first_ok : forall (s : um K V) o now rnd,
      purging o = true ->
      fst (um_step s o now rnd) = fst (um_step (fst (um_prune s now)) o now rnd) /\
      (o <> Clean -> um_step s o now rnd = um_step (fst (um_prune s now)) o now rnd).
  Proof.
    intros s o now rnd P.
    destruct o; simpl in P; try discriminate;
      try (unfold um_step; cbv zeta; rewrite (um_prune_idem s now now) by lia;
           try rewrite um_prune_ttl; split; [reflexivity | intros _; reflexivity]).
    (* Clean *)
    split; [|intros N; congruence].
    rewrite !um_clean_fst. rewrite (um_prune_idem s now now) by lia. reflexivity.
  Qed.

  (* ---------------- C02: size() is the number of live keys right after a purging call
     (TTL > 0) ---------------- *)
  Definition all_live (now : Z) (s : um K V) : Prop :=
    forall x, In x (um_list s) -> (now < um_dl x)%Z.

  Lemma all_live_prune : forall t (s : um K V) now, um_inv t s -> all_live now (fst (um_prune s now)).
  Proof.
    intros t s now (A & B & C & D). rewrite um_prune_fst. unfold all_live; simpl.
    rewrite (dropdead_filter now _ C). intros x I. apply filter_In in I. destruct I as [_ L].
    apply Z.ltb_lt in L; exact L.
  Qed.

  Lemma all_live_ins : forall now (s : um K V) k v a e s' b,
      all_live now s -> (now < e)%Z -> um_ins s k v a e = (s', b) -> all_live now s'.
  Proof.
    intros now s k v a e s' b AL L E. unfold um_ins in E.
    destruct (assoc k (um_list s)) as [x0|].
    - destruct (a_upd a); inversion E; subst; clear E; [|exact AL].
      unfold all_live; simpl. intros x I. apply in_app_or in I. destruct I as [I|[I|[]]].
      + apply AL. eapply in_remk; exact I.
      + subst x. unfold um_dl; simpl. exact L.
    - destruct (a_ins a); inversion E; subst; clear E; [|exact AL].
      unfold all_live; simpl. intros x I. apply in_app_or in I. destruct I as [I|[I|[]]].
      + apply AL. exact I.
      + subst x. unfold um_dl; simpl. exact L.
  Qed.

  Lemma all_live_erase : forall now (s : um K V) k s' b,
      all_live now s -> um_erase s k = (s', b) -> all_live now s'.
  Proof.
    intros now s k s' b AL E. unfold um_erase in E.
    destruct (assoc k (um_list s)) as [x0|]; inversion E; subst; clear E; [|exact AL].
    unfold all_live; simpl. intros x I. apply AL. eapply in_remk; exact I.
  Qed.

  Lemma all_live_ins_range : forall now a e l (s : um K V) n s' n',
      all_live now s -> (now < e)%Z -> um_ins_range s l a e n = (s', n') -> all_live now s'.
  Proof.
    induction l as [|[[z k] v] r IH]; intros s n s' n' AL L E; simpl in E.
    - inversion E; subst; exact AL.
    - destruct (um_ins s k v a e) as [s1 b] eqn:E1.
      eapply IH; [eapply all_live_ins; [exact AL | exact L | exact E1] | exact L | exact E].
  Qed.

  Lemma all_live_erase_range : forall now l (s : um K V) n s' n',
      all_live now s -> um_erase_range s l n = (s', n') -> all_live now s'.
  Proof.
    induction l as [|k r IH]; intros s n s' n' AL E; simpl in E.
    - inversion E; subst; exact AL.
    - destruct (um_erase s k) as [s1 b] eqn:E1.
      eapply IH; [eapply all_live_erase; [exact AL | exact E1] | exact E].
  Qed.

  (* on a state without dead entries the purge is the identity *)
  Lemma um_prune_live_id : forall now (s : um K V), all_live now s -> fst (um_prune s now) = s.
  Proof.
    intros now s AL. rewrite um_prune_fst, (dropdead_live now _ AL). apply um_with_self.
  Qed.

  Theorem um_all_live_after : forall t (s : um K V) o now rnd s' r,
      um_inv t s -> (t <= now)%Z -> (0 < um_ttl s)%Z -> purging o = true ->
      um_step s o now rnd = (s', r) ->
      forall x, In x (um_list s') -> (now < um_dl x)%Z.
  Proof.
    intros t s o now rnd s' r I L T P E.
    pose proof (all_live_prune t s now I) as AP.
    assert (Le : (now < now + ms (um_ttl s))%Z) by (unfold ms; lia).
    change (all_live now s').
    unfold um_step in E; destruct o; simpl in P; try discriminate;
      try (inversion E; subst; exact AP).
    - destruct (um_ins _ k v a _) as [s1 b] eqn:E1. inversion E; subst; clear E.
      eapply all_live_ins; [exact AP | exact Le | exact E1].
    - destruct (um_ins_range _ l a _ 0) as [s1 n] eqn:E1. inversion E; subst; clear E.
      eapply all_live_ins_range; [exact AP | exact Le | exact E1].
    - destruct (um_erase _ k) as [s1 b] eqn:E1. inversion E; subst; clear E.
      eapply all_live_erase; [exact AP | exact E1].
    - destruct (um_erase_range _ l 0) as [s1 n] eqn:E1. inversion E; subst; clear E.
      eapply all_live_erase_range; [exact AP | exact E1].
    - destruct (um_prune s now) as [s0 n] eqn:E1. inversion E; subst; clear E. exact AP.
  Qed.

  (* ---------------- C18: a range call is the same single calls in order (TTL > 0) ------ *)
  Lemma um_step_ins_live : forall now (s0 : um K V) z k v a rnd, all_live now s0 ->
      um_step s0 (Insert z k v a) now rnd =
      (let '(s1, b) := um_ins s0 k v a (now + ms (um_ttl s0))%Z in (s1, RB b)).
  Proof.
    intros now s0 z k v a rnd AL. unfold um_step. cbv zeta.
    rewrite (um_prune_live_id now s0 AL). reflexivity.
  Qed.

  Lemma um_step_erase_live : forall now (s0 : um K V) k rnd, all_live now s0 ->
      um_step s0 (Erase k) now rnd = (let '(s1, b) := um_erase s0 k in (s1, RB b)).
  Proof.
    intros now s0 k rnd AL. unfold um_step. cbv zeta.
    rewrite (um_prune_live_id now s0 AL). reflexivity.
  Qed.

  Lemma um_ins_range_fold : forall a now rnd ttl0 l (s0 : um K V) n,
      all_live now s0 -> um_ttl s0 = ttl0 -> (0 < ttl0)%Z ->
      um_ins_range s0 l a (now + ms ttl0)%Z n =
      fold_left (fun '(s0, n0) '(ttl, k, v) =>
                   match um_step s0 (Insert ttl k v a) now rnd with
                   | (s1, RB true) => (s1, S n0)
                   | (s1, _) => (s1, n0)
                   end) l (s0, n).
  Proof.
    induction l as [|[[z k] v] r IH]; intros s0 n AL T P; [reflexivity|].
    cbn [fold_left um_ins_range].
    rewrite (um_step_ins_live now s0 z k v a rnd AL), T.
    assert (Le : (now < now + ms ttl0)%Z) by (unfold ms; lia).
    destruct (um_ins s0 k v a (now + ms ttl0)%Z) as [s1 b] eqn:E1.
    pose proof (all_live_ins _ _ _ _ _ _ _ _ AL Le E1) as AL1.
    apply um_ins_effect in E1. destruct E1 as (T1 & _).
    destruct b; apply IH; try assumption; congruence.
  Qed.

  Theorem um_insert_range_singles : forall t (s : um K V) l a now rnd,
      um_inv t s -> (t <= now)%Z -> (0 < um_ttl s)%Z ->
      um_step s (InsertRange l a) now rnd =
      (let '(s', n) := fold_left (fun '(s0, n0) '(ttl, k, v) =>
                                    match um_step s0 (Insert ttl k v a) now rnd with
                                    | (s1, RB true) => (s1, S n0)
                                    | (s1, _) => (s1, n0)
                                    end) l (fst (um_prune s now), 0)
       in (s', RN n)).
  Proof.
    intros t s l a now rnd I L T.
    change (um_step s (InsertRange l a) now rnd)
      with (let '(s1, n) := um_ins_range (fst (um_prune s now)) l a (now + ms (um_ttl s))%Z 0
            in (s1, RN (K := K) (V := V) n)).
    rewrite (um_ins_range_fold a now rnd (um_ttl s) l (fst (um_prune s now)) 0
               (all_live_prune t s now I) (um_prune_ttl s now) T).
    reflexivity.
  Qed.

  Lemma um_erase_range_fold : forall now rnd l (s0 : um K V) n,
      all_live now s0 ->
      um_erase_range s0 l n =
      fold_left (fun '(s0, n0) k =>
                   match um_step s0 (Erase k) now rnd with
                   | (s1, RB true) => (s1, S n0)
                   | (s1, _) => (s1, n0)
                   end) l (s0, n).
  Proof.
    induction l as [|k r IH]; intros s0 n AL; [reflexivity|].
    cbn [fold_left um_erase_range].
    rewrite (um_step_erase_live now s0 k rnd AL).
    destruct (um_erase s0 k) as [s1 b] eqn:E1.
    pose proof (all_live_erase _ _ _ _ _ AL E1) as AL1.
    destruct b; apply IH; assumption.
  Qed.

  Theorem um_erase_range_singles : forall t (s : um K V) l now rnd,
      um_inv t s -> (t <= now)%Z ->
      um_step s (EraseRange l) now rnd =
      (let '(s', n) := fold_left (fun '(s0, n0) k =>
                                    match um_step s0 (Erase k) now rnd with
                                    | (s1, RB true) => (s1, S n0)
                                    | (s1, _) => (s1, n0)
                                    end) l (fst (um_prune s now), 0)
       in (s', RN n)).
  Proof.
    intros t s l now rnd I L.
    change (um_step s (EraseRange l) now rnd)
      with (let '(s1, n) := um_erase_range (fst (um_prune s now)) l 0
            in (s1, RN (K := K) (V := V) n)).
    rewrite (um_erase_range_fold now rnd l (fst (um_prune s now)) 0 (all_live_prune t s now I)).
    reflexivity.
  Qed.

  Theorem um_find_range_singles : forall t (s : um K V) l pk now rnd,
      um_inv t s -> (t <= now)%Z ->
      um_step s (FindRange l pk) now rnd =
      (fst (um_prune s now),
       RL (map (fun k => (k, match snd (um_step (fst (um_prune s now)) (Find k pk) now rnd) with
                             | RO o => o | _ => None end)) l)) /\
      um_step s (FindRangeFill l pk) now rnd = um_step s (FindRange l pk) now rnd /\
      (forall k, fst (um_step (fst (um_prune s now)) (Find k pk) now rnd) = fst (um_prune s now)).
  Proof.
    intros t s l pk now rnd I L. unfold um_step. cbv zeta. simpl fst. simpl snd.
    rewrite (um_prune_idem s now now) by lia.
    split; [reflexivity|]. split; [reflexivity|]. intros k; reflexivity.
  Qed.

  (* ---------------- C19: calls without effect only purge; purging is unobservable except
     through size()/empty() ---------------- *)
  Lemma um_find_is_purge : forall (s : um K V) k pk now rnd,
      fst (um_step s (Find k pk) now rnd) = fst (um_prune s now).
  Proof. intros; reflexivity. Qed.

  Lemma um_rejected_insert_is_purge : forall (s : um K V) ttl k v a now rnd s',
      um_step s (Insert ttl k v a) now rnd = (s', RB false) -> s' = fst (um_prune s now).
  Proof.
    intros s ttl k v a now rnd s' E. unfold um_step in E.
    destruct (um_ins _ k v a _) as [s1 b] eqn:E1. inversion E; subst; clear E.
    apply um_ins_effect in E1. destruct E1 as (_ & _ & _ & R & _). apply R; reflexivity.
  Qed.

  Lemma um_erase_absent_is_purge : forall (s : um K V) k now rnd s',
      um_step s (Erase k) now rnd = (s', RB false) -> s' = fst (um_prune s now).
  Proof.
    intros s k now rnd s' E. unfold um_step in E.
    destruct (um_erase _ k) as [s1 b] eqn:E1. inversion E; subst; clear E.
    apply um_erase_effect in E1. destruct E1 as (_ & _ & _ & R & _). apply R; reflexivity.
  Qed.

  (* STATEMENT-PROBLEM: the statement below (um_purge_unobservable, as given) is FALSE for
     o = Clean: clean reports how many entries its purge removed, so it does distinguish a
     state that still holds dead entries from its purged twin.  Counterexample (proved below
     as um_purge_unobservable_clean_counterexample):
       s1 = {| um_ttl := 1; um_list := [(1, (7, 5))] |}, s2 = {| um_ttl := 1; um_list := [] |},
       um_inv 0 s1, um_inv 0 s2, now = now' = 5, fst (um_prune s1 5) = s2 = fst (um_prune s2 5),
       um_step s1 Clean 5 [] = (s2, RN 1)  but  um_step s2 Clean 5 [] = (s2, RN 0).
     Original statement, kept verbatim (it cannot be proved, so it is not declared):

       (* two states that agree after purging at [now] are indistinguishable by every later insert,
          erase, lookup, clean or clear (all but size()/empty()): same result and the very same successor state *)
       Theorem um_purge_unobservable : forall t (s1 s2 : um K V) now now' o rnd,
           um_inv t s1 -> um_inv t s2 -> (now <= now')%Z ->
           fst (um_prune s1 now) = fst (um_prune s2 now) ->
           purging o = true \/ o = Clear ->
           um_step s1 o now' rnd = um_step s2 o now' rnd.

     Closest true variant, um_purge_unobservable_ok: the very same successor state for every
     such call, and the same result too for every such call except Clean (whose result is the
     number of dead entries, i.e. size() before minus size() after).  The invariants are not
     needed. *)
  Theorem um_purge_unobservable_ok : forall (s1 s2 : um K V) now now' o rnd,
      (now <= now')%Z ->
      fst (um_prune s1 now) = fst (um_prune s2 now) ->
      purging o = true \/ o = Clear ->
      fst (um_step s1 o now' rnd) = fst (um_step s2 o now' rnd) /\
      (o <> Clean -> um_step s1 o now' rnd = um_step s2 o now' rnd).
  Proof.
    intros s1 s2 now now' o rnd L E [P|C].
    - assert (EP : fst (um_prune s1 now') = fst (um_prune s2 now')).
      { rewrite <- (um_prune_idem s1 now now' L), <- (um_prune_idem s2 now now' L), E. reflexivity. }
      destruct (um_purge_first_ok s1 o now' rnd P) as [A1 B1].
      destruct (um_purge_first_ok s2 o now' rnd P) as [A2 B2].
      split.
      + rewrite A1, A2, EP. reflexivity.
      + intros N. rewrite (B1 N), (B2 N), EP. reflexivity.
    - subst o.
      assert (T : um_ttl s1 = um_ttl s2).
      { rewrite <- (um_prune_ttl s1 now), <- (um_prune_ttl s2 now), E. reflexivity. }
      simpl. unfold um_with. rewrite T. split; [reflexivity | intros _; reflexivity].
  Qed.

  (* the result of Clean is determined by the sizes: the only observable difference *)
  Lemma um_clean_result : forall (s : um K V) now rnd s' r,
      um_step s Clean now rnd = (s', r) -> r = RN (um_size s - um_size s') /\ s' = fst (um_prune s now).
  Proof.
    intros s now rnd s' r E. unfold um_step in E.
    pose proof (um_prune_fst s now) as Pf. pose proof (um_prune_snd s now) as Ps.
    destruct (um_prune s now) as [s0 n]. simpl in Pf, Ps. inversion E; subst; clear E.
    split; [|reflexivity]. unfold um_size; simpl. f_equal. lia.
  Qed.

  (* ---------------- C20: clear() ---------------- *)
  Lemma um_clear_is_init : forall (s : um K V) now rnd,
      um_step s Clear now rnd = (um_init (um_ttl s), RUnit).
  Proof. intros; reflexivity. Qed.
End UmFacts.

(* ---------------- TTL 0: the properties' statements fail (known finding F7) ----------- *)
Local Open Scope Z_scope.
(* C02: right after an insert at t the entry is already dead (deadline t <= t) yet size() = 1 *)
Example um_ttl0_size_counts_dead_refuted :
  let s0 := um_init (K := Z) (V := Z) 0 in
  let s1 := fst (um_step s0 (Insert 0 1 7 {| a_ins := true; a_upd := true |}) 5 []) in
  um_size s1 = 1%nat /\ um_view s1 5 1 = None.
Proof. vm_compute. split; reflexivity. Qed.
(* C18: insert_range({1,7},{1,8}, allow::insert) returns 1, the two single inserts return 2 *)
Example um_ttl0_range_differs_refuted :
  let s0 := um_init (K := Z) (V := Z) 0 in
  let ins := {| a_ins := true; a_upd := false |} in
  snd (um_step s0 (InsertRange [(0, 1, 7); (0, 1, 8)] ins) 5 []) = RN 1%nat /\
  (let '(s1, r1) := um_step s0 (Insert 0 1 7 ins) 5 [] in
   let '(s2, r2) := um_step s1 (Insert 0 1 8 ins) 5 [] in (r1, r2)) = (RB true, RB true).
Proof. vm_compute. split; reflexivity. Qed.

(* ---------------- the two STATEMENT-PROBLEM counterexamples, machine-checked ------------ *)
Lemma um_cex_inv : um_inv (K := Z) (V := Z) 0 {| um_ttl := 1; um_list := [(1, (7, 5))] |}.
Proof.
  unfold um_inv; simpl. split; [lia|]. split; [constructor; [simpl; tauto | constructor]|].
  split; [repeat constructor|]. intros x [E|[]]; subst x. vm_compute. discriminate.
Qed.

(* um_purge_first (as originally stated) fails for Clean *)
Example um_purge_first_clean_counterexample :
  let s : um Z Z := {| um_ttl := 1; um_list := [(1, (7, 5))] |} in
  um_inv 0 s /\ purging (K := Z) (V := Z) Clean = true /\
  um_step s Clean 5 [] <> um_step (fst (um_prune s 5)) Clean 5 [].
Proof.
  split; [exact um_cex_inv|]. split; [reflexivity|]. vm_compute. intro X; discriminate X.
Qed.

(* um_purge_unobservable (as originally stated) fails for Clean *)
Example um_purge_unobservable_clean_counterexample :
  let s1 : um Z Z := {| um_ttl := 1; um_list := [(1, (7, 5))] |} in
  let s2 : um Z Z := {| um_ttl := 1; um_list := [] |} in
  um_inv 0 s1 /\ um_inv 0 s2 /\ 5 <= 5 /\ fst (um_prune s1 5) = fst (um_prune s2 5) /\
  (purging (K := Z) (V := Z) Clean = true \/ Clean = Clear (K := Z) (V := Z)) /\
  um_step s1 Clean 5 [] <> um_step s2 Clean 5 [].
Proof.
  split; [exact um_cex_inv|]. split; [exact (um_inv_init 1 0 ltac:(lia))|]. split; [lia|].
  split; [reflexivity|]. split; [left; reflexivity|]. vm_compute. intro X; discriminate X.
Qed.
