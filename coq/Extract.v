(* Extract.v — OCaml extraction of the executable models (DESIGN.md §6).
   ExtrOcamlBasic only: bool, option, unit, list, prod, sumbool, sumor map to the
   OCaml types; numbers (nat, positive, Z, N) stay Coq inductives. *)
Require Import Capp.Base Capp.ListCache Capp.Rr Capp.Lfuda Capp.TtlLru Capp.UtMap Capp.Container.
Require Import Capp.RrLit Capp.LruLit Capp.FifoLit Capp.LfudaLit Capp.TtlLit Capp.UmLit.
Require Extraction.
Require Import ExtrOcamlBasic.

Definition zc_init : kind -> config -> cstate Z Z := c_init.
Definition zc_step : cstate Z Z -> op Z Z -> Z -> list nat -> cstate Z Z * ret Z Z := c_step.
Definition zc_view : cstate Z Z -> Z -> Z -> option Z := c_view.
Definition zc_view_use : cstate Z Z -> Z -> option (Z * nat) := c_view_use.
Definition zc_size : cstate Z Z -> nat := c_size.
Definition zc_capacity : cstate Z Z -> option nat := c_capacity.

(* the literal (L3) machines, for the white-box state comparison *)
Definition zl_rr_init : nat -> rrl Z Z := rrl_init.
Definition zl_rr_step : rrl Z Z -> op Z Z -> Z -> list nat -> res (rrl Z Z * ret Z Z) := l_step true.
Definition zl_lru_init : nat -> lrul Z Z := lrul_init.
Definition zl_lru_step : bool -> lrul Z Z -> op Z Z -> Z -> list nat -> res (lrul Z Z * ret Z Z) := ll_step.
Definition zl_fifo_init : nat -> fifol Z Z := fifol_init.
Definition zl_fifo_step : fifol Z Z -> op Z Z -> Z -> list nat -> res (fifol Z Z * ret Z Z) := fl_step.

Definition zl_lfuda_init : nat -> Z -> nat -> nat -> lfdl Z Z := lfdl_init.
Definition zl_lfuda_step : lfdl Z Z -> op Z Z -> Z -> list nat -> res (lfdl Z Z * ret Z Z) := dl_step true.
Definition zl_lfu_step : lfdl Z Z -> op Z Z -> Z -> list nat -> res (lfdl Z Z * ret Z Z) := dl_step false.
Definition zl_ttl_init : nat -> Z -> ttll Z Z := ttll_init.
Definition zl_ttl_step : bool -> ttll Z Z -> op Z Z -> Z -> list nat -> res (ttll Z Z * ret Z Z) := tt_step.
Definition zl_um_init : Z -> uml Z Z := uml_init.
Definition zl_um_step : uml Z Z -> op Z Z -> Z -> list nat -> res (uml Z Z * ret Z Z) := ul_step.

Extraction Language OCaml.
Extraction "model.ml" zc_init zc_step zc_view zc_view_use zc_size zc_capacity
  zl_rr_init zl_rr_step zl_lru_init zl_lru_step zl_fifo_init zl_fifo_step
  zl_lfuda_init zl_lfuda_step zl_lfu_step zl_ttl_init zl_ttl_step zl_um_init zl_um_step.
