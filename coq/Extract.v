(* Extract.v — OCaml extraction of the executable models (DESIGN.md §6).
   ExtrOcamlBasic only: bool, option, unit, list, prod, sumbool, sumor map to the
   OCaml types; numbers (nat, positive, Z, N) stay Coq inductives. *)
Require Import Capp.Base Capp.ListCache Capp.Rr Capp.Lfuda Capp.TtlLru Capp.UtMap Capp.Container.
Require Extraction.
Require Import ExtrOcamlBasic.

Definition zc_init : kind -> config -> cstate Z Z := c_init.
Definition zc_step : cstate Z Z -> op Z Z -> Z -> list nat -> cstate Z Z * ret Z Z := c_step.
Definition zc_view : cstate Z Z -> Z -> Z -> option Z := c_view.
Definition zc_view_use : cstate Z Z -> Z -> option (Z * nat) := c_view_use.
Definition zc_size : cstate Z Z -> nat := c_size.
Definition zc_capacity : cstate Z Z -> option nat := c_capacity.

Extraction Language OCaml.
Extraction "model.ml" zc_init zc_step zc_view zc_view_use zc_size zc_capacity.
