(* Lfuda.v — mid-level model (L2) of lfuda_cache and (time frozen) lfu_cache.

   lf_ord  : content of m_lfu_list (std::multimap<size_t, node>) in iteration order,
             as (use count, key); emplace files a pair at the UPPER BOUND of its count
             (after every pair with a count <= it), begin() is the eviction victim.
   lf_ents : the used part [begin, m_open_list_end) of m_dynamic_age_list in list
             order, as key |-> (value, m_dynamic_age stamp); new entries are claimed
             at m_open_list_end, i.e. appended; do_access re-files the entry at the
             young end (just before m_open_list_end) and stamps it.

   lfu_cache is the same machine with the clock frozen at 0 (no entry is ever
   "older than the tick", so do_dynamic_age never fires); its own open-list order is
   unobservable through the API. *)
Require Import Capp.Base.

Section Lfuda.
  Context {K V : Type} `{EqDec K}.

  Record lf := {
    lf_cap  : nat;
    lf_tick : Z;        (* m_dynamic_age_tick, milliseconds, >= 0 *)
    lf_rnum : nat;      (* m_dynamic_age_ratio = lf_rnum / 2^lf_rk *)
    lf_rk   : nat;
    lf_ord  : list (nat * K);
    lf_ents : list (K * (V * Z))
  }.

  Definition lf_init (cap : nat) (tick : Z) (rnum rk : nat) : lf :=
    {| lf_cap := cap; lf_tick := tick; lf_rnum := rnum; lf_rk := rk; lf_ord := []; lf_ents := [] |}.

  Definition lf_with (s : lf) (o : list (nat * K)) (e : list (K * (V * Z))) : lf :=
    {| lf_cap := lf_cap s; lf_tick := lf_tick s; lf_rnum := lf_rnum s; lf_rk := lf_rk s;
       lf_ord := o; lf_ents := e |}.

  (* multimap::emplace(c, node): after all pairs with count <= c *)
  Fixpoint ord_insert (c : nat) (k : K) (o : list (nat * K)) : list (nat * K) :=
    match o with
    | [] => [(c, k)]
    | (c', k') :: r => if c' <=? c then (c', k') :: ord_insert c k r else (c, k) :: o
    end.

  Definition lf_count (s : lf) (k : K) : nat :=
    match assoc2 k (lf_ord s) with Some c => c | None => 0 end.

  (* (size_t)(use_count * ratio) for a dyadic ratio *)
  Definition scale (rnum rk c : nat) : nat := (c * rnum) / (2 ^ rk).

  (* do_access(e, now) *)
  Definition lf_access (s : lf) (k : K) (v : V) (now : Z) : lf :=
    let c := lf_count s k in
    lf_with s (ord_insert (S c) k (rem2 k (lf_ord s)))
              (remk k (lf_ents s) ++ [(k, (v, now))]).

  (* do_dynamic_age(now): walk from the old end while stamp + tick < now.  [moved]
     is the block of nodes already re-filed at the young end in this call (each new
     one is spliced in front of the previous one).  When the un-moved part is
     exhausted begin() is a node stamped [now], and now + tick < now is false for
     tick >= 0, so the loop stops. *)
  Fixpoint lf_age_loop (now : Z) (tick : Z) (rnum rk : nat)
           (ents : list (K * (V * Z))) (o : list (nat * K))
           (moved : list (K * (V * Z))) (aged : nat)
    : list (K * (V * Z)) * list (nat * K) * nat :=
    match ents with
    | [] => (moved, o, aged)
    | (k, (v, a)) :: rest =>
        if (a + ms tick <? now)%Z then
          let c := match assoc2 k o with Some c => c | None => 0 end in
          lf_age_loop now tick rnum rk rest
                      (ord_insert (scale rnum rk c) k (rem2 k o))
                      ((k, (v, now)) :: moved) (S aged)
        else (ents ++ moved, o, aged)
    end.

  Definition lf_dyn_age (s : lf) (now : Z) : lf * nat :=
    let '(e, o, n) := lf_age_loop now (lf_tick s) (lf_rnum s) (lf_rk s) (lf_ents s) (lf_ord s) [] 0 in
    (lf_with s o e, n).

  (* do_erase *)
  Definition lf_erase_key (s : lf) (k : K) : lf :=
    lf_with s (rem2 k (lf_ord s)) (remk k (lf_ents s)).

  (* do_prune(now) *)
  Definition lf_prune (s : lf) (now : Z) : lf :=
    match lf_ents s with
    | [] => s
    | _ => let s1 := fst (lf_dyn_age s now) in
           match lf_ord s1 with
           | [] => s1
           | (_, k) :: _ => lf_erase_key s1 k
           end
    end.

  Definition lf_find_use (s : lf) (k : K) (peek : bool) (now : Z) : lf * option (V * nat) :=
    match assoc k (lf_ents s) with
    | Some (v, _) =>
        if peek then (s, Some (v, lf_count s k))
        else let s1 := lf_access s k v now in (s1, Some (v, lf_count s1 k))
    | None => (s, None)
    end.

  Definition lf_find (s : lf) (k : K) (peek : bool) (now : Z) : lf * option V :=
    let '(s1, r) := lf_find_use s k peek now in
    (s1, match r with Some (v, _) => Some v | None => None end).

  Definition lf_ins (s : lf) (k : K) (v : V) (a : allow) (now : Z) : lf * bool :=
    match assoc k (lf_ents s) with
    | Some _ => if a_upd a then (lf_access s k v now, true) else (s, false)
    | None =>
        if a_ins a then
          let s1 := if lf_cap s <=? length (lf_ents s) then lf_prune s now else s in
          (lf_with s1 (ord_insert 1 k (lf_ord s1)) (lf_ents s1 ++ [(k, (v, now))]), true)
        else (s, false)
    end.

  Definition lf_erase (s : lf) (k : K) : lf * bool :=
    match assoc k (lf_ents s) with
    | Some _ => (lf_erase_key s k, true)
    | None => (s, false)
    end.

  Fixpoint lf_ins_range (s : lf) (l : list (Z * K * V)) (a : allow) (now : Z) (n : nat) : lf * nat :=
    match l with
    | [] => (s, n)
    | (_, k, v) :: r => let '(s1, b) := lf_ins s k v a now in
                        lf_ins_range s1 r a now (if b then S n else n)
    end.
  Fixpoint lf_erase_range (s : lf) (l : list K) (n : nat) : lf * nat :=
    match l with
    | [] => (s, n)
    | k :: r => let '(s1, b) := lf_erase s k in lf_erase_range s1 r (if b then S n else n)
    end.
  Fixpoint lf_find_range (s : lf) (l : list K) (peek : bool) (now : Z) : lf * list (K * option V) :=
    match l with
    | [] => (s, [])
    | k :: r => let '(s1, o) := lf_find s k peek now in
                let '(s2, os) := lf_find_range s1 r peek now in (s2, (k, o) :: os)
    end.

  Definition lf_size (s : lf) : nat := length (lf_ents s).

  Definition lf_step (s : lf) (o : op K V) (now : Z) (rnd : list nat) : lf * ret K V :=
    match o with
    | Insert _ k v a => let '(s1, b) := lf_ins s k v a now in (s1, RB b)
    | InsertRange l a => let '(s1, n) := lf_ins_range s l a now 0 in (s1, RN n)
    | Erase k => let '(s1, b) := lf_erase s k in (s1, RB b)
    | EraseRange l => let '(s1, n) := lf_erase_range s l 0 in (s1, RN n)
    | Find k pk => let '(s1, r) := lf_find s k pk now in (s1, RO r)
    | FindUse k pk => let '(s1, r) := lf_find_use s k pk now in (s1, RU r)
    | FindRange l pk => let '(s1, r) := lf_find_range s l pk now in (s1, RL r)
    | FindRangeFill l pk => let '(s1, r) := lf_find_range s l pk now in (s1, RL r)
    | DynAge => let '(s1, n) := lf_dyn_age s now in (s1, RN n)
    | Size => (s, RN (lf_size s))
    | Empty => (s, RB (Nat.eqb (lf_size s) 0))
    | Capacity => (s, RN (lf_cap s))
    | _ => (s, RUnsupported)
    end.

  (* lfu_cache: the same machine, clock frozen, no dynamically_age() *)
  Definition lfu_init (cap : nat) : lf := lf_init cap 1 1 0.
  Definition lfu_step (s : lf) (o : op K V) (now : Z) (rnd : list nat) : lf * ret K V :=
    match o with
    | DynAge => (s, RUnsupported)
    | _ => lf_step s o 0%Z rnd
    end.

  Definition lf_view (s : lf) (now : Z) (k : K) : option V :=
    match assoc k (lf_ents s) with Some (v, _) => Some v | None => None end.
  Definition lf_view_use (s : lf) (k : K) : option (V * nat) :=
    match assoc k (lf_ents s) with Some (v, _) => Some (v, lf_count s k) | None => None end.
  Definition lf_get (s : lf) (k : K) : option (V * dl) :=
    match assoc k (lf_ents s) with Some (v, _) => Some (v, None) | None => None end.
End Lfuda.
Arguments lf : clear implicits.
