(* LfudaFacts.v — proofs about the lfu / lfuda model (Lfuda.v): the ModelOK instances
   (Spec.v), use counts and LFU victims (C11), dynamic aging (C14), no-effect calls (C19). *)
Require Import Capp.Base Capp.Spec Capp.Lfuda.
From Coq Require Import Sorted.

Section LfFacts.
  Context {K V : Type} `{EqDec K}.

  Definition lf_stamp (s : lf K V) (k : K) : option Z :=
    match assoc k (lf_ents s) with Some (_, a) => Some a | None => None end.

  (* keys distinct; the multimap and the age list hold the same keys; the multimap is
     ordered by count; the age list is ordered by stamp (oldest first) and no stamp is in
     the future *)
  Definition lf_inv (t : Z) (s : lf K V) : Prop :=
    1 <= lf_cap s /\ (0 <= lf_tick s)%Z /\
    NoDup (keys (lf_ents s)) /\ length (lf_ents s) <= lf_cap s /\
    NoDup (map snd (lf_ord s)) /\
    (forall k, In k (keys (lf_ents s)) <-> In k (map snd (lf_ord s))) /\
    StronglySorted le (map fst (lf_ord s)) /\
    StronglySorted Z.le (map (fun x => snd (snd x)) (lf_ents s)) /\
    (forall k a, lf_stamp s k = Some a -> (a <= t)%Z).

  (* lfu_cache: same machine, clock frozen at 0 *)
  Definition lfu_inv (t : Z) (s : lf K V) : Prop := lf_inv 0 s /\ (0 <= t)%Z.

  Definition lf_model : model K V := {|
    St := lf K V;
    m_step := lf_step;
    m_get := lf_get;
    m_view := lf_view;
    m_keys := fun s => keys (lf_ents s);
    m_size := lf_size;
    m_cap := @lf_cap K V;
    m_bounded := true;
    m_dl := fun _ _ _ => None;
    m_inv := lf_inv;
    m_rnd_ok := fun _ _ => True;
    m_has_find_use := true;
    m_has_clean := false;
    m_has_clear := false
  |}.

  Definition lfu_model : model K V := {|
    St := lf K V;
    m_step := lfu_step;
    m_get := lf_get;
    m_view := lf_view;
    m_keys := fun s => keys (lf_ents s);
    m_size := lf_size;
    m_cap := @lf_cap K V;
    m_bounded := true;
    m_dl := fun _ _ _ => None;
    m_inv := lfu_inv;
    m_rnd_ok := fun _ _ => True;
    m_has_find_use := true;
    m_has_clean := false;
    m_has_clear := false
  |}.

  Lemma lf_inv_init : forall cap tick rnum rk t,
      1 <= cap -> (0 <= tick)%Z -> lf_inv t (lf_init cap tick rnum rk).
  Admitted.
  Lemma lfu_inv_init : forall cap t, 1 <= cap -> (0 <= t)%Z -> lfu_inv t (lfu_init cap).
  Admitted.

  Global Instance lf_ok : ModelOK lf_model.
  Admitted.
  Global Instance lfu_ok : ModelOK lfu_model.
  Admitted.

  (* ---------------- C11: use counts and LFU victims (lfu_cache) ---------------- *)

  (* the stored count of every resident is the use count defined on the history *)
  Theorem lfu_count_is_use_count : forall cap tr t (s : lf K V),
      1 <= cap -> wruns lfu_model 0 (lfu_init cap) tr t s ->
      forall k, lf_get s k <> None -> lf_count s k = use_count lfu_model k tr.
  Admitted.

  (* find_with_use_count reports the value and the count, including the current access
     when not peeking *)
  Theorem lfu_find_use_reports_count : forall t (s : lf K V) k pk now rnd s' v c,
      lfu_inv t s -> lfu_step s (FindUse k pk) now rnd = (s', RU (Some (v, c))) ->
      lf_view s now k = Some v /\ c = lf_count s' k /\
      c = (if pk then lf_count s k else S (lf_count s k)).
  Admitted.

  (* the victim of an evicting insert has a minimal use count among the residents *)
  Theorem lfu_victim_min_count : forall t (s : lf K V) ttl k v a now rnd s',
      lfu_inv t s -> lf_size s = lf_cap s -> lf_get s k = None ->
      lfu_step s (Insert ttl k v a) now rnd = (s', RB true) ->
      exists kv, kv <> k /\ lf_get s kv <> None /\ lf_get s' kv = None /\
        (forall k', k' <> k -> k' <> kv -> lf_get s' k' = lf_get s k' /\ lf_count s' k' = lf_count s k') /\
        (forall k', lf_get s k' <> None -> lf_count s kv <= lf_count s k') /\
        lf_count s' k = 1.
  Admitted.

  (* ---------------- C14: dynamic aging (lfuda_cache) ---------------- *)

  Definition ageable (s : lf K V) (now : Z) (k : K) : Prop :=
    exists a, lf_stamp s k = Some a /\ (a + ms (lf_tick s) < now)%Z.

  (* an aging point at [now] ages exactly the entries idle for strictly longer than the
     tick: count := floor(count * ratio), idle timer := now; all others untouched; the
     return value is the number of entries aged *)
  Theorem lfuda_dyn_age_exact : forall t (s : lf K V) now s' n,
      lf_inv t s -> (t <= now)%Z -> lf_dyn_age s now = (s', n) ->
      lf_inv now s' /\
      (forall k, lf_get s' k = lf_get s k) /\
      (forall k, ageable s now k ->
                 lf_stamp s' k = Some now /\ lf_count s' k = scale (lf_rnum s) (lf_rk s) (lf_count s k)) /\
      (forall k, lf_get s k <> None -> ~ ageable s now k ->
                 lf_stamp s' k = lf_stamp s k /\ lf_count s' k = lf_count s k) /\
      n = length (filter (fun x => (snd (snd x) + ms (lf_tick s) <? now)%Z) (lf_ents s)).
  Admitted.

  (* dynamically_age() is that aging point *)
  Theorem lfuda_dynage_op : forall (s : lf K V) now rnd,
      lf_step s DynAge now rnd = (fst (lf_dyn_age s now), RN (snd (lf_dyn_age s now))).
  Admitted.

  (* an evicting insert ages first, then removes an entry of minimal count *)
  Theorem lfuda_evicting_insert : forall t (s : lf K V) ttl k v a now rnd s',
      lf_inv t s -> (t <= now)%Z -> lf_size s = lf_cap s -> lf_get s k = None ->
      lf_step s (Insert ttl k v a) now rnd = (s', RB true) ->
      let s1 := fst (lf_dyn_age s now) in
      exists kv, kv <> k /\ lf_get s kv <> None /\ lf_get s' kv = None /\
        (forall k', k' <> k -> k' <> kv ->
                    lf_get s' k' = lf_get s k' /\ lf_count s' k' = lf_count s1 k' /\
                    lf_stamp s' k' = lf_stamp s1 k') /\
        (forall k', lf_get s k' <> None -> lf_count s1 kv <= lf_count s1 k') /\
        lf_count s' k = 1 /\ lf_stamp s' k = Some now.
  Admitted.

  (* a use (successful update, non-peek hit) adds one to the count and restarts the idle
     timer; it touches no other entry *)
  Theorem lfuda_use : forall t (s : lf K V) k v now,
      lf_inv t s -> (t <= now)%Z -> lf_get s k <> None ->
      let s' := lf_access s k v now in
      lf_count s' k = S (lf_count s k) /\ lf_stamp s' k = Some now /\
      (forall k', k' <> k -> lf_count s' k' = lf_count s k' /\ lf_stamp s' k' = lf_stamp s k' /\
                             lf_get s' k' = lf_get s k').
  Admitted.

  (* an insert into a non-full cache, an erase, a peek, a miss, a rejected insert change
     neither count nor idle timer of any other entry (and do not age) *)
  Theorem lfuda_frame : forall t (s : lf K V) o now rnd s' r k',
      lf_inv t s -> (t <= now)%Z -> single o = true -> lf_step s o now rnd = (s', r) ->
      o <> DynAge -> (forall ttl k v a, o = Insert ttl k v a -> lf_get s k = None -> lf_size s < lf_cap s) ->
      (forall ttl v a, o <> Insert ttl k' v a) -> (forall pk, o <> Find k' pk) -> (forall pk, o <> FindUse k' pk) ->
      lf_get s' k' <> None ->
      lf_count s' k' = lf_count s k' /\ lf_stamp s' k' = lf_stamp s k'.
  Admitted.

  (* ---------------- C19 ---------------- *)
  Lemma lf_peek_noop : forall (s : lf K V) k now rnd, fst (lf_step s (Find k true) now rnd) = s.
  Admitted.
  Lemma lf_peek_use_noop : forall (s : lf K V) k now rnd, fst (lf_step s (FindUse k true) now rnd) = s.
  Admitted.
  Lemma lf_miss_noop : forall (s : lf K V) k pk now rnd,
      lf_get s k = None -> lf_step s (Find k pk) now rnd = (s, RO None).
  Admitted.
  Lemma lf_rejected_insert_noop : forall (s : lf K V) ttl k v a now rnd s',
      lf_step s (Insert ttl k v a) now rnd = (s', RB false) -> s' = s.
  Admitted.
  Lemma lf_erase_absent_noop : forall (s : lf K V) k now rnd s',
      lf_step s (Erase k) now rnd = (s', RB false) -> s' = s.
  Admitted.
End LfFacts.
