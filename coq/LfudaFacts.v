(* LfudaFacts.v — proofs about the lfu / lfuda model (Lfuda.v): the ModelOK instances
   (Spec.v), use counts and LFU victims (C11), dynamic aging (C14), no-effect calls (C19).

   Layout: generic list / assoc / multimap helpers; the invariants; the aging loop and
   lfuda_dyn_age_exact (C14); effects of the primitives; insert case analysis; the
   per-field lemmas and the two ModelOK instances; then the C14 / C11 / C19 theorems. *)
Require Import Capp.Base Capp.Spec Capp.Lfuda.
From Coq Require Import Sorted.

Section LfFacts.
  Context {K V : Type} `{EqDec K}.

  Lemma eqb_rfl : forall k : K, eqb k k = true.
  Proof. intros k; destruct (eqb_spec k k); congruence. Qed.
  Lemma eqb_neq : forall a b : K, a <> b -> eqb a b = false.
  Proof. intros a b N; destruct (eqb_spec a b); congruence. Qed.

  (* ---------- generic list facts ---------- *)
  Lemma ssorted_app : forall {B} (R : B -> B -> Prop) (l1 l2 : list B),
      StronglySorted R l1 -> StronglySorted R l2 ->
      (forall x y, In x l1 -> In y l2 -> R x y) -> StronglySorted R (l1 ++ l2).
  Proof.
    intros B R l1 l2 S1 S2 HR. induction l1 as [|a l1 IH]; simpl; auto.
    inversion S1 as [|a' l' Sl Fa]; subst. constructor.
    - apply IH; auto. intros x y Hx Hy; apply HR; simpl; auto.
    - apply Forall_app; split; auto.
      apply Forall_forall; intros y Hy; apply HR; simpl; auto.
  Qed.

  Lemma ssorted_app_r : forall {B} (R : B -> B -> Prop) (l1 l2 : list B),
      StronglySorted R (l1 ++ l2) -> StronglySorted R l2.
  Proof.
    intros B R l1 l2. induction l1 as [|a l1 IH]; simpl; auto.
    intros S; inversion S; subst; auto.
  Qed.

  Lemma ssorted_const : forall (c : Z) (l : list Z),
      Forall (fun x => x = c) l -> StronglySorted Z.le l.
  Proof.
    intros c l F. induction F as [|x l Hx F IH]; constructor; auto.
    subst x. eapply Forall_impl; [|exact F]. simpl; intros; lia.
  Qed.

  Section AssocFacts.
    Context {A : Type}.
    Implicit Types (l : list (K * A)).

    Lemma assoc_app : forall k l1 l2,
        assoc k (l1 ++ l2) = match assoc k l1 with Some x => Some x | None => assoc k l2 end.
    Proof.
      intros k l1 l2; induction l1 as [|[k' x] l1 IH]; simpl; auto.
      destruct (eqb k k'); auto.
    Qed.

    Lemma assoc_None_iff : forall k l, assoc k l = None <-> ~ In k (keys l).
    Proof.
      intros k l; unfold keys; induction l as [|[k' x] l IH]; simpl.
      - tauto.
      - destruct (eqb_spec k k') as [E|E].
        + split; [discriminate|]. intros N; exfalso; apply N; left; auto.
        + rewrite IH. split.
          * intros N [E'|I]; [apply E; auto|auto].
          * intros N I; apply N; right; auto.
    Qed.

    Lemma assoc_Some_keys : forall k l, assoc k l <> None <-> In k (keys l).
    Proof.
      intros k l. rewrite assoc_None_iff. split.
      - intros N. destruct (in_dec (fun a b => match eqb_spec a b with ReflectT _ e => left e | ReflectF _ n => right n end) k (keys l)); tauto.
      - tauto.
    Qed.

    Lemma assoc_In : forall k x l, assoc k l = Some x -> In (k, x) l.
    Proof.
      intros k x l; induction l as [|[k' y] l IH]; simpl; [discriminate|].
      destruct (eqb_spec k k') as [E|E].
      - intros E'; inversion E'; subst; auto.
      - auto.
    Qed.

    Lemma In_assoc : forall k x l, NoDup (keys l) -> In (k, x) l -> assoc k l = Some x.
    Proof.
      intros k x l; unfold keys; induction l as [|[k' y] l IH]; simpl; [tauto|].
      intros ND [E|I].
      - inversion E; subst. rewrite eqb_rfl; auto.
      - inversion ND as [|a b Nin ND']; subst.
        destruct (eqb_spec k k') as [E|E].
        + subst. exfalso; apply Nin. apply in_map_iff. exists (k', x); auto.
        + auto.
    Qed.

    Lemma In_remk : forall k x l, In x (remk k l) <-> In x l /\ fst x <> k.
    Proof.
      intros k x l; induction l as [|[k' y] l IH]; simpl; [tauto|].
      destruct (eqb_spec k k') as [E|E]; simpl; rewrite IH.
      - subst. split; [tauto|]. intros [[E|I] N]; [subst; simpl in N; congruence|auto].
      - split; [intros [E'|[I N]]; [subst; simpl; split; auto|tauto]|tauto].
    Qed.

    Lemma keys_remk : forall k k' l, In k' (keys (remk k l)) <-> In k' (keys l) /\ k' <> k.
    Proof.
      intros k k' l; unfold keys. rewrite !in_map_iff. split.
      - intros [x [E I]]. apply In_remk in I. destruct I as [I N]. subst. split; eauto.
      - intros [[x [E I]] N]. exists x; split; auto. apply In_remk; subst; auto.
    Qed.

    Lemma assoc_remk_same : forall k l, assoc k (remk k l) = None.
    Proof. intros; apply assoc_None_iff. rewrite keys_remk. tauto. Qed.

    Lemma assoc_remk_other : forall k k' l, k <> k' -> assoc k (remk k' l) = assoc k l.
    Proof.
      intros k k' l N; induction l as [|[k'' y] l IH]; simpl; auto.
      destruct (eqb_spec k' k'') as [E|E]; simpl.
      - subst. rewrite (eqb_neq _ _ N). auto.
      - rewrite IH; auto.
    Qed.

    Lemma NoDup_remk : forall k l, NoDup (keys l) -> NoDup (keys (remk k l)).
    Proof.
      intros k l; induction l as [|[k' y] l IH]; simpl; auto.
      intros ND; inversion ND as [|a b Nin ND']; subst.
      destruct (eqb k k'); auto.
      change (NoDup (k' :: keys (remk k l))). constructor; auto.
      rewrite keys_remk. tauto.
    Qed.

    Lemma remk_notin : forall k l, ~ In k (keys l) -> remk k l = l.
    Proof.
      intros k l; unfold keys; induction l as [|[k' y] l IH]; simpl; auto.
      intros N. destruct (eqb_spec k k') as [E|E]; [exfalso; apply N; auto|]. f_equal; auto.
    Qed.

    Lemma length_remk : forall k l, NoDup (keys l) -> In k (keys l) ->
        S (length (remk k l)) = length l.
    Proof.
      intros k l; unfold keys; induction l as [|[k' y] l IH]; simpl; [tauto|].
      intros ND I; inversion ND as [|a b Nin ND']; subst.
      destruct (eqb_spec k k') as [E|E].
      - subst. rewrite remk_notin; auto.
      - simpl. f_equal. apply IH; auto. destruct I; congruence.
    Qed.

    Lemma length_remk_le : forall k l, length (remk k l) <= length l.
    Proof.
      intros k l; induction l as [|[k' y] l IH]; simpl; auto.
      destruct (eqb k k'); simpl; lia.
    Qed.

    Lemma Forall_remk : forall (P : K * A -> Prop) k l, Forall P l -> Forall P (remk k l).
    Proof.
      intros P k l F. apply Forall_forall. intros x I. apply In_remk in I.
      rewrite Forall_forall in F. apply F; tauto.
    Qed.

    Lemma ssorted_map_remk : forall {B} (R : B -> B -> Prop) (f : K * A -> B) k l,
        StronglySorted R (map f l) -> StronglySorted R (map f (remk k l)).
    Proof.
      intros B R f k l; induction l as [|[k' y] l IH]; simpl; auto.
      intros S; inversion S as [|a b Sl Fa]; subst.
      destruct (eqb k k'); auto. simpl. constructor; auto.
      rewrite Forall_forall in *. intros z Hz. apply Fa.
      apply in_map_iff in Hz. destruct Hz as [w [E I]]. apply In_remk in I.
      apply in_map_iff. exists w; tauto.
    Qed.

    Lemma keys_app : forall l1 l2, keys (l1 ++ l2) = keys l1 ++ keys l2.
    Proof. intros; unfold keys; apply map_app. Qed.
  End AssocFacts.

  (* ---------- the count-ordered multimap ---------- *)
  Section OrdFacts.
    Implicit Types (o : list (nat * K)).

    Lemma assoc2_None_iff : forall k o, assoc2 k o = None <-> ~ In k (map snd o).
    Proof.
      intros k o; induction o as [|[c k'] o IH]; simpl.
      - tauto.
      - destruct (eqb_spec k k') as [E|E].
        + split; [discriminate|]. intros N; exfalso; apply N; left; auto.
        + rewrite IH. split.
          * intros N [E'|I]; [apply E; auto|auto].
          * intros N I; apply N; right; auto.
    Qed.

    Lemma assoc2_In : forall k c o, assoc2 k o = Some c -> In (c, k) o.
    Proof.
      intros k c o; induction o as [|[c' k'] o IH]; simpl; [discriminate|].
      destruct (eqb_spec k k') as [E|E].
      - intros E'; inversion E'; subst; auto.
      - auto.
    Qed.

    Lemma In_assoc2 : forall k c o, NoDup (map snd o) -> In (c, k) o -> assoc2 k o = Some c.
    Proof.
      intros k c o; induction o as [|[c' k'] o IH]; simpl; [tauto|].
      intros ND [E|I].
      - inversion E; subst. rewrite eqb_rfl; auto.
      - inversion ND as [|a b Nin ND']; subst.
        destruct (eqb_spec k k') as [E|E].
        + subst. exfalso; apply Nin. apply in_map_iff. exists (c, k'); auto.
        + auto.
    Qed.

    Lemma In_rem2 : forall k x o, In x (rem2 k o) <-> In x o /\ snd x <> k.
    Proof.
      intros k x o; induction o as [|[c' k'] o IH]; simpl; [tauto|].
      destruct (eqb_spec k k') as [E|E]; simpl; rewrite IH.
      - subst. split; [tauto|]. intros [[E|I] N]; [subst; simpl in N; congruence|auto].
      - split; [intros [E'|[I N]]; [subst; simpl; split; auto|tauto]|tauto].
    Qed.

    Lemma keys_rem2 : forall k k' o, In k' (map snd (rem2 k o)) <-> In k' (map snd o) /\ k' <> k.
    Proof.
      intros k k' o. rewrite !in_map_iff. split.
      - intros [x [E I]]. apply In_rem2 in I. destruct I as [I N]. subst. split; eauto.
      - intros [[x [E I]] N]. exists x; split; auto. apply In_rem2; subst; auto.
    Qed.

    Lemma assoc2_rem2_same : forall k o, assoc2 k (rem2 k o) = None.
    Proof. intros; apply assoc2_None_iff. rewrite keys_rem2. tauto. Qed.

    Lemma assoc2_rem2_other : forall k k' o, k <> k' -> assoc2 k (rem2 k' o) = assoc2 k o.
    Proof.
      intros k k' o N; induction o as [|[c k''] o IH]; simpl; auto.
      destruct (eqb_spec k' k'') as [E|E]; simpl.
      - subst. rewrite (eqb_neq _ _ N). auto.
      - rewrite IH; auto.
    Qed.

    Lemma NoDup_rem2 : forall k o, NoDup (map snd o) -> NoDup (map snd (rem2 k o)).
    Proof.
      intros k o; induction o as [|[c k'] o IH]; simpl; auto.
      intros ND; inversion ND as [|a b Nin ND']; subst.
      destruct (eqb k k'); auto.
      simpl. constructor; auto.
      rewrite keys_rem2. tauto.
    Qed.

    Lemma ssorted_rem2 : forall k o,
        StronglySorted le (map fst o) -> StronglySorted le (map fst (rem2 k o)).
    Proof.
      intros k o; induction o as [|[c k'] o IH]; simpl; auto.
      intros S; inversion S as [|a b Sl Fa]; subst.
      destruct (eqb k k'); auto. simpl. constructor; auto.
      rewrite Forall_forall in *. intros z Hz. apply Fa.
      apply in_map_iff in Hz. destruct Hz as [w [E I]]. apply In_rem2 in I.
      apply in_map_iff. exists w; tauto.
    Qed.

    Lemma In_ord_insert : forall c k x o, In x (ord_insert c k o) <-> x = (c, k) \/ In x o.
    Proof.
      intros c k x o; induction o as [|[c' k'] o IH]; simpl.
      - split; intros [E|F]; auto.
      - destruct (c' <=? c); simpl; [rewrite IH|]; split; intros Hx; intuition auto.
    Qed.

    Lemma keys_ord_insert : forall c k k' o,
        In k' (map snd (ord_insert c k o)) <-> k' = k \/ In k' (map snd o).
    Proof.
      intros c k k' o. rewrite !in_map_iff. split.
      - intros [x [E I]]. apply In_ord_insert in I. destruct I as [I|I].
        + subst; auto.
        + right; eauto.
      - intros [E|[x [E I]]].
        + exists (c, k); split; auto. apply In_ord_insert; auto.
        + exists x; split; auto. apply In_ord_insert; auto.
    Qed.

    Lemma NoDup_ord_insert : forall c k o,
        NoDup (map snd o) -> ~ In k (map snd o) -> NoDup (map snd (ord_insert c k o)).
    Proof.
      intros c k o; induction o as [|[c' k'] o IH]; simpl.
      - intros; constructor; auto.
      - intros ND Nin; inversion ND as [|a b Nin' ND']; subst.
        destruct (c' <=? c); simpl.
        + constructor; [|apply IH; tauto].
          rewrite keys_ord_insert. intros [E|I]; [apply Nin; auto|auto].
        + constructor; auto.
    Qed.

    Lemma ssorted_ord_insert : forall c k o,
        StronglySorted le (map fst o) -> StronglySorted le (map fst (ord_insert c k o)).
    Proof.
      intros c k o; induction o as [|[c' k'] o IH]; simpl.
      - intros; constructor; auto.
      - intros S; inversion S as [|a b Sl Fa]; subst.
        destruct (Nat.leb_spec c' c) as [L|L]; simpl.
        + constructor; auto.
          rewrite Forall_forall in *. intros z Hz.
          apply in_map_iff in Hz. destruct Hz as [w [E I]]. apply In_ord_insert in I.
          destruct I as [I|I]; [subst; simpl; auto|].
          apply Fa. apply in_map_iff; eauto.
        + constructor; auto. constructor; [lia|].
          eapply Forall_impl; [|exact Fa]. simpl; intros; lia.
    Qed.

    Lemma assoc2_ord_insert_same : forall c k o,
        ~ In k (map snd o) -> assoc2 k (ord_insert c k o) = Some c.
    Proof.
      intros c k o; induction o as [|[c' k'] o IH]; simpl.
      - rewrite eqb_rfl; auto.
      - intros N. destruct (c' <=? c); simpl.
        + rewrite eqb_neq; [|intros E; apply N; auto]. apply IH; tauto.
        + rewrite eqb_rfl; auto.
    Qed.

    Lemma assoc2_ord_insert_other : forall c k k' o,
        k' <> k -> assoc2 k' (ord_insert c k o) = assoc2 k' o.
    Proof.
      intros c k k' o N; induction o as [|[c' k''] o IH]; simpl.
      - rewrite eqb_neq; auto.
      - destruct (c' <=? c); simpl.
        + rewrite IH; auto.
        + rewrite (eqb_neq _ _ N); auto.
    Qed.
  End OrdFacts.

  Lemma NoDup_app_iff : forall {B} (l1 l2 : list B),
      NoDup (l1 ++ l2) <-> NoDup l1 /\ NoDup l2 /\ (forall x, In x l1 -> ~ In x l2).
  Proof.
    intros B l1 l2; induction l1 as [|a l1 IH]; simpl.
    - split; [intros; repeat split; auto; constructor | tauto].
    - split.
      + intros ND; inversion ND as [|a' l' Nin ND']; subst.
        apply IH in ND'. destruct ND' as (N1 & N2 & D).
        split; [constructor; auto; intros I; apply Nin; apply in_or_app; auto|].
        split; auto. intros x [E|I]; [subst; intros I; apply Nin; apply in_or_app; auto|auto].
      + intros (N1 & N2 & D). inversion N1 as [|a' l' Nin ND']; subst.
        constructor.
        * intros I; apply in_app_or in I; destruct I as [I|I]; [auto|]. apply (D a); auto.
        * apply IH; repeat split; auto.
    Qed.

  Lemma NoDup_snoc : forall {B} (l : list B) x, NoDup l -> ~ In x l -> NoDup (l ++ [x]).
  Proof.
    intros B l x ND N. apply NoDup_app_iff. split; auto. split.
    - constructor; [simpl; tauto|constructor].
    - intros y Hy [E|[]]. subst; auto.
  Qed.

  Lemma filter_all : forall {B} (f : B -> bool) l, Forall (fun x => f x = true) l -> filter f l = l.
  Proof.
    intros B f l F; induction F as [|x l Hx F IH]; simpl; auto. rewrite Hx, IH; auto.
  Qed.
  Lemma filter_none : forall {B} (f : B -> bool) l, Forall (fun x => f x = false) l -> filter f l = [].
  Proof.
    intros B f l F; induction F as [|x l Hx F IH]; simpl; auto. rewrite Hx; auto.
  Qed.

  (* ---------- definitions ---------- *)
  Definition stampof (x : K * (V * Z)) : Z := snd (snd x).

  Definition lf_stamp (s : lf K V) (k : K) : option Z :=
    match assoc k (lf_ents s) with Some (_, a) => Some a | None => None end.

  (* keys distinct; the multimap and the age list hold the same keys; the multimap is
     ordered by count; the age list is ordered by stamp (oldest first) and no stamp is in
     the future *)
  Definition lf_inv (t : Z) (s : lf K V) : Prop :=
    1 <= lf_cap s /\ (0 <= lf_tick s)%Z /\
    NoDup (keys (lf_ents s)) /\ length (lf_ents s) <= lf_cap s /\
    NoDup (map snd (lf_ord s)) /\
    (forall k, In k (keys (lf_ents s)) <-> In k (map snd (lf_ord s))) /\
    StronglySorted le (map fst (lf_ord s)) /\
    StronglySorted Z.le (map (fun x => snd (snd x)) (lf_ents s)) /\
    (forall k a, lf_stamp s k = Some a -> (a <= t)%Z).

  (* the last clause as a [Forall] over the age list *)
  Lemma stamp_of_Forall : forall t (l : list (K * (V * Z))),
      Forall (fun x => (stampof x <= t)%Z) l ->
      forall k a, match assoc k l with Some (_, a') => Some a' | None => None end = Some a -> (a <= t)%Z.
  Proof.
    intros t l HF k a E. rewrite Forall_forall in HF.
    destruct (assoc k l) as [[v a']|] eqn:EA; [|discriminate].
    inversion E; subst. apply assoc_In in EA. apply (HF _ EA).
  Qed.
  Lemma Forall_of_stamp : forall t (l : list (K * (V * Z))), NoDup (keys l) ->
      (forall k a, match assoc k l with Some (_, a') => Some a' | None => None end = Some a -> (a <= t)%Z) ->
      Forall (fun x => (stampof x <= t)%Z) l.
  Proof.
    intros t l ND Hs. apply Forall_forall. intros [k [v a]] I. apply (Hs k a).
    rewrite (In_assoc _ _ _ ND I). auto.
  Qed.

  (* lfu_cache: same machine, clock frozen at 0, so every stamp is exactly 0 (needed to
     know that do_dynamic_age never fires: 0 + ms tick < 0 is false) *)
  Definition lfu_inv (t : Z) (s : lf K V) : Prop :=
    lf_inv 0 s /\ (0 <= t)%Z /\ Forall (fun x => (0 <= stampof x)%Z) (lf_ents s).

  Definition cnt (o : list (nat * K)) (k : K) : nat :=
    match assoc2 k o with Some c => c | None => 0 end.
  Lemma lf_count_cnt : forall (s : lf K V) k, lf_count s k = cnt (lf_ord s) k.
  Proof. reflexivity. Qed.

  Lemma lf_with_id : forall s : lf K V, lf_with s (lf_ord s) (lf_ents s) = s.
  Proof. destruct s; reflexivity. Qed.

  Lemma lf_get_keys : forall (s : lf K V) k, lf_get s k <> None <-> In k (keys (lf_ents s)).
  Proof.
    intros s k. rewrite <- assoc_Some_keys. unfold lf_get.
    destruct (assoc k (lf_ents s)) as [[v a]|]; split; congruence.
  Qed.
  Lemma lf_get_None : forall (s : lf K V) k, lf_get s k = None <-> assoc k (lf_ents s) = None.
  Proof.
    intros s k. unfold lf_get.
    destruct (assoc k (lf_ents s)) as [[v a]|]; split; congruence.
  Qed.

  Lemma lf_inv_mono : forall t t' (s : lf K V), lf_inv t s -> (t <= t')%Z -> lf_inv t' s.
  Proof.
    intros t t' s (Hc & Ht & Hnd & Hlen & Hndo & Hk & Hso & Hss & Hle) L.
    repeat (split; [assumption|]).
    intros k a E. specialize (Hle k a E). lia.
  Qed.

  Lemma lf_inv_access : forall t (s : lf K V) k v now,
      lf_inv t s -> (t <= now)%Z -> In k (keys (lf_ents s)) -> lf_inv now (lf_access s k v now).
  Proof.
    intros t s k v now (Hc & Ht & Hnd & Hlen & Hndo & Hk & Hso & Hss & Hle) Hnow Hin.
    apply Forall_of_stamp in Hle; [|exact Hnd].
    assert (ND' : NoDup (keys (remk k (lf_ents s) ++ [(k, (v, now))]))).
    { rewrite keys_app. change (keys [(k, (v, now))]) with [k].
      apply NoDup_snoc; [apply NoDup_remk; auto|]. rewrite keys_remk; tauto. }
    unfold lf_inv, lf_access; simpl.
    split; [exact Hc|]. split; [exact Ht|].
    split; [exact ND'|].
    split.
    { rewrite app_length; simpl. pose proof (length_remk k (lf_ents s) Hnd Hin). lia. }
    split.
    { apply NoDup_ord_insert; [apply NoDup_rem2; auto|]. rewrite keys_rem2; tauto. }
    split.
    { intros k'. rewrite keys_app, in_app_iff, keys_remk, keys_ord_insert, keys_rem2.
      change (keys [(k, (v, now))]) with [k]. simpl.
      rewrite <- Hk. destruct (eqb_spec k' k) as [E|E]; [subst; tauto|].
      split.
      - intros [[I N]|[E'|[]]]; [right; auto|congruence].
      - intros [E'|[I N]]; [congruence|left; auto]. }
    split.
    { apply ssorted_ord_insert, ssorted_rem2; auto. }
    split.
    { rewrite map_app. apply ssorted_app.
      - apply ssorted_map_remk; auto.
      - simpl. constructor; constructor.
      - intros x y Hx Hy. simpl in Hy. destruct Hy as [Hy|[]]. subst y.
        apply in_map_iff in Hx. destruct Hx as [w [E I]]. apply In_remk in I.
        rewrite Forall_forall in Hle. specialize (Hle w (proj1 I)). unfold stampof in *. simpl. lia. }
    apply (stamp_of_Forall now (remk k (lf_ents s) ++ [(k, (v, now))])).
    { apply Forall_app; split.
      - apply Forall_remk. eapply Forall_impl; [|exact Hle]. simpl; intros; lia.
      - constructor; [|constructor]. unfold stampof; simpl; lia. }
  Qed.

  Lemma lf_inv_erase_key : forall t (s : lf K V) k, lf_inv t s -> lf_inv t (lf_erase_key s k).
  Proof.
    intros t s k (Hc & Ht & Hnd & Hlen & Hndo & Hk & Hso & Hss & Hle).
    apply Forall_of_stamp in Hle; [|exact Hnd].
    unfold lf_inv, lf_erase_key; simpl.
    split; [exact Hc|]. split; [exact Ht|].
    split; [apply NoDup_remk; auto|].
    split; [pose proof (length_remk_le k (lf_ents s)); lia|].
    split; [apply NoDup_rem2; auto|].
    split; [intros k'; rewrite keys_remk, keys_rem2, Hk; tauto|].
    split; [apply ssorted_rem2; auto|].
    split; [apply ssorted_map_remk; auto|].
    apply (stamp_of_Forall t (remk k (lf_ents s))). apply Forall_remk; auto.
  Qed.

  Definition lf_add (s : lf K V) (k : K) (v : V) (now : Z) : lf K V :=
    lf_with s (ord_insert 1 k (lf_ord s)) (lf_ents s ++ [(k, (v, now))]).

  Lemma lf_inv_add : forall t (s : lf K V) k v now,
      lf_inv t s -> (t <= now)%Z -> ~ In k (keys (lf_ents s)) -> length (lf_ents s) < lf_cap s ->
      lf_inv now (lf_add s k v now).
  Proof.
    intros t s k v now (Hc & Ht & Hnd & Hlen & Hndo & Hk & Hso & Hss & Hle) Hnow Hin Hlt.
    apply Forall_of_stamp in Hle; [|exact Hnd].
    unfold lf_inv, lf_add; simpl.
    split; [exact Hc|]. split; [exact Ht|].
    split.
    { rewrite keys_app. change (keys [(k, (v, now))]) with [k].
      apply NoDup_snoc; auto. }
    split.
    { rewrite app_length; simpl. lia. }
    split.
    { apply NoDup_ord_insert; auto. rewrite <- Hk; auto. }
    split.
    { intros k'. rewrite keys_app, in_app_iff, keys_ord_insert.
      change (keys [(k, (v, now))]) with [k]. simpl.
      rewrite <- Hk. intuition auto. }
    split.
    { apply ssorted_ord_insert; auto. }
    split.
    { rewrite map_app. apply ssorted_app; auto.
      - simpl. constructor; constructor.
      - intros x y Hx Hy. simpl in Hy. destruct Hy as [Hy|[]]. subst y.
        apply in_map_iff in Hx. destruct Hx as [w [E I]].
        rewrite Forall_forall in Hle. specialize (Hle w I). unfold stampof in *. simpl. lia. }
    apply (stamp_of_Forall now (lf_ents s ++ [(k, (v, now))])).
    { apply Forall_app; split.
      - eapply Forall_impl; [|exact Hle]. simpl; intros; lia.
      - constructor; [|constructor]. unfold stampof; simpl; lia. }
  Qed.

  (* ---------- the aging loop ---------- *)
  Definition restamp (now : Z) (x : K * (V * Z)) : K * (V * Z) := (fst x, (fst (snd x), now)).
  Definition ageP (now tick : Z) (x : K * (V * Z)) : bool := (stampof x + ms tick <? now)%Z.
  Definition age_one (rnum rk : nat) (o : list (nat * K)) (k : K) : list (nat * K) :=
    ord_insert (scale rnum rk (cnt o k)) k (rem2 k o).

  Lemma age_loop_decomp : forall now tick rnum rk ents o moved aged,
      exists pre rest,
        ents = pre ++ rest /\ Forall (fun x => ageP now tick x = true) pre /\
        match rest with [] => True | x :: _ => ageP now tick x = false end /\
        lf_age_loop now tick rnum rk ents o moved aged =
        (rest ++ rev (map (restamp now) pre) ++ moved,
         fold_left (age_one rnum rk) (keys pre) o, aged + length pre).
  Proof.
    intros now tick rnum rk ents; induction ents as [|[k [v a]] ents IH]; intros o moved aged.
    - exists [], []. simpl. rewrite Nat.add_0_r. auto.
    - simpl. destruct (a + ms tick <? now)%Z eqn:EP.
      + destruct (IH (ord_insert (scale rnum rk (cnt o k)) k (rem2 k o))
                     ((k, (v, now)) :: moved) (S aged)) as (pre & rest & E & FP & HR & EL).
        exists ((k, (v, a)) :: pre), rest. split; [simpl; congruence|].
        split; [constructor; auto|]. split; [auto|].
        unfold cnt in EL. rewrite EL. simpl. unfold restamp at 2. simpl.
        rewrite <- !app_assoc. simpl. f_equal. lia.
      + exists [], ((k, (v, a)) :: ents). simpl. rewrite Nat.add_0_r. auto.
  Qed.

  Lemma rest_not_aged : forall now tick (rest : list (K * (V * Z))),
      StronglySorted Z.le (map stampof rest) ->
      match rest with [] => True | x :: _ => ageP now tick x = false end ->
      Forall (fun x => ageP now tick x = false) rest.
  Proof.
    intros now tick rest S HR. destruct rest as [|x r]; [constructor|].
    simpl in S. inversion S as [|a b Sl Fa]; subst.
    constructor; auto. apply Forall_forall. intros y Hy.
    rewrite Forall_forall in Fa. specialize (Fa (stampof y) (in_map _ _ _ Hy)).
    unfold ageP in *. destruct (Z.ltb_spec (stampof x + ms tick) now); [discriminate|].
    destruct (Z.ltb_spec (stampof y + ms tick) now); auto. lia.
  Qed.

  Lemma age_one_keys : forall rnum rk o k k',
      In k' (map snd (age_one rnum rk o k)) <-> k' = k \/ (In k' (map snd o) /\ k' <> k).
  Proof. intros. unfold age_one. rewrite keys_ord_insert, keys_rem2. tauto. Qed.

  Lemma age_fold_keys : forall rnum rk ks o,
      Forall (fun k => In k (map snd o)) ks ->
      forall k, In k (map snd (fold_left (age_one rnum rk) ks o)) <-> In k (map snd o).
  Proof.
    intros rnum rk ks; induction ks as [|k0 ks IH]; intros o F k; simpl; [tauto|].
    inversion F as [|a b I0 F']; subst.
    assert (EQ : forall k', In k' (map snd (age_one rnum rk o k0)) <-> In k' (map snd o)).
    { intros k'. rewrite age_one_keys. destruct (eqb_spec k' k0) as [E|E]; [subst; tauto|tauto]. }
    rewrite IH; [apply EQ|].
    eapply Forall_impl; [|exact F']. simpl. intros a Ha. apply EQ; auto.
  Qed.

  Lemma age_fold_nodup : forall rnum rk ks o,
      NoDup (map snd o) -> NoDup (map snd (fold_left (age_one rnum rk) ks o)).
  Proof.
    intros rnum rk ks; induction ks as [|k0 ks IH]; intros o ND; simpl; auto.
    apply IH. unfold age_one. apply NoDup_ord_insert; [apply NoDup_rem2; auto|].
    rewrite keys_rem2; tauto.
  Qed.

  Lemma age_fold_sorted : forall rnum rk ks o,
      StronglySorted le (map fst o) ->
      StronglySorted le (map fst (fold_left (age_one rnum rk) ks o)).
  Proof.
    intros rnum rk ks; induction ks as [|k0 ks IH]; intros o S; simpl; auto.
    apply IH. unfold age_one. apply ssorted_ord_insert, ssorted_rem2; auto.
  Qed.

  Lemma age_fold_notin : forall rnum rk ks o k,
      ~ In k ks -> assoc2 k (fold_left (age_one rnum rk) ks o) = assoc2 k o.
  Proof.
    intros rnum rk ks; induction ks as [|k0 ks IH]; intros o k N; simpl; auto.
    rewrite IH; [|simpl in N; tauto].
    assert (k <> k0) by (intros E; apply N; simpl; auto).
    unfold age_one. rewrite assoc2_ord_insert_other, assoc2_rem2_other; auto.
  Qed.

  Lemma age_fold_in : forall rnum rk ks o k,
      NoDup ks -> In k ks ->
      assoc2 k (fold_left (age_one rnum rk) ks o) = Some (scale rnum rk (cnt o k)).
  Proof.
    intros rnum rk ks; induction ks as [|k0 ks IH]; intros o k ND I; simpl; [destruct I|].
    inversion ND as [|a b Nin ND']; subst.
    destruct (eqb_spec k k0) as [E|E].
    - subst. rewrite age_fold_notin; auto. unfold age_one.
      apply assoc2_ord_insert_same. rewrite keys_rem2; tauto.
    - destruct I as [I|I]; [congruence|]. rewrite IH; auto.
      f_equal. f_equal. unfold cnt, age_one.
      rewrite assoc2_ord_insert_other, assoc2_rem2_other; auto.
  Qed.

  Lemma keys_restamp : forall now (l : list (K * (V * Z))), keys (map (restamp now) l) = keys l.
  Proof.
    intros now l; unfold keys. rewrite map_map. apply map_ext. intros [k [v a]]; reflexivity.
  Qed.

  Lemma aged_keys_in : forall now (pre rest : list (K * (V * Z))) k,
      In k (keys (rest ++ rev (map (restamp now) pre))) <-> In k (keys (pre ++ rest)).
  Proof.
    intros now pre rest k. rewrite !keys_app, !in_app_iff.
    unfold keys at 2. rewrite map_rev, <- in_rev. fold (keys (map (restamp now) pre)).
    rewrite keys_restamp. tauto.
  Qed.

  Lemma aged_keys_nodup : forall now (pre rest : list (K * (V * Z))),
      NoDup (keys (pre ++ rest)) -> NoDup (keys (rest ++ rev (map (restamp now) pre))).
  Proof.
    intros now pre rest. rewrite !keys_app.
    unfold keys at 4. rewrite map_rev. fold (keys (map (restamp now) pre)).
    rewrite keys_restamp. rewrite !NoDup_app_iff.
    intros (N1 & N2 & D). split; auto. split.
    - apply NoDup_rev; auto.
    - intros x I1 I2. apply in_rev in I2. apply (D x); auto.
  Qed.

  Lemma aged_assoc : forall now (pre rest : list (K * (V * Z))) k,
      NoDup (keys (pre ++ rest)) ->
      assoc k (rest ++ rev (map (restamp now) pre)) =
      match assoc k pre with Some (v, _) => Some (v, now) | None => assoc k rest end.
  Proof.
    intros now pre rest k ND.
    pose proof (aged_keys_nodup now pre rest ND) as ND'.
    destruct (assoc k pre) as [[v a]|] eqn:EP.
    - apply In_assoc; auto. apply in_or_app; right. apply -> in_rev.
      apply assoc_In in EP. apply in_map_iff. exists (k, (v, a)); auto.
    - rewrite assoc_app. destruct (assoc k rest) as [x|] eqn:ER; auto.
      apply assoc_None_iff. unfold keys. rewrite map_rev, <- in_rev.
      fold (keys (map (restamp now) pre)). rewrite keys_restamp.
      apply assoc_None_iff; auto.
  Qed.

  (* ---------------- C14: dynamic aging (lfuda_cache) ---------------- *)
  Definition ageable (s : lf K V) (now : Z) (k : K) : Prop :=
    exists a, lf_stamp s k = Some a /\ (a + ms (lf_tick s) < now)%Z.

  (* an aging point at [now] ages exactly the entries idle for strictly longer than the
     tick: count := floor(count * ratio), idle timer := now; all others untouched; the
     return value is the number of entries aged *)
  Theorem lfuda_dyn_age_exact : forall t (s : lf K V) now s' n,
      lf_inv t s -> (t <= now)%Z -> lf_dyn_age s now = (s', n) ->
      lf_inv now s' /\
      (forall k, lf_get s' k = lf_get s k) /\
      (forall k, ageable s now k ->
                 lf_stamp s' k = Some now /\ lf_count s' k = scale (lf_rnum s) (lf_rk s) (lf_count s k)) /\
      (forall k, lf_get s k <> None -> ~ ageable s now k ->
                 lf_stamp s' k = lf_stamp s k /\ lf_count s' k = lf_count s k) /\
      n = length (filter (fun x => (snd (snd x) + ms (lf_tick s) <? now)%Z) (lf_ents s)).
  Proof.
    intros t s now s' n (Hc & Ht & Hnd & Hlen & Hndo & Hk & Hso & Hss & Hle) Hnow HD.
    apply Forall_of_stamp in Hle; [|exact Hnd].
    change (StronglySorted Z.le (map stampof (lf_ents s))) in Hss.
    unfold lf_dyn_age in HD.
    destruct (age_loop_decomp now (lf_tick s) (lf_rnum s) (lf_rk s) (lf_ents s) (lf_ord s) [] 0)
      as (pre & rest & E & FP & HR & EL).
    rewrite EL in HD. rewrite app_nil_r in HD. simpl in HD.
    inversion HD; subst s' n; clear HD EL.
    rewrite E in Hnd, Hss, Hle, Hlen, Hk.
    assert (FR : Forall (fun x => ageP now (lf_tick s) x = false) rest).
    { apply rest_not_aged; auto. rewrite map_app in Hss. eapply ssorted_app_r; eauto. }
    assert (NDpre : NoDup (keys pre)).
    { rewrite keys_app in Hnd. apply NoDup_app_iff in Hnd. tauto. }
    assert (Fpre : Forall (fun k => In k (map snd (lf_ord s))) (keys pre)).
    { apply Forall_forall. intros k I. apply Hk. rewrite keys_app. apply in_or_app; auto. }
    assert (INpre : forall k v a, In (k, (v, a)) (pre ++ rest) -> (a + ms (lf_tick s) < now)%Z ->
                                  In (k, (v, a)) pre).
    { intros k v a I L. apply in_app_or in I. destruct I as [I|I]; auto.
      rewrite Forall_forall in FR. specialize (FR _ I). unfold ageP, stampof in FR. simpl in FR.
      destruct (Z.ltb_spec (a + ms (lf_tick s)) now); [discriminate|lia]. }
    assert (INpre' : forall k v a, In (k, (v, a)) pre -> (a + ms (lf_tick s) < now)%Z).
    { intros k v a I.
      rewrite Forall_forall in FP. specialize (FP _ I). unfold ageP, stampof in FP. simpl in FP.
      destruct (Z.ltb_spec (a + ms (lf_tick s)) now); [lia|discriminate]. }
    split.
    { unfold lf_inv; simpl.
      split; [exact Hc|]. split; [exact Ht|].
      split; [apply aged_keys_nodup; auto|].
      split.
      { rewrite app_length, rev_length, map_length. rewrite app_length in Hlen. lia. }
      split; [apply age_fold_nodup; auto|].
      split.
      { intros k. rewrite aged_keys_in, age_fold_keys; auto. }
      split; [apply age_fold_sorted; auto|].
      split.
      { change (StronglySorted Z.le (map stampof (rest ++ rev (map (restamp now) pre)))).
        rewrite map_app. rewrite map_app in Hss. apply ssorted_app.
        - eapply ssorted_app_r; eauto.
        - apply (ssorted_const now). apply Forall_forall. intros x Hx.
          apply in_map_iff in Hx. destruct Hx as [w [Ew Iw]]. apply in_rev in Iw.
          apply in_map_iff in Iw. destruct Iw as [u [Eu Iu]]. subst. reflexivity.
        - intros x y Hx Hy.
          apply in_map_iff in Hy. destruct Hy as [w [Ew Iw]]. apply in_rev in Iw.
          apply in_map_iff in Iw. destruct Iw as [u [Eu Iu]]. subst. unfold stampof at 1, restamp; simpl.
          apply in_map_iff in Hx. destruct Hx as [w [Ew Iw]]. subst.
          rewrite Forall_forall in Hle. specialize (Hle w). rewrite in_app_iff in Hle.
          specialize (Hle (or_intror Iw)). lia. }
      apply (stamp_of_Forall now (rest ++ rev (map (restamp now) pre))).
      { apply Forall_app in Hle. destruct Hle as [Hl1 Hl2]. apply Forall_app; split.
        - eapply Forall_impl; [|exact Hl2]. simpl; intros; lia.
        - apply Forall_forall. intros x Hx. apply in_rev in Hx.
          apply in_map_iff in Hx. destruct Hx as [u [Eu Iu]]. subst. unfold stampof, restamp; simpl. lia. } }
    split.
    { intros k. unfold lf_get; simpl. rewrite aged_assoc; auto. rewrite E, assoc_app.
      destruct (assoc k pre) as [[v a]|]; auto. }
    split.
    { intros k (a & HS & L). unfold lf_stamp in *; simpl. rewrite lf_count_cnt; simpl.
      rewrite aged_assoc; auto. rewrite E in HS.
      destruct (assoc k (pre ++ rest)) as [[v a']|] eqn:EA; [|discriminate].
      inversion HS; subst a'. apply assoc_In in EA. apply INpre in EA; auto.
      rewrite (In_assoc _ _ _ NDpre EA). split; auto.
      unfold cnt at 1. rewrite age_fold_in; auto.
      apply in_map_iff. exists (k, (v, a)); auto. }
    split.
    { intros k HG NA. unfold lf_stamp; simpl. rewrite lf_count_cnt; simpl.
      rewrite aged_assoc; auto. rewrite E, assoc_app.
      destruct (assoc k pre) as [[v a]|] eqn:EP.
      - exfalso. apply NA. exists a. apply assoc_In in EP. split; [|eapply INpre'; eauto].
        unfold lf_stamp. rewrite E, assoc_app.
        rewrite (In_assoc _ _ _ NDpre EP). auto.
      - split; auto. unfold cnt at 1. rewrite age_fold_notin; auto.
        apply assoc_None_iff; auto. }
    { rewrite E, filter_app.
      change (fun x : K * (V * Z) => (snd (snd x) + ms (lf_tick s) <? now)%Z) with (ageP now (lf_tick s)).
      rewrite (filter_all _ _ FP), (filter_none _ _ FR), app_nil_r. reflexivity. }
  Qed.

  Lemma lf_inv_dyn_age : forall t (s : lf K V) now,
      lf_inv t s -> (t <= now)%Z -> lf_inv now (fst (lf_dyn_age s now)).
  Proof.
    intros t s now I L. destruct (lf_dyn_age s now) as [s' n] eqn:E.
    apply (lfuda_dyn_age_exact t s now s' n I L E).
  Qed.

  (* ---------- effects of the primitives on entries and counts ---------- *)
  Lemma ents_access_same : forall (s : lf K V) k v now,
      assoc k (lf_ents (lf_access s k v now)) = Some (v, now).
  Proof.
    intros; unfold lf_access; simpl. rewrite assoc_app, assoc_remk_same. simpl.
    rewrite eqb_rfl; auto.
  Qed.
  Lemma ents_access_other : forall (s : lf K V) k v now k', k' <> k ->
      assoc k' (lf_ents (lf_access s k v now)) = assoc k' (lf_ents s).
  Proof.
    intros s k v now k' N; unfold lf_access; simpl. rewrite assoc_app, assoc_remk_other; auto.
    destruct (assoc k' (lf_ents s)); auto. simpl. rewrite eqb_neq; auto.
  Qed.
  Lemma cnt_access_same : forall (s : lf K V) k v now,
      lf_count (lf_access s k v now) k = S (lf_count s k).
  Proof.
    intros; unfold lf_count at 1, lf_access; simpl.
    rewrite assoc2_ord_insert_same; auto. rewrite keys_rem2; tauto.
  Qed.
  Lemma cnt_access_other : forall (s : lf K V) k v now k', k' <> k ->
      lf_count (lf_access s k v now) k' = lf_count s k'.
  Proof.
    intros s k v now k' N; unfold lf_count, lf_access; simpl.
    rewrite assoc2_ord_insert_other, assoc2_rem2_other; auto.
  Qed.

  Lemma ents_add_same : forall (s : lf K V) k v now, assoc k (lf_ents s) = None ->
      assoc k (lf_ents (lf_add s k v now)) = Some (v, now).
  Proof.
    intros s k v now E; unfold lf_add; simpl. rewrite assoc_app, E. simpl.
    rewrite eqb_rfl; auto.
  Qed.
  Lemma ents_add_other : forall (s : lf K V) k v now k', k' <> k ->
      assoc k' (lf_ents (lf_add s k v now)) = assoc k' (lf_ents s).
  Proof.
    intros s k v now k' N; unfold lf_add; simpl. rewrite assoc_app.
    destruct (assoc k' (lf_ents s)); auto. simpl. rewrite eqb_neq; auto.
  Qed.
  Lemma cnt_add_same : forall (s : lf K V) k v now, ~ In k (map snd (lf_ord s)) ->
      lf_count (lf_add s k v now) k = 1.
  Proof.
    intros s k v now N; unfold lf_count, lf_add; simpl.
    rewrite assoc2_ord_insert_same; auto.
  Qed.
  Lemma cnt_add_other : forall (s : lf K V) k v now k', k' <> k ->
      lf_count (lf_add s k v now) k' = lf_count s k'.
  Proof.
    intros s k v now k' N; unfold lf_count, lf_add; simpl.
    rewrite assoc2_ord_insert_other; auto.
  Qed.

  Lemma ents_erase_same : forall (s : lf K V) k, assoc k (lf_ents (lf_erase_key s k)) = None.
  Proof. intros; unfold lf_erase_key; simpl. apply assoc_remk_same. Qed.
  Lemma ents_erase_other : forall (s : lf K V) k k', k' <> k ->
      assoc k' (lf_ents (lf_erase_key s k)) = assoc k' (lf_ents s).
  Proof. intros; unfold lf_erase_key; simpl. apply assoc_remk_other; auto. Qed.
  Lemma cnt_erase_other : forall (s : lf K V) k k', k' <> k ->
      lf_count (lf_erase_key s k) k' = lf_count s k'.
  Proof. intros; unfold lf_count, lf_erase_key; simpl. rewrite assoc2_rem2_other; auto. Qed.

  (* ---------- dynamic aging: small facts ---------- *)
  Lemma dyn_age_params : forall (s : lf K V) now,
      let s1 := fst (lf_dyn_age s now) in
      lf_cap s1 = lf_cap s /\ lf_tick s1 = lf_tick s /\ lf_rnum s1 = lf_rnum s /\ lf_rk s1 = lf_rk s.
  Proof.
    intros s now. unfold lf_dyn_age.
    destruct (lf_age_loop now (lf_tick s) (lf_rnum s) (lf_rk s) (lf_ents s) (lf_ord s) [] 0) as [[e o] n].
    simpl. auto.
  Qed.

  Lemma dyn_age_length : forall (s : lf K V) now,
      length (lf_ents (fst (lf_dyn_age s now))) = length (lf_ents s).
  Proof.
    intros s now. unfold lf_dyn_age.
    destruct (age_loop_decomp now (lf_tick s) (lf_rnum s) (lf_rk s) (lf_ents s) (lf_ord s) [] 0)
      as (pre & rest & E & FP & HR & EL).
    rewrite EL. simpl. rewrite E, !app_length, rev_length, map_length. simpl. lia.
  Qed.

  Lemma dyn_age_Forall : forall (P : K * (V * Z) -> Prop) (s : lf K V) now,
      (forall x, P (restamp now x)) -> Forall P (lf_ents s) ->
      Forall P (lf_ents (fst (lf_dyn_age s now))).
  Proof.
    intros P s now HP F. unfold lf_dyn_age.
    destruct (age_loop_decomp now (lf_tick s) (lf_rnum s) (lf_rk s) (lf_ents s) (lf_ord s) [] 0)
      as (pre & rest & E & FP & HR & EL).
    rewrite EL. simpl. rewrite E in F. apply Forall_app in F. destruct F as [F1 F2].
    apply Forall_app; split; auto. rewrite app_nil_r.
    apply Forall_forall. intros x Hx. apply in_rev in Hx.
    apply in_map_iff in Hx. destruct Hx as [u [Eu Iu]]. subst. auto.
  Qed.

  Lemma dyn_age_id : forall (s : lf K V) now,
      Forall (fun x => (now <= stampof x + ms (lf_tick s))%Z) (lf_ents s) ->
      lf_dyn_age s now = (s, 0).
  Proof.
    intros s now F. unfold lf_dyn_age. destruct (lf_ents s) as [|[k [v a]] ents] eqn:E; simpl.
    - rewrite <- E. rewrite lf_with_id. auto.
    - inversion F as [|x l Hx F']; subst. unfold stampof in Hx; simpl in Hx.
      destruct (Z.ltb_spec (a + ms (lf_tick s)) now); [lia|].
      rewrite app_nil_r, <- E, lf_with_id. auto.
  Qed.

  Lemma dyn_age_get : forall t (s : lf K V) now, lf_inv t s -> (t <= now)%Z ->
      forall k, lf_get (fst (lf_dyn_age s now)) k = lf_get s k.
  Proof.
    intros t s now I L. destruct (lf_dyn_age s now) as [s' n] eqn:E.
    apply (lfuda_dyn_age_exact t s now s' n I L E).
  Qed.

  (* ---------- the eviction ---------- *)
  Lemma lf_inv_keys_ord : forall t (s : lf K V) k, lf_inv t s ->
      (In k (keys (lf_ents s)) <-> In k (map snd (lf_ord s))).
  Proof. intros t s k (Hc & Ht & Hnd & Hlen & Hndo & Hk & Hso & Hss & Hle). apply Hk. Qed.

  Lemma lf_head_min : forall t (s : lf K V) c kv rest, lf_inv t s -> lf_ord s = (c, kv) :: rest ->
      lf_count s kv = c /\ forall k, lf_get s k <> None -> c <= lf_count s k.
  Proof.
    intros t s c kv rest (Hc & Ht & Hnd & Hlen & Hndo & Hk & Hso & Hss & Hle) E.
    unfold lf_count. rewrite E in *. simpl. rewrite eqb_rfl. split; auto.
    intros k G. apply lf_get_keys in G. apply Hk in G. simpl in G.
    destruct (eqb_spec k kv) as [Ek|Ek]; auto.
    destruct G as [G|G]; [congruence|].
    simpl in Hso. inversion Hso as [|a b Sl Fa]; subst.
    destruct (assoc2 k rest) as [c'|] eqn:EA.
    - apply assoc2_In in EA. rewrite Forall_forall in Fa. apply Fa.
      apply in_map_iff. exists (c', k); auto.
    - apply assoc2_None_iff in EA. tauto.
  Qed.

  Lemma lf_evict_facts : forall t (s : lf K V) k now c kv rest,
      lf_inv t s -> (t <= now)%Z -> lf_size s = lf_cap s -> lf_get s k = None ->
      lf_ord (fst (lf_dyn_age s now)) = (c, kv) :: rest ->
      let s1 := fst (lf_dyn_age s now) in
      let s2 := lf_erase_key s1 kv in
      lf_inv now s1 /\ (forall k', lf_get s1 k' = lf_get s k') /\
      lf_inv now s2 /\ ~ In k (keys (lf_ents s2)) /\ S (length (lf_ents s2)) = lf_cap s /\
      lf_cap s2 = lf_cap s /\ lf_get s kv <> None /\ kv <> k /\
      lf_count s1 kv = c /\ (forall k', lf_get s k' <> None -> c <= lf_count s1 k').
  Proof.
    intros t s k now c kv rest I L Hsz HG HO s1 s2.
    assert (I1 : lf_inv now s1) by (apply (lf_inv_dyn_age t); auto).
    assert (G1 : forall k', lf_get s1 k' = lf_get s k') by (apply (dyn_age_get t); auto).
    assert (Hkv : In kv (keys (lf_ents s1))).
    { apply (lf_inv_keys_ord now); auto. fold s1 in HO. rewrite HO. simpl; auto. }
    assert (Hkv' : lf_get s kv <> None) by (rewrite <- G1; apply lf_get_keys; auto).
    split; auto. split; auto.
    split; [apply lf_inv_erase_key; auto|].
    split.
    { unfold s2, lf_erase_key; simpl. rewrite keys_remk. intros [Hin _].
      apply lf_get_keys in Hin. rewrite G1 in Hin. auto. }
    split.
    { unfold s2, lf_erase_key; simpl. rewrite length_remk; auto.
      - unfold s1. rewrite dyn_age_length. exact Hsz.
      - destruct I1 as (_ & _ & ND & _). exact ND. }
    split.
    { unfold s2, lf_erase_key; simpl. apply (dyn_age_params s now). }
    split; auto.
    split; [intros Ek; subst; auto|].
    destruct (lf_head_min now s1 c kv rest I1 HO) as [Hc Hmin].
    split; auto. intros k' Hk'. apply Hmin. rewrite G1; auto.
  Qed.

  Lemma lf_ins_cases : forall t (s : lf K V) k v a now s' b,
      lf_inv t s -> (t <= now)%Z -> lf_ins s k v a now = (s', b) ->
      (lf_get s k <> None /\ a_upd a = true /\ b = true /\ s' = lf_access s k v now) \/
      (b = false /\ s' = s /\
       ((lf_get s k <> None /\ a_upd a = false) \/ (lf_get s k = None /\ a_ins a = false))) \/
      (lf_get s k = None /\ a_ins a = true /\ b = true /\ lf_size s < lf_cap s /\
       s' = lf_add s k v now) \/
      (lf_get s k = None /\ a_ins a = true /\ b = true /\ lf_size s = lf_cap s /\
       exists c kv rest, lf_ord (fst (lf_dyn_age s now)) = (c, kv) :: rest /\
                         s' = lf_add (lf_erase_key (fst (lf_dyn_age s now)) kv) k v now).
  Proof.
    intros t s k v a now s' b I L E.
    unfold lf_ins in E. unfold lf_get.
    destruct (assoc k (lf_ents s)) as [[v0 a0]|] eqn:EA.
    - destruct (a_upd a) eqn:EU; inversion E; subst.
      + left. repeat split; auto. discriminate.
      + right; left. repeat split; auto. left; split; auto. discriminate.
    - destruct (a_ins a) eqn:EI; [|inversion E; subst; right; left; auto].
      destruct (Nat.leb_spec (lf_cap s) (length (lf_ents s))) as [LE|LT].
      + right; right; right.
        assert (Hsz : lf_size s = lf_cap s).
        { unfold lf_size. destruct I as (_ & _ & _ & Hlen & _). lia. }
        assert (HG : lf_get s k = None) by (apply lf_get_None; auto).
        split; auto. split; auto.
        inversion E; subst. split; auto. split; auto.
        unfold lf_prune.
        destruct (lf_ents s) as [|x ents] eqn:EE.
        { exfalso. destruct I as (Hc & _). try rewrite EE in LE. simpl in LE. lia. }
        destruct (lf_ord (fst (lf_dyn_age s now))) as [|[c kv] rest] eqn:EO.
        { exfalso.
          assert (I1 : lf_inv now (fst (lf_dyn_age s now))) by (apply (lf_inv_dyn_age t); auto).
          pose proof (dyn_age_length s now) as HL. try rewrite EE in HL. simpl in HL.
          destruct (lf_ents (fst (lf_dyn_age s now))) as [|[k1 y] e1] eqn:E1; [simpl in HL; lia|].
          assert (In k1 (keys (lf_ents (fst (lf_dyn_age s now))))) as Hin by (rewrite E1; simpl; auto).
          apply (lf_inv_keys_ord now) in Hin; auto. rewrite EO in Hin. destruct Hin. }
        exists c, kv, rest. split; auto.
      + right; right; left. inversion E; subst.
        split; [reflexivity|]. repeat split; auto.
  Qed.

  (* ---------- lookups ---------- *)
  Lemma lf_find_use_cases : forall (s : lf K V) k pk now s' r,
      lf_find_use s k pk now = (s', r) ->
      (assoc k (lf_ents s) = None /\ s' = s /\ r = None) \/
      (exists v a, assoc k (lf_ents s) = Some (v, a) /\ pk = true /\ s' = s /\
                   r = Some (v, lf_count s k)) \/
      (exists v a, assoc k (lf_ents s) = Some (v, a) /\ pk = false /\ s' = lf_access s k v now /\
                   r = Some (v, S (lf_count s k))).
  Proof.
    intros s k pk now s' r E. unfold lf_find_use in E.
    destruct (assoc k (lf_ents s)) as [[v a]|] eqn:EA.
    - destruct pk; inversion E; subst.
      + right; left. exists v, a; auto.
      + right; right. exists v, a. rewrite cnt_access_same. auto.
    - inversion E; subst. left; auto.
  Qed.

  Lemma lf_get_access_all : forall (s : lf K V) k v a now,
      assoc k (lf_ents s) = Some (v, a) -> forall k', lf_get (lf_access s k v now) k' = lf_get s k'.
  Proof.
    intros s k v a now E k'. unfold lf_get. destruct (eqb_spec k' k) as [Ek|Ek].
    - subst. rewrite ents_access_same, E. auto.
    - rewrite ents_access_other; auto.
  Qed.

  Lemma lf_find_use_get : forall (s : lf K V) k pk now s' r,
      lf_find_use s k pk now = (s', r) -> forall k', lf_get s' k' = lf_get s k'.
  Proof.
    intros s k pk now s' r E k'.
    destruct (lf_find_use_cases _ _ _ _ _ _ E)
      as [(EA & ES & ER)|[(v & a & EA & EP & ES & ER)|(v & a & EA & EP & ES & ER)]]; subst; auto.
    eapply lf_get_access_all; eauto.
  Qed.

  Lemma lf_find_find_use : forall (s : lf K V) k pk now s' r,
      lf_find s k pk now = (s', r) ->
      exists r', lf_find_use s k pk now = (s', r') /\
                 r = match r' with Some (v, _) => Some v | None => None end.
  Proof.
    intros s k pk now s' r E. unfold lf_find in E.
    destruct (lf_find_use s k pk now) as [s1 r1]. inversion E; subst. eauto.
  Qed.

  Lemma no_deadk : forall (s : lf K V) now k, ~ deadk (lf_get s) now k.
  Proof.
    intros s now k (v & d & E & _). unfold lf_get in E.
    destruct (assoc k (lf_ents s)) as [[v' a']|]; discriminate.
  Qed.

  Lemma livek_get : forall (s : lf K V) now k, livek (lf_get s) now k <-> lf_get s k <> None.
  Proof.
    intros s now k. split.
    - intros (v & d & E & _). congruence.
    - intros N. unfold livek. unfold lf_get in *.
      destruct (assoc k (lf_ents s)) as [[v' a']|]; [|congruence].
      exists v', None. auto.
  Qed.

  (* ---------- what one call does to the content ---------- *)
  Lemma lf_get_step : forall t (s : lf K V) o now rnd s' r,
      lf_inv t s -> (t <= now)%Z -> single o = true -> lf_step s o now rnd = (s', r) ->
      (forall k', touches o k' = false -> lf_get s' k' = lf_get s k') \/
      (exists ttl k v a kv, o = Insert ttl k v a /\ r = RB true /\ lf_get s k = None /\
          lf_size s = lf_cap s /\ lf_size s' = lf_cap s /\ lf_get s' kv = None /\ kv <> k /\
          lf_get s kv <> None /\
          forall k', k' <> k -> k' <> kv -> lf_get s' k' = lf_get s k').
  Proof.
    intros t s o now rnd s' r I L Hs Hstep.
    destruct o; simpl in Hs; try discriminate; simpl in Hstep;
      try (inversion Hstep; subst; left; intros; reflexivity).
    - (* Insert *)
      destruct (lf_ins s k v a now) as [s1 b] eqn:EI. inversion Hstep; subst s1 r; clear Hstep.
      destruct (lf_ins_cases t s k v a now s' b I L EI)
        as [(HG & HU & HB & ES)|[(HB & ES & _)|[(HG & HI & HB & HSz & ES)|(HG & HI & HB & HSz & c & kv & rest & HO & ES)]]].
      + left. intros k' T. simpl in T. destruct (eqb_spec k k') as [Ek|Ek]; [discriminate|].
        subst s'. unfold lf_get. rewrite ents_access_other; auto.
      + left. subst; auto.
      + left. intros k' T. simpl in T. destruct (eqb_spec k k') as [Ek|Ek]; [discriminate|].
        subst s'. unfold lf_get. rewrite ents_add_other; auto.
      + right. exists ttl, k, v, a, kv.
        destruct (lf_evict_facts t s k now c kv rest I L HSz HG HO)
          as (I1 & G1 & I2 & Nk & Hlen & Hcap & Hkv & Hne & _).
        split; auto. split; [subst b; auto|]. split; auto. split; auto.
        split.
        { subst s'. unfold lf_size, lf_add. simpl. rewrite app_length. simpl.
          unfold lf_erase_key in Hlen. simpl in Hlen. lia. }
        split.
        { subst s'. unfold lf_get. rewrite ents_add_other; auto. rewrite ents_erase_same. auto. }
        split; auto. split; auto.
        intros k' N1 N2. subst s'. rewrite <- G1. unfold lf_get.
        rewrite ents_add_other, ents_erase_other; auto.
    - (* Erase *)
      left. unfold lf_erase in Hstep. intros k' T. simpl in T.
      destruct (eqb_spec k k') as [Ek|Ek]; [discriminate|].
      destruct (assoc k (lf_ents s)); inversion Hstep; subst; auto.
      unfold lf_get. rewrite ents_erase_other; auto.
    - (* Find *)
      left. intros k' _. destruct (lf_find s k peek now) as [s1 r1] eqn:EF.
      inversion Hstep; subst. apply lf_find_find_use in EF. destruct EF as (r' & EF & _).
      eapply lf_find_use_get; eauto.
    - (* FindUse *)
      left. intros k' _. destruct (lf_find_use s k peek now) as [s1 r1] eqn:EF.
      inversion Hstep; subst. eapply lf_find_use_get; eauto.
    - (* DynAge *)
      left. intros k' _. destruct (lf_dyn_age s now) as [s1 n] eqn:ED.
      inversion Hstep; subst. replace s' with (fst (lf_dyn_age s now)) by (rewrite ED; auto).
      eapply dyn_age_get; eauto.
  Qed.

  (* ---------- invariant preservation by one call ---------- *)
  Lemma lf_inv_step : forall t (s : lf K V) o now rnd s' r,
      lf_inv t s -> (t <= now)%Z -> single o = true -> lf_step s o now rnd = (s', r) ->
      lf_inv now s' /\ lf_cap s' = lf_cap s.
  Proof.
    intros t s o now rnd s' r I L Hs Hstep.
    pose proof (lf_inv_mono t now s I L) as I'.
    destruct o; simpl in Hs; try discriminate; simpl in Hstep;
      try (inversion Hstep; subst; split; auto; fail).
    - destruct (lf_ins s k v a now) as [s1 b] eqn:EI. inversion Hstep; subst s1 r; clear Hstep.
      destruct (lf_ins_cases t s k v a now s' b I L EI)
        as [(HG & HU & HB & ES)|[(HB & ES & _)|[(HG & HI & HB & HSz & ES)|(HG & HI & HB & HSz & c & kv & rest & HO & ES)]]].
      + subst s'. split; [|reflexivity]. apply (lf_inv_access t); auto. apply lf_get_keys; auto.
      + subst; auto.
      + subst s'. split; [|reflexivity]. apply (lf_inv_add t); auto.
        intros Hin. apply lf_get_keys in Hin. auto.
      + destruct (lf_evict_facts t s k now c kv rest I L HSz HG HO)
          as (I1 & G1 & I2 & Nk & Hlen & Hcap & Hkv & Hne & _).
        subst s'. split; [|exact Hcap]. apply (lf_inv_add now); auto; lia.
    - unfold lf_erase in Hstep.
      destruct (assoc k (lf_ents s)); inversion Hstep; subst; auto.
      split; [|reflexivity]. apply lf_inv_erase_key; auto.
    - destruct (lf_find s k peek now) as [s1 r1] eqn:EF.
      inversion Hstep; subst. apply lf_find_find_use in EF. destruct EF as (r' & EF & _).
      destruct (lf_find_use_cases _ _ _ _ _ _ EF)
        as [(EA & ES & ER)|[(v & a & EA & EP & ES & ER)|(v & a & EA & EP & ES & ER)]]; subst; auto.
      split; [|reflexivity]. apply (lf_inv_access t); auto.
      apply assoc_Some_keys. congruence.
    - destruct (lf_find_use s k peek now) as [s1 r1] eqn:EF.
      inversion Hstep; subst.
      destruct (lf_find_use_cases _ _ _ _ _ _ EF)
        as [(EA & ES & ER)|[(v & a & EA & EP & ES & ER)|(v & a & EA & EP & ES & ER)]]; subst; auto.
      split; [|reflexivity]. apply (lf_inv_access t); auto.
      apply assoc_Some_keys. congruence.
    - destruct (lf_dyn_age s now) as [s1 n] eqn:ED.
      inversion Hstep; subst. replace s' with (fst (lf_dyn_age s now)) by (rewrite ED; auto).
      split; [apply (lf_inv_dyn_age t); auto|apply (dyn_age_params s now)].
  Qed.

  Lemma lf_step_Forall : forall (P : K * (V * Z) -> Prop) t (s : lf K V) o now rnd s' r,
      (forall k v, P (k, (v, now))) ->
      lf_inv t s -> (t <= now)%Z -> single o = true -> lf_step s o now rnd = (s', r) ->
      Forall P (lf_ents s) -> Forall P (lf_ents s').
  Proof.
    intros P t s o now rnd s' r HP I L Hs Hstep F.
    assert (FA : forall k v, Forall P (lf_ents (lf_access s k v now))).
    { intros k v. unfold lf_access; simpl. apply Forall_app; split; [apply Forall_remk; auto|].
      constructor; auto. }
    destruct o; simpl in Hs; try discriminate; simpl in Hstep;
      try (inversion Hstep; subst; auto; fail).
    - destruct (lf_ins s k v a now) as [s1 b] eqn:EI. inversion Hstep; subst s1 r; clear Hstep.
      destruct (lf_ins_cases t s k v a now s' b I L EI)
        as [(HG & HU & HB & ES)|[(HB & ES & _)|[(HG & HI & HB & HSz & ES)|(HG & HI & HB & HSz & c & kv & rest & HO & ES)]]];
        subst s'; auto.
      + unfold lf_add; simpl. apply Forall_app; split; auto.
      + unfold lf_add, lf_erase_key; simpl. apply Forall_app; split; auto.
        apply Forall_remk. apply dyn_age_Forall; auto. intros x. apply HP.
    - unfold lf_erase in Hstep.
      destruct (assoc k (lf_ents s)); inversion Hstep; subst; auto.
      unfold lf_erase_key; simpl. apply Forall_remk; auto.
    - destruct (lf_find s k peek now) as [s1 r1] eqn:EF.
      inversion Hstep; subst. apply lf_find_find_use in EF. destruct EF as (r' & EF & _).
      destruct (lf_find_use_cases _ _ _ _ _ _ EF)
        as [(EA & ES & ER)|[(v & a & EA & EP & ES & ER)|(v & a & EA & EP & ES & ER)]]; subst; auto.
    - destruct (lf_find_use s k peek now) as [s1 r1] eqn:EF.
      inversion Hstep; subst.
      destruct (lf_find_use_cases _ _ _ _ _ _ EF)
        as [(EA & ES & ER)|[(v & a & EA & EP & ES & ER)|(v & a & EA & EP & ES & ER)]]; subst; auto.
    - destruct (lf_dyn_age s now) as [s1 n] eqn:ED.
      inversion Hstep; subst. replace s' with (fst (lf_dyn_age s now)) by (rewrite ED; auto).
      apply dyn_age_Forall; auto. intros x. apply HP.
  Qed.

  (* ---------- the models ---------- *)
  Definition lf_model : model K V := {|
    St := lf K V;
    m_step := lf_step;
    m_get := lf_get;
    m_view := lf_view;
    m_keys := fun s => keys (lf_ents s);
    m_size := lf_size;
    m_cap := @lf_cap K V;
    m_bounded := true;
    m_dl := fun _ _ _ => None;
    m_inv := lf_inv;
    m_rnd_ok := fun _ _ => True;
    m_has_find_use := true;
    m_has_clean := false;
    m_has_clear := false
  |}.

  Definition lfu_model : model K V := {|
    St := lf K V;
    m_step := lfu_step;
    m_get := lf_get;
    m_view := lf_view;
    m_keys := fun s => keys (lf_ents s);
    m_size := lf_size;
    m_cap := @lf_cap K V;
    m_bounded := true;
    m_dl := fun _ _ _ => None;
    m_inv := lfu_inv;
    m_rnd_ok := fun _ _ => True;
    m_has_find_use := true;
    m_has_clean := false;
    m_has_clear := false
  |}.

  Lemma lf_inv_init : forall cap tick rnum rk t,
      1 <= cap -> (0 <= tick)%Z -> lf_inv t (lf_init cap tick rnum rk).
  Proof.
    intros cap tick rnum rk t Hc Ht. unfold lf_inv, lf_init; simpl.
    split; auto. split; auto. split; [constructor|]. split; [lia|]. split; [constructor|].
    split; [tauto|]. split; [constructor|]. split; [constructor|].
    intros k a E. discriminate.
  Qed.
  Lemma lfu_inv_init : forall cap t, 1 <= cap -> (0 <= t)%Z -> lfu_inv t (lfu_init cap).
  Proof.
    intros cap t Hc Ht. split; [apply lf_inv_init; auto; lia|]. split; auto. constructor.
  Qed.

  (* ---------- the ModelOK fields, with the clock reading of the content predicates
     ([now']) independent of the one the step samples ---------- *)
  Lemma lf_f_view : forall (s : lf K V) now now' k, lf_view s now k = view_of (lf_get s) now' k.
  Proof.
    intros. unfold lf_view, view_of, lf_get.
    destruct (assoc k (lf_ents s)) as [[v a]|]; reflexivity.
  Qed.

  Lemma lf_f_no_appear : forall t (s : lf K V) o now rnd s' r k',
      lf_inv t s -> (t <= now)%Z -> single o = true -> lf_step s o now rnd = (s', r) ->
      touches o k' = false -> lf_get s' k' <> None -> lf_get s' k' = lf_get s k'.
  Proof.
    intros t s o now rnd s' r k' I L Hs Hstep T G.
    destruct (lf_get_step t s o now rnd s' r I L Hs Hstep)
      as [HF|(ttl & k & v & a & kv & EO & ER & HG & Hsz & Hsz' & Hkv & Hne & Hkv' & HF)]; auto.
    subst o. simpl in T. destruct (eqb_spec k k') as [Ek|Ek]; [discriminate|].
    destruct (eqb_spec k' kv) as [Ekv|Ekv]; [subst; congruence|]. apply HF; auto.
  Qed.

  Lemma lf_f_loss : forall t (s : lf K V) o now now' rnd s' r k',
      lf_inv t s -> (t <= now)%Z -> single o = true -> lf_step s o now rnd = (s', r) ->
      touches o k' = false -> lost_live (lf_get s) (lf_get s') now' k' ->
      true = true /\
      (exists ttl k v a, o = Insert ttl k v a /\ r = RB true /\ lf_get s k = None) /\
      lf_size s = lf_cap s /\ lf_size s' = lf_cap s /\
      (forall k'', ~ deadk (lf_get s) now' k'') /\
      (forall k'', touches o k'' = false -> lost_live (lf_get s) (lf_get s') now' k'' -> k'' = k').
  Proof.
    intros t s o now now' rnd s' r k' I L Hs Hstep T [HL HN].
    apply livek_get in HL.
    destruct (lf_get_step t s o now rnd s' r I L Hs Hstep)
      as [HF|(ttl & k & v & a & kv & EO & ER & HG & Hsz & Hsz' & Hkv & Hne & Hkv' & HF)].
    - rewrite HF in HN; auto. congruence.
    - assert (U : forall k'', touches o k'' = false -> lf_get s k'' <> None -> lf_get s' k'' = None ->
                              k'' = kv).
      { intros k'' T' G G'. subst o. simpl in T'.
        destruct (eqb_spec k k'') as [Ek|Ek]; [discriminate|].
        destruct (eqb_spec k'' kv) as [Ekv|Ekv]; auto.
        rewrite HF in G'; auto. congruence. }
      split; auto. split; [exists ttl, k, v, a; auto|]. split; auto. split; auto.
      split; [intros k''; apply no_deadk|].
      intros k'' T' [HL' HN']. apply livek_get in HL'.
      rewrite (U k'' T' HL' HN'), (U k' T HL HN). auto.
  Qed.

  Lemma lf_f_find : forall (s : lf K V) k pk now rnd s' r,
      lf_step s (Find k pk) now rnd = (s', r) ->
      r = RO (lf_view s now k) /\ (lf_view s now k = None -> lf_get s' k = None).
  Proof.
    intros s k pk now rnd s' r Hstep. simpl in Hstep.
    destruct (lf_find s k pk now) as [s1 r1] eqn:EF.
    inversion Hstep; subst. apply lf_find_find_use in EF. destruct EF as (r' & EF & ER).
    pose proof (lf_find_use_get _ _ _ _ _ _ EF k) as G. rewrite G.
    unfold lf_view, lf_get.
    destruct (lf_find_use_cases _ _ _ _ _ _ EF)
      as [(EA & ES & ER')|[(v & a & EA & EP & ES & ER')|(v & a & EA & EP & ES & ER')]];
      subst; rewrite EA; split; auto; discriminate.
  Qed.

  Lemma lf_f_find_use : forall (s : lf K V) k pk now rnd s' r,
      lf_step s (FindUse k pk) now rnd = (s', r) ->
      exists x, r = RU x /\
        match x with Some (v, _) => lf_view s now k = Some v | None => lf_view s now k = None end /\
        (lf_view s now k = None -> lf_get s' k = None).
  Proof.
    intros s k pk now rnd s' r Hstep. simpl in Hstep.
    destruct (lf_find_use s k pk now) as [s1 r1] eqn:EF.
    inversion Hstep; subst. exists r1. split; auto.
    pose proof (lf_find_use_get _ _ _ _ _ _ EF k) as G. rewrite G.
    unfold lf_view, lf_get.
    destruct (lf_find_use_cases _ _ _ _ _ _ EF)
      as [(EA & ES & ER')|[(v & a & EA & EP & ES & ER')|(v & a & EA & EP & ES & ER')]];
      subst; rewrite EA; split; auto; discriminate.
  Qed.

  Lemma lf_f_ins : forall t (s : lf K V) ttl k v a now now' rnd s' r,
      lf_inv t s -> (t <= now)%Z -> lf_step s (Insert ttl k v a) now rnd = (s', r) ->
      exists b, r = RB b /\
        (livek (lf_get s) now' k -> b = a_upd a) /\
        (lf_get s k = None -> b = a_ins a) /\
        (deadk (lf_get s) now' k -> (a_ins a = true -> b = true) /\
                                    (b = true -> a_ins a = true \/ a_upd a = true)) /\
        (b = true -> lf_get s' k = Some (v, None)) /\
        (b = false -> keeps (lf_get s) (lf_get s') now' k) /\
        (true = true -> b = true -> lf_get s k = None ->
         lf_size s' = if lf_size s <? lf_cap s then S (lf_size s) else lf_cap s).
  Proof.
    intros t s ttl k v a now now' rnd s' r I L Hstep. simpl in Hstep.
    destruct (lf_ins s k v a now) as [s1 b] eqn:EI. inversion Hstep; subst s1 r; clear Hstep.
    exists b. split; auto.
    split; [|split; [|split; [intros D; exfalso; eapply no_deadk; eauto|]]].
    - intros HL. apply livek_get in HL.
      destruct (lf_ins_cases t s k v a now s' b I L EI)
        as [(HG & HU & HB & ES)|[(HB & ES & [[HG HA]|[HG HA]])|[(HG & HI & HB & HSz & ES)|(HG & HI & HB & HSz & _)]]];
        congruence.
    - intros HN.
      destruct (lf_ins_cases t s k v a now s' b I L EI)
        as [(HG & HU & HB & ES)|[(HB & ES & [[HG HA]|[HG HA]])|[(HG & HI & HB & HSz & ES)|(HG & HI & HB & HSz & _)]]];
        congruence.
    - destruct (lf_ins_cases t s k v a now s' b I L EI)
        as [(HG & HU & HB & ES)|[(HB & ES & _)|[(HG & HI & HB & HSz & ES)|(HG & HI & HB & HSz & c & kv & rest & HO & ES)]]].
      + split; [|split]; try congruence. intros _. subst s'. unfold lf_get. rewrite ents_access_same; auto.
      + split; [|split]; try congruence. intros _. subst s'. left; auto.
      + split; [|split]; try congruence.
        * intros _. subst s'. unfold lf_get. rewrite ents_add_same; auto. apply lf_get_None; auto.
        * intros _ _ _. destruct (Nat.ltb_spec (lf_size s) (lf_cap s)); [|lia].
          subst s'. unfold lf_size, lf_add; simpl. rewrite app_length; simpl. lia.
      + destruct (lf_evict_facts t s k now c kv rest I L HSz HG HO)
          as (I1 & G1 & I2 & Nk & Hlen & Hcap & Hkv & Hne & _).
        split; [|split]; try congruence.
        * intros _. subst s'. unfold lf_get. rewrite ents_add_same; auto.
          apply assoc_None_iff; auto.
        * intros _ _ _. destruct (Nat.ltb_spec (lf_size s) (lf_cap s)); [lia|].
          subst s'. unfold lf_size, lf_add; simpl. rewrite app_length; simpl.
          unfold lf_erase_key in Hlen; simpl in Hlen. lia.
  Qed.

  Lemma lf_f_erase : forall (s : lf K V) k now now' rnd s' r,
      lf_step s (Erase k) now rnd = (s', r) ->
      exists b, r = RB b /\ lf_get s' k = None /\
        (livek (lf_get s) now' k -> b = true) /\ (b = true -> lf_get s k <> None).
  Proof.
    intros s k now now' rnd s' r Hstep. simpl in Hstep. unfold lf_erase in Hstep.
    destruct (assoc k (lf_ents s)) as [[v a]|] eqn:EA; inversion Hstep; subst.
    - exists true. split; auto. split; [unfold lf_get; rewrite ents_erase_same; auto|].
      split; auto. intros _. unfold lf_get. rewrite EA. discriminate.
    - exists false. split; auto. split; [apply lf_get_None; auto|].
      split; [|discriminate]. intros HL. apply livek_get in HL. exfalso; apply HL.
      apply lf_get_None; auto.
  Qed.

  Global Instance lf_ok : ModelOK lf_model.
  Proof.
    constructor; simpl.
    - intros t s (_ & _ & ND & _). exact ND.
    - intros t s k _. symmetry. apply lf_get_keys.
    - intros t s _. unfold lf_size, keys. rewrite map_length. auto.
    - intros t s (_ & _ & _ & Hlen & _) _. exact Hlen.
    - apply lf_inv_mono.
    - intros t s now k _ _. apply lf_f_view.
    - intros t s o now rnd s' r I L Hs _ Hstep. eapply lf_inv_step; eauto.
    - intros t s o now rnd s' r k' I L Hs _ Hstep. eapply lf_f_no_appear; eauto.
    - intros t s o now rnd s' r k' I L Hs _ Hstep. eapply lf_f_loss; eauto.
    - intros t s k pk now rnd s' r _ _ _ Hstep. exact (lf_f_find s k pk now rnd s' r Hstep).
    - intros t s k pk now rnd s' r _ _ _ Hstep. exact (lf_f_find_use s k pk now rnd s' r Hstep).
    - intros t s ttl k v a now rnd s' r I L _ Hstep. exact (lf_f_ins t s ttl k v a now now rnd s' r I L Hstep).
    - intros t s k now rnd s' r _ _ _ Hstep. exact (lf_f_erase s k now now rnd s' r Hstep).
    - intros t s now rnd s' r _ _ _ Hstep. inversion Hstep; auto.
    - intros t s now rnd s' r _ _ _ Hstep. inversion Hstep; auto.
    - reflexivity.
    - reflexivity.
    - reflexivity.
    - intros t s now rnd s' r I L Hstep k.
      destruct (lf_dyn_age s now) as [s1 n] eqn:ED.
      inversion Hstep; subst. replace s' with (fst (lf_dyn_age s now)) by (rewrite ED; auto).
      eapply dyn_age_get; eauto.
    - intros t s d now rnd s' r _ _ Hstep k. inversion Hstep; auto.
  Qed.

  (* ---------- lfu_cache ---------- *)
  Lemma lfu_step_cases : forall (s : lf K V) o now rnd,
      (o = DynAge /\ lfu_step s o now rnd = (s, RUnsupported)) \/
      (o <> DynAge /\ lfu_step s o now rnd = lf_step s o 0 rnd).
  Proof.
    intros s o now rnd; destruct o; simpl; try (right; split; [discriminate|reflexivity]).
    left; auto.
  Qed.

  Lemma lfu_inv_step : forall t (s : lf K V) o now rnd s' r,
      lfu_inv t s -> (t <= now)%Z -> single o = true -> lfu_step s o now rnd = (s', r) ->
      lfu_inv now s' /\ lf_cap s' = lf_cap s.
  Proof.
    intros t s o now rnd s' r (I & T0 & F) L Hs Hstep.
    destruct (lfu_step_cases s o now rnd) as [[EO E]|[NO E]]; rewrite E in Hstep.
    - inversion Hstep; subst. split; auto. split; auto. split; [lia|auto].
    - destruct (lf_inv_step 0 s o 0 rnd s' r I (Z.le_refl 0) Hs Hstep) as [I' C].
      split; auto. split; auto. split; [lia|].
      apply (lf_step_Forall (fun x => (0 <= stampof x)%Z) 0 s o 0 rnd s' r); auto; try lia.
      intros; unfold stampof; simpl; lia.
  Qed.

  Lemma lfu_dyn_age_id : forall t (s : lf K V), lfu_inv t s -> lf_dyn_age s 0 = (s, 0).
  Proof.
    intros t s (I & T0 & F). apply dyn_age_id.
    destruct I as (_ & Ht & _). eapply Forall_impl; [|exact F]. simpl. intros x Hx.
    unfold ms. lia.
  Qed.

  Global Instance lfu_ok : ModelOK lfu_model.
  Proof.
    constructor; simpl.
    - intros t s ((_ & _ & ND & _) & _). exact ND.
    - intros t s k _. symmetry. apply lf_get_keys.
    - intros t s _. unfold lf_size, keys. rewrite map_length. auto.
    - intros t s ((_ & _ & _ & Hlen & _) & _) _. exact Hlen.
    - intros t t' s (I & T0 & F) L. split; auto. split; auto. lia.
    - intros t s now k _ _. apply lf_f_view.
    - intros t s o now rnd s' r I L Hs _ Hstep. eapply lfu_inv_step; eauto.
    - intros t s o now rnd s' r k' (I & T0 & F) L Hs _ Hstep T G.
      destruct (lfu_step_cases s o now rnd) as [[EO E]|[NO E]]; rewrite E in Hstep.
      + inversion Hstep; subst; auto.
      + exact (lf_f_no_appear 0 s o 0 rnd s' r k' I (Z.le_refl 0) Hs Hstep T G).
    - intros t s o now rnd s' r k' (I & T0 & F) L Hs _ Hstep T LL.
      destruct (lfu_step_cases s o now rnd) as [[EO E]|[NO E]]; rewrite E in Hstep.
      + inversion Hstep; subst. destruct LL as [HL HN]. apply livek_get in HL. congruence.
      + exact (lf_f_loss 0 s o 0 now rnd s' r k' I (Z.le_refl 0) Hs Hstep T LL).
    - intros t s k pk now rnd s' r _ _ _ Hstep. exact (lf_f_find s k pk 0 rnd s' r Hstep).
    - intros t s k pk now rnd s' r _ _ _ Hstep. exact (lf_f_find_use s k pk 0 rnd s' r Hstep).
    - intros t s ttl k v a now rnd s' r (I & T0 & F) L _ Hstep.
      exact (lf_f_ins 0 s ttl k v a 0 now rnd s' r I (Z.le_refl 0) Hstep).
    - intros t s k now rnd s' r _ _ _ Hstep. exact (lf_f_erase s k 0 now rnd s' r Hstep).
    - intros t s now rnd s' r _ _ _ Hstep. inversion Hstep; auto.
    - intros t s now rnd s' r _ _ _ Hstep. inversion Hstep; auto.
    - reflexivity.
    - reflexivity.
    - reflexivity.
    - intros t s now rnd s' r _ _ Hstep k. inversion Hstep; auto.
    - intros t s d now rnd s' r _ _ Hstep k. inversion Hstep; auto.
  Qed.

  (* ---------------- C14, continued ---------------- *)

  (* dynamically_age() is that aging point *)
  Theorem lfuda_dynage_op : forall (s : lf K V) now rnd,
      lf_step s DynAge now rnd = (fst (lf_dyn_age s now), RN (snd (lf_dyn_age s now))).
  Proof. intros s now rnd. simpl. destruct (lf_dyn_age s now); reflexivity. Qed.

  (* an evicting insert ages first, then removes an entry of minimal count *)
  Theorem lfuda_evicting_insert : forall t (s : lf K V) ttl k v a now rnd s',
      lf_inv t s -> (t <= now)%Z -> lf_size s = lf_cap s -> lf_get s k = None ->
      lf_step s (Insert ttl k v a) now rnd = (s', RB true) ->
      let s1 := fst (lf_dyn_age s now) in
      exists kv, kv <> k /\ lf_get s kv <> None /\ lf_get s' kv = None /\
        (forall k', k' <> k -> k' <> kv ->
                    lf_get s' k' = lf_get s k' /\ lf_count s' k' = lf_count s1 k' /\
                    lf_stamp s' k' = lf_stamp s1 k') /\
        (forall k', lf_get s k' <> None -> lf_count s1 kv <= lf_count s1 k') /\
        lf_count s' k = 1 /\ lf_stamp s' k = Some now.
  Proof.
    intros t s ttl k v a now rnd s' I L Hsz HG Hstep s1. simpl in Hstep.
    destruct (lf_ins s k v a now) as [s0 b] eqn:EI. inversion Hstep; subst s0 b; clear Hstep.
    destruct (lf_ins_cases t s k v a now s' true I L EI)
      as [(HG' & _)|[(HB & _)|[(_ & _ & _ & HSz & _)|(_ & HI & _ & _ & c & kv & rest & HO & ES)]]];
      [congruence|discriminate|lia|].
    destruct (lf_evict_facts t s k now c kv rest I L Hsz HG HO)
      as (I1 & G1 & I2 & Nk & Hlen & Hcap & Hkv & Hne & Hc & Hmin).
    fold s1 in ES, I1, G1, I2, Nk, Hc, Hmin.
    exists kv. split; auto. split; auto.
    split.
    { subst s'. unfold lf_get. rewrite ents_add_other; auto. rewrite ents_erase_same. auto. }
    split.
    { intros k' N1 N2. subst s'. rewrite <- G1. unfold lf_get, lf_stamp.
      rewrite ents_add_other, ents_erase_other, cnt_add_other, cnt_erase_other; auto. }
    split.
    { intros k' Hk'. rewrite Hc. auto. }
    split.
    { subst s'. apply cnt_add_same. intros Hin. apply Nk. apply (lf_inv_keys_ord now); auto. }
    { subst s'. unfold lf_stamp. rewrite ents_add_same; auto. apply assoc_None_iff; auto. }
  Qed.

  (* a use (successful update, non-peek hit) adds one to the count and restarts the idle
     timer; it touches no other entry *)
  Theorem lfuda_use : forall t (s : lf K V) k v now,
      lf_inv t s -> (t <= now)%Z -> lf_get s k <> None ->
      let s' := lf_access s k v now in
      lf_count s' k = S (lf_count s k) /\ lf_stamp s' k = Some now /\
      (forall k', k' <> k -> lf_count s' k' = lf_count s k' /\ lf_stamp s' k' = lf_stamp s k' /\
                             lf_get s' k' = lf_get s k').
  Proof.
    intros t s k v now I L G s'. subst s'.
    split; [apply cnt_access_same|].
    split; [unfold lf_stamp; rewrite ents_access_same; auto|].
    intros k' N. rewrite cnt_access_other; auto. unfold lf_stamp, lf_get.
    rewrite ents_access_other; auto.
  Qed.

  (* an insert into a non-full cache, an erase, a peek, a miss, a rejected insert change
     neither count nor idle timer of any other entry (and do not age) *)
  Theorem lfuda_frame : forall t (s : lf K V) o now rnd s' r k',
      lf_inv t s -> (t <= now)%Z -> single o = true -> lf_step s o now rnd = (s', r) ->
      o <> DynAge -> (forall ttl k v a, o = Insert ttl k v a -> lf_get s k = None -> lf_size s < lf_cap s) ->
      (forall ttl v a, o <> Insert ttl k' v a) -> (forall pk, o <> Find k' pk) -> (forall pk, o <> FindUse k' pk) ->
      lf_get s' k' <> None ->
      lf_count s' k' = lf_count s k' /\ lf_stamp s' k' = lf_stamp s k'.
  Proof.
    intros t s o now rnd s' r k' I L Hs Hstep ND Hroom NI NF NFU G.
    destruct o; simpl in Hs; try discriminate; simpl in Hstep;
      try (inversion Hstep; subst; auto; fail).
    - assert (Nk : k' <> k) by (intros E; subst; apply (NI ttl v a); reflexivity).
      destruct (lf_ins s k v a now) as [s0 b] eqn:EI. inversion Hstep; subst s0 r; clear Hstep.
      destruct (lf_ins_cases t s k v a now s' b I L EI)
        as [(HG & HU & HB & ES)|[(HB & ES & _)|[(HG & HI & HB & HSz & ES)|(HG & HI & HB & HSz & _)]]].
      + subst s'. rewrite cnt_access_other; auto. unfold lf_stamp. rewrite ents_access_other; auto.
      + subst s'; auto.
      + subst s'. rewrite cnt_add_other; auto. unfold lf_stamp. rewrite ents_add_other; auto.
      + specialize (Hroom ttl k v a eq_refl HG). lia.
    - unfold lf_erase in Hstep.
      destruct (assoc k (lf_ents s)); inversion Hstep; subst; auto.
      destruct (eqb_spec k' k) as [E|E].
      + subst. exfalso. apply G. unfold lf_get. rewrite ents_erase_same. auto.
      + rewrite cnt_erase_other; auto. unfold lf_stamp. rewrite ents_erase_other; auto.
    - assert (Nk : k' <> k) by (intros E; subst; apply (NF peek); reflexivity).
      destruct (lf_find s k peek now) as [s1 r1] eqn:EF.
      inversion Hstep; subst. apply lf_find_find_use in EF. destruct EF as (r' & EF & _).
      destruct (lf_find_use_cases _ _ _ _ _ _ EF)
        as [(EA & ES & ER)|[(v & a & EA & EP & ES & ER)|(v & a & EA & EP & ES & ER)]]; subst; auto.
      rewrite cnt_access_other; auto. unfold lf_stamp. rewrite ents_access_other; auto.
    - assert (Nk : k' <> k) by (intros E; subst; apply (NFU peek); reflexivity).
      destruct (lf_find_use s k peek now) as [s1 r1] eqn:EF.
      inversion Hstep; subst.
      destruct (lf_find_use_cases _ _ _ _ _ _ EF)
        as [(EA & ES & ER)|[(v & a & EA & EP & ES & ER)|(v & a & EA & EP & ES & ER)]]; subst; auto.
      rewrite cnt_access_other; auto. unfold lf_stamp. rewrite ents_access_other; auto.
    - exfalso; apply ND; reflexivity.
  Qed.

  (* ---------------- C11: use counts and LFU victims (lfu_cache) ---------------- *)

  (* find_with_use_count reports the value and the count, including the current access
     when not peeking *)
  Theorem lfu_find_use_reports_count : forall t (s : lf K V) k pk now rnd s' v c,
      lfu_inv t s -> lfu_step s (FindUse k pk) now rnd = (s', RU (Some (v, c))) ->
      lf_view s now k = Some v /\ c = lf_count s' k /\
      c = (if pk then lf_count s k else S (lf_count s k)).
  Proof.
    intros t s k pk now rnd s' v c IU Hstep. simpl in Hstep.
    destruct (lf_find_use s k pk 0) as [s1 r1] eqn:EF. inversion Hstep; subst s1 r1; clear Hstep.
    unfold lf_view.
    destruct (lf_find_use_cases _ _ _ _ _ _ EF)
      as [(EA & ES & ER)|[(v0 & a & EA & EP & ES & ER)|(v0 & a & EA & EP & ES & ER)]];
      [discriminate| |]; inversion ER; subst; rewrite EA; repeat split; auto.
    rewrite cnt_access_same; auto.
  Qed.

  (* the victim of an evicting insert has a minimal use count among the residents *)
  Theorem lfu_victim_min_count : forall t (s : lf K V) ttl k v a now rnd s',
      lfu_inv t s -> lf_size s = lf_cap s -> lf_get s k = None ->
      lfu_step s (Insert ttl k v a) now rnd = (s', RB true) ->
      exists kv, kv <> k /\ lf_get s kv <> None /\ lf_get s' kv = None /\
        (forall k', k' <> k -> k' <> kv -> lf_get s' k' = lf_get s k' /\ lf_count s' k' = lf_count s k') /\
        (forall k', lf_get s k' <> None -> lf_count s kv <= lf_count s k') /\
        lf_count s' k = 1.
  Proof.
    intros t s ttl k v a now rnd s' IU Hsz HG Hstep.
    pose proof (lfu_dyn_age_id t s IU) as ED. destruct IU as (I & T0 & F).
    change (lf_step s (Insert ttl k v a) 0 rnd = (s', RB true)) in Hstep.
    pose proof (lfuda_evicting_insert 0 s ttl k v a 0 rnd s' I (Z.le_refl 0) Hsz HG Hstep) as HE.
    cbv zeta in HE. rewrite ED in HE. cbn [fst] in HE.
    destruct HE as (kv & H1 & H2 & H3 & H4 & H5 & H6 & H7).
    exists kv. split; auto. split; auto. split; auto. split; [|split; auto].
    intros k' N1 N2. destruct (H4 k' N1 N2) as (A & B & C). auto.
  Qed.

  Lemma creates_ins : forall k (s : lf K V) ttl k0 v a now rnd b,
      creates lfu_model k (s, {| e_op := Insert ttl k0 v a; e_now := now; e_rnd := rnd |}, RB b) =
      b && (eqb k0 k && match lf_get s k with None => true | Some _ => false end).
  Proof. intros; destruct b; reflexivity. Qed.
  Lemma uses_ins : forall k (s : lf K V) ttl k0 v a now rnd b,
      uses lfu_model k (s, {| e_op := Insert ttl k0 v a; e_now := now; e_rnd := rnd |}, RB b) =
      b && eqb k0 k.
  Proof. intros; destruct b; reflexivity. Qed.
  Lemma uses_find : forall k (s : lf K V) k0 pk now rnd x,
      uses lfu_model k (s, {| e_op := Find k0 pk; e_now := now; e_rnd := rnd |}, RO x) =
      negb pk && match x with Some _ => eqb k0 k | None => false end.
  Proof. intros; destruct pk; destruct x; reflexivity. Qed.
  Lemma uses_find_use : forall k (s : lf K V) k0 pk now rnd x,
      uses lfu_model k (s, {| e_op := FindUse k0 pk; e_now := now; e_rnd := rnd |}, RU x) =
      negb pk && match x with Some _ => eqb k0 k | None => false end.
  Proof. intros; destruct pk; destruct x; reflexivity. Qed.

  Lemma lfu_count_step : forall t (s : lf K V) o now rnd s' r k,
      lfu_inv t s -> single o = true -> lfu_step s o now rnd = (s', r) -> lf_get s' k <> None ->
      if creates lfu_model k (s, {| e_op := o; e_now := now; e_rnd := rnd |}, r)
      then lf_count s' k = 1
      else (lf_get s k <> None /\
            lf_count s' k =
            if uses lfu_model k (s, {| e_op := o; e_now := now; e_rnd := rnd |}, r)
            then S (lf_count s k) else lf_count s k).
  Proof.
    intros t s o now rnd s' r k IU Hs Hstep G.
    pose proof IU as (I & T0 & F). pose proof Hstep as Hstep0.
    destruct o; simpl in Hs; try discriminate; simpl in Hstep;
      try (inversion Hstep; subst; simpl; split; auto; fail).
    - (* Insert *)
      destruct (lf_ins s k0 v a 0) as [s0 b] eqn:EI. inversion Hstep; subst s0 r; clear Hstep.
      rewrite creates_ins, uses_ins.
      destruct (lf_ins_cases 0 s k0 v a 0 s' b I (Z.le_refl 0) EI)
        as [(HG & HU & HB & ES)|[(HB & ES & _)|[(HG & HI & HB & HSz & ES)|(HG & HI & HB & HSz & _)]]].
      + subst b s'. destruct (eqb_spec k0 k) as [E|E]; simpl.
        * subst k0. destruct (lf_get s k) eqn:EG; [|congruence].
          split; [discriminate|apply cnt_access_same].
        * unfold lf_get in G. rewrite ents_access_other in G; auto.
          split; auto. apply cnt_access_other; auto.
      + subst b s'. simpl. auto.
      + subst b s'. destruct (eqb_spec k0 k) as [E|E]; simpl.
        * subst k0. rewrite HG. apply cnt_add_same.
          intros Hin. apply (lf_inv_keys_ord 0) in Hin; auto. apply lf_get_keys in Hin. auto.
        * unfold lf_get in G. rewrite ents_add_other in G; auto.
          split; auto. apply cnt_add_other; auto.
      + subst b.
        destruct (lfu_victim_min_count t s ttl k0 v a now rnd s' IU HSz HG Hstep0)
          as (kv & H1 & H2 & H3 & H4 & H5 & H6).
        destruct (eqb_spec k0 k) as [E|E]; simpl.
        * subst k0. rewrite HG. auto.
        * destruct (eqb_spec k kv) as [E'|E']; [subst; congruence|].
          destruct (H4 k) as [A B]; auto. rewrite <- A. auto.
    - (* Erase *)
      unfold lf_erase in Hstep.
      destruct (assoc k0 (lf_ents s)); inversion Hstep; subst; simpl; [|split; auto].
      destruct (eqb_spec k k0) as [E|E].
      + subst. exfalso. apply G. unfold lf_get. rewrite ents_erase_same. auto.
      + unfold lf_get in G. rewrite ents_erase_other in G; auto.
        split; auto. apply cnt_erase_other; auto.
    - (* Find *)
      destruct (lf_find s k0 peek 0) as [s1 r1] eqn:EF.
      inversion Hstep; subst s1 r; clear Hstep.
      apply lf_find_find_use in EF. destruct EF as (r' & EF & ER).
      rewrite uses_find. change (creates lfu_model k (s, {| e_op := Find k0 peek; e_now := now; e_rnd := rnd |}, RO r1)) with false.
      cbv iota.
      destruct (lf_find_use_cases _ _ _ _ _ _ EF)
        as [(EA & ES & ER')|[(v & a & EA & EP & ES & ER')|(v & a & EA & EP & ES & ER')]]; subst.
      * destruct peek; simpl; auto.
      * simpl; auto.
      * simpl. destruct (eqb_spec k0 k) as [E|E].
        -- subst k0. split; [unfold lf_get; rewrite EA; discriminate|apply cnt_access_same].
        -- unfold lf_get in G. rewrite ents_access_other in G; auto.
           split; auto. apply cnt_access_other; auto.
    - (* FindUse *)
      destruct (lf_find_use s k0 peek 0) as [s1 r1] eqn:EF.
      inversion Hstep; subst s1 r; clear Hstep.
      rewrite uses_find_use. change (creates lfu_model k (s, {| e_op := FindUse k0 peek; e_now := now; e_rnd := rnd |}, RU r1)) with false.
      cbv iota.
      destruct (lf_find_use_cases _ _ _ _ _ _ EF)
        as [(EA & ES & ER')|[(v & a & EA & EP & ES & ER')|(v & a & EA & EP & ES & ER')]]; subst.
      * destruct peek; simpl; auto.
      * simpl; auto.
      * simpl. destruct (eqb_spec k0 k) as [E|E].
        -- subst k0. split; [unfold lf_get; rewrite EA; discriminate|apply cnt_access_same].
        -- unfold lf_get in G. rewrite ents_access_other in G; auto.
           split; auto. apply cnt_access_other; auto.
  Qed.

  Lemma lfu_wruns_inv : forall cap tr t (s : lf K V),
      1 <= cap -> wruns lfu_model 0 (lfu_init cap) tr t s -> lfu_inv t s.
  Proof.
    intros cap tr t s Hc W. induction W as [|tr t s e s' r W IH Hs L _ Hstep].
    - apply lfu_inv_init; auto; lia.
    - simpl in Hstep. eapply lfu_inv_step; eauto.
  Qed.

  Lemma use_count_snoc : forall (M : model K V) k tr x,
      use_count M k (tr ++ [x]) =
      if creates M k x then 1 else if uses M k x then S (use_count M k tr) else use_count M k tr.
  Proof. intros. unfold use_count. rewrite fold_left_app. reflexivity. Qed.

  (* the stored count of every resident is the use count defined on the history *)
  Theorem lfu_count_is_use_count : forall cap tr t (s : lf K V),
      1 <= cap -> wruns lfu_model 0 (lfu_init cap) tr t s ->
      forall k, lf_get s k <> None -> lf_count s k = use_count lfu_model k tr.
  Proof.
    intros cap tr t s Hc W. induction W as [|tr t s e s' r W IH Hs L _ Hstep]; intros k G.
    - exfalso; apply G; reflexivity.
    - pose proof (lfu_wruns_inv cap tr t s Hc W) as IU.
      rewrite use_count_snoc. destruct e as [o now rnd]. simpl in Hs, L, Hstep.
      pose proof (lfu_count_step t s o now rnd s' r k IU Hs Hstep G) as CS.
      match goal with
      | |- _ = (if ?c then _ else if ?u then _ else _) => set (cb := c); set (ub := u)
      end.
      change (if cb then lf_count s' k = 1
              else (lf_get s k <> None /\
                    lf_count s' k = if ub then S (lf_count s k) else lf_count s k)) in CS.
      destruct cb; auto. destruct CS as [G0 CS]. rewrite CS.
      destruct ub; rewrite (IH k G0); auto.
  Qed.

  (* ---------------- C19 ---------------- *)
  Lemma lf_peek_noop : forall (s : lf K V) k now rnd, fst (lf_step s (Find k true) now rnd) = s.
  Proof.
    intros. simpl. unfold lf_find, lf_find_use.
    destruct (assoc k (lf_ents s)) as [[v a]|]; reflexivity.
  Qed.
  Lemma lf_peek_use_noop : forall (s : lf K V) k now rnd, fst (lf_step s (FindUse k true) now rnd) = s.
  Proof.
    intros. simpl. unfold lf_find_use.
    destruct (assoc k (lf_ents s)) as [[v a]|]; reflexivity.
  Qed.
  Lemma lf_miss_noop : forall (s : lf K V) k pk now rnd,
      lf_get s k = None -> lf_step s (Find k pk) now rnd = (s, RO None).
  Proof.
    intros s k pk now rnd G. apply lf_get_None in G. simpl. unfold lf_find, lf_find_use.
    rewrite G. reflexivity.
  Qed.
  Lemma lf_rejected_insert_noop : forall (s : lf K V) ttl k v a now rnd s',
      lf_step s (Insert ttl k v a) now rnd = (s', RB false) -> s' = s.
  Proof.
    intros s ttl k v a now rnd s' E. simpl in E. unfold lf_ins in E.
    destruct (assoc k (lf_ents s)).
    - destruct (a_upd a); inversion E; auto.
    - destruct (a_ins a); inversion E; auto.
  Qed.
  Lemma lf_erase_absent_noop : forall (s : lf K V) k now rnd s',
      lf_step s (Erase k) now rnd = (s', RB false) -> s' = s.
  Proof.
    intros s k now rnd s' E. simpl in E. unfold lf_erase in E.
    destruct (assoc k (lf_ents s)); inversion E; auto.
  Qed.
End LfFacts.
