(* C15 Random replacement: victim is a prior resident; every resident can be chosen. *)
Require Import Capp.Base Capp.Spec Capp.Generic Capp.Rr Capp.RrFacts.

(* for every outcome r of the random source in [0, size): a successful insert of a new key
   into the full cache removes exactly the entry in slot r — one prior resident, never the new
   key, never a free slot — and size stays at capacity *)
Theorem C15_evicts_exactly_the_drawn_resident :
  forall (K V : Type) (E : EqDec K) t (s : rr K V) ttl k v a now r rest,
    rr_inv t s -> rr_end s = rr_cap s -> rr_get s k = None -> a_ins a = true -> r < rr_cap s ->
    exists s' kv,
      rr_step s (Insert ttl k v a) now (r :: rest) = (s', RB true) /\
      rr_victim s r = Some kv /\ kv <> k /\ rr_get s kv <> None /\ rr_get s' kv = None /\
      (forall k', k' <> k -> k' <> kv -> rr_get s' k' = rr_get s k') /\
      rr_get s' k = Some (v, None) /\ rr_end s' = rr_cap s.
Proof. exact @rr_evicts_slot_r. Qed.
Print Assumptions C15_evicts_exactly_the_drawn_resident.

(* draw |-> victim is a bijection from [0, size) onto the residents: every resident is
   chosen by exactly one draw, so a uniform draw gives a uniform victim; no resident position
   is immune and none is always chosen (size > 1) *)
Theorem C15_draw_to_victim_is_a_bijection :
  forall (K V : Type) (E : EqDec K) t (s : rr K V),
    rr_inv t s -> rr_end s = rr_cap s ->
    (forall r, r < rr_cap s -> exists kv, rr_victim s r = Some kv /\ rr_get s kv <> None) /\
    (forall r1 r2 kv, r1 < rr_cap s -> r2 < rr_cap s ->
                      rr_victim s r1 = Some kv -> rr_victim s r2 = Some kv -> r1 = r2) /\
    (forall kv, rr_get s kv <> None -> exists r, r < rr_cap s /\ rr_victim s r = Some kv).
Proof. exact @rr_victim_bijection. Qed.
Print Assumptions C15_draw_to_victim_is_a_bijection.

Theorem C15_no_eviction_when_not_full :
  forall (K V : Type) (E : EqDec K) t (s : rr K V) ttl k v a now rnd s',
    rr_inv t s -> rr_end s < rr_cap s -> rr_get s k = None ->
    rr_step s (Insert ttl k v a) now rnd = (s', RB true) ->
    (forall k', k' <> k -> rr_get s' k' = rr_get s k') /\ rr_end s' = S (rr_end s).
Proof. exact @rr_no_eviction_when_not_full. Qed.
Print Assumptions C15_no_eviction_when_not_full.

(* the invariant these statements assume holds after every history (ModelOK instance) *)
Theorem C15_invariant_holds_along_histories :
  forall (K V : Type) (E : EqDec K) cap tr t (s : rr K V),
    1 <= cap -> wruns rr_model 0 (rr_init cap) tr t s -> rr_inv t s.
Proof.
  intros K V E cap tr t s Hc Hr.
  exact (proj1 (inv_run rr_model 0 (rr_init cap) tr t s (rr_inv_init cap 0 Hc) Hr)).
Qed.
Print Assumptions C15_invariant_holds_along_histories.
