(* C20 clear() returns utlru_cache / ut_map to the freshly-constructed state. *)
Require Import Capp.Base Capp.Spec Capp.TtlLru Capp.TtlLruFacts Capp.UtMap Capp.UtMapFacts.

(* the state after clear() IS the state of a newly constructed container with the same
   capacity and the currently configured TTL; every later sequence of calls therefore
   returns the same results on both (the step function is a function of the state) *)
Theorem C20_utlru_clear_is_fresh :
  forall (K V : Type) (E : EqDec K) (s : tl K V) now rnd,
    tl_uniform s = true -> tl_step s Clear now rnd = (tl_init true (tl_cap s) (tl_ttl s), RUnit).
Proof. exact @tl_clear_is_init. Qed.
Print Assumptions C20_utlru_clear_is_fresh.

Theorem C20_utmap_clear_is_fresh :
  forall (K V : Type) (E : EqDec K) (s : um K V) now rnd,
    um_step s Clear now rnd = (um_init (um_ttl s), RUnit).
Proof. exact @um_clear_is_init. Qed.
Print Assumptions C20_utmap_clear_is_fresh.

(* spelled out: identical continuations *)
Theorem C20_same_continuation :
  forall (K V : Type) (E : EqDec K) (s : tl K V) now rnd h,
    tl_uniform s = true ->
    run tl_step (fst (tl_step s Clear now rnd)) h = run tl_step (tl_init true (tl_cap s) (tl_ttl s)) h.
Proof. intros K V E s now rnd h Hu. rewrite (tl_clear_is_init s now rnd Hu). reflexivity. Qed.
Print Assumptions C20_same_continuation.
