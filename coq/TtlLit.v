(* TtlLit.v — LITERAL model (L3) of tlru_cache.hpp ([uni] = false) and utlru_cache.hpp
   ([uni] = true): m_elements with their stored iterators and expire times, m_keyed_elements,
   the std::list<size_t> m_lru_list with its partition iterator, and the deadline structure
   m_ttl_list — a std::multimap<time_point,size_t> in tlru, a std::list<size_t> kept sorted by
   do_ttl_position in utlru — every do_* helper, clean_expired_values, update_ttl and clear
   transcribed line by line into the undefined-behaviour monad. *)
Require Import Capp.Base Capp.Rr Capp.TtlLru Capp.RrLit Capp.LruLit.
From Coq Require Import Strings.String.

Section TtlLit.
  Context {K V : Type} `{EqDec K}.
  Local Open Scope string_scope.
  Local Open Scope list_scope.
  Local Open Scope nat_scope.

  (* struct element { time_point m_expire_time; keyed_iterator; lru_iterator; ttl_iterator; value_type } *)
  Record telem := {
    te_expire : Z;
    te_keyed  : option K;      (* index iterator: the key of its node; None = singular *)
    te_lru    : option iter;   (* iterator into m_lru_list *)
    te_ttl    : option nat;    (* iterator into m_ttl_list: the slot number its node holds; None = singular *)
    te_val    : option V
  }.

  Record ttll := {
    tt_cap   : nat;
    tt_ttl   : Z;                     (* utlru m_ttl (ms) *)
    tt_elems : list telem;
    tt_index : list (K * nat);
    tt_list  : list nat;              (* m_lru_list: node identities (= slot numbers) in order *)
    tt_end   : iter;                  (* m_lru_end *)
    tt_ord   : list (Z * nat);        (* m_ttl_list in iteration order: (multimap key, slot); in utlru the list
                                         stores only the slot, the first component is not used *)
    tt_used  : nat
  }.

  Definition ttll_init (cap : nat) (ttl : Z) : ttll :=
    {| tt_cap := cap; tt_ttl := ttl;
       tt_elems := repeat {| te_expire := 0%Z; te_keyed := None; te_lru := None; te_ttl := None; te_val := None |} cap;
       tt_index := []; tt_list := seq 0 cap; tt_end := l_begin (seq 0 cap); tt_ord := []; tt_used := 0 |}.

  Variable uni : bool.

  (* ---- the deadline structure ---- *)
  Fixpoint ord_has (n : nat) (o : list (Z * nat)) : bool :=
    match o with [] => false | (_, x) :: r => Nat.eqb n x || ord_has n r end.
  Fixpoint ord_remove (n : nat) (o : list (Z * nat)) : list (Z * nat) :=
    match o with [] => [] | (e, x) :: r => if Nat.eqb n x then r else (e, x) :: ord_remove n r end.
  Definition ord_erase (o : list (Z * nat)) (it : option nat) : res (list (Z * nat)) :=
    match it with
    | None => UB "m_ttl_list.erase through a singular iterator"
    | Some n => if ord_has n o then Ok (ord_remove n o) else UB "m_ttl_list.erase through an erased iterator"
    end.
  (* tlru: multimap emplace at the upper bound of the key *)
  Fixpoint mm_emplace_z (e : Z) (n : nat) (o : list (Z * nat)) : list (Z * nat) :=
    match o with
    | [] => [(e, n)]
    | (e', x) :: r => if (e' <=? e)%Z then (e', x) :: mm_emplace_z e n r else (e, n) :: o
    end.
  (* utlru do_ttl_position(expire_time) + emplace: walk back from the tail while the element of the
     previous node expires later; given the reversed list, returns the reversed list with the new
     node inserted *)
  Fixpoint walk_emplace (es : list telem) (e : Z) (n : nat) (rev_o : list (Z * nat)) : res (list (Z * nat)) :=
    match rev_o with
    | [] => Ok [(0%Z, n)]
    | (z, x) :: r =>
        do ex <- vget "m_elements[*std::prev(position)]" es x;
        if (e <? te_expire ex)%Z then (do r' <- walk_emplace es e n r; Ok ((z, x) :: r'))
        else Ok ((0%Z, n) :: rev_o)
    end.
  Definition ord_emplace (s : ttll) (es : list telem) (e : Z) (n : nat) (o : list (Z * nat)) : res (list (Z * nat)) :=
    if uni then (do r <- walk_emplace es e n (rev o); Ok (rev r)) else Ok (mm_emplace_z e n o).

  Definition get_lru (e : telem) : res iter :=
    match te_lru e with Some i => Ok i | None => UB "use of a singular list iterator" end.

  Definition with_list (s : ttll) (l : list nat) : ttll :=
    {| tt_cap := tt_cap s; tt_ttl := tt_ttl s; tt_elems := tt_elems s; tt_index := tt_index s; tt_list := l;
       tt_end := tt_end s; tt_ord := tt_ord s; tt_used := tt_used s |}.

  (* do_access(e) *)
  Definition tt_access (s : ttll) (e : telem) : res ttll :=
    do p <- get_lru e;
    do l <- l_splice (tt_list s) (l_begin (tt_list s)) p;
    Ok (with_list s l).

  (* do_erase(element_idx) *)
  Definition tt_do_erase (s : ttll) (idx : nat) : res ttll :=
    do e <- vget "m_elements[element_idx]" (tt_elems s) idx;
    do p <- get_lru e;
    do pe <- l_prev (tt_list s) (tt_end s);
    do l <- (if iter_eqb p pe then Ok (tt_list s) else l_splice (tt_list s) (tt_end s) p);
    do ne <- l_prev l (tt_end s);
    do o <- ord_erase (tt_ord s) (te_ttl e);
    do ix <- index_erase (tt_index s) (te_keyed e);
    if tt_used s =? 0 then UB "--m_used_size underflows" else
    Ok {| tt_cap := tt_cap s; tt_ttl := tt_ttl s; tt_elems := tt_elems s; tt_index := ix; tt_list := l;
          tt_end := ne; tt_ord := o; tt_used := tt_used s - 1 |}.

  (* do_prune(now) *)
  Definition tt_do_prune (s : ttll) (now : Z) : res ttll :=
    if 0 <? tt_used s then
      match tt_ord s with
      | [] => UB "begin() of the empty m_ttl_list dereferenced"
      | (z, idx) :: _ =>
          do dead <- (if uni then (do e <- vget "m_elements[ttl_idx]" (tt_elems s) idx; Ok (te_expire e <=? now)%Z)
                      else Ok (z <=? now)%Z);
          if dead then tt_do_erase s idx
          else (do b <- l_back (tt_list s); tt_do_erase s b)
      end
    else Ok s.

  (* do_insert(key, value, now, expire_time) *)
  Definition tt_do_insert (s : ttll) (k : K) (v : V) (now ex : Z) : res ttll :=
    do s1 <- (if List.length (tt_elems s) <=? tt_used s then tt_do_prune s now else Ok s);
    do idx <- l_deref (tt_list s1) (tt_end s1);
    do ix <- index_emplace (tt_cap s1) (tt_index s1) k idx;
    do o <- ord_emplace s1 (tt_elems s1) ex idx (tt_ord s1);
    let e := {| te_expire := ex; te_keyed := Some k; te_lru := Some (tt_end s1); te_ttl := Some idx; te_val := Some v |} in
    do es <- vset "m_elements[element_idx]" (tt_elems s1) idx e;
    do ne <- l_next (tt_list s1) (tt_end s1);
    tt_access {| tt_cap := tt_cap s1; tt_ttl := tt_ttl s1; tt_elems := es; tt_index := ix; tt_list := tt_list s1;
                 tt_end := ne; tt_ord := o; tt_used := S (tt_used s1) |} e.

  (* do_update(keyed_position, value, expire_time) *)
  Definition tt_do_update (s : ttll) (idx : nat) (v : V) (ex : Z) : res ttll :=
    do e <- vget "m_elements[element_idx]" (tt_elems s) idx;
    let e1 := {| te_expire := ex; te_keyed := te_keyed e; te_lru := te_lru e; te_ttl := te_ttl e; te_val := Some v |} in
    do es1 <- vset "m_elements[element_idx]" (tt_elems s) idx e1;
    do o1 <- ord_erase (tt_ord s) (te_ttl e1);
    do o2 <- ord_emplace s es1 ex idx o1;
    let e2 := {| te_expire := ex; te_keyed := te_keyed e; te_lru := te_lru e; te_ttl := Some idx; te_val := Some v |} in
    do es2 <- vset "m_elements[element_idx]" es1 idx e2;
    tt_access {| tt_cap := tt_cap s; tt_ttl := tt_ttl s; tt_elems := es2; tt_index := tt_index s; tt_list := tt_list s;
                 tt_end := tt_end s; tt_ord := o2; tt_used := tt_used s |} e2.

  (* do_insert_update(key, value, now, expire_time, allow) *)
  Definition tt_ins (s : ttll) (k : K) (v : V) (a : allow) (now ex : Z) : res (ttll * bool) :=
    match assoc k (tt_index s) with
    | Some idx =>
        if a_upd a then (do s1 <- tt_do_update s idx v ex; Ok (s1, true))
        else if a_ins a then
          (do e <- vget "m_elements[element_idx]" (tt_elems s) idx;
           if (te_expire e <=? now)%Z then (do s1 <- tt_do_update s idx v ex; Ok (s1, true)) else Ok (s, false))
        else Ok (s, false)
    | None => if a_ins a then (do s1 <- tt_do_insert s k v now ex; Ok (s1, true)) else Ok (s, false)
    end.

  Definition tt_erase (s : ttll) (k : K) : res (ttll * bool) :=
    match assoc k (tt_index s) with
    | Some idx => do s1 <- tt_do_erase s idx; Ok (s1, true)
    | None => Ok (s, false)
    end.

  (* do_find(key, now, peek) *)
  Definition tt_find (s : ttll) (k : K) (peek : bool) (now : Z) : res (ttll * option V) :=
    match assoc k (tt_index s) with
    | Some idx =>
        do e <- vget "m_elements[element_idx]" (tt_elems s) idx;
        if (now <? te_expire e)%Z then
          (do s1 <- (if peek then Ok s else tt_access s e); Ok (s1, te_val e))
        else (do s1 <- tt_do_erase s idx; Ok (s1, None))
    | None => Ok (s, None)
    end.

  (* clean_expired_values(): the loop, with a fuel it cannot exhaust (every iteration erases an entry) *)
  Fixpoint tt_clean_loop (fuel : nat) (s : ttll) (now : Z) (n : nat) : res (ttll * nat) :=
    match fuel with
    | O => UB "clean_expired_values does not terminate"
    | S f =>
        if 0 <? tt_used s then
          match tt_ord s with
          | [] => UB "begin() of the empty m_ttl_list dereferenced"
          | (z, idx) :: _ =>
              do dead <- (if uni then (do e <- vget "m_elements[ttl_idx]" (tt_elems s) idx; Ok (te_expire e <=? now)%Z)
                          else Ok (z <=? now)%Z);
              if dead then (do s1 <- tt_do_erase s idx; tt_clean_loop f s1 now (S n)) else Ok (s, n)
          end
        else Ok (s, n)
    end.
  Definition tt_clean (s : ttll) (now : Z) : res (ttll * nat) := tt_clean_loop (S (tt_used s)) s now 0.

  Fixpoint tt_ins_range (s : ttll) (l : list (Z * K * V)) (a : allow) (now : Z) (n : nat) : res (ttll * nat) :=
    match l with
    | [] => Ok (s, n)
    | (ttl, k, v) :: r =>
        let ex := (now + ms (if uni then tt_ttl s else ttl))%Z in
        do x <- tt_ins s k v a now ex; let '(s1, b) := x in tt_ins_range s1 r a now (if b then S n else n)
    end.
  Fixpoint tt_erase_range (s : ttll) (l : list K) (n : nat) : res (ttll * nat) :=
    match l with
    | [] => Ok (s, n)
    | k :: r => do x <- tt_erase s k; let '(s1, b) := x in tt_erase_range s1 r (if b then S n else n)
    end.
  Fixpoint tt_find_range (s : ttll) (l : list K) (peek : bool) (now : Z) : res (ttll * list (K * option V)) :=
    match l with
    | [] => Ok (s, [])
    | k :: r => do x <- tt_find s k peek now; let '(s1, o) := x in
                do y <- tt_find_range s1 r peek now; let '(s2, os) := y in Ok (s2, (k, o) :: os)
    end.

  Definition tt_step (s : ttll) (o : op K V) (now : Z) (rnd : list nat) : res (ttll * ret K V) :=
    match o with
    | Insert ttl k v a =>
        let ex := (now + ms (if uni then tt_ttl s else ttl))%Z in
        do x <- tt_ins s k v a now ex; let '(s1, b) := x in Ok (s1, RB b)
    | InsertRange l a => do x <- tt_ins_range s l a now 0; let '(s1, n) := x in Ok (s1, RN n)
    | Erase k => do x <- tt_erase s k; let '(s1, b) := x in Ok (s1, RB b)
    | EraseRange l => do x <- tt_erase_range s l 0; let '(s1, n) := x in Ok (s1, RN n)
    | Find k pk => do x <- tt_find s k pk now; let '(s1, r) := x in Ok (s1, RO r)
    | FindRange l pk => do x <- tt_find_range s l pk now; let '(s1, r) := x in Ok (s1, RL r)
    | FindRangeFill l pk => do x <- tt_find_range s l pk now; let '(s1, r) := x in Ok (s1, RL r)
    | Clean => do x <- tt_clean s now; let '(s1, n) := x in Ok (s1, RN n)
    | UpdateTtl d =>
        if uni then Ok ({| tt_cap := tt_cap s; tt_ttl := d; tt_elems := tt_elems s; tt_index := tt_index s;
                           tt_list := tt_list s; tt_end := tt_end s; tt_ord := tt_ord s; tt_used := tt_used s |}, RUnit)
        else Ok (s, RUnsupported)
    | Clear =>
        if uni then
          (* if (m_used_size > 0) { iota over m_lru_list; m_lru_end = begin(); index.clear(); reserve; ttl_list.clear(); used = 0 } *)
          (if 0 <? tt_used s
           then Ok ({| tt_cap := tt_cap s; tt_ttl := tt_ttl s; tt_elems := tt_elems s; tt_index := [];
                       tt_list := seq 0 (List.length (tt_list s)); tt_end := l_begin (seq 0 (List.length (tt_list s)));
                       tt_ord := []; tt_used := 0 |}, RUnit)
           else Ok (s, RUnit))
        else Ok (s, RUnsupported)
    | Size => Ok (s, RN (tt_used s))
    | Empty => Ok (s, RB (Nat.eqb (tt_used s) 0))
    | Capacity => Ok (s, RN (List.length (tt_elems s)))
    | _ => Ok (s, RUnsupported)
    end.

  (* ---- representation: the used part of the list is most-recent-first, so tl_lru (least recent
     first) is its reverse read through the cells; m_ttl_list read through the cells is tl_ord ---- *)
  Definition tt_entry (s : ttll) (n : nat) : option (K * (V * Z)) :=
    match nth_error (tt_elems s) n with
    | Some {| te_expire := e; te_keyed := Some k; te_lru := _; te_ttl := _; te_val := Some v |} => Some (k, (v, e))
    | _ => None
    end.
  Definition tt_ordent (s : ttll) (zn : Z * nat) : option (Z * K) :=
    match nth_error (tt_elems s) (snd zn) with
    | Some {| te_expire := e; te_keyed := Some k; te_lru := _; te_ttl := _; te_val := _ |} => Some (e, k)
    | _ => None
    end.

  Definition tt_rep (l : ttll) (s : tl K V) : Prop :=
    exists used free,
      tt_list l = used ++ free /\ tt_end l = l_begin free /\
      tl_uniform s = uni /\ tt_cap l = tl_cap s /\ (uni = true -> tt_ttl l = tl_ttl s) /\
      List.length (tt_elems l) = tl_cap s /\ NoDup (tt_list l) /\ List.length (tt_list l) = tl_cap s /\
      (forall n, In n (tt_list l) -> n < tl_cap s) /\
      tt_used l = List.length used /\ List.length (tt_index l) = List.length used /\ NoDup (keys (tt_index l)) /\
      map (tt_entry l) (rev used) = map (@Some (K * (V * Z))) (tl_lru s) /\
      map (tt_ordent l) (tt_ord l) = map (@Some (Z * K)) (tl_ord s) /\
      NoDup (map snd (tt_ord l)) /\ (forall n, In n used <-> In n (map snd (tt_ord l))) /\
      (uni = false -> forall z n, In (z, n) (tt_ord l) -> exists e, nth_error (tt_elems l) n = Some e /\ te_expire e = z) /\
      (forall n, In n used ->
         exists k v e, tt_entry l n = Some (k, (v, e)) /\ assoc k (tt_index l) = Some n /\
                       exists c, nth_error (tt_elems l) n = Some c /\ te_lru c = Some (It n) /\ te_ttl c = Some n) /\
      (forall k n, assoc k (tt_index l) = Some n -> In n used /\ exists v e, tt_entry l n = Some (k, (v, e))).
End TtlLit.

Arguments ttll : clear implicits.
Arguments telem : clear implicits.
