(* LfuLitFacts.v — C08 for lfu_cache: the literal machine (LfudaLit.v with da = false: the same
   code without the aging parts, and do_access does not re-file the list node) never reaches
   UB and computes exactly what the mid-level model of lfu_cache (Lfuda.v, [lfu_step]: the lfuda
   machine with the clock frozen at 0) computes.  The mid-level age list re-files an entry on
   every access while lfu_cache's open list does not, so the representation relates the used
   nodes to [lf_ents] only up to permutation (the order of lf_ents is unobservable in lfu). *)
Require Import Capp.Base Capp.Spec Capp.Rr Capp.Lfuda Capp.LfudaFacts Capp.RrLit Capp.LruLit Capp.LfudaLit
               Capp.LfudaLitFacts.
From Coq Require Import Strings.String Permutation.

Section LfuLitDefs.
  Context {K V : Type} `{EqDec K}.

  (* key and value of the cell of node n (the stamp is irrelevant for lfu) *)
  Definition fu_entry (s : lfdl K V) (n : nat) : option (K * V) :=
    match nth_error (dl_cells s) n with
    | Some {| dc_keyed := Some k; dc_lfu := _; dc_age := _; dc_val := Some v |} => Some (k, v)
    | _ => None
    end.

  Definition fu_rep (l : lfdl K V) (s : lf K V) : Prop :=
    exists used free,
      dl_list l = used ++ free /\ dl_end l = l_begin free /\
      dl_cap l = lf_cap s /\
      List.length (dl_cells l) = lf_cap s /\ NoDup (dl_list l) /\ List.length (dl_list l) = lf_cap s /\
      (forall n, In n (dl_list l) -> n < lf_cap s) /\
      dl_used l = List.length used /\ List.length (dl_index l) = List.length used /\ NoDup (keys (dl_index l)) /\
      Permutation (map (fu_entry l) used)
                  (map (fun x => Some (fst x, fst (snd x))) (lf_ents s)) /\
      map (fun cn => match dl_key l (snd cn) with Some k => Some (fst cn, k) | None => None end) (dl_mm l)
        = map (@Some (nat * K)) (lf_ord s) /\
      NoDup (map snd (dl_mm l)) /\
      (forall n, In n used <-> In n (map snd (dl_mm l))) /\
      (forall n k v, In n used -> fu_entry l n = Some (k, v) ->
                     assoc k (dl_index l) = Some n /\
                     exists c, nth_error (dl_cells l) n = Some c /\ dc_lfu c = Some n) /\
      (forall k n, assoc k (dl_index l) = Some n -> In n used /\ dl_key l n = Some k).
End LfuLitDefs.

(* ------------------------------------------------------------------------------------ *)
(* a node sequence read through the cells, compared with the entries up to permutation   *)
(* ------------------------------------------------------------------------------------ *)
Section PermReads.
  Context {K : Type} `{EqDec K} {V : Type}.
  Local Open Scope list_scope.
  Local Open Scope nat_scope.

  (* an entry of the mid-level age list without its stamp *)
  Definition pj (x : K * (V * Z)) : option (K * V) := Some (fst x, fst (snd x)).

  Lemma perm_remk {A : Type} k (a : A) (l : list (K * A)) : NoDup (keys l) -> In (k, a) l ->
    Permutation l ((k, a) :: remk k l).
  Proof.
    induction l as [|[k' a'] r IH]; intros N I; [destruct I|].
    simpl in N. inversion N as [|y q Hni Hnd]; subst. simpl.
    destruct (Base.eqb_spec k k') as [E|NE].
    - subst k'. destruct I as [I|I].
      + inversion I; subst a'. rewrite remk_notin by exact Hni. reflexivity.
      + exfalso. apply Hni. eapply in_pair_keys. exact I.
    - destruct I as [I|I]; [inversion I; congruence|].
      eapply perm_trans; [apply perm_skip; apply IH; auto|]. apply perm_swap.
  Qed.

  Variable f : nat -> option (K * V).

  Lemma preads_in ns (items : list (K * (V * Z))) n k v :
    Permutation (map f ns) (map pj items) -> In n ns -> f n = Some (k, v) ->
    exists z, In (k, (v, z)) items.
  Proof.
    intros P I Fn. assert (I' : In (f n) (map f ns)) by (apply in_map; auto).
    eapply Permutation_in in I'; [|exact P]. rewrite Fn in I'.
    apply in_map_iff in I'. destruct I' as ([k' [v' z]] & Ex & Ix).
    unfold pj in Ex. simpl in Ex. inversion Ex; subst. eauto.
  Qed.

  Lemma preads_in_inv ns (items : list (K * (V * Z))) k v z :
    Permutation (map f ns) (map pj items) -> In (k, (v, z)) items ->
    exists n, In n ns /\ f n = Some (k, v).
  Proof.
    intros P I. assert (I' : In (pj (k, (v, z))) (map pj items)) by (apply in_map; auto).
    eapply Permutation_in in I'; [|symmetry; exact P].
    apply in_map_iff in I'. destruct I' as (n & En & In'). exists n. split; auto.
  Qed.

  Lemma preads_some ns (items : list (K * (V * Z))) n :
    Permutation (map f ns) (map pj items) -> In n ns -> exists k v, f n = Some (k, v).
  Proof.
    intros P I. assert (I' : In (f n) (map f ns)) by (apply in_map; auto).
    eapply Permutation_in in I'; [|exact P].
    apply in_map_iff in I'. destruct I' as ([k [v z]] & Ex & Ix). unfold pj in Ex. simpl in Ex. eauto.
  Qed.

  Lemma preads_len ns (items : list (K * (V * Z))) :
    Permutation (map f ns) (map pj items) -> List.length ns = List.length items.
  Proof. intros P. apply Permutation_length in P. rewrite !map_length in P. exact P. Qed.

  Lemma preads_remove ns (items : list (K * (V * Z))) n k v :
    Permutation (map f ns) (map pj items) -> NoDup (keys items) -> In n ns -> f n = Some (k, v) ->
    Permutation (map f (remove_nat n ns)) (map pj (remk k items)).
  Proof.
    intros P Nk I Fn.
    destruct (preads_in _ _ _ _ _ P I Fn) as (z & Iz).
    pose proof (perm_remk k (v, z) items Nk Iz) as P1.
    pose proof (perm_remove_nat n ns I) as P2.
    assert (P3 : Permutation (map f (n :: remove_nat n ns)) (map pj ((k, (v, z)) :: remk k items))).
    { eapply perm_trans; [apply Permutation_map; exact P2|].
      eapply perm_trans; [exact P|]. apply Permutation_map. exact P1. }
    simpl in P3. rewrite Fn in P3. unfold pj at 1 in P3. simpl in P3.
    eapply Permutation_cons_inv. exact P3.
  Qed.
End PermReads.

(* ------------------------------------------------------------------------------------ *)
(* the representation relation with the decomposition  list = used ++ free  explicit      *)
(* ------------------------------------------------------------------------------------ *)
Section FuRepFacts.
  Context {K V : Type} `{EqDec K}.
  Local Open Scope list_scope.
  Local Open Scope nat_scope.

  Definition fe (cs : list (dcell K V)) (n : nat) : option (K * V) :=
    match nth_error cs n with
    | Some {| dc_keyed := Some k; dc_lfu := _; dc_age := _; dc_val := Some v |} => Some (k, v)
    | _ => None
    end.

  Record frep (l : lfdl K V) (s : lf K V) (used free : list nat) : Prop := {
    f_list : dl_list l = used ++ free;
    f_end : dl_end l = l_begin free;
    f_cap : dl_cap l = lf_cap s;
    f_clen : List.length (dl_cells l) = lf_cap s;
    f_nd : NoDup (used ++ free);
    f_llen : List.length (used ++ free) = lf_cap s;
    f_bnd : forall n, In n (used ++ free) -> n < lf_cap s;
    f_used : dl_used l = List.length used;
    f_ixlen : List.length (dl_index l) = List.length used;
    f_ixnd : NoDup (keys (dl_index l));
    f_ents : Permutation (map (fe (dl_cells l)) used) (map pj (lf_ents s));
    f_mm : rdmm (kf (dl_cells l)) (dl_mm l) = map (@Some (nat * K)) (lf_ord s);
    f_mmnd : NoDup (map snd (dl_mm l));
    f_mmused : forall n, In n used <-> In n (map snd (dl_mm l));
    f_cell : forall n k v, In n used -> fe (dl_cells l) n = Some (k, v) ->
               assoc k (dl_index l) = Some n /\
               exists c, nth_error (dl_cells l) n = Some c /\ dc_lfu c = Some n;
    f_ix : forall k n, assoc k (dl_index l) = Some n -> In n used /\ kf (dl_cells l) n = Some k
  }.

  Lemma frep_intro l s used free : frep l s used free -> fu_rep l s.
  Proof.
    intros R. destruct R. exists used, free.
    rewrite f_list0. split; [reflexivity|].
    repeat (split; [assumption|]). assumption.
  Qed.

  Lemma frep_elim l s : fu_rep l s -> exists used free, frep l s used free.
  Proof.
    intros (used & free & H1 & H2 & H3 & H7 & H8 & H9 & H10 & H11 & H12 & H13 & H14 &
            H15 & H16 & H17 & H18 & H19).
    exists used, free. rewrite H1 in H8, H9, H10.
    constructor; assumption.
  Qed.

  Lemma fe_cell cs n k lf a v :
    nth_error cs n = Some {| dc_keyed := Some k; dc_lfu := lf; dc_age := a; dc_val := Some v |} ->
    fe cs n = Some (k, v).
  Proof. intros E. unfold fe. rewrite E. reflexivity. Qed.

  Lemma fe_inv cs n k v : fe cs n = Some (k, v) ->
    exists lf a, nth_error cs n = Some {| dc_keyed := Some k; dc_lfu := lf; dc_age := a; dc_val := Some v |}.
  Proof.
    unfold fe. destruct (nth_error cs n) as [[[k'|] lf a' [v'|]]|]; intros E; inversion E; subst. eauto.
  Qed.

  Lemma fe_ext cs cs' n : nth_error cs' n = nth_error cs n -> fe cs' n = fe cs n.
  Proof. intros E. unfold fe. rewrite E. reflexivity. Qed.

  Lemma fe_mkcell cs n k m a v : nth_error cs n = Some (mkcell k m a v) -> fe cs n = Some (k, v).
  Proof. intros E. unfold fe. rewrite E. reflexivity. Qed.

  (* a used node: its cell, its index entry, its entry *)
  Lemma fu_used_cell l s used free n : frep l s used free -> In n used ->
    exists k v a, nth_error (dl_cells l) n = Some (mkcell k n a v) /\
                  assoc k (dl_index l) = Some n /\ exists z, In (k, (v, z)) (lf_ents s).
  Proof.
    intros R I.
    destruct (preads_some _ _ _ _ (f_ents _ _ _ _ R) I) as (k & v & E).
    destruct (f_cell _ _ _ _ R n k v I E) as (Ei & c & Ec & El).
    destruct (fe_inv _ _ _ _ E) as (lf & a & Ec').
    exists k, v, a. split; [|split; [exact Ei|]].
    - rewrite Ec' in Ec. inversion Ec; subst c. simpl in El. subst lf. exact Ec'.
    - eapply preads_in; [exact (f_ents _ _ _ _ R)|exact I|exact E].
  Qed.

  Lemma fu_used_key l s used free n k : frep l s used free -> In n used -> kf (dl_cells l) n = Some k ->
    exists v a, nth_error (dl_cells l) n = Some (mkcell k n a v) /\
                assoc k (dl_index l) = Some n /\ exists z, In (k, (v, z)) (lf_ents s).
  Proof.
    intros R I Kn. destruct (fu_used_cell _ _ _ _ _ R I) as (k' & v & a & Ec & Ei & Ie).
    rewrite (kf_cell _ _ _ Ec) in Kn. simpl in Kn. inversion Kn; subst k'. eauto.
  Qed.

  Lemma fu_used_inj l s used free x n k : frep l s used free -> In x used -> In n used ->
    kf (dl_cells l) x = Some k -> kf (dl_cells l) n = Some k -> x = n.
  Proof.
    intros R Ix In' Kx Kn.
    destruct (fu_used_key _ _ _ _ _ _ R Ix Kx) as (_ & _ & _ & E1 & _).
    destruct (fu_used_key _ _ _ _ _ _ R In' Kn) as (_ & _ & _ & E2 & _).
    congruence.
  Qed.

  Lemma frep_nodup_used l s used free : frep l s used free -> NoDup used.
  Proof. intros R. eapply nodup_app_l. exact (f_nd _ _ _ _ R). Qed.

  Lemma frep_len l s used free : frep l s used free -> List.length used = List.length (lf_ents s).
  Proof. intros R. eapply preads_len. exact (f_ents _ _ _ _ R). Qed.

  Lemma frep_lookup l s used free k n : frep l s used free -> NoDup (keys (lf_ents s)) ->
    assoc k (dl_index l) = Some n ->
    In n used /\ exists v a z, nth_error (dl_cells l) n = Some (mkcell k n a v) /\
                               assoc k (lf_ents s) = Some (v, z).
  Proof.
    intros R Nk E. destruct (f_ix _ _ _ _ R k n E) as [I Kn]. split; auto.
    destruct (fu_used_key _ _ _ _ _ _ R I Kn) as (v & a & Ec & _ & z & Ie).
    exists v, a, z. split; auto. apply In_assoc; auto.
  Qed.

  Lemma frep_lookup_none l s used free k : frep l s used free ->
    assoc k (dl_index l) = None -> assoc k (lf_ents s) = None.
  Proof.
    intros R E. destruct (assoc k (lf_ents s)) as [[v z]|] eqn:Ea; auto. exfalso.
    apply assoc_In in Ea.
    destruct (preads_in_inv _ _ _ _ _ _ (f_ents _ _ _ _ R) Ea) as (n & I & Fn).
    destruct (f_cell _ _ _ _ R n k v I Fn) as (Ei & _). congruence.
  Qed.

  (* the use count of a used node *)
  Lemma frep_count l s used free n k : frep l s used free -> In n used -> kf (dl_cells l) n = Some k ->
    exists c, mm_count n (dl_mm l) = Some c /\ assoc2 k (lf_ord s) = Some c.
  Proof.
    intros R I Kn.
    destruct (mm_count_in n (dl_mm l)) as (c & Ec). { apply (f_mmused _ _ _ _ R). exact I. }
    exists c. split; auto. rewrite <- Ec. symmetry.
    eapply rdmm_count; [exact Kn| |exact (f_mm _ _ _ _ R)].
    intros x Ix Kx. eapply fu_used_inj; eauto. apply (f_mmused _ _ _ _ R). exact Ix.
  Qed.

  (* node n (key k) is accessed: it stays where it is in the list, its cell is rewritten with
     the same key, its multimap pair re-emplaced with count c' *)
  Lemma frep_refile l s used free n k cs' c' ents' :
    frep l s used free -> In n used -> kf (dl_cells l) n = Some k ->
    List.length cs' = lf_cap s ->
    (exists a v, nth_error cs' n = Some (mkcell k n a v)) ->
    (forall m, m <> n -> nth_error cs' m = nth_error (dl_cells l) m) ->
    Permutation (map (fe cs') used) (map pj ents') ->
    frep {| dl_cap := dl_cap l; dl_tick := dl_tick l; dl_rnum := dl_rnum l; dl_rk := dl_rk l;
            dl_list := dl_list l; dl_cells := cs'; dl_end := dl_end l; dl_index := dl_index l;
            dl_mm := mm_emplace c' n (mm_remove n (dl_mm l)); dl_used := dl_used l |}
         (lf_with s (ord_insert c' k (rem2 k (lf_ord s))) ents') used free.
  Proof.
    intros R I Kn Hlen (a' & v' & Hn) Hm Hents.
    destruct (fu_used_key _ _ _ _ _ _ R I Kn) as (v0 & a0 & Ec0 & Ei0 & Ie0).
    assert (KF : forall m, kf cs' m = kf (dl_cells l) m).
    { intros m. destruct (Nat.eq_dec m n) as [E|N].
      - subst m. rewrite (kf_cell _ _ _ Hn), Kn. reflexivity.
      - apply kf_ext. apply Hm. exact N. }
    assert (IM : forall x, In x (map snd (mm_emplace c' n (mm_remove n (dl_mm l)))) <->
                           x = n \/ (In x (map snd (dl_mm l)) /\ x <> n)).
    { intros x. split.
      - intros Ix. eapply Permutation_in in Ix; [|apply perm_mm_emplace].
        destruct Ix as [E|Ix]; [left; auto|right].
        rewrite snd_mm_remove in Ix. apply in_remove_nat in Ix; [exact Ix|exact (f_mmnd _ _ _ _ R)].
      - intros Ix. eapply Permutation_in; [symmetry; apply perm_mm_emplace|].
        destruct Ix as [E|Ix]; [left; auto|right].
        rewrite snd_mm_remove. apply in_remove_nat; [exact (f_mmnd _ _ _ _ R)|exact Ix]. }
    constructor; cbn [dl_cap dl_tick dl_rnum dl_rk dl_list dl_cells dl_end dl_index dl_mm dl_used
                      lf_with lf_cap lf_tick lf_rnum lf_rk lf_ord lf_ents].
    - exact (f_list _ _ _ _ R).
    - exact (f_end _ _ _ _ R).
    - exact (f_cap _ _ _ _ R).
    - exact Hlen.
    - exact (f_nd _ _ _ _ R).
    - exact (f_llen _ _ _ _ R).
    - exact (f_bnd _ _ _ _ R).
    - exact (f_used _ _ _ _ R).
    - exact (f_ixlen _ _ _ _ R).
    - exact (f_ixnd _ _ _ _ R).
    - exact Hents.
    - rewrite (rdmm_ext (kf cs') (kf (dl_cells l))) by (intros; apply KF).
      apply rdmm_emplace; [exact Kn|].
      apply rdmm_remove; [exact Kn| |exact (f_mmnd _ _ _ _ R)|exact (f_mm _ _ _ _ R)].
      intros x Ix Kx. eapply fu_used_inj; eauto. apply (f_mmused _ _ _ _ R). exact Ix.
    - eapply Permutation_NoDup; [symmetry; apply perm_mm_emplace|].
      rewrite snd_mm_remove. constructor.
      + intros X. apply in_remove_nat in X; [|exact (f_mmnd _ _ _ _ R)]. destruct X as [_ X]. auto.
      + apply nodup_remove_nat. exact (f_mmnd _ _ _ _ R).
    - intros x. rewrite IM. rewrite <- (f_mmused _ _ _ _ R). split.
      + intros Ix. destruct (Nat.eq_dec x n) as [E|N]; [left; auto|right]. split; auto.
      + intros [E|[Ix _]]; [subst; auto|auto].
    - intros m k0 v0' Im Em.
      destruct (Nat.eq_dec m n) as [E|N].
      + subst m. rewrite (fe_mkcell _ _ _ _ _ _ Hn) in Em. inversion Em; subst k0 v0'.
        split; [exact Ei0|]. exists (mkcell k n a' v'). split; auto.
      + rewrite (fe_ext (dl_cells l) cs' m (Hm m N)) in Em.
        destruct (f_cell _ _ _ _ R m k0 v0' Im Em) as (Ea & c & Ec & El).
        split; auto. exists c. rewrite Hm by exact N. auto.
    - intros k0 m Em. destruct (f_ix _ _ _ _ R k0 m Em) as [Im Km]. split; [exact Im|].
      rewrite KF. exact Km.
  Qed.

  (* node n (key k) is released: it becomes the first free node *)
  Lemma frep_erase l s used free n k L :
    frep l s used free -> NoDup (keys (lf_ents s)) -> In n used -> kf (dl_cells l) n = Some k ->
    L = remove_nat n used ++ n :: free ->
    frep {| dl_cap := dl_cap l; dl_tick := dl_tick l; dl_rnum := dl_rnum l; dl_rk := dl_rk l;
            dl_list := L; dl_cells := dl_cells l; dl_end := It n; dl_index := remk k (dl_index l);
            dl_mm := mm_remove n (dl_mm l); dl_used := dl_used l - 1 |}
         (lf_erase_key s k) (remove_nat n used) (n :: free).
  Proof.
    intros R Nk I Kn EL.
    pose proof (frep_nodup_used _ _ _ _ R) as Nu.
    destruct (fu_used_key _ _ _ _ _ _ R I Kn) as (v0 & a0 & Ec0 & Ei0 & Ie0).
    assert (P1 : Permutation (n :: remove_nat n used) used) by (apply perm_remove_nat; auto).
    assert (P : Permutation (remove_nat n used ++ n :: free) (used ++ free)).
    { eapply perm_trans; [symmetry; apply Permutation_middle|].
      change (n :: remove_nat n used ++ free) with ((n :: remove_nat n used) ++ free).
      apply Permutation_app_tail. exact P1. }
    assert (L1 : S (List.length (remove_nat n used)) = List.length used).
    { apply Permutation_length in P1. simpl in P1. exact P1. }
    constructor; cbn [dl_cap dl_tick dl_rnum dl_rk dl_list dl_cells dl_end dl_index dl_mm dl_used
                      lf_erase_key lf_with lf_cap lf_tick lf_rnum lf_rk lf_ord lf_ents].
    - exact EL.
    - reflexivity.
    - exact (f_cap _ _ _ _ R).
    - exact (f_clen _ _ _ _ R).
    - eapply Permutation_NoDup; [symmetry; exact P|exact (f_nd _ _ _ _ R)].
    - rewrite (Permutation_length P). exact (f_llen _ _ _ _ R).
    - intros m Im. apply (f_bnd _ _ _ _ R). eapply Permutation_in; eauto.
    - rewrite (f_used _ _ _ _ R). lia.
    - pose proof (length_remk_S k (dl_index l) n (f_ixnd _ _ _ _ R) Ei0) as L2.
      pose proof (f_ixlen _ _ _ _ R). lia.
    - apply NoDup_remk. exact (f_ixnd _ _ _ _ R).
    - eapply preads_remove; [exact (f_ents _ _ _ _ R)|exact Nk|exact I|].
      eapply fe_mkcell. exact Ec0.
    - apply rdmm_remove; [exact Kn| |exact (f_mmnd _ _ _ _ R)|exact (f_mm _ _ _ _ R)].
      intros x Ix Kx. eapply fu_used_inj; eauto. apply (f_mmused _ _ _ _ R). exact Ix.
    - rewrite snd_mm_remove. apply nodup_remove_nat. exact (f_mmnd _ _ _ _ R).
    - intros x. rewrite snd_mm_remove.
      rewrite in_remove_nat by exact Nu. rewrite in_remove_nat by exact (f_mmnd _ _ _ _ R).
      rewrite (f_mmused _ _ _ _ R). tauto.
    - intros m k0 v1 Im Em. apply in_remove_nat in Im; [|exact Nu]. destruct Im as [Im Nmn].
      destruct (f_cell _ _ _ _ R m k0 v1 Im Em) as (Ea & c & Ec & El).
      split; [|eauto]. rewrite assoc_remk_other; auto.
      intros Ek. subst k0. rewrite Ei0 in Ea. inversion Ea. auto.
    - intros k0 m Em. destruct (Base.eqb_spec k0 k) as [Ek|Nkk].
      { subst k0. rewrite assoc_remk_same in Em. discriminate. }
      rewrite assoc_remk_other in Em by auto.
      destruct (f_ix _ _ _ _ R k0 m Em) as [Im Km]. split; auto.
      apply in_remove_nat; auto. split; auto. intros Emn; subst m. congruence.
  Qed.

  (* the first free node n is claimed for (k, v); its stamp field keeps whatever it held *)
  Lemma frep_claim l s used n free' k v a now :
    frep l s used (n :: free') -> assoc k (dl_index l) = None ->
    frep {| dl_cap := dl_cap l; dl_tick := dl_tick l; dl_rnum := dl_rnum l; dl_rk := dl_rk l;
            dl_list := dl_list l; dl_cells := upd_nth n (mkcell k n a v) (dl_cells l);
            dl_end := l_begin free'; dl_index := dl_index l ++ [(k, n)];
            dl_mm := mm_emplace 1 n (dl_mm l); dl_used := S (dl_used l) |}
         (lf_with s (ord_insert 1 k (lf_ord s)) (lf_ents s ++ [(k, (v, now))])) (used ++ [n]) free'.
  Proof.
    intros R E.
    pose proof (frep_nodup_used _ _ _ _ R) as Nu.
    assert (EA : (used ++ [n]) ++ free' = used ++ n :: free') by (rewrite <- app_assoc; reflexivity).
    assert (Nn : ~ In n used).
    { pose proof (f_nd _ _ _ _ R) as N. apply NoDup_remove_2 in N. intros I. apply N.
      apply in_or_app; auto. }
    assert (Hn : n < List.length (dl_cells l)).
    { rewrite (f_clen _ _ _ _ R). apply (f_bnd _ _ _ _ R). apply in_or_app. right; left; auto. }
    assert (Nm : ~ In n (map snd (dl_mm l))).
    { intros I. apply Nn. apply (f_mmused _ _ _ _ R). exact I. }
    assert (KF : forall m, m <> n -> kf (upd_nth n (mkcell k n a v) (dl_cells l)) m = kf (dl_cells l) m).
    { intros m N. apply kf_ext. apply nth_error_upd_neq. exact N. }
    assert (KN : kf (upd_nth n (mkcell k n a v) (dl_cells l)) n = Some k).
    { rewrite (kf_cell _ _ _ (nth_error_upd_eq _ _ _ _ Hn)). reflexivity. }
    constructor; cbn [dl_cap dl_tick dl_rnum dl_rk dl_list dl_cells dl_end dl_index dl_mm dl_used
                      lf_with lf_cap lf_tick lf_rnum lf_rk lf_ord lf_ents].
    - rewrite EA. exact (f_list _ _ _ _ R).
    - reflexivity.
    - exact (f_cap _ _ _ _ R).
    - rewrite upd_nth_len. exact (f_clen _ _ _ _ R).
    - rewrite EA. exact (f_nd _ _ _ _ R).
    - rewrite EA. exact (f_llen _ _ _ _ R).
    - rewrite EA. exact (f_bnd _ _ _ _ R).
    - rewrite app_length. simpl. rewrite (f_used _ _ _ _ R). lia.
    - rewrite !app_length. simpl. rewrite (f_ixlen _ _ _ _ R). lia.
    - rewrite keys_app. simpl. apply NoDup_snoc; [exact (f_ixnd _ _ _ _ R)|].
      apply assoc_None_iff. exact E.
    - rewrite !map_app. apply Permutation_app.
      + eapply perm_trans; [|exact (f_ents _ _ _ _ R)].
        apply Permutation_refl'. apply map_ext_in. intros m Im. apply fe_ext.
        apply nth_error_upd_neq. intros Emn; subst; auto.
      + simpl. apply Permutation_refl'. f_equal.
        eapply fe_mkcell. apply nth_error_upd_eq. exact Hn.
    - apply rdmm_emplace; [exact KN|].
      rewrite (rdmm_ext _ (kf (dl_cells l))); [exact (f_mm _ _ _ _ R)|].
      intros x Ix. apply KF. intros Exn; subst; auto.
    - eapply Permutation_NoDup; [symmetry; apply perm_mm_emplace|].
      constructor; [exact Nm|exact (f_mmnd _ _ _ _ R)].
    - intros x. rewrite in_app_iff. simpl. split.
      + intros Ix. eapply Permutation_in; [symmetry; apply perm_mm_emplace|].
        destruct Ix as [Ix|[Ix|[]]]; [right; apply (f_mmused _ _ _ _ R); auto|left; auto].
      + intros Ix. eapply Permutation_in in Ix; [|apply perm_mm_emplace].
        destruct Ix as [Ix|Ix]; [right; left; auto|left; apply (f_mmused _ _ _ _ R); auto].
    - intros m k0 v0 Im Em. apply in_app_or in Im. destruct Im as [Im|[Im|[]]].
      + assert (Nmn : m <> n) by (intros Emn; subst; auto).
        rewrite (fe_ext (dl_cells l)) in Em by (apply nth_error_upd_neq; exact Nmn).
        destruct (f_cell _ _ _ _ R m k0 v0 Im Em) as (Ea & c & Ec & El).
        split.
        * rewrite assoc_app, Ea. reflexivity.
        * exists c. rewrite nth_error_upd_neq by exact Nmn. auto.
      + subst m. rewrite (fe_mkcell _ _ _ _ _ _ (nth_error_upd_eq _ _ _ _ Hn)) in Em.
        inversion Em; subst k0 v0. split.
        * rewrite assoc_app, E. simpl. rewrite LfudaFacts.eqb_rfl. reflexivity.
        * exists (mkcell k n a v). split; [apply nth_error_upd_eq; exact Hn|reflexivity].
    - intros k0 m Em. rewrite assoc_app in Em.
      destruct (assoc k0 (dl_index l)) as [m0|] eqn:A0.
      + inversion Em; subst m0. destruct (f_ix _ _ _ _ R k0 m A0) as [Im Km]. split.
        * apply in_or_app; auto.
        * rewrite KF; auto. intros Emn; subst; auto.
      + simpl in Em. destruct (Base.eqb_spec k0 k) as [Ek|Nk]; [|discriminate].
        inversion Em; subst m k0. split; [apply in_or_app; right; left; auto|exact KN].
  Qed.
End FuRepFacts.

(* ------------------------------------------------------------------------------------ *)
(* the do_* helpers (da = false)                                                         *)
(* ------------------------------------------------------------------------------------ *)
Section FuOpFacts.
  Context {K V : Type} `{EqDec K}.
  Local Open Scope list_scope.
  Local Open Scope nat_scope.

  Lemma lfu_lf_inv t (s : lf K V) : lfu_inv t s -> lf_inv 0 s.
  Proof. intros (I & _). exact I. Qed.

  Lemma lfu_nodup t (s : lf K V) : lfu_inv t s -> NoDup (keys (lf_ents s)).
  Proof. intros ((_ & _ & X & _) & _). exact X. Qed.

  (* do_access on a used node: the computation (the list is not touched, the stamp is kept) *)
  Lemma fu_access_ok (s : lfdl K V) n e k c now :
    In n (dl_list s) ->
    nth_error (dl_cells s) n = Some e -> dc_lfu e = Some n -> dc_keyed e = Some k ->
    assoc k (dl_index s) = Some n -> mm_count n (dl_mm s) = Some c ->
    dl_access false s n now =
      Ok {| dl_cap := dl_cap s; dl_tick := dl_tick s; dl_rnum := dl_rnum s; dl_rk := dl_rk s;
            dl_list := dl_list s;
            dl_cells := upd_nth n {| dc_keyed := dc_keyed e; dc_lfu := Some n; dc_age := dc_age e;
                                     dc_val := dc_val e |} (dl_cells s);
            dl_end := dl_end s; dl_index := dl_index s;
            dl_mm := mm_emplace (S c) n (mm_remove n (dl_mm s)); dl_used := dl_used s |}.
  Proof.
    intros Il Ec El Ek Ei Em.
    assert (Hn : n < List.length (dl_cells s)) by (apply nth_error_Some; congruence).
    unfold dl_access. rewrite (dcell_of_ok s n e Il Ec). cbn [bind].
    unfold mm_deref, mm_erase. rewrite El, Em. cbn [bind].
    unfold keyed_second. rewrite Ek, Ei. cbn [bind].
    rewrite vset_ok by exact Hn. reflexivity.
  Qed.

  (* do_access of node n (key k), its cell possibly rewritten with a new value before *)
  Lemma fu_access_ref (l : lfdl K V) (s : lf K V) used free n k v0 a v cs0 now :
    frep l s used free -> NoDup (keys (lf_ents s)) -> In n used ->
    nth_error (dl_cells l) n = Some (mkcell k n a v0) ->
    List.length cs0 = lf_cap s -> nth_error cs0 n = Some (mkcell k n a v) ->
    (forall m, m <> n -> nth_error cs0 m = nth_error (dl_cells l) m) ->
    exists l', dl_access false (with_cells l cs0) n now = Ok l' /\
               frep l' (lf_access s k v 0) used free /\
               dl_index l' = dl_index l.
  Proof.
    intros R Nk I Ec Hlen Hn0 Hm0.
    pose proof (frep_nodup_used _ _ _ _ R) as Nu.
    assert (Kn : kf (dl_cells l) n = Some k) by (rewrite (kf_cell _ _ _ Ec); reflexivity).
    destruct (frep_count _ _ _ _ _ _ R I Kn) as (c & Em & Ea2).
    destruct (fu_used_key _ _ _ _ _ _ R I Kn) as (v1 & a1 & Ec1 & Ei & Ie).
    assert (Il : In n (dl_list (with_cells l cs0))).
    { cbn [with_cells dl_list]. rewrite (f_list _ _ _ _ R). apply in_or_app; auto. }
    pose proof (fu_access_ok (with_cells l cs0) n (mkcell k n a v) k c now
                  Il Hn0 eq_refl eq_refl Ei Em) as HA.
    rewrite HA. eexists. split; [reflexivity|]. split; [|reflexivity].
    cbn [with_cells dl_cap dl_tick dl_rnum dl_rk dl_list dl_cells dl_end dl_index dl_mm dl_used
         mkcell dc_keyed dc_val dc_age].
    unfold lf_access, lf_count. rewrite Ea2.
    assert (Hn : n < List.length cs0) by (apply nth_error_Some; congruence).
    apply (frep_refile l s used free n k _ (S c) _ R I Kn).
    - rewrite upd_nth_len. exact Hlen.
    - exists a, v. apply nth_error_upd_eq. exact Hn.
    - intros m Nm. rewrite nth_error_upd_neq by exact Nm. apply Hm0. exact Nm.
    - set (cs' := upd_nth n _ cs0).
      assert (Fn : fe cs' n = Some (k, v)).
      { eapply fe_cell. unfold cs'. apply nth_error_upd_eq. exact Hn. }
      eapply perm_trans; [apply Permutation_map; symmetry; apply (perm_remove_nat n used I)|].
      simpl map. rewrite Fn. rewrite map_app. simpl map.
      eapply perm_trans; [|apply Permutation_cons_append].
      change (pj (k, (v, 0%Z))) with (Some (k, v)). apply perm_skip.
      erewrite map_ext_in.
      + eapply preads_remove; [exact (f_ents _ _ _ _ R)|exact Nk|exact I|].
        eapply fe_mkcell. exact Ec.
      + intros m Im. apply in_remove_nat in Im; [|exact Nu]. destruct Im as [_ Nm].
        apply fe_ext. unfold cs'. rewrite nth_error_upd_neq by exact Nm. apply Hm0. exact Nm.
  Qed.

  (* do_erase of the used node n holding key k *)
  Lemma fu_erase_ref (l : lfdl K V) (s : lf K V) used free n k :
    frep l s used free -> NoDup (keys (lf_ents s)) -> In n used -> kf (dl_cells l) n = Some k ->
    exists l', dl_do_erase l n = Ok l' /\
               frep l' (lf_erase_key s k) (remove_nat n used) (n :: free).
  Proof.
    intros R Nk I Kn.
    destruct (frep_count _ _ _ _ _ _ R I Kn) as (c & Em & Ea2).
    destruct (fu_used_key _ _ _ _ _ _ R I Kn) as (v1 & a1 & Ec1 & Ei & Ie).
    rewrite (dl_do_erase_ok l used free n (mkcell k n a1 v1) k c
               (f_list _ _ _ _ R) (f_end _ _ _ _ R) (f_nd _ _ _ _ R) I Ec1 eq_refl eq_refl Ei Em
               (f_used _ _ _ _ R)).
    eexists. split; [reflexivity|].
    apply frep_erase; auto.
  Qed.

  (* do_prune on a non-empty cache: no aging, the multimap's first pair is erased *)
  Lemma fu_prune_ref (l : lfdl K V) (s : lf K V) used free now c kv rest :
    frep l s used free -> NoDup (keys (lf_ents s)) -> used <> [] ->
    lf_ord s = (c, kv) :: rest ->
    exists l' used' n, dl_do_prune false l now = Ok l' /\
       frep l' (lf_erase_key s kv) used' (n :: free).
  Proof.
    intros R Nk Hne HO.
    unfold dl_do_prune.
    assert (C : (0 <? dl_used l) = true).
    { apply Nat.ltb_lt. rewrite (f_used _ _ _ _ R). destruct used; [congruence|simpl; lia]. }
    rewrite C. cbn [bind].
    pose proof (f_mm _ _ _ _ R) as HM. rewrite HO in HM.
    destruct (dl_mm l) as [|[c1 n] mm'] eqn:EM; simpl in HM; [discriminate|].
    injection HM as HM1 HM2.
    assert (Kn : kf (dl_cells l) n = Some kv).
    { destruct (kf (dl_cells l) n); inversion HM1; auto. }
    assert (In1 : In n used). { apply (f_mmused _ _ _ _ R). rewrite EM. left; reflexivity. }
    destruct (fu_erase_ref l _ used free n kv R Nk In1 Kn) as (l' & D' & R').
    exists l', (remove_nat n used), n. split; [exact D'|exact R'].
  Qed.

  (* do_insert when there is a free node *)
  Lemma fu_insert_nonfull (l : lfdl K V) (s : lf K V) used free k v now :
    frep l s used free -> List.length (lf_ents s) < lf_cap s -> assoc k (dl_index l) = None ->
    exists l' used' free', dl_do_insert false l k v now = Ok l' /\
                           frep l' (lf_add s k v 0) used' free'.
  Proof.
    intros R Hlt E. pose proof (frep_len _ _ _ _ R) as Lu.
    destruct free as [|n free'].
    { exfalso. pose proof (f_llen _ _ _ _ R) as X. rewrite app_nil_r in X. lia. }
    assert (Il : In n (dl_list l)).
    { rewrite (f_list _ _ _ _ R). apply in_or_app. right; left; reflexivity. }
    assert (Nn : ~ In n used).
    { pose proof (f_nd _ _ _ _ R) as N. apply NoDup_remove_2 in N. intros I. apply N.
      apply in_or_app; auto. }
    assert (Hn : n < List.length (dl_cells l)).
    { rewrite (f_clen _ _ _ _ R). apply (f_bnd _ _ _ _ R). apply in_or_app. right; left; auto. }
    destruct (nth_error (dl_cells l) n) as [e|] eqn:Ec; [|apply nth_error_None in Ec; lia].
    assert (C1 : (List.length (dl_list l) <=? dl_used l) = false).
    { apply Nat.leb_gt. rewrite (f_list _ _ _ _ R), (f_llen _ _ _ _ R), (f_used _ _ _ _ R). lia. }
    assert (D1 : dcell_of l (dl_end l) = Ok (n, e)).
    { rewrite (f_end _ _ _ _ R). simpl l_begin. apply dcell_of_ok; auto. }
    assert (C2 : (List.length (dl_index l) <? dl_cap l) = true).
    { apply Nat.ltb_lt. rewrite (f_ixlen _ _ _ _ R), (f_cap _ _ _ _ R). lia. }
    assert (D2 : l_next (dl_list l) (dl_end l) = Ok (l_begin free')).
    { rewrite (f_end _ _ _ _ R). simpl l_begin. unfold l_next. rewrite (mem_nat_in _ _ Il).
      rewrite (f_list _ _ _ _ R), after_app by exact Nn. reflexivity. }
    unfold dl_do_insert. rewrite C1. cbn [bind]. rewrite D1. cbn [bind].
    unfold index_emplace. rewrite C2. cbn [bind]. rewrite vset_ok by exact Hn. cbn [bind].
    rewrite D2. cbn [bind].
    eexists. exists (used ++ [n]), free'. split; [reflexivity|].
    exact (frep_claim l s used n free' k v (dc_age e) 0%Z R E).
  Qed.

  Lemma frep_ix_none (l : lfdl K V) (s : lf K V) used free k :
    frep l s used free -> ~ In k (keys (lf_ents s)) -> assoc k (dl_index l) = None.
  Proof.
    intros R N. destruct (assoc k (dl_index l)) as [n|] eqn:A; auto. exfalso.
    destruct (f_ix _ _ _ _ R k n A) as [I Kn].
    destruct (fu_used_key _ _ _ _ _ _ R I Kn) as (v & a & _ & _ & z & Ie).
    apply N. eapply in_pair_keys. exact Ie.
  Qed.

  (* do_insert_update *)
  Lemma fu_ins_ref t (l : lfdl K V) (s : lf K V) k v a now :
    lfu_inv t s -> fu_rep l s ->
    exists l', dl_ins false l k v a now = Ok (l', snd (lf_ins s k v a 0)) /\
               fu_rep l' (fst (lf_ins s k v a 0)).
  Proof.
    intros IU Rp. destruct (frep_elim _ _ Rp) as (used & free & R).
    pose proof (lfu_lf_inv t s IU) as Inv. pose proof (lfu_nodup t s IU) as Nk.
    pose proof (lfu_dyn_age_id t s IU) as EDA.
    destruct (lf_ins s k v a 0) as [s' b] eqn:EI. cbn [fst snd].
    unfold dl_ins. destruct (assoc k (dl_index l)) as [n|] eqn:A.
    - destruct (frep_lookup _ _ _ _ _ _ R Nk A) as (I & v0 & a0 & z0 & Ec & EA).
      unfold lf_ins in EI. rewrite EA in EI. destruct (a_upd a).
      + inversion EI; subst s' b. clear EI.
        assert (Il : In n (dl_list l)) by (rewrite (f_list _ _ _ _ R); apply in_or_app; auto).
        assert (Hn : n < List.length (dl_cells l)) by (apply nth_error_Some; congruence).
        destruct (fu_access_ref l s used free n k v0 a0 v (upd_nth n (mkcell k n a0 v) (dl_cells l)) now
                    R Nk I Ec) as (l' & D & R' & _).
        { rewrite upd_nth_len. exact (f_clen _ _ _ _ R). }
        { apply nth_error_upd_eq. exact Hn. }
        { intros m Nm. apply nth_error_upd_neq. exact Nm. }
        unfold dl_do_update. rewrite (dcell_of_ok l n _ Il Ec). cbn [bind].
        rewrite vset_ok by exact Hn. cbn [bind mkcell dc_keyed dc_lfu dc_age dc_val].
        unfold mkcell in D. rewrite D. cbn [bind].
        exists l'. split; [reflexivity|]. eapply frep_intro; eauto.
      + inversion EI; subst s' b. exists l. auto.
    - pose proof (frep_lookup_none _ _ _ _ _ R A) as EA.
      assert (HG : lf_get s k = None) by (apply lf_get_None; exact EA).
      destruct (lf_ins_cases 0 s k v a 0 s' b Inv (Z.le_refl 0) EI)
        as [(HG' & _)|[(HB & ES & HC)|[(_ & HI & HB & HSz & ES)|(_ & HI & HB & HSz & c & kv & rest & HO & ES)]]].
      + congruence.
      + destruct HC as [(HG' & _)|(_ & HI)]; [congruence|]. rewrite HI. subst s' b. exists l. auto.
      + rewrite HI. subst s' b. unfold lf_size in HSz.
        destruct (fu_insert_nonfull l s used free k v now R HSz A) as (l' & u' & f' & D & R').
        rewrite D. cbn [bind]. exists l'. split; [reflexivity|]. eapply frep_intro; eauto.
      + rewrite HI. subst s' b.
        destruct (lf_evict_facts 0 s k 0 c kv rest Inv (Z.le_refl 0) HSz HG HO)
          as (I1 & G1 & I2 & Nk2 & Hlen2 & Hcap2 & _).
        rewrite EDA in HO, I2, Nk2, Hlen2, Hcap2. cbn [fst] in HO, I2, Nk2, Hlen2, Hcap2.
        rewrite EDA. cbn [fst].
        pose proof (frep_len _ _ _ _ R) as Lu. unfold lf_size in HSz.
        assert (Hne : used <> []).
        { intros X. subst used. simpl in Lu. destruct Inv as (Hc & _). lia. }
        destruct (fu_prune_ref l s used free now c kv rest R Nk Hne HO) as (l1 & u1 & n1 & D1 & R1).
        set (s2 := lf_erase_key s kv) in *.
        assert (A1 : assoc k (dl_index l1) = None) by (eapply frep_ix_none; eauto).
        assert (Hlt : List.length (lf_ents s2) < lf_cap s2) by lia.
        destruct (fu_insert_nonfull l1 s2 u1 (n1 :: free) k v now R1 Hlt A1) as (l' & u' & f' & D & R').
        assert (DI : dl_do_insert false l k v now = dl_do_insert false l1 k v now).
        { unfold dl_do_insert.
          assert (Ca : (List.length (dl_list l) <=? dl_used l) = true).
          { apply Nat.leb_le. rewrite (f_list _ _ _ _ R), (f_llen _ _ _ _ R), (f_used _ _ _ _ R). lia. }
          assert (Cb : (List.length (dl_list l1) <=? dl_used l1) = false).
          { apply Nat.leb_gt. rewrite (f_list _ _ _ _ R1), (f_llen _ _ _ _ R1), (f_used _ _ _ _ R1).
            rewrite (frep_len _ _ _ _ R1). exact Hlt. }
          rewrite Ca, Cb, D1. reflexivity. }
        rewrite DI, D. cbn [bind]. exists l'. split; [reflexivity|]. eapply frep_intro; eauto.
  Qed.

  (* erase(key) *)
  Lemma fu_erase_key_ref t (l : lfdl K V) (s : lf K V) k :
    lfu_inv t s -> fu_rep l s ->
    exists l', dl_erase l k = Ok (l', snd (lf_erase s k)) /\ fu_rep l' (fst (lf_erase s k)).
  Proof.
    intros IU Rp. destruct (frep_elim _ _ Rp) as (used & free & R).
    pose proof (lfu_nodup t s IU) as Nk.
    unfold dl_erase, lf_erase. destruct (assoc k (dl_index l)) as [n|] eqn:A.
    - destruct (frep_lookup _ _ _ _ _ _ R Nk A) as (I & v0 & a0 & z0 & Ec & EA). rewrite EA.
      assert (Kn : kf (dl_cells l) n = Some k) by (rewrite (kf_cell _ _ _ Ec); reflexivity).
      destruct (fu_erase_ref l s used free n k R Nk I Kn) as (l' & D & R').
      rewrite D. cbn [bind fst snd]. exists l'. split; [reflexivity|]. eapply frep_intro; eauto.
    - rewrite (frep_lookup_none _ _ _ _ _ R A). exists l. auto.
  Qed.

  (* reading the node the index gives for a key: its value and its use count *)
  Lemma fu_read_node (l : lfdl K V) (s : lf K V) used free k n :
    frep l s used free -> NoDup (keys (lf_ents s)) -> assoc k (dl_index l) = Some n ->
    exists e v z, dcell_of l (It n) = Ok (n, e) /\ dc_val e = Some v /\
                  mm_deref (dl_mm l) (dc_lfu e) = Ok (lf_count s k) /\
                  assoc k (lf_ents s) = Some (v, z).
  Proof.
    intros R Nk A. destruct (frep_lookup _ _ _ _ _ _ R Nk A) as (I & v0 & a0 & z0 & Ec & EA).
    assert (Kn : kf (dl_cells l) n = Some k) by (rewrite (kf_cell _ _ _ Ec); reflexivity).
    destruct (frep_count _ _ _ _ _ _ R I Kn) as (c & Em & Ea2).
    assert (Il : In n (dl_list l)) by (rewrite (f_list _ _ _ _ R); apply in_or_app; auto).
    exists (mkcell k n a0 v0), v0, z0. split; [apply dcell_of_ok; auto|]. split; [reflexivity|].
    split; [|exact EA]. unfold mm_deref, lf_count. cbn [mkcell dc_lfu]. rewrite Em, Ea2. reflexivity.
  Qed.

  Lemma lfu_access_nodup t (s : lf K V) k v : lfu_inv t s -> In k (keys (lf_ents s)) ->
    NoDup (keys (lf_ents (lf_access s k v 0))).
  Proof.
    intros IU I. pose proof (lfu_lf_inv t s IU) as Inv.
    pose proof (lf_inv_access 0 s k v 0 Inv (Z.le_refl 0) I) as (_ & _ & X & _). exact X.
  Qed.

  (* do_find_with_use_count *)
  Lemma fu_find_use_ref t (l : lfdl K V) (s : lf K V) k pk now :
    lfu_inv t s -> fu_rep l s ->
    exists l', dl_find_use false l k pk now = Ok (l', snd (lf_find_use s k pk 0)) /\
               fu_rep l' (fst (lf_find_use s k pk 0)).
  Proof.
    intros IU Rp. destruct (frep_elim _ _ Rp) as (used & free & R).
    pose proof (lfu_nodup t s IU) as Nk.
    unfold dl_find_use, lf_find_use. destruct (assoc k (dl_index l)) as [n|] eqn:A.
    - destruct (frep_lookup _ _ _ _ _ _ R Nk A) as (I & v0 & a0 & z0 & Ec & EA). rewrite EA.
      destruct pk.
      + cbn [bind fst snd].
        destruct (fu_read_node l s used free k n R Nk A) as (e & v1 & z1 & D1 & Ev & Dm & EA1).
        rewrite D1. cbn [bind]. rewrite Dm. cbn [bind]. rewrite Ev.
        rewrite EA in EA1. inversion EA1; subst v1 z1.
        exists l. split; [reflexivity|exact Rp].
      + destruct (fu_access_ref l s used free n k v0 a0 v0 (dl_cells l) now R Nk I Ec
                    (f_clen _ _ _ _ R) Ec (fun m _ => eq_refl)) as (l' & D & R' & Ex).
        rewrite with_cells_id in D. rewrite D. cbn [bind fst snd].
        assert (Nk1 : NoDup (keys (lf_ents (lf_access s k v0 0)))).
        { apply (lfu_access_nodup t); auto. apply assoc_Some_keys. congruence. }
        assert (A' : assoc k (dl_index l') = Some n) by (rewrite Ex; exact A).
        destruct (fu_read_node l' _ _ free k n R' Nk1 A') as (e & v1 & z1 & D1 & Ev & Dm & EA1).
        rewrite D1. cbn [bind]. rewrite Dm. cbn [bind]. rewrite Ev.
        rewrite ents_access_same in EA1. inversion EA1; subst v1 z1.
        exists l'. split; [reflexivity|]. eapply frep_intro; eauto.
    - rewrite (frep_lookup_none _ _ _ _ _ R A). exists l. auto.
  Qed.

  (* do_find *)
  Lemma fu_find_ref t (l : lfdl K V) (s : lf K V) k pk now :
    lfu_inv t s -> fu_rep l s ->
    exists l', dl_find false l k pk now = Ok (l', snd (lf_find s k pk 0)) /\
               fu_rep l' (fst (lf_find s k pk 0)).
  Proof.
    intros IU Rp. destruct (frep_elim _ _ Rp) as (used & free & R).
    pose proof (lfu_nodup t s IU) as Nk.
    unfold dl_find, lf_find, lf_find_use. destruct (assoc k (dl_index l)) as [n|] eqn:A.
    - destruct (frep_lookup _ _ _ _ _ _ R Nk A) as (I & v0 & a0 & z0 & Ec & EA). rewrite EA.
      destruct pk.
      + cbn [bind fst snd].
        destruct (fu_read_node l s used free k n R Nk A) as (e & v1 & z1 & D1 & Ev & Dm & EA1).
        rewrite D1. cbn [bind snd]. rewrite Ev.
        rewrite EA in EA1. inversion EA1; subst v1 z1.
        exists l. split; [reflexivity|exact Rp].
      + destruct (fu_access_ref l s used free n k v0 a0 v0 (dl_cells l) now R Nk I Ec
                    (f_clen _ _ _ _ R) Ec (fun m _ => eq_refl)) as (l' & D & R' & Ex).
        rewrite with_cells_id in D. rewrite D. cbn [bind fst snd].
        assert (Nk1 : NoDup (keys (lf_ents (lf_access s k v0 0)))).
        { apply (lfu_access_nodup t); auto. apply assoc_Some_keys. congruence. }
        assert (A' : assoc k (dl_index l') = Some n) by (rewrite Ex; exact A).
        destruct (fu_read_node l' _ _ free k n R' Nk1 A') as (e & v1 & z1 & D1 & Ev & Dm & EA1).
        rewrite D1. cbn [bind snd]. rewrite Ev.
        rewrite ents_access_same in EA1. inversion EA1; subst v1 z1.
        exists l'. split; [reflexivity|]. eapply frep_intro; eauto.
    - rewrite (frep_lookup_none _ _ _ _ _ R A). exists l. auto.
  Qed.
End FuOpFacts.

(* ------------------------------------------------------------------------------------ *)
(* range calls                                                                           *)
(* ------------------------------------------------------------------------------------ *)
Section FuRangeFacts.
  Context {K V : Type} `{EqDec K}.
  Local Open Scope list_scope.
  Local Open Scope nat_scope.

  (* [lfu_inv t] depends on [t] only through 0 <= t, and is kept by every single call *)
  Lemma lfu_ins_inv t (s : lf K V) k v a : lfu_inv t s -> lfu_inv t (fst (lf_ins s k v a 0)).
  Proof.
    intros I. destruct (lf_ins s k v a 0) as [s1 b] eqn:E.
    apply (lfu_inv_step t s (Insert 0%Z k v a) t [] s1 (RB b) I (Z.le_refl t) eq_refl).
    simpl. rewrite E. reflexivity.
  Qed.
  Lemma lfu_erase_inv t (s : lf K V) k : lfu_inv t s -> lfu_inv t (fst (lf_erase s k)).
  Proof.
    intros I. destruct (lf_erase s k) as [s1 b] eqn:E.
    apply (lfu_inv_step t s (Erase k) t [] s1 (RB b) I (Z.le_refl t) eq_refl).
    simpl. rewrite E. reflexivity.
  Qed.
  Lemma lfu_find_inv t (s : lf K V) k pk : lfu_inv t s -> lfu_inv t (fst (lf_find s k pk 0)).
  Proof.
    intros I. destruct (lf_find s k pk 0) as [s1 r] eqn:E.
    apply (lfu_inv_step t s (Find k pk) t [] s1 (RO r) I (Z.le_refl t) eq_refl).
    simpl. rewrite E. reflexivity.
  Qed.
  Lemma lfu_find_use_inv t (s : lf K V) k pk : lfu_inv t s -> lfu_inv t (fst (lf_find_use s k pk 0)).
  Proof.
    intros I. destruct (lf_find_use s k pk 0) as [s1 r] eqn:E.
    apply (lfu_inv_step t s (FindUse k pk) t [] s1 (RU r) I (Z.le_refl t) eq_refl).
    simpl. rewrite E. reflexivity.
  Qed.

  Lemma fu_ins_range_ref t now xs : forall (l : lfdl K V) (s : lf K V) a n,
    lfu_inv t s -> fu_rep l s ->
    exists l', dl_ins_range false l xs a now n = Ok (l', snd (lf_ins_range s xs a 0 n)) /\
               fu_rep l' (fst (lf_ins_range s xs a 0 n)) /\
               lfu_inv t (fst (lf_ins_range s xs a 0 n)).
  Proof.
    induction xs as [|[[z k] v] r IH]; intros l s a n I R; simpl.
    - exists l. split; [reflexivity|]. split; [exact R|exact I].
    - destruct (fu_ins_ref t l s k v a now I R) as (l1 & D1 & R1).
      pose proof (lfu_ins_inv t s k v a I) as I1.
      destruct (lf_ins s k v a 0) as [s1 b]. cbn [fst snd] in *.
      rewrite D1. cbn [bind].
      apply (IH l1 s1 a (if b then S n else n) I1 R1).
  Qed.

  Lemma fu_erase_range_ref t ks : forall (l : lfdl K V) (s : lf K V) n,
    lfu_inv t s -> fu_rep l s ->
    exists l', dl_erase_range l ks n = Ok (l', snd (lf_erase_range s ks n)) /\
               fu_rep l' (fst (lf_erase_range s ks n)) /\
               lfu_inv t (fst (lf_erase_range s ks n)).
  Proof.
    induction ks as [|k r IH]; intros l s n I R; simpl.
    - exists l. split; [reflexivity|]. split; [exact R|exact I].
    - destruct (fu_erase_key_ref t l s k I R) as (l1 & D1 & R1).
      pose proof (lfu_erase_inv t s k I) as I1.
      destruct (lf_erase s k) as [s1 b]. cbn [fst snd] in *.
      rewrite D1. cbn [bind].
      apply (IH l1 s1 (if b then S n else n) I1 R1).
  Qed.

  Lemma fu_find_range_ref t now pk ks : forall (l : lfdl K V) (s : lf K V),
    lfu_inv t s -> fu_rep l s ->
    exists l', dl_find_range false l ks pk now = Ok (l', snd (lf_find_range s ks pk 0)) /\
               fu_rep l' (fst (lf_find_range s ks pk 0)) /\
               lfu_inv t (fst (lf_find_range s ks pk 0)).
  Proof.
    induction ks as [|k r IH]; intros l s I R; simpl.
    - exists l. split; [reflexivity|]. split; [exact R|exact I].
    - destruct (fu_find_ref t l s k pk now I R) as (l1 & D1 & R1).
      pose proof (lfu_find_inv t s k pk I) as I1.
      destruct (lf_find s k pk 0) as [s1 o]. cbn [fst snd] in *.
      rewrite D1. cbn [bind].
      destruct (IH l1 s1 I1 R1) as (l2 & D2 & R2 & I2).
      rewrite D2. cbn [bind].
      destruct (lf_find_range s1 r pk 0) as [s2 os]. cbn [fst snd] in *.
      exists l2. split; [reflexivity|]. split; assumption.
  Qed.
End FuRangeFacts.

Section LfuLitFacts.
  Context {K V : Type} `{EqDec K}.

  Theorem fu_rep_init : forall cap, 1 <= cap -> fu_rep (K := K) (V := V) (lfdl_init cap 1 1 0) (lfu_init cap).
  Proof.
    intros cap Hc. apply (frep_intro _ _ [] (seq 0 cap)).
    constructor; unfold lfdl_init, lfu_init, lf_init;
      cbn [dl_cap dl_tick dl_rnum dl_rk dl_list dl_cells dl_end dl_index dl_mm dl_used
           lf_cap lf_tick lf_rnum lf_rk lf_ord lf_ents app map]; try reflexivity.
    - apply repeat_length.
    - apply seq_NoDup.
    - apply seq_length.
    - intros n I. apply in_seq in I. lia.
    - constructor.
    - constructor.
    - intros n k v [].
    - intros k n E. discriminate.
  Qed.

  Lemma fu_rep_sizes (l : lfdl K V) (s : lf K V) : fu_rep l s ->
    dl_used l = lf_size s /\ List.length (dl_list l) = lf_cap s /\ List.length (dl_cells l) = lf_cap s.
  Proof.
    intros Rp. destruct (frep_elim _ _ Rp) as (used & free & R).
    split; [|split].
    - rewrite (f_used _ _ _ _ R). unfold lf_size. apply (frep_len _ _ _ _ R).
    - rewrite (f_list _ _ _ _ R). exact (f_llen _ _ _ _ R).
    - exact (f_clen _ _ _ _ R).
  Qed.

  (* one public call; the invariant [lfu_inv t] is kept for the same t (it mentions t only in 0 <= t) *)
  Lemma fu_step_refines_t : forall t (l : lfdl K V) (s : lf K V) o now rnd,
      lfu_inv t s -> fu_rep l s ->
      exists l', dl_step false l o now rnd = Ok (l', snd (lfu_step s o now rnd)) /\
                 fu_rep l' (fst (lfu_step s o now rnd)) /\ lfu_inv t (fst (lfu_step s o now rnd)).
  Proof.
    intros t l s o now rnd I R.
    destruct (fu_rep_sizes l s R) as (Hsz & Hcap & _).
    destruct o as [ttl k v a|xs a|k|ks|k pk|ks pk|ks pk|k pk| |d| | | | | ]; simpl;
      try (exists l; split; [reflexivity|split; [exact R|exact I]]).
    - destruct (fu_ins_ref t l s k v a now I R) as (l1 & D1 & R1).
      pose proof (lfu_ins_inv t s k v a I) as I1.
      destruct (lf_ins s k v a 0) as [s1 b]. cbn [fst snd] in *.
      rewrite D1. cbn [bind]. exists l1. auto.
    - destruct (fu_ins_range_ref t now xs l s a 0 I R) as (l1 & D1 & R1 & I1).
      destruct (lf_ins_range s xs a 0 0) as [s1 n]. cbn [fst snd] in *.
      rewrite D1. cbn [bind]. exists l1. auto.
    - destruct (fu_erase_key_ref t l s k I R) as (l1 & D1 & R1).
      pose proof (lfu_erase_inv t s k I) as I1.
      destruct (lf_erase s k) as [s1 b]. cbn [fst snd] in *.
      rewrite D1. cbn [bind]. exists l1. auto.
    - destruct (fu_erase_range_ref t ks l s 0 I R) as (l1 & D1 & R1 & I1).
      destruct (lf_erase_range s ks 0) as [s1 n]. cbn [fst snd] in *.
      rewrite D1. cbn [bind]. exists l1. auto.
    - destruct (fu_find_ref t l s k pk now I R) as (l1 & D1 & R1).
      pose proof (lfu_find_inv t s k pk I) as I1.
      destruct (lf_find s k pk 0) as [s1 r]. cbn [fst snd] in *.
      rewrite D1. cbn [bind]. exists l1. auto.
    - destruct (fu_find_range_ref t now pk ks l s I R) as (l1 & D1 & R1 & I1).
      destruct (lf_find_range s ks pk 0) as [s1 r]. cbn [fst snd] in *.
      rewrite D1. cbn [bind]. exists l1. auto.
    - destruct (fu_find_range_ref t now pk ks l s I R) as (l1 & D1 & R1 & I1).
      destruct (lf_find_range s ks pk 0) as [s1 r]. cbn [fst snd] in *.
      rewrite D1. cbn [bind]. exists l1. auto.
    - destruct (fu_find_use_ref t l s k pk now I R) as (l1 & D1 & R1).
      pose proof (lfu_find_use_inv t s k pk I) as I1.
      destruct (lf_find_use s k pk 0) as [s1 r]. cbn [fst snd] in *.
      rewrite D1. cbn [bind]. exists l1. auto.
    - exists l. rewrite Hsz. split; [reflexivity|split; [exact R|exact I]].
    - exists l. rewrite Hsz. split; [reflexivity|split; [exact R|exact I]].
    - exists l. rewrite Hcap. split; [reflexivity|split; [exact R|exact I]].
  Qed.

  Lemma lfu_inv_any : forall t t' (s : lf K V), lfu_inv t s -> (0 <= t')%Z -> lfu_inv t' s.
  Proof. intros t t' s (I & _ & F) L. split; [exact I|]. split; [exact L|exact F]. Qed.

  (* CHANGED w.r.t. the original statement: the hypothesis [(0 <= now)%Z] is added.  Without it
     the third conjunct [lfu_inv now _] is false for now < 0 (lfu_inv t s contains 0 <= t);
     [fu_step_refines_t] above is the variant without any hypothesis on [now] (it concludes
     [lfu_inv t _] for the same t). *)
  Theorem fu_step_refines : forall t (l : lfdl K V) (s : lf K V) o now rnd,
      lfu_inv t s -> (0 <= now)%Z -> fu_rep l s ->
      exists l', dl_step false l o now rnd = Ok (l', snd (lfu_step s o now rnd)) /\
                 fu_rep l' (fst (lfu_step s o now rnd)) /\ lfu_inv now (fst (lfu_step s o now rnd)).
  Proof.
    intros t l s o now rnd I L R.
    destruct (fu_step_refines_t t l s o now rnd I R) as (l' & D & R' & I').
    exists l'. split; [exact D|]. split; [exact R'|]. eapply lfu_inv_any; eauto.
  Qed.

  Fixpoint fu_run (l : lfdl K V) (h : list (ev K V)) : res (lfdl K V * list (ret K V)) :=
    match h with
    | [] => Ok (l, [])
    | e :: r => do x <- dl_step false l (e_op e) (e_now e) (e_rnd e);
                let '(l1, y) := x in
                do z <- fu_run l1 r; let '(l2, ys) := z in Ok (l2, y :: ys)
    end.

  (* no hypothesis on the clock readings is needed: lfu_cache never looks at the clock *)
  Lemma fu_run_refines : forall h t (l : lfdl K V) (s : lf K V),
      lfu_inv t s -> fu_rep l s ->
      exists l', fu_run l h = Ok (l', snd (run lfu_step s h)) /\
                 fu_rep l' (fst (run lfu_step s h)).
  Proof.
    induction h as [|e r IH]; intros t l s I R; simpl.
    - exists l. auto.
    - destruct (fu_step_refines_t t l s (e_op e) (e_now e) (e_rnd e) I R) as (l1 & D1 & R1 & I1).
      rewrite D1. cbn [bind]. unfold step_ev.
      destruct (lfu_step s (e_op e) (e_now e) (e_rnd e)) as [s1 y1]. cbn [fst snd] in *.
      destruct (IH t l1 s1 I1 R1) as (l2 & D2 & R2).
      rewrite D2. cbn [bind].
      destruct (run lfu_step s1 r) as [s2 ys]. cbn [fst snd] in *.
      exists l2. split; [reflexivity|exact R2].
  Qed.

  Theorem fu_no_UB_on_any_history : forall cap h,
      1 <= cap -> Forall (fun e => (0 <= e_now e)%Z) h ->
      exists l', fu_run (lfdl_init cap 1 1 0) h = Ok (l', snd (run lfu_step (lfu_init cap) h)) /\
                 fu_rep l' (fst (run lfu_step (lfu_init cap) h)).
  Proof.
    intros cap h Hc _.
    apply (fu_run_refines h 0%Z).
    - apply lfu_inv_init; auto. lia.
    - apply fu_rep_init; auto.
  Qed.

  Lemma lfu_step_cap : forall (s : lf K V) o now rnd, lf_cap (fst (lfu_step s o now rnd)) = lf_cap s.
  Proof.
    intros s o now rnd.
    destruct (lfu_step_cases s o now rnd) as [[EO E]|[NO E]]; rewrite E; [reflexivity|].
    apply lf_step_cap.
  Qed.

  Lemma lfu_run_cap : forall h (s : lf K V), lf_cap (fst (run lfu_step s h)) = lf_cap s.
  Proof.
    induction h as [|e r IH]; intros s; simpl; auto.
    unfold step_ev. pose proof (lfu_step_cap s (e_op e) (e_now e) (e_rnd e)) as X.
    destruct (lfu_step s (e_op e) (e_now e) (e_rnd e)) as [s1 y].
    pose proof (IH s1) as Y. destruct (run lfu_step s1 r) as [s2 ys]. simpl in *. congruence.
  Qed.

  (* the number of list nodes / value cells never changes *)
  Theorem fu_value_cells_constant : forall cap h l' rs,
      1 <= cap -> Forall (fun e => (0 <= e_now e)%Z) h ->
      fu_run (lfdl_init cap 1 1 0) h = Ok (l', rs) ->
      List.length (dl_cells l') = cap /\ List.length (dl_list l') = cap.
  Proof.
    intros cap h l' rs Hc F E.
    destruct (fu_no_UB_on_any_history cap h Hc F) as (l2 & D & R).
    rewrite D in E. injection E as E1 E2. subst l2.
    destruct (fu_rep_sizes _ _ R) as (_ & Hl & Hcl).
    rewrite lfu_run_cap in Hl, Hcl. simpl in Hl, Hcl. auto.
  Qed.
End LfuLitFacts.
