(* LfuLitFacts.v — C08 for lfu_cache: the literal machine (LfudaLit.v with da = false: the same
   code without the aging parts, and do_access does not re-file the list node) never reaches
   UB and computes exactly what the mid-level model of lfu_cache (Lfuda.v, [lfu_step]: the lfuda
   machine with the clock frozen at 0) computes.  The mid-level age list re-files an entry on
   every access while lfu_cache's open list does not, so the representation relates the used
   nodes to [lf_ents] only up to permutation (the order of lf_ents is unobservable in lfu). *)
Require Import Capp.Base Capp.Spec Capp.Lfuda Capp.LfudaFacts Capp.RrLit Capp.LruLit Capp.LfudaLit.
From Coq Require Import Strings.String Permutation.

Section LfuLitFacts.
  Context {K V : Type} `{EqDec K}.

  (* key and value of the cell of node n (the stamp is irrelevant for lfu) *)
  Definition fu_entry (s : lfdl K V) (n : nat) : option (K * V) :=
    match nth_error (dl_cells s) n with
    | Some {| dc_keyed := Some k; dc_lfu := _; dc_age := _; dc_val := Some v |} => Some (k, v)
    | _ => None
    end.

  Definition fu_rep (l : lfdl K V) (s : lf K V) : Prop :=
    exists used free,
      dl_list l = used ++ free /\ dl_end l = l_begin free /\
      dl_cap l = lf_cap s /\
      List.length (dl_cells l) = lf_cap s /\ NoDup (dl_list l) /\ List.length (dl_list l) = lf_cap s /\
      (forall n, In n (dl_list l) -> n < lf_cap s) /\
      dl_used l = List.length used /\ List.length (dl_index l) = List.length used /\ NoDup (keys (dl_index l)) /\
      Permutation (map (fu_entry l) used)
                  (map (fun x => Some (fst x, fst (snd x))) (lf_ents s)) /\
      map (fun cn => match dl_key l (snd cn) with Some k => Some (fst cn, k) | None => None end) (dl_mm l)
        = map (@Some (nat * K)) (lf_ord s) /\
      NoDup (map snd (dl_mm l)) /\
      (forall n, In n used <-> In n (map snd (dl_mm l))) /\
      (forall n k v, In n used -> fu_entry l n = Some (k, v) ->
                     assoc k (dl_index l) = Some n /\
                     exists c, nth_error (dl_cells l) n = Some c /\ dc_lfu c = Some n) /\
      (forall k n, assoc k (dl_index l) = Some n -> In n used /\ dl_key l n = Some k).

  Theorem fu_rep_init : forall cap, 1 <= cap -> fu_rep (lfdl_init cap 1 1 0) (lfu_init cap).
  Admitted.

  Theorem fu_step_refines : forall t (l : lfdl K V) (s : lf K V) o now rnd,
      lfu_inv t s -> fu_rep l s ->
      exists l', dl_step false l o now rnd = Ok (l', snd (lfu_step s o now rnd)) /\
                 fu_rep l' (fst (lfu_step s o now rnd)) /\ lfu_inv now (fst (lfu_step s o now rnd)).
  Admitted.

  Fixpoint fu_run (l : lfdl K V) (h : list (ev K V)) : res (lfdl K V * list (ret K V)) :=
    match h with
    | [] => Ok (l, [])
    | e :: r => do x <- dl_step false l (e_op e) (e_now e) (e_rnd e);
                let '(l1, y) := x in
                do z <- fu_run l1 r; let '(l2, ys) := z in Ok (l2, y :: ys)
    end.

  Theorem fu_no_UB_on_any_history : forall cap h,
      1 <= cap -> Forall (fun e => (0 <= e_now e)%Z) h ->
      exists l', fu_run (lfdl_init cap 1 1 0) h = Ok (l', snd (run lfu_step (lfu_init cap) h)) /\
                 fu_rep l' (fst (run lfu_step (lfu_init cap) h)).
  Admitted.

  Theorem fu_value_cells_constant : forall cap h l' rs,
      1 <= cap -> Forall (fun e => (0 <= e_now e)%Z) h ->
      fu_run (lfdl_init cap 1 1 0) h = Ok (l', rs) ->
      List.length (dl_cells l') = cap /\ List.length (dl_list l') = cap.
  Admitted.
End LfuLitFacts.
