(* LfudaLitFacts.v — C08 for lfuda_cache: the literal machine (LfudaLit.v, da = true) never
   reaches UB — the aging loop terminates — and computes exactly what the mid-level model
   (Lfuda.v) computes. *)
Require Import Capp.Base Capp.Spec Capp.Rr Capp.Lfuda Capp.LfudaFacts Capp.RrLit Capp.LruLit Capp.LfudaLit.
From Coq Require Import Strings.String.
From Coq Require Import Permutation.

(* ------------------------------------------------------------------------------------ *)
(* the std::list model on a list  used ++ free  whose partition iterator is begin(free)  *)
(* (as in LruLitFacts.v)                                                                 *)
(* ------------------------------------------------------------------------------------ *)
Section StlFacts.
  Local Open Scope list_scope.
  Local Open Scope nat_scope.

  Lemma iter_eqb_true a b : iter_eqb a b = true -> a = b.
  Proof.
    destruct a as [x|], b as [y|]; simpl; intros E; try discriminate; auto.
    apply Nat.eqb_eq in E. subst; auto.
  Qed.
  Lemma iter_eqb_refl a : iter_eqb a a = true.
  Proof. destruct a; simpl; auto. apply Nat.eqb_refl. Qed.
  Lemma iter_eqb_neq a b : a <> b -> iter_eqb a b = false.
  Proof.
    intros N. destruct (iter_eqb a b) eqn:E; auto. apply iter_eqb_true in E. contradiction.
  Qed.

  Lemma mem_nat_true n l : mem_nat n l = true <-> In n l.
  Proof.
    induction l as [|x r IH]; simpl.
    - split; [discriminate|tauto].
    - rewrite orb_true_iff, IH, Nat.eqb_eq. split; intros [E|I]; auto.
  Qed.
  Lemma mem_nat_in n l : In n l -> mem_nat n l = true.
  Proof. apply mem_nat_true. Qed.

  (* no node of [a] is the first node of [free] *)
  Definition sep (a free : list nat) : Prop := forall x, In x a -> l_begin free <> It x.

  Lemma nodup_sep a free : NoDup (a ++ free) -> sep a free.
  Proof.
    intros N x I E. destruct free as [|m f]; simpl in E; [discriminate|].
    inversion E; subst m. apply NoDup_remove_2 in N. apply N. apply in_or_app; left; auto.
  Qed.

  Lemma sep_tail x a free : sep (x :: a) free -> sep a free.
  Proof. intros S y I. apply S. right; auto. Qed.

  Lemma valid_begin_app used free : valid_it (used ++ free) (l_begin free) = true.
  Proof.
    destruct free as [|m f]; simpl; auto. apply mem_nat_in. apply in_or_app. right; left; auto.
  Qed.

  Lemma before_app u n free : sep (u ++ [n]) free ->
    before (l_begin free) (u ++ n :: free) = Some n.
  Proof.
    induction u as [|x u IH]; intros S.
    - simpl. destruct free as [|m f]; simpl; auto. rewrite Nat.eqb_refl; auto.
    - assert (S' : sep (u ++ [n]) free) by (eapply sep_tail; exact S).
      specialize (IH S').
      change ((x :: u) ++ n :: free) with (x :: (u ++ n :: free)).
      destruct u as [|y u'].
      + simpl app in *. simpl before at 1.
        rewrite iter_eqb_neq by (apply S; simpl; auto). exact IH.
      + simpl app in *. simpl before at 1.
        rewrite iter_eqb_neq by (apply S; simpl; auto). exact IH.
  Qed.

  Lemma l_begin_in a b : a <> [] -> exists h, l_begin (a ++ b) = It h /\ In h a.
  Proof. destruct a as [|h a]; [congruence|]. intros _. exists h. simpl; auto. Qed.

  Lemma l_prev_app u n free : NoDup (u ++ n :: free) ->
    l_prev (u ++ n :: free) (l_begin free) = Ok (It n).
  Proof.
    intros N.
    assert (E : u ++ n :: free = (u ++ [n]) ++ free) by (rewrite <- app_assoc; reflexivity).
    assert (S : sep (u ++ [n]) free) by (apply nodup_sep; rewrite <- E; exact N).
    unfold l_prev. rewrite E at 1. rewrite valid_begin_app.
    destruct (l_begin_in (u ++ [n]) free) as (h & Eh & Ih). { destruct u; discriminate. }
    rewrite E at 1. rewrite Eh. rewrite iter_eqb_neq by (apply S; exact Ih).
    rewrite before_app by exact S. reflexivity.
  Qed.

  Lemma after_app u n free : ~ In n u -> after n (u ++ n :: free) = l_begin free.
  Proof.
    induction u as [|x u IH]; intros NI; simpl.
    - rewrite Nat.eqb_refl. reflexivity.
    - destruct (Nat.eqb_spec n x) as [E|Nx]; [exfalso; apply NI; left; auto|].
      apply IH. intros I. apply NI. right; auto.
  Qed.

  (* remove_nat *)
  Lemma remove_nat_app_in n a b : In n a -> remove_nat n (a ++ b) = remove_nat n a ++ b.
  Proof.
    induction a as [|x a IH]; simpl; intros I; [tauto|].
    destruct (Nat.eqb_spec n x) as [E|Nx]; auto.
    destruct I as [E|I]; [congruence|]. simpl. f_equal. auto.
  Qed.
  Lemma remove_nat_app_notin n a b : ~ In n a -> remove_nat n (a ++ b) = a ++ remove_nat n b.
  Proof.
    induction a as [|x a IH]; simpl; intros NI; auto.
    destruct (Nat.eqb_spec n x) as [E|Nx]; [exfalso; apply NI; auto|].
    f_equal. apply IH. intros I; apply NI; auto.
  Qed.
  Lemma remove_nat_notin n a : ~ In n a -> remove_nat n a = a.
  Proof.
    intros NI. rewrite <- (app_nil_r a) at 1. rewrite remove_nat_app_notin by auto.
    simpl. apply app_nil_r.
  Qed.
  Lemma remove_nat_last n u : ~ In n u -> remove_nat n (u ++ [n]) = u.
  Proof.
    intros NI. rewrite remove_nat_app_notin by auto. simpl. rewrite Nat.eqb_refl. apply app_nil_r.
  Qed.
  Lemma perm_remove_nat n l : In n l -> Permutation (n :: remove_nat n l) l.
  Proof.
    induction l as [|x r IH]; simpl; intros I; [tauto|].
    destruct (Nat.eqb_spec n x) as [E|Nx]; [subst; reflexivity|].
    destruct I as [E|I]; [congruence|].
    eapply perm_trans; [apply perm_swap|]. apply perm_skip. auto.
  Qed.
  Lemma in_remove_nat n l x : NoDup l -> (In x (remove_nat n l) <-> In x l /\ x <> n).
  Proof.
    induction l as [|y r IH]; simpl; intros N; [tauto|].
    inversion N as [|y' r' Hni Hnd]; subst.
    destruct (Nat.eqb_spec n y) as [E|Ny].
    - subst y. split.
      + intros I. split; auto. intros E; subst; auto.
      + intros [[E|I] Nx]; [congruence|auto].
    - simpl. rewrite IH by auto. split.
      + intros [E|[I Nx]]; [subst; split; auto|auto].
      + intros [[E|I] Nx]; auto.
  Qed.
  Lemma in_remove_nat_weak n l x : In x (remove_nat n l) -> In x l.
  Proof.
    induction l as [|y r IH]; simpl; auto.
    destruct (Nat.eqb_spec n y) as [E|Ny]; simpl; auto. intros [E|I]; auto.
  Qed.
  Lemma nodup_remove_nat n l : NoDup l -> NoDup (remove_nat n l).
  Proof.
    induction l as [|y r IH]; simpl; intros N; auto.
    inversion N as [|y' r' Hni Hnd]; subst.
    destruct (Nat.eqb_spec n y) as [E|Ny]; auto.
    constructor; auto. intros I. apply Hni. eapply in_remove_nat_weak; eauto.
  Qed.
  Lemma perm_remove_snoc n l : In n l -> Permutation (remove_nat n l ++ [n]) l.
  Proof.
    intros I. eapply perm_trans; [|apply perm_remove_nat; eauto].
    symmetry. apply Permutation_cons_append.
  Qed.

  Lemma insert_before_app a n free : sep a free ->
    insert_before (l_begin free) n (a ++ free) = a ++ n :: free.
  Proof.
    induction a as [|x a IH]; intros S; simpl.
    - destruct free as [|m f]; simpl; auto. rewrite Nat.eqb_refl; auto.
    - rewrite iter_eqb_neq by (apply S; left; auto). f_equal. apply IH. eapply sep_tail; eauto.
  Qed.

  (* splice(partition point, list, n) for a used node n *)
  Lemma l_splice_end used free n : NoDup (used ++ free) -> In n used ->
    l_splice (used ++ free) (l_begin free) (It n) = Ok (remove_nat n used ++ n :: free).
  Proof.
    intros N I. pose proof (nodup_sep _ _ N) as S.
    unfold l_splice. rewrite mem_nat_in by (apply in_or_app; auto).
    rewrite valid_begin_app. rewrite iter_eqb_neq by (apply S; auto).
    rewrite remove_nat_app_in by auto. rewrite insert_before_app; auto.
    intros x Ix. apply S. eapply in_remove_nat_weak; eauto.
  Qed.

  (* the "move n just in front of the partition point unless it is there" idiom *)
  Lemma move_to_end used free n : NoDup (used ++ free) -> In n used ->
    exists b, l_prev (used ++ free) (l_begin free) = Ok (It b) /\
      (if iter_eqb (It n) (It b) then Ok (used ++ free)
       else l_splice (used ++ free) (l_begin free) (It n)) = Ok (remove_nat n used ++ n :: free).
  Proof.
    intros N I.
    destruct (@exists_last _ used) as (u & b & Eu). { intros E0; rewrite E0 in I; destruct I. }
    exists b. split.
    - rewrite Eu. rewrite <- app_assoc. simpl. apply l_prev_app.
      rewrite Eu in N. rewrite <- app_assoc in N. exact N.
    - simpl iter_eqb. destruct (Nat.eqb_spec n b) as [Enb|Nnb].
      + subst b. rewrite Eu. rewrite remove_nat_last.
        * rewrite <- app_assoc. reflexivity.
        * rewrite Eu in N. rewrite <- app_assoc in N. apply NoDup_remove_2 in N.
          intros X. apply N. apply in_or_app; auto.
      + apply l_splice_end; auto.
  Qed.

  Lemma nodup_app_l A (a b : list A) : NoDup (a ++ b) -> NoDup a.
  Proof.
    induction a as [|x a IH]; simpl; intros N; [constructor|].
    inversion N as [|y r Hni Hnd]; subst. constructor; auto.
    intros I. apply Hni. apply in_or_app; auto.
  Qed.
  Lemma nodup_app_r A (a b : list A) : NoDup (a ++ b) -> NoDup b.
  Proof.
    induction a as [|x a IH]; simpl; intros N; auto. inversion N; subst; auto.
  Qed.
  Lemma nodup_app_disj A (a b : list A) x : NoDup (a ++ b) -> In x a -> In x b -> False.
  Proof.
    induction a as [|y a IH]; simpl; intros N Ia Ib; [tauto|].
    inversion N as [|y' r Hni Hnd]; subst. destruct Ia as [E|Ia]; [|eauto].
    subst. apply Hni. apply in_or_app; auto.
  Qed.
End StlFacts.

Section VecFacts.
  Local Open Scope list_scope.
  Local Open Scope nat_scope.

  Lemma nth_error_upd_eq A (l : list A) : forall i x, i < List.length l ->
    nth_error (upd_nth i x l) i = Some x.
  Proof.
    induction l as [|y r IH]; intros [|j] x Hi; simpl in *; try lia; auto. apply IH; lia.
  Qed.
  Lemma nth_error_upd_neq A (l : list A) : forall i j x, j <> i ->
    nth_error (upd_nth i x l) j = nth_error l j.
  Proof.
    induction l as [|y r IH]; intros [|i] [|j] x Hne; simpl; try congruence; auto.
  Qed.
  Lemma upd_nth_len A (l : list A) : forall i x, List.length (upd_nth i x l) = List.length l.
  Proof. induction l as [|y r IH]; intros [|i] x; simpl; auto. Qed.
  Lemma vget_ok A what (l : list A) i a : nth_error l i = Some a -> vget what l i = Ok a.
  Proof. intros E. unfold vget. rewrite E. reflexivity. Qed.
  Lemma vset_ok A what (l : list A) i a : i < List.length l -> vset what l i a = Ok (upd_nth i a l).
  Proof. intros Hi. unfold vset. destruct (Nat.ltb_spec i (List.length l)); [reflexivity|lia]. Qed.
End VecFacts.

(* ------------------------------------------------------------------------------------ *)
(* a node sequence read through the cells; the multimap read through the cells' keys     *)
(* ------------------------------------------------------------------------------------ *)
Section ReadFacts.
  Context {K : Type} `{EqDec K} {A : Type}.
  Local Open Scope list_scope.
  Local Open Scope nat_scope.

  Lemma length_remk_S k (l : list (K * A)) i : NoDup (keys l) -> assoc k l = Some i ->
    S (List.length (remk k l)) = List.length l.
  Proof.
    intros N E. apply length_remk; auto. apply assoc_Some_keys. congruence.
  Qed.

  Lemma in_pair_keys k a (l : list (K * A)) : In (k, a) l -> In k (keys l).
  Proof. intros I. unfold keys. apply in_map_iff. exists (k, a). auto. Qed.

  Variable f : nat -> option (K * A).

  Lemma reads_in ns (items : list (K * A)) n k a :
    map f ns = map (@Some (K * A)) items -> In n ns -> f n = Some (k, a) -> In (k, a) items.
  Proof.
    intros E I Fn. assert (I' : In (f n) (map f ns)) by (apply in_map; auto).
    rewrite E, Fn in I'. apply in_map_iff in I'. destruct I' as (x & Ex & Ix).
    inversion Ex; subst. auto.
  Qed.

  Lemma reads_in_inv ns (items : list (K * A)) k a :
    map f ns = map (@Some (K * A)) items -> In (k, a) items -> exists n, In n ns /\ f n = Some (k, a).
  Proof.
    intros E I. assert (I' : In (Some (k, a)) (map (@Some (K * A)) items)) by (apply in_map; auto).
    rewrite <- E in I'. apply in_map_iff in I'. destruct I' as (n & En & In'). eauto.
  Qed.

  Lemma reads_some ns (items : list (K * A)) n :
    map f ns = map (@Some (K * A)) items -> In n ns -> exists k a, f n = Some (k, a).
  Proof.
    intros E I. assert (I' : In (f n) (map f ns)) by (apply in_map; auto).
    rewrite E in I'. apply in_map_iff in I'. destruct I' as ([k a] & Ex & Ix). eauto.
  Qed.

  Lemma reads_len ns (items : list (K * A)) :
    map f ns = map (@Some (K * A)) items -> List.length ns = List.length items.
  Proof. intros E. apply (f_equal (@List.length _)) in E. rewrite !map_length in E. exact E. Qed.

  Lemma reads_split ns1 ns2 (i1 i2 : list (K * A)) :
    map f (ns1 ++ ns2) = map (@Some (K * A)) (i1 ++ i2) -> List.length ns1 = List.length i1 ->
    map f ns1 = map (@Some (K * A)) i1 /\ map f ns2 = map (@Some (K * A)) i2.
  Proof.
    revert i1. induction ns1 as [|x r IH]; intros [|y i1] E L; simpl in *; try discriminate; auto.
    injection E as E1 E2. injection L as L. destruct (IH i1 E2 L) as [Ea Eb].
    split; auto. f_equal; auto.
  Qed.

  Lemma reads_remove ns : forall (items : list (K * A)) n k a,
    map f ns = map (@Some (K * A)) items -> NoDup (keys items) -> In n ns -> f n = Some (k, a) ->
    map f (remove_nat n ns) = map (@Some (K * A)) (remk k items).
  Proof.
    induction ns as [|x r IH]; intros items n k a E Nk I Fn; [destruct I|].
    destruct items as [|[k' a'] it]; simpl in E; [discriminate|].
    injection E as E1 E2. simpl in Nk. inversion Nk as [|y q Hni Hnd]; subst.
    simpl. destruct (Nat.eqb_spec n x) as [Enx|Nnx].
    - subst x. rewrite Fn in E1. inversion E1; subst k' a'. rewrite LfudaFacts.eqb_rfl.
      rewrite remk_notin by auto. exact E2.
    - destruct I as [I|I]; [congruence|].
      assert (Nkk : k <> k').
      { intros Ek; subst k'. apply Hni. eapply in_pair_keys. eapply reads_in; eauto. }
      rewrite LfudaFacts.eqb_neq by auto. simpl. f_equal; [exact E1|]. eapply IH; eauto.
  Qed.
End ReadFacts.

Section MmFacts.
  Context {K : Type} `{EqDec K}.
  Local Open Scope list_scope.
  Local Open Scope nat_scope.

  Definition rdmm (f : nat -> option K) (m : list (nat * nat)) : list (option (nat * K)) :=
    map (fun cn => match f (snd cn) with Some k => Some (fst cn, k) | None => None end) m.

  Lemma rdmm_ext f g m : (forall x, In x (map snd m) -> f x = g x) -> rdmm f m = rdmm g m.
  Proof.
    intros E. unfold rdmm. apply map_ext_in. intros [c x] I. simpl.
    rewrite E; auto. apply in_map_iff. exists (c, x). auto.
  Qed.

  Lemma rdmm_in_key f m o k : rdmm f m = map (@Some (nat * K)) o -> In k (map snd o) ->
    exists x, In x (map snd m) /\ f x = Some k.
  Proof.
    revert o. induction m as [|[c x] r IH]; intros [|[c' k'] o] E I; simpl in *; try discriminate; [tauto|].
    injection E as E1 E2. destruct I as [I|I].
    - subst k'. exists x. split; auto. destruct (f x); inversion E1; auto.
    - destruct (IH o E2 I) as (y & Iy & Fy). exists y. auto.
  Qed.

  Lemma rdmm_key_in f m o x : rdmm f m = map (@Some (nat * K)) o -> In x (map snd m) ->
    exists k, f x = Some k /\ In k (map snd o).
  Proof.
    revert o. induction m as [|[c y] r IH]; intros [|[c' k'] o] E I; simpl in *; try discriminate; [tauto|].
    injection E as E1 E2. destruct I as [I|I].
    - subst y. exists k'. split; auto. destruct (f x); inversion E1; auto.
    - destruct (IH o E2 I) as (k & Fk & Ik). exists k. auto.
  Qed.

  Lemma rdmm_emplace f c n k m : forall o, f n = Some k -> rdmm f m = map (@Some (nat * K)) o ->
    rdmm f (mm_emplace c n m) = map (@Some (nat * K)) (ord_insert c k o).
  Proof.
    induction m as [|[c' x] r IH]; intros [|[c'' k'] o] Fn E; simpl in E; try discriminate.
    - simpl. rewrite Fn. reflexivity.
    - injection E as E1 E2.
      assert (Ec : c'' = c' /\ f x = Some k').
      { destruct (f x); inversion E1; auto. }
      destruct Ec as [Ec Fx]. subst c''. simpl.
      destruct (c' <=? c).
      + simpl. rewrite Fx. f_equal. apply IH; auto.
      + simpl. rewrite Fn, Fx. f_equal. f_equal. exact E2.
  Qed.

  Lemma rdmm_remove f n k m : forall o, f n = Some k ->
    (forall x, In x (map snd m) -> f x = Some k -> x = n) -> NoDup (map snd m) ->
    rdmm f m = map (@Some (nat * K)) o ->
    rdmm f (mm_remove n m) = map (@Some (nat * K)) (rem2 k o).
  Proof.
    induction m as [|[c' x] r IH]; intros [|[c'' k'] o] Fn Inj N E; simpl in E; try discriminate.
    - reflexivity.
    - injection E as E1 E2.
      assert (Ec : c'' = c' /\ f x = Some k').
      { destruct (f x); inversion E1; auto. }
      destruct Ec as [Ec Fx]. subst c''. simpl in N. inversion N as [|y q Hni Hnd]; subst.
      simpl. destruct (Nat.eqb_spec n x) as [Enx|Nnx].
      + subst x. rewrite Fn in Fx. inversion Fx; subst k'. rewrite LfudaFacts.eqb_rfl.
        assert (Nk : ~ In k (map snd o)).
        { intros I. destruct (rdmm_in_key _ _ _ _ E2 I) as (y & Iy & Fy).
          assert (y = n) by (apply Inj; simpl; auto). subst y. auto. }
        assert (R : rem2 k o = o).
        { clear - Nk. induction o as [|[a k0] o IH]; simpl; auto.
          destruct (Base.eqb_spec k k0) as [E|E]; [exfalso; apply Nk; simpl; auto|].
          f_equal. apply IH. intros I. apply Nk. simpl; auto. }
        rewrite R. exact E2.
      + assert (Nk : k <> k').
        { intros Ek. subst k'. apply Nnx. symmetry. apply Inj; simpl; auto. }
        rewrite LfudaFacts.eqb_neq by auto. simpl. rewrite Fx. f_equal.
        apply IH; auto. intros y Iy Fy. apply Inj; simpl; auto.
  Qed.

  Lemma rdmm_count f n k m : forall o, f n = Some k ->
    (forall x, In x (map snd m) -> f x = Some k -> x = n) ->
    rdmm f m = map (@Some (nat * K)) o -> mm_count n m = assoc2 k o.
  Proof.
    induction m as [|[c' x] r IH]; intros [|[c'' k'] o] Fn Inj E; simpl in E; try discriminate.
    - reflexivity.
    - injection E as E1 E2.
      assert (Ec : c'' = c' /\ f x = Some k').
      { destruct (f x); inversion E1; auto. }
      destruct Ec as [Ec Fx]. subst c''. simpl.
      destruct (Nat.eqb_spec n x) as [Enx|Nnx].
      + subst x. rewrite Fn in Fx. inversion Fx; subst k'. rewrite LfudaFacts.eqb_rfl. reflexivity.
      + assert (Nk : k <> k').
        { intros Ek. subst k'. apply Nnx. symmetry. apply Inj; simpl; auto. }
        rewrite LfudaFacts.eqb_neq by auto. apply IH; auto. intros y Iy Fy. apply Inj; simpl; auto.
  Qed.

  Lemma mm_count_in n m : In n (map snd m) -> exists c, mm_count n m = Some c.
  Proof.
    induction m as [|[c x] r IH]; simpl; intros I; [tauto|].
    destruct (Nat.eqb_spec n x) as [E|N]; eauto. destruct I as [I|I]; [congruence|auto].
  Qed.

  Lemma snd_mm_remove n m : map snd (mm_remove n m) = remove_nat n (map snd m).
  Proof.
    induction m as [|[c x] r IH]; simpl; auto.
    destruct (Nat.eqb n x); simpl; auto. f_equal; auto.
  Qed.

  Lemma perm_mm_emplace c n m : Permutation (map snd (mm_emplace c n m)) (n :: map snd m).
  Proof.
    induction m as [|[c' x] r IH]; simpl; auto.
    destruct (c' <=? c); simpl; auto.
    eapply perm_trans; [apply perm_skip; exact IH|]. apply perm_swap.
  Qed.
End MmFacts.

(* ------------------------------------------------------------------------------------ *)
(* the representation relation with the decomposition  list = used ++ free  explicit      *)
(* ------------------------------------------------------------------------------------ *)
Section RepFacts.
  Context {K V : Type} `{EqDec K}.
  Local Open Scope list_scope.
  Local Open Scope nat_scope.

  Definition kf (cs : list (dcell K V)) (n : nat) : option K :=
    match nth_error cs n with Some c => dc_keyed c | None => None end.
  Definition ef (cs : list (dcell K V)) (n : nat) : option (K * (V * Z)) :=
    match nth_error cs n with
    | Some {| dc_keyed := Some k; dc_lfu := _; dc_age := a; dc_val := Some v |} => Some (k, (v, a))
    | _ => None
    end.

  Record rep3 (l : lfdl K V) (s : lf K V) (used free : list nat) : Prop := {
    r_list : dl_list l = used ++ free;
    r_end : dl_end l = l_begin free;
    r_cap : dl_cap l = lf_cap s;
    r_tick : dl_tick l = lf_tick s;
    r_rnum : dl_rnum l = lf_rnum s;
    r_rk : dl_rk l = lf_rk s;
    r_clen : List.length (dl_cells l) = lf_cap s;
    r_nd : NoDup (used ++ free);
    r_llen : List.length (used ++ free) = lf_cap s;
    r_bnd : forall n, In n (used ++ free) -> n < lf_cap s;
    r_used : dl_used l = List.length used;
    r_ixlen : List.length (dl_index l) = List.length used;
    r_ixnd : NoDup (keys (dl_index l));
    r_ents : map (ef (dl_cells l)) used = map (@Some (K * (V * Z))) (lf_ents s);
    r_mm : rdmm (kf (dl_cells l)) (dl_mm l) = map (@Some (nat * K)) (lf_ord s);
    r_mmnd : NoDup (map snd (dl_mm l));
    r_mmused : forall n, In n used <-> In n (map snd (dl_mm l));
    r_cell : forall n k v a, In n used -> ef (dl_cells l) n = Some (k, (v, a)) ->
               assoc k (dl_index l) = Some n /\
               exists c, nth_error (dl_cells l) n = Some c /\ dc_lfu c = Some n;
    r_ix : forall k n, assoc k (dl_index l) = Some n -> In n used /\ kf (dl_cells l) n = Some k
  }.

  Lemma rep3_intro l s used free : rep3 l s used free -> dl_rep l s.
  Proof.
    intros R. destruct R. exists used, free.
    rewrite r_list0.
repeat (split; [assumption|]). Show.
