(* Range.v — C18 for the eight caches: every range call equals the corresponding single
   calls applied in iteration order at one instant (same clock reading, draws handed on),
   and reports their aggregated results.  (ut_map / ut_set: UtMapFacts.v, TTL > 0.) *)
Require Import Capp.Base Capp.ListCache Capp.Rr Capp.Lfuda Capp.TtlLru.

Section Range.
  Context {K V : Type} `{EqDec K}.

  (* the single calls a range call stands for *)
  Definition expand (o : op K V) : list (op K V) :=
    match o with
    | InsertRange l a => map (fun x => match x with (t, k, v) => Insert t k v a end) l
    | EraseRange l => map (fun k => Erase k) l
    | FindRange l pk => map (fun k => Find k pk) l
    | FindRangeFill l pk => map (fun k => Find k pk) l
    | o => [o]
    end.

  Definition is_true (r : ret K V) : bool := match r with RB true => true | _ => false end.
  Definition count_true (rs : list (ret K V)) : nat := length (filter is_true rs).
  Definition ret_opt (r : ret K V) : option V := match r with RO o => o | _ => None end.

  (* the result a range call reports, from the results of its single calls *)
  Definition aggregate (o : op K V) (rs : list (ret K V)) : ret K V :=
    match o with
    | InsertRange _ _ => RN (count_true rs)
    | EraseRange _ => RN (count_true rs)
    | FindRange l _ => RL (combine l (map ret_opt rs))
    | FindRangeFill l _ => RL (combine l (map ret_opt rs))
    | _ => hd RUnsupported rs
    end.

  Section Singles.
    Context {St : Type}.
    Variable step : St -> op K V -> Z -> list nat -> St * ret K V.
    (* draws left over after a single call (rr: one per eviction) *)
    Variable rest : St -> op K V -> list nat -> list nat.

    Fixpoint singles (s : St) (os : list (op K V)) (now : Z) (rnd : list nat) : St * list (ret K V) :=
      match os with
      | [] => (s, [])
      | o :: r => let '(s1, x) := step s o now rnd in
                  let '(s2, xs) := singles s1 r now (rest s o rnd) in (s2, x :: xs)
      end.

    Definition range_ok (s : St) (o : op K V) (now : Z) (rnd : list nat) : Prop :=
      step s o now rnd = (let '(s', rs) := singles s (expand o) now rnd in (s', aggregate o rs)).
  End Singles.

  Definition no_rest {St} (s : St) (o : op K V) (rnd : list nat) := rnd.

  Lemma count_true_cons : forall b (rs : list (ret K V)),
      count_true (RB b :: rs) = (if b then S (count_true rs) else count_true rs).
  Proof. intros [] rs; reflexivity. Qed.

  (* ---------------- lru / mru / fifo ---------------- *)
  Lemma lc_ins_range_singles : forall p l (s : lc K V) a n now rnd,
      lc_ins_range p s l a n =
      (let '(s', rs) := singles (lc_step p) no_rest s
                                (map (fun x => match x with (t, k, v) => Insert t k v a end) l) now rnd in
       (s', n + count_true rs)).
  Proof.
    intros p l. unfold no_rest. induction l as [|[[t k] v] l IH]; intros s a n now rnd.
    - cbn. f_equal. unfold count_true. cbn. lia.
    - cbn [lc_ins_range map singles lc_step]. destruct (lc_ins p s k v a) as [s1 b].
      rewrite (IH s1 a _ now rnd).
      destruct (singles _ _ s1 _ _ _) as [s2 rs].
      rewrite count_true_cons. destruct b; f_equal; lia.
  Qed.
  Lemma lc_erase_range_singles : forall p l (s : lc K V) n now rnd,
      lc_erase_range s l n =
      (let '(s', rs) := singles (lc_step p) no_rest s (map (fun k => Erase k) l) now rnd in
       (s', n + count_true rs)).
  Proof.
    intros p l. unfold no_rest. induction l as [|k l IH]; intros s n now rnd.
    - cbn. f_equal. unfold count_true. cbn. lia.
    - cbn [lc_erase_range map singles lc_step]. destruct (lc_erase s k) as [s1 b].
      rewrite (IH s1 _ now rnd).
      destruct (singles _ _ s1 _ _ _) as [s2 rs].
      rewrite count_true_cons. destruct b; f_equal; lia.
  Qed.
  Lemma lc_find_range_singles : forall p l (s : lc K V) pk now rnd,
      lc_find_range p s l pk =
      (let '(s', rs) := singles (lc_step p) no_rest s (map (fun k => Find k pk) l) now rnd in
       (s', combine l (map ret_opt rs))).
  Proof.
    intros p l. unfold no_rest. induction l as [|k l IH]; intros s pk now rnd.
    - reflexivity.
    - cbn [lc_find_range map singles lc_step]. destruct (lc_find p s k pk) as [s1 o].
      rewrite (IH s1 pk now rnd).
      destruct (singles _ _ s1 _ _ _) as [s2 rs]. reflexivity.
  Qed.

  Theorem lc_range_is_singles : forall p (s : lc K V) o now rnd,
      range_ok (lc_step p) no_rest s o now rnd.
  Proof.
    intros p s o now rnd. unfold range_ok.
    destruct o; cbn [expand aggregate];
      try (cbn [singles]; destruct (lc_step p s _ now rnd) as [s1 x]; reflexivity).
    - cbn [lc_step]. rewrite (lc_ins_range_singles p l s a 0 now rnd).
      destruct (singles _ _ _ _ _ _) as [s' rs]. reflexivity.
    - cbn [lc_step]. rewrite (lc_erase_range_singles p l s 0 now rnd).
      destruct (singles _ _ _ _ _ _) as [s' rs]. reflexivity.
    - cbn [lc_step]. rewrite (lc_find_range_singles p l s peek now rnd).
      destruct (singles _ _ _ _ _ _) as [s' rs]. reflexivity.
    - cbn [lc_step]. rewrite (lc_find_range_singles p l s peek now rnd).
      destruct (singles _ _ _ _ _ _) as [s' rs]. reflexivity.
  Qed.

  (* ---------------- rr: the draws are handed on from one element to the next ---------------- *)
  Definition rr_rest (s : rr K V) (o : op K V) (rnd : list nat) : list nat :=
    match o with
    | Insert _ k v a => snd (rr_ins s k v a rnd)
    | _ => rnd
    end.

  Lemma rr_ins_range_singles : forall l (s : rr K V) a n now rnd,
      rr_ins_range s l a rnd n =
      (let '(s', rs) := singles rr_step rr_rest s
                                (map (fun x => match x with (t, k, v) => Insert t k v a end) l) now rnd in
       (s', n + count_true rs)).
  Proof.
    intros l. unfold no_rest. induction l as [|[[t k] v] l IH]; intros s a n now rnd.
    - cbn. f_equal. unfold count_true. cbn. lia.
    - cbn [rr_ins_range map singles rr_step rr_rest].
      destruct (rr_ins s k v a rnd) as [[s1 b] rnd1] eqn:E. cbn [snd].
      rewrite (IH s1 a _ now rnd1).
      destruct (singles _ _ s1 _ _ _) as [s2 rs].
      rewrite count_true_cons. destruct b; f_equal; lia.
  Qed.
  Lemma rr_erase_range_singles : forall l (s : rr K V) n now rnd,
      rr_erase_range s l n =
      (let '(s', rs) := singles rr_step rr_rest s (map (fun k => Erase k) l) now rnd in
       (s', n + count_true rs)).
  Proof.
    intros l. unfold no_rest. induction l as [|k l IH]; intros s n now rnd.
    - cbn. f_equal. unfold count_true. cbn. lia.
    - cbn [rr_erase_range map singles rr_step rr_rest]. destruct (rr_erase s k) as [s1 b].
      rewrite (IH s1 _ now rnd).
      destruct (singles _ _ s1 _ _ _) as [s2 rs].
      rewrite count_true_cons. destruct b; f_equal; lia.
  Qed.
  Lemma rr_find_range_singles : forall l (s : rr K V) pk now rnd,
      (s, rr_find_range s l) =
      (let '(s', rs) := singles rr_step rr_rest s (map (fun k => Find k pk) l) now rnd in
       (s', combine l (map ret_opt rs))).
  Proof.
    intros l. unfold no_rest. induction l as [|k l IH]; intros s pk now rnd.
    - reflexivity.
    - cbn [map singles rr_step rr_rest].
      pose proof (IH s pk now rnd) as IH'.
      destruct (singles _ _ s _ _ _) as [s2 rs].
      injection IH' as <- IH'. unfold rr_find_range in *. cbn [map combine ret_opt]. rewrite IH'. reflexivity.
  Qed.

  Theorem rr_range_is_singles : forall (s : rr K V) o now rnd,
      range_ok rr_step rr_rest s o now rnd.
  Proof.
    intros s o now rnd. unfold range_ok.
    destruct o; cbn [expand aggregate];
      try (cbn [singles]; destruct (rr_step s _ now rnd) as [s1 x]; reflexivity).
    - cbn [rr_step]. rewrite (rr_ins_range_singles l s a 0 now rnd).
      destruct (singles _ _ _ _ _ _) as [s' rs]. reflexivity.
    - cbn [rr_step]. rewrite (rr_erase_range_singles l s 0 now rnd).
      destruct (singles _ _ _ _ _ _) as [s' rs]. reflexivity.
    - cbn [rr_step]. pose proof (rr_find_range_singles l s peek now rnd) as E.
      destruct (singles _ _ _ _ _ _) as [s' rs]. injection E as <- <-. reflexivity.
    - cbn [rr_step]. pose proof (rr_find_range_singles l s peek now rnd) as E.
      destruct (singles _ _ _ _ _ _) as [s' rs]. injection E as <- <-. reflexivity.
  Qed.

  (* ---------------- lfuda (and lfu: the same steps at clock 0) ---------------- *)
  Lemma lf_ins_range_singles : forall l (s : lf K V) a n now rnd,
      lf_ins_range s l a now n =
      (let '(s', rs) := singles lf_step no_rest s
                                (map (fun x => match x with (t, k, v) => Insert t k v a end) l) now rnd in
       (s', n + count_true rs)).
  Proof.
    intros l. unfold no_rest. induction l as [|[[t k] v] l IH]; intros s a n now rnd.
    - cbn. f_equal. unfold count_true. cbn. lia.
    - cbn [lf_ins_range map singles lf_step]. destruct (lf_ins s k v a now) as [s1 b].
      rewrite (IH s1 a _ now rnd).
      destruct (singles _ _ s1 _ _ _) as [s2 rs].
      rewrite count_true_cons. destruct b; f_equal; lia.
  Qed.
  Lemma lf_erase_range_singles : forall l (s : lf K V) n now rnd,
      lf_erase_range s l n =
      (let '(s', rs) := singles lf_step no_rest s (map (fun k => Erase k) l) now rnd in
       (s', n + count_true rs)).
  Proof.
    intros l. unfold no_rest. induction l as [|k l IH]; intros s n now rnd.
    - cbn. f_equal. unfold count_true. cbn. lia.
    - cbn [lf_erase_range map singles lf_step]. destruct (lf_erase s k) as [s1 b].
      rewrite (IH s1 _ now rnd).
      destruct (singles _ _ s1 _ _ _) as [s2 rs].
      rewrite count_true_cons. destruct b; f_equal; lia.
  Qed.
  Lemma lf_find_range_singles : forall l (s : lf K V) pk now rnd,
      lf_find_range s l pk now =
      (let '(s', rs) := singles lf_step no_rest s (map (fun k => Find k pk) l) now rnd in
       (s', combine l (map ret_opt rs))).
  Proof.
    intros l. unfold no_rest. induction l as [|k l IH]; intros s pk now rnd.
    - reflexivity.
    - cbn [lf_find_range map singles lf_step]. destruct (lf_find s k pk now) as [s1 o].
      rewrite (IH s1 pk now rnd).
      destruct (singles _ _ s1 _ _ _) as [s2 rs]. reflexivity.
  Qed.

  Theorem lf_range_is_singles : forall (s : lf K V) o now rnd,
      range_ok lf_step no_rest s o now rnd.
  Proof.
    intros s o now rnd. unfold range_ok.
    destruct o; cbn [expand aggregate];
      try (cbn [singles]; destruct (lf_step s _ now rnd) as [s1 x]; reflexivity).
    - cbn [lf_step]. rewrite (lf_ins_range_singles l s a 0 now rnd).
      destruct (singles _ _ _ _ _ _) as [s' rs]. reflexivity.
    - cbn [lf_step]. rewrite (lf_erase_range_singles l s 0 now rnd).
      destruct (singles _ _ _ _ _ _) as [s' rs]. reflexivity.
    - cbn [lf_step]. rewrite (lf_find_range_singles l s peek now rnd).
      destruct (singles _ _ _ _ _ _) as [s' rs]. reflexivity.
    - cbn [lf_step]. rewrite (lf_find_range_singles l s peek now rnd).
      destruct (singles _ _ _ _ _ _) as [s' rs]. reflexivity.
  Qed.

  Lemma lfu_singles_eq : forall os (s : lf K V) now rnd,
      (forall o, In o os -> o <> DynAge) ->
      singles lfu_step no_rest s os now rnd = singles lf_step no_rest s os 0%Z rnd.
  Proof.
    unfold no_rest. induction os as [|o os IH]; intros s now rnd Hnd; [reflexivity|].
    cbn [singles]. assert (Ho : lfu_step s o now rnd = lf_step s o 0%Z rnd).
    { unfold lfu_step. destruct o; try reflexivity. exfalso. apply (Hnd DynAge); [left; reflexivity|reflexivity]. }
    rewrite Ho. destruct (lf_step s o 0%Z rnd) as [s1 x].
    rewrite (IH s1 now rnd); [reflexivity|]. intros o' Ho'. apply Hnd. right. exact Ho'.
  Qed.

  Theorem lfu_range_is_singles : forall (s : lf K V) o now rnd,
      range_ok lfu_step no_rest s o now rnd.
  Proof.
    intros s o now rnd. unfold range_ok.
    destruct (Bool.bool_dec (match o with DynAge => true | _ => false end) true) as [Hd|Hd].
    - destruct o; try discriminate Hd. reflexivity.
    - rewrite lfu_singles_eq.
      + assert (Ho : lfu_step s o now rnd = lf_step s o 0%Z rnd).
        { unfold lfu_step. destruct o; try reflexivity. exfalso. apply Hd. reflexivity. }
        rewrite Ho. apply lf_range_is_singles.
      + intros o' Ho'. destruct o; cbn [expand] in Ho';
          try (destruct Ho' as [<-|[]]; discriminate);
          try (apply in_map_iff in Ho'; destruct Ho' as (x & <- & _); try destruct x as [[? ?] ?]; discriminate).
        exfalso. apply Hd. reflexivity.
  Qed.

  (* ---------------- tlru / utlru ---------------- *)
  Lemma tl_ins_range_singles : forall l (s : tl K V) a n now rnd,
      tl_ins_range s l a now n =
      (let '(s', rs) := singles tl_step no_rest s
                                (map (fun x => match x with (t, k, v) => Insert t k v a end) l) now rnd in
       (s', n + count_true rs)).
  Proof.
    intros l. unfold no_rest. induction l as [|[[t k] v] l IH]; intros s a n now rnd.
    - cbn. f_equal. unfold count_true. cbn. lia.
    - cbn [tl_ins_range map singles tl_step].
      destruct (tl_ins s k v a now _) as [s1 b].
      rewrite (IH s1 a _ now rnd).
      destruct (singles _ _ s1 _ _ _) as [s2 rs].
      rewrite count_true_cons. destruct b; f_equal; lia.
  Qed.
  Lemma tl_erase_range_singles : forall l (s : tl K V) n now rnd,
      tl_erase_range s l n =
      (let '(s', rs) := singles tl_step no_rest s (map (fun k => Erase k) l) now rnd in
       (s', n + count_true rs)).
  Proof.
    intros l. unfold no_rest. induction l as [|k l IH]; intros s n now rnd.
    - cbn. f_equal. unfold count_true. cbn. lia.
    - cbn [tl_erase_range map singles tl_step]. destruct (tl_erase s k) as [s1 b].
      rewrite (IH s1 _ now rnd).
      destruct (singles _ _ s1 _ _ _) as [s2 rs].
      rewrite count_true_cons. destruct b; f_equal; lia.
  Qed.
  Lemma tl_find_range_singles : forall l (s : tl K V) pk now rnd,
      tl_find_range s l pk now =
      (let '(s', rs) := singles tl_step no_rest s (map (fun k => Find k pk) l) now rnd in
       (s', combine l (map ret_opt rs))).
  Proof.
    intros l. unfold no_rest. induction l as [|k l IH]; intros s pk now rnd.
    - reflexivity.
    - cbn [tl_find_range map singles tl_step]. destruct (tl_find s k pk now) as [s1 o].
      rewrite (IH s1 pk now rnd).
      destruct (singles _ _ s1 _ _ _) as [s2 rs]. reflexivity.
  Qed.

  Theorem tl_range_is_singles : forall (s : tl K V) o now rnd,
      range_ok tl_step no_rest s o now rnd.
  Proof.
    intros s o now rnd. unfold range_ok.
    destruct o; cbn [expand aggregate];
      try (cbn [singles]; destruct (tl_step s _ now rnd) as [s1 x]; reflexivity).
    - cbn [tl_step]. rewrite (tl_ins_range_singles l s a 0 now rnd).
      destruct (singles _ _ _ _ _ _) as [s' rs]. reflexivity.
    - cbn [tl_step]. rewrite (tl_erase_range_singles l s 0 now rnd).
      destruct (singles _ _ _ _ _ _) as [s' rs]. reflexivity.
    - cbn [tl_step]. rewrite (tl_find_range_singles l s peek now rnd).
      destruct (singles _ _ _ _ _ _) as [s' rs]. reflexivity.
    - cbn [tl_step]. rewrite (tl_find_range_singles l s peek now rnd).
      destruct (singles _ _ _ _ _ _) as [s' rs]. reflexivity.
  Qed.
End Range.
