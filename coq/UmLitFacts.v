(* UmLitFacts.v — C08 for ut_map / ut_set: the literal machine (UmLit.v) never reaches UB and
   computes exactly what the mid-level model (UtMap.v) computes. *)
Require Import Capp.Base Capp.Spec Capp.UtMap Capp.UtMapFacts Capp.RrLit Capp.LruLit Capp.UmLit.
From Coq Require Import Strings.String.

(* ------------------------------------------------------------------------------------ *)
(* association lists (any key type)                                                      *)
(* ------------------------------------------------------------------------------------ *)
Section AssocMore.
  Context {K : Type} `{EqDec K} {A : Type}.
  Local Open Scope list_scope.
  Local Open Scope nat_scope.

  Lemma u_assoc_setk_same : forall (k : K) (a : A) (l : list (K * A)),
      assoc k (setk k a l) = match assoc k l with Some _ => Some a | None => None end.
  Proof.
    intros k a l. induction l as [|[k' a'] r IH]; simpl; [reflexivity|].
    destruct (Base.eqb k k') eqn:E; simpl; rewrite E; [reflexivity | exact IH].
  Qed.

  Lemma u_assoc_setk_other : forall (k k0 : K) (a : A) (l : list (K * A)),
      k <> k0 -> assoc k (setk k0 a l) = assoc k l.
  Proof.
    intros k k0 a l N. induction l as [|[k' a'] r IH]; simpl; [reflexivity|].
    destruct (Base.eqb_spec k0 k') as [E|N'].
    - subst k'. simpl. rewrite (eqb_ne k k0 N). reflexivity.
    - simpl. rewrite IH. reflexivity.
  Qed.

  Lemma u_keys_setk : forall (k : K) (a : A) (l : list (K * A)), keys (setk k a l) = keys l.
  Proof.
    intros k a l. induction l as [|[k' a'] r IH]; simpl; [reflexivity|].
    destruct (Base.eqb k k'); simpl; [reflexivity | f_equal; exact IH].
  Qed.

  Lemma u_keys_app : forall (l l' : list (K * A)), keys (l ++ l') = keys l ++ keys l'.
  Proof. intros l l'. unfold keys. apply map_app. Qed.

  Lemma u_length_keys : forall (l : list (K * A)), List.length (keys l) = List.length l.
  Proof. intros l. unfold keys. apply map_length. Qed.

  Lemma u_remk_notin_id : forall (k : K) (l : list (K * A)), ~ In k (keys l) -> remk k l = l.
  Proof.
    intros k l. induction l as [|[k' a] r IH]; simpl; intros NI; [reflexivity|].
    destruct (Base.eqb_spec k k') as [E|N]; [exfalso; apply NI; left; congruence|].
    f_equal. apply IH. intros I; apply NI; right; exact I.
  Qed.

  Lemma u_assoc_in_pair : forall (k : K) (a : A) (l : list (K * A)), assoc k l = Some a -> In (k, a) l.
  Proof.
    intros k a l. induction l as [|[k' a'] r IH]; simpl; intros E; [discriminate|].
    destruct (Base.eqb_spec k k') as [Ek|Nk].
    - inversion E; subst. left; reflexivity.
    - right. apply IH. exact E.
  Qed.

  Lemma u_in_pair_keys : forall (k : K) (a : A) (l : list (K * A)), In (k, a) l -> In k (keys l).
  Proof. intros k a l I. unfold keys. apply in_map_iff. exists (k, a). split; [reflexivity | exact I]. Qed.

  Lemma u_in_keys_remk : forall (k k' : K) (l : list (K * A)),
      In k' (keys l) -> k' <> k -> In k' (keys (remk k l)).
  Proof.
    intros k k' l I N. apply assoc_keys. rewrite assoc_remk_other by exact N.
    apply assoc_keys. exact I.
  Qed.

  Lemma u_length_remk_S : forall (k : K) (l : list (K * A)) i, NoDup (keys l) -> assoc k l = Some i ->
      S (List.length (remk k l)) = List.length l.
  Proof.
    intros k l i. induction l as [|[k' a] r IH]; simpl; intros N E; [discriminate|].
    inversion N as [|x r' Hni Hnd]; subst.
    destruct (Base.eqb_spec k k') as [Ek|Nk].
    - subst k'. rewrite u_remk_notin_id by exact Hni. reflexivity.
    - simpl. f_equal. apply IH; assumption.
  Qed.

  Lemma u_nodup_app_r : forall (a b : list A), NoDup (a ++ b) -> NoDup b.
  Proof.
    induction a as [|y r IH]; simpl; intros b ND; [exact ND|].
    inversion ND; subst. apply IH. assumption.
  Qed.
End AssocMore.

(* ------------------------------------------------------------------------------------ *)
(* the std::list model: splice to end / prev(end()) / remove                             *)
(* ------------------------------------------------------------------------------------ *)
Section StlMore.
  Local Open Scope list_scope.
  Local Open Scope nat_scope.

  Lemma u_mem_nat_In : forall n l, mem_nat n l = true <-> In n l.
  Proof.
    intros n l. induction l as [|x r IH]; simpl.
    - split; [discriminate|tauto].
    - rewrite orb_true_iff, IH, Nat.eqb_eq.
      split; intros [E|I]; [left; congruence|right; exact I|left; congruence|right; exact I].
  Qed.

  Lemma u_insert_before_End : forall n l, insert_before End n l = l ++ [n].
  Proof. intros n l. induction l as [|x r IH]; simpl; [reflexivity|]. rewrite IH. reflexivity. Qed.

  Lemma u_before_End_snoc : forall l n, before End (l ++ [n]) = Some n.
  Proof.
    induction l as [|x r IH]; intros n; [reflexivity|].
    destruct r as [|y t]; [reflexivity|].
    change (before End (y :: (t ++ [n])) = Some n). exact (IH n).
  Qed.

  Lemma u_prev_end_snoc : forall r n, l_prev (r ++ [n]) End = Ok (It n).
  Proof.
    intros r n. unfold l_prev. simpl valid_it. cbv iota.
    assert (E : iter_eqb End (l_begin (r ++ [n])) = false) by (destruct r; reflexivity).
    rewrite E, u_before_End_snoc. reflexivity.
  Qed.

  Lemma u_splice_end : forall l n, In n l -> l_splice l End (It n) = Ok (remove_nat n l ++ [n]).
  Proof.
    intros l n I. unfold l_splice. rewrite (proj2 (u_mem_nat_In n l) I). simpl.
    rewrite u_insert_before_End. reflexivity.
  Qed.

  Lemma u_remove_nat_notin : forall n l, ~ In n l -> remove_nat n l = l.
  Proof.
    intros n l. induction l as [|x r IH]; simpl; intros NI; [reflexivity|].
    destruct (Nat.eqb_spec n x) as [E|N]; [exfalso; apply NI; left; congruence|].
    f_equal. apply IH. intros I. apply NI. right. exact I.
  Qed.

  Lemma u_in_remove_nat : forall n l m, NoDup l -> (In m (remove_nat n l) <-> In m l /\ m <> n).
  Proof.
    intros n l m. induction l as [|x r IH]; simpl; intros ND; [tauto|].
    inversion ND as [|y t NI ND']; subst.
    destruct (Nat.eqb_spec n x) as [E|N].
    - subst x. split.
      + intros I. split; [right; exact I|]. intros E. subst m. contradiction.
      + intros [[E|I] Nm]; [congruence|exact I].
    - simpl. rewrite (IH ND'). split.
      + intros [E|[I Nm]]; [subst x; split; [left; reflexivity|congruence]|split; [right; exact I|exact Nm]].
      + intros [[E|I] Nm]; [left; exact E|right; split; assumption].
  Qed.

  Lemma u_nodup_remove_nat : forall n l, NoDup l -> NoDup (remove_nat n l).
  Proof.
    intros n l. induction l as [|x r IH]; simpl; intros ND; [constructor|].
    inversion ND as [|y t NI ND']; subst.
    destruct (Nat.eqb_spec n x) as [E|N]; [exact ND'|].
    constructor; [|apply IH; exact ND'].
    intros I. apply (u_in_remove_nat n r x ND') in I. tauto.
  Qed.
End StlMore.

(* ------------------------------------------------------------------------------------ *)
(* Forall2                                                                               *)
(* ------------------------------------------------------------------------------------ *)
Section F2.
  Context {A B : Type}.
  Local Open Scope list_scope.

  Lemma F2_in_l : forall (P : A -> B -> Prop) l xs a, Forall2 P l xs -> In a l -> exists b, In b xs /\ P a b.
  Proof.
    intros P l xs a F. induction F as [|a0 b0 l' xs' P0 F IH]; simpl; intros I; [contradiction|].
    destruct I as [E|I].
    - subst a0. exists b0. split; [left; reflexivity | exact P0].
    - destruct (IH I) as (b & Ib & Pb). exists b. split; [right; exact Ib | exact Pb].
  Qed.

  Lemma F2_in_r : forall (P : A -> B -> Prop) l xs b, Forall2 P l xs -> In b xs -> exists a, In a l /\ P a b.
  Proof.
    intros P l xs b F. induction F as [|a0 b0 l' xs' P0 F IH]; simpl; intros I; [contradiction|].
    destruct I as [E|I].
    - subst b0. exists a0. split; [left; reflexivity | exact P0].
    - destruct (IH I) as (a & Ia & Pa). exists a. split; [right; exact Ia | exact Pa].
  Qed.

  Lemma F2_weaken_in : forall (P Q : A -> B -> Prop) l xs, Forall2 P l xs ->
      (forall a b, In a l -> In b xs -> P a b -> Q a b) -> Forall2 Q l xs.
  Proof.
    intros P Q l xs F. induction F as [|a0 b0 l' xs' P0 F IH]; intros W; constructor.
    - apply W; [left; reflexivity | left; reflexivity | exact P0].
    - apply IH. intros a b Ia Ib Pab. apply W; [right; exact Ia | right; exact Ib | exact Pab].
  Qed.

  Lemma F2_len : forall (P : A -> B -> Prop) l xs, Forall2 P l xs -> List.length l = List.length xs.
  Proof. intros P l xs F. induction F; simpl; [reflexivity | f_equal; assumption]. Qed.
End F2.

Section F2Remove.
  Context {K : Type} `{EqDec K} {A : Type}.
  Local Open Scope list_scope.

  (* removing the node n and the entry of key k, which sit at the same position *)
  Lemma F2_remove_gen : forall (P Q : nat -> K * A -> Prop) n k l xs,
      Forall2 P l xs -> NoDup l -> NoDup (keys xs) ->
      (forall a b, In a l -> In b xs -> P a b -> (a = n <-> fst b = k)) ->
      (forall a b, In a l -> In b xs -> P a b -> a <> n -> fst b <> k -> Q a b) ->
      Forall2 Q (remove_nat n l) (remk k xs).
  Proof.
    intros P Q n k l xs F. induction F as [|a0 b0 l' xs' P0 F IH]; intros NDl NDx Hiff HQ; simpl.
    - constructor.
    - inversion NDl as [|x1 t1 NI1 ND1]; subst.
      destruct b0 as [kb vb]. simpl in NDx. inversion NDx as [|x2 t2 NI2 ND2]; subst.
      assert (IH' : Forall2 Q (remove_nat n l') (remk k xs')).
      { apply IH; [exact ND1 | exact ND2 | |].
        - intros a b Ia Ib Pab. apply Hiff; [right; exact Ia | right; exact Ib | exact Pab].
        - intros a b Ia Ib Pab. apply HQ; [right; exact Ia | right; exact Ib | exact Pab]. }
      pose proof (Hiff a0 (kb, vb) (or_introl eq_refl) (or_introl eq_refl) P0) as Hh. simpl in Hh.
      destruct (Nat.eqb_spec n a0) as [En|Nn]; destruct (Base.eqb_spec k kb) as [Ek|Nk].
      + subst a0 kb. rewrite (u_remove_nat_notin n l' NI1) in IH'. exact IH'.
      + exfalso. apply Nk. symmetry. apply Hh. symmetry. exact En.
      + exfalso. apply Nn. symmetry. apply Hh. symmetry. exact Ek.
      + constructor; [|exact IH'].
        apply HQ; [left; reflexivity | left; reflexivity | exact P0 | congruence | simpl; congruence].
  Qed.
End F2Remove.

Section UmLitFacts.
  Context {K V : Type} `{EqDec K}.
  Local Open Scope list_scope.
  Local Open Scope nat_scope.

  (* ---------------- the working form of the representation ---------------- *)
  (* node n is the list node of the entry x, and the map entry of x's key points back at n *)
  Definition cellr (nodes : list (nat * @tnode K)) (m : list (K * (V * option nat)))
             (n : nat) (x : K * (V * Z)) : Prop :=
    assoc n nodes = Some {| tn_expire := snd (snd x); tn_keyed := fst x |} /\
    assoc (fst x) m = Some (fst (snd x), Some n).

  Definition rep2 (l : uml K V) (s : um K V) : Prop :=
    ul_ttl l = um_ttl s /\
    NoDup (ul_list l) /\ NoDup (keys (ul_map l)) /\ NoDup (keys (ul_nodes l)) /\
    (forall n, In n (ul_list l) <-> In n (keys (ul_nodes l))) /\ (forall n, In n (ul_list l) -> n < ul_next l) /\
    Forall2 (cellr (ul_nodes l) (ul_map l)) (ul_list l) (um_list s) /\
    incl (keys (ul_map l)) (keys (um_list s)) /\
    NoDup (keys (um_list s)).

  Lemma cellr_key_iff : forall nodes m n x a b,
      cellr nodes m n x -> cellr nodes m a b -> (a = n <-> fst b = fst x).
  Proof.
    intros nodes m n x a b [N1 N2] [A1 A2]. split; intro E.
    - subst a. rewrite N1 in A1. inversion A1. reflexivity.
    - rewrite E in A2. rewrite N2 in A2. inversion A2. reflexivity.
  Qed.

  Lemma cellr_entry : forall (l : uml K V) n x, cellr (ul_nodes l) (ul_map l) n x -> ul_entry l n = Some x.
  Proof.
    intros l n [k [v e]] [C1 C2]. simpl in *. unfold ul_entry. rewrite C1. simpl. rewrite C2. reflexivity.
  Qed.

  Lemma F2_cellr_entries : forall (l : uml K V) ns xs,
      Forall2 (cellr (ul_nodes l) (ul_map l)) ns xs -> map (ul_entry l) ns = map (@Some (K * (V * Z))) xs.
  Proof.
    intros l ns xs F. induction F as [|a b ns' xs' C F IH]; simpl; [reflexivity|].
    rewrite (cellr_entry l a b C), IH. reflexivity.
  Qed.

  Lemma rep2_keys_map : forall l s, rep2 l s -> forall k, In k (keys (um_list s)) -> In k (keys (ul_map l)).
  Proof.
    intros l s (_ & _ & _ & _ & _ & _ & F & _ & _) k I.
    unfold keys in I. apply in_map_iff in I. destruct I as (x & Ex & Ix).
    destruct (F2_in_r _ _ _ _ F Ix) as (n & _ & _ & C2). subst k.
    apply assoc_keys. rewrite C2. discriminate.
  Qed.

  Lemma rep2_len_map : forall l s, rep2 l s -> List.length (ul_map l) = List.length (um_list s).
  Proof.
    intros l s R. pose proof (rep2_keys_map l s R) as Hk.
    destruct R as (_ & _ & NDm & _ & _ & _ & _ & Hi & NDx).
    rewrite <- (u_length_keys (ul_map l)), <- (u_length_keys (um_list s)).
    apply Nat.le_antisymm; apply NoDup_incl_length; assumption.
  Qed.

  Lemma rep2_lookup : forall l s k, rep2 l s ->
      match assoc k (um_list s) with
      | Some (v0, e0) => exists n, In n (ul_list l) /\ cellr (ul_nodes l) (ul_map l) n (k, (v0, e0))
      | None => assoc k (ul_map l) = None
      end.
  Proof.
    intros l s k (_ & _ & _ & _ & _ & _ & F & Hi & _).
    destruct (assoc k (um_list s)) as [[v0 e0]|] eqn:E.
    - apply u_assoc_in_pair in E. destruct (F2_in_r _ _ _ _ F E) as (n & In & C). exists n. split; assumption.
    - apply assoc_none. intro I. apply Hi in I. apply assoc_none in E. contradiction.
  Qed.

  Theorem rep2_ul_rep : forall l s, rep2 l s -> ul_rep l s.
  Proof.
    intros l s R. pose proof (rep2_len_map l s R) as Hlen.
    destruct R as (T & NDl & NDm & NDn & Hiff & Hb & F & Hi & NDx).
    unfold ul_rep. repeat (split; [assumption|]).
    split; [rewrite Hlen; symmetry; eapply F2_len; exact F|].
    split; [apply F2_cellr_entries; exact F|].
    intros k v tp E.
    assert (Ik : In k (keys (um_list s))) by (apply Hi; apply assoc_keys; rewrite E; discriminate).
    unfold keys in Ik. apply in_map_iff in Ik. destruct Ik as (x & Ex & Ix).
    destruct (F2_in_r _ _ _ _ F Ix) as (n & In & C1 & C2). subst k.
    rewrite C2 in E. inversion E; subst.
    exists n, {| tn_expire := snd (snd x); tn_keyed := fst x |}. repeat split; assumption.
  Qed.

  Lemma map_some_in : forall (f : nat -> option (K * (V * Z))) ns xs n x,
      map f ns = map (@Some _) xs -> In n ns -> f n = Some x -> In x xs.
  Proof.
    intros f. induction ns as [|a r IH]; intros [|b xs'] n x E I Fx; simpl in *; try contradiction; try discriminate.
    inversion E as [[E1 E2]]. destruct I as [Ea|I].
    - subst a. left. congruence.
    - right. eapply IH; eassumption.
  Qed.

  Lemma entry_inj : forall (f : nat -> option (K * (V * Z))) ns xs,
      map f ns = map (@Some _) xs -> NoDup (keys xs) ->
      forall n n' x x', In n ns -> In n' ns -> f n = Some x -> f n' = Some x' -> fst x = fst x' -> n = n'.
  Proof.
    intros f. induction ns as [|a r IH]; intros [|b xs'] E ND n n' x x' I I' Fx Fx' Ek;
      simpl in *; try contradiction; try discriminate.
    inversion E as [[E1 E2]]. inversion ND as [|y t NI ND']; subst.
    destruct I as [Ea|I]; destruct I' as [Ea'|I'].
    - congruence.
    - subst a. exfalso. apply NI. assert (x = b) by congruence. subst x.
      rewrite Ek. apply (in_map fst). eapply map_some_in; eassumption.
    - subst a. exfalso. apply NI. assert (x' = b) by congruence. subst x'.
      rewrite <- Ek. apply (in_map fst). eapply map_some_in; eassumption.
    - eapply IH; eassumption.
  Qed.

  Lemma map_some_F2 : forall (f : nat -> option (K * (V * Z))) ns xs,
      map f ns = map (@Some _) xs -> Forall2 (fun n x => f n = Some x) ns xs.
  Proof.
    intros f. induction ns as [|a r IH]; intros [|b xs'] E; simpl in *; try discriminate; constructor.
    - inversion E. reflexivity.
    - apply IH. inversion E. reflexivity.
  Qed.

  Theorem ul_rep_rep2 : forall l s, ul_rep l s -> NoDup (keys (um_list s)) -> rep2 l s.
  Proof.
    intros l s (T & NDl & NDm & NDn & Hiff & Hb & Hlen & Hmap & Hptr) NDx.
    assert (Hcell : forall n x, In n (ul_list l) -> ul_entry l n = Some x -> cellr (ul_nodes l) (ul_map l) n x).
    { intros n x In En. pose proof En as En0. unfold ul_entry in En.
      destruct (assoc n (ul_nodes l)) as [t|] eqn:At; [|discriminate].
      destruct (assoc (tn_keyed t) (ul_map l)) as [[v tp]|] eqn:Am; [|discriminate].
      inversion En; subst x; clear En. simpl.
      destruct (Hptr _ _ _ Am) as (n' & t' & Etp & In' & At' & Ek').
      assert (En' : ul_entry l n' = Some (tn_keyed t, (v, tn_expire t'))).
      { unfold ul_entry. rewrite At', Ek', Am. reflexivity. }
      assert (n = n').
      { eapply (entry_inj (ul_entry l)); [exact Hmap | exact NDx | exact In | exact In' | exact En0 | exact En' | reflexivity]. }
      subst n'. split; simpl; [destruct t; exact At | rewrite Am, Etp; reflexivity]. }
    unfold rep2. repeat (split; [assumption|]).
    split; [|split; [|exact NDx]].
    - eapply F2_weaken_in; [apply map_some_F2; exact Hmap|].
      intros a b Ia _ Eab. apply Hcell; assumption.
    - intros k Ik. apply assoc_keys in Ik.
      destruct (assoc k (ul_map l)) as [[v tp]|] eqn:Am; [|congruence].
      destruct (Hptr _ _ _ Am) as (n' & t' & Etp & In' & At' & Ek').
      destruct (F2_in_l _ _ _ _ (map_some_F2 _ _ _ Hmap) In') as (x & Ix & Ex).
      unfold ul_entry in Ex. rewrite At', Ek', Am in Ex. inversion Ex; subst x.
      apply (in_map fst) in Ix. exact Ix.
  Qed.

  (* ---------------- do_prune ---------------- *)
  Lemma um_prune_eq : forall (s : um K V) now,
      um_prune s now = (um_with s (fst (um_prune_list now (um_list s) 0)), snd (um_prune_list now (um_list s) 0)).
  Proof. intros s now. unfold um_prune. destruct (um_prune_list now (um_list s) 0); reflexivity. Qed.

  Lemma walk_ok : forall (s0 : uml K V) now l xs m c,
      Forall2 (cellr (ul_nodes s0) m) l xs -> NoDup (keys xs) -> NoDup (keys m) -> incl (keys m) (keys xs) ->
      exists l' m' pre,
        ul_prune_walk s0 l m now c = Ok (l', m', snd (um_prune_list now xs c)) /\
        l = pre ++ l' /\
        Forall2 (cellr (ul_nodes s0) m') l' (fst (um_prune_list now xs c)) /\
        NoDup (keys m') /\ incl (keys m') (keys (fst (um_prune_list now xs c))) /\
        NoDup (keys (fst (um_prune_list now xs c))).
  Proof.
    intros s0 now. induction l as [|a l IH]; intros xs m c F NDx NDm Hi; inversion F as [|a' b l0 xs' Cab F']; subst.
    - exists [], m, []. simpl. repeat split; assumption.
    - destruct b as [k [v e]]. pose proof Cab as [C1 C2]. simpl in C1, C2.
      simpl in NDx. inversion NDx as [|y t NIk NDx']; subst.
      simpl. rewrite C1. simpl. destruct (e <=? now)%Z.
      + unfold map_erase. rewrite C2. cbn [bind].
        destruct (IH xs' (remk k m) (S c)) as (l' & m' & pre & Ew & El & Fw & NDw & Hiw & NDxw).
        * eapply F2_weaken_in; [exact F'|]. intros a0 b0 _ Ib [D1 D2]. split; [exact D1|].
          rewrite assoc_remk_other; [exact D2|]. intro E. apply NIk. rewrite <- E. apply (in_map fst). exact Ib.
        * exact NDx'.
        * apply nodup_remk; exact NDm.
        * intros k' I. apply keys_remk_in in I. destruct I as [I N]. apply Hi in I. simpl in I.
          destruct I as [E|I]; [congruence | exact I].
        * exists l', m', (a :: pre). rewrite Ew, El. repeat split; assumption.
      + exists (a :: l), m, []. simpl. repeat split; try assumption.
  Qed.

  Lemma ul_do_prune_rep2 : forall l s now, rep2 l s ->
      exists l0, ul_do_prune l now = Ok (l0, snd (um_prune s now)) /\ rep2 l0 (fst (um_prune s now)) /\
                 ul_ttl l0 = ul_ttl l.
  Proof.
    intros l s now (T & NDl & NDm & NDn & Hiff & Hb & F & Hi & NDx).
    destruct (walk_ok l now (ul_list l) (um_list s) (ul_map l) 0 F NDx NDm Hi)
      as (l' & m' & pre & Ew & El & Fw & NDw & Hiw & NDxw).
    unfold ul_do_prune. rewrite Ew. cbn [bind]. rewrite um_prune_eq. cbn [fst snd].
    eexists. split; [reflexivity|]. split; [|reflexivity].
    assert (Hsub : forall n, In n l' -> In n (ul_list l)).
    { intros n I. rewrite El. apply in_or_app. right. exact I. }
    unfold rep2; simpl. split; [exact T|].
    split; [rewrite El in NDl; eapply u_nodup_app_r; exact NDl|].
    split; [exact NDw|].
    split; [apply nodup_filter_keys; exact NDn|].
    split; [|split; [intros n I; apply Hb; apply Hsub; exact I|]].
    - intros n. split; intro I.
      + pose proof (proj1 (Hiff n) (Hsub n I)) as Ik. unfold keys in Ik. apply in_map_iff in Ik.
        destruct Ik as ([n0 t] & E & Ip). simpl in E. subst n0.
        unfold keys. apply in_map_iff. exists (n, t). split; [reflexivity|].
        apply filter_In. split; [exact Ip|]. simpl. apply u_mem_nat_In. exact I.
      + unfold keys in I. apply in_map_iff in I. destruct I as ([n0 t] & E & Ip). simpl in E. subst n0.
        apply filter_In in Ip. destruct Ip as [_ Im]. simpl in Im. apply u_mem_nat_In. exact Im.
    - split; [|split; assumption].
      eapply F2_weaken_in; [exact Fw|]. intros a b Ia _ [D1 D2]. split; [|exact D2].
      rewrite (assoc_filter _ a _ NDn), D1. simpl. rewrite (proj2 (u_mem_nat_In a l') Ia). reflexivity.
  Qed.

  (* ---------------- do_insert / do_update / do_erase on the representation ---------------- *)
  Lemma rep2_insert : forall l s k v ex, rep2 l s -> assoc k (um_list s) = None ->
      rep2 {| ul_ttl := ul_ttl l; ul_map := ul_map l ++ [(k, (v, Some (ul_next l)))];
              ul_list := ul_list l ++ [ul_next l];
              ul_nodes := ul_nodes l ++ [(ul_next l, {| tn_expire := ex; tn_keyed := k |})];
              ul_next := S (ul_next l) |}
           (um_with s (um_list s ++ [(k, (v, ex))])).
  Proof.
    intros l s k v ex R Ex. pose proof (rep2_lookup l s k R) as Em. rewrite Ex in Em.
    destruct R as (T & NDl & NDm & NDn & Hiff & Hb & F & Hi & NDx).
    assert (Fl : ~ In (ul_next l) (ul_list l)) by (intro I; apply Hb in I; lia).
    assert (Fn : assoc (ul_next l) (ul_nodes l) = None).
    { apply assoc_none. intro I. apply Hiff in I. contradiction. }
    unfold rep2; simpl. split; [exact T|].
    split; [apply nodup_snoc; assumption|].
    split; [rewrite u_keys_app; simpl; apply nodup_snoc; [exact NDm | apply assoc_none; exact Em]|].
    split; [rewrite u_keys_app; simpl; apply nodup_snoc; [exact NDn | apply assoc_none; exact Fn]|].
    split; [|split].
    - intros n. rewrite u_keys_app. simpl. rewrite !in_app_iff. simpl. rewrite (Hiff n). tauto.
    - intros n I. apply in_app_or in I. destruct I as [I|[E|[]]]; [apply Hb in I; lia | lia].
    - split; [|split].
      + apply Forall2_app.
        * eapply F2_weaken_in; [exact F|]. intros a b _ _ [D1 D2]. split; rewrite assoc_app.
          -- rewrite D1. reflexivity.
          -- rewrite D2. reflexivity.
        * constructor; [|constructor]. split; simpl; rewrite assoc_app.
          -- rewrite Fn. simpl. rewrite Nat.eqb_refl. reflexivity.
          -- rewrite Em. simpl. rewrite eqb_rfl. reflexivity.
      + rewrite !u_keys_app. simpl. intros k' I. apply in_app_or in I. apply in_or_app.
        destruct I as [I|I]; [left; apply Hi; exact I | right; exact I].
      + rewrite u_keys_app. simpl. apply nodup_snoc; [exact NDx | apply assoc_none; exact Ex].
  Qed.

  Lemma rep2_update : forall l s k v ex n v0 e0, rep2 l s ->
      In n (ul_list l) -> cellr (ul_nodes l) (ul_map l) n (k, (v0, e0)) ->
      rep2 {| ul_ttl := ul_ttl l; ul_map := setk k (v, Some n) (ul_map l);
              ul_list := remove_nat n (ul_list l) ++ [n];
              ul_nodes := setk n {| tn_expire := ex; tn_keyed := k |} (ul_nodes l);
              ul_next := ul_next l |}
           (um_with s (remk k (um_list s) ++ [(k, (v, ex))])).
  Proof.
    intros l s k v ex n v0 e0 (T & NDl & NDm & NDn & Hiff & Hb & F & Hi & NDx) Inl Cn.
    pose proof Cn as [Cn1 Cn2]. simpl in Cn1, Cn2.
    assert (Hin : forall a, In a (remove_nat n (ul_list l) ++ [n]) <-> In a (ul_list l)).
    { intros a. rewrite in_app_iff, (u_in_remove_nat n _ a NDl). simpl. split.
      - intros [[I _]|[E|[]]]; [exact I | subst a; exact Inl].
      - intros I. destruct (Nat.eq_dec a n) as [E|N]; [right; left; congruence | left; split; assumption]. }
    unfold rep2; simpl. split; [exact T|].
    split; [apply nodup_snoc; [apply u_nodup_remove_nat; exact NDl | intro I; apply (u_in_remove_nat n _ n NDl) in I; tauto]|].
    split; [rewrite u_keys_setk; exact NDm|].
    split; [rewrite u_keys_setk; exact NDn|].
    split; [|split].
    - intros a. rewrite u_keys_setk, Hin. apply Hiff.
    - intros a I. apply Hin in I. apply Hb; exact I.
    - split; [|split].
      + apply Forall2_app.
        * eapply (F2_remove_gen (cellr (ul_nodes l) (ul_map l))); [exact F | exact NDl | exact NDx | |].
          -- intros a b _ _ C. exact (cellr_key_iff _ _ _ _ _ _ Cn C).
          -- intros a b _ _ [D1 D2] Na Nb. split.
             ++ rewrite u_assoc_setk_other by exact Na. exact D1.
             ++ rewrite u_assoc_setk_other by exact Nb. exact D2.
        * constructor; [|constructor]. split; simpl; rewrite u_assoc_setk_same.
          -- rewrite Cn1. reflexivity.
          -- rewrite Cn2. reflexivity.
      + rewrite u_keys_setk, u_keys_app. simpl. intros k' I. apply in_or_app.
        destruct (Base.eqb_spec k' k) as [E|N]; [right; left; congruence|].
        left. apply u_in_keys_remk; [apply Hi; exact I | exact N].
      + rewrite u_keys_app. simpl. apply nodup_snoc; [apply nodup_remk; exact NDx|].
        intro I. apply keys_remk_in in I. tauto.
  Qed.

  Lemma rep2_erase : forall l s k n v0 e0, rep2 l s ->
      In n (ul_list l) -> cellr (ul_nodes l) (ul_map l) n (k, (v0, e0)) ->
      rep2 {| ul_ttl := ul_ttl l; ul_map := remk k (ul_map l);
              ul_list := remove_nat n (ul_list l);
              ul_nodes := remk n (ul_nodes l);
              ul_next := ul_next l |}
           (um_with s (remk k (um_list s))).
  Proof.
    intros l s k n v0 e0 (T & NDl & NDm & NDn & Hiff & Hb & F & Hi & NDx) Inl Cn.
    unfold rep2; simpl. split; [exact T|].
    split; [apply u_nodup_remove_nat; exact NDl|].
    split; [apply nodup_remk; exact NDm|].
    split; [apply nodup_remk; exact NDn|].
    split; [|split].
    - intros a. rewrite (u_in_remove_nat n _ a NDl). split.
      + intros [I N]. apply u_in_keys_remk; [apply Hiff; exact I | exact N].
      + intros I. apply keys_remk_in in I. destruct I as [I N]. split; [apply Hiff; exact I | exact N].
    - intros a I. apply (u_in_remove_nat n _ a NDl) in I. apply Hb. tauto.
    - split; [|split].
      + eapply (F2_remove_gen (cellr (ul_nodes l) (ul_map l))); [exact F | exact NDl | exact NDx | |].
        * intros a b _ _ C. exact (cellr_key_iff _ _ _ _ _ _ Cn C).
        * intros a b _ _ [D1 D2] Na Nb. split.
          -- rewrite assoc_remk_other by exact Na. exact D1.
          -- rewrite assoc_remk_other by exact Nb. exact D2.
      + intros k' I. apply keys_remk_in in I. destruct I as [I N].
        apply u_in_keys_remk; [apply Hi; exact I | exact N].
      + apply nodup_remk; exact NDx.
  Qed.

  (* ---------------- do_insert_update / erase / find ---------------- *)
  Lemma ul_ins_rep2 : forall l s k v a ex, rep2 l s ->
      exists l', ul_ins l k v a ex = Ok (l', snd (um_ins s k v a ex)) /\ rep2 l' (fst (um_ins s k v a ex)).
  Proof.
    intros l s k v a ex R. pose proof (rep2_lookup l s k R) as L.
    unfold ul_ins, um_ins. destruct (assoc k (um_list s)) as [[v0 e0]|] eqn:Ex.
    - destruct L as (n & Inl & Cn). pose proof Cn as [Cn1 Cn2]. simpl in Cn1, Cn2. rewrite Cn2.
      destruct (a_upd a); [|exists l; split; [reflexivity | exact R]].
      unfold ul_do_update. rewrite Cn2. unfold node_of. rewrite (proj2 (u_mem_nat_In n _) Inl), Cn1.
      cbn [bind]. rewrite (u_splice_end _ n Inl). cbn [bind]. rewrite u_prev_end_snoc. cbn [bind].
      eexists. split; [reflexivity|]. simpl. eapply rep2_update; eassumption.
    - rewrite L. destruct (a_ins a); [|exists l; split; [reflexivity | exact R]].
      unfold ul_do_insert. cbn [bind]. eexists. split; [reflexivity|]. simpl. apply rep2_insert; assumption.
  Qed.

  Lemma ul_erase_rep2 : forall l s k, rep2 l s ->
      exists l', ul_erase l k = Ok (l', snd (um_erase s k)) /\ rep2 l' (fst (um_erase s k)).
  Proof.
    intros l s k R. pose proof (rep2_lookup l s k R) as L.
    unfold ul_erase, um_erase. destruct (assoc k (um_list s)) as [[v0 e0]|] eqn:Ex.
    - destruct L as (n & Inl & Cn). pose proof Cn as [Cn1 Cn2]. simpl in Cn1, Cn2. rewrite Cn2.
      unfold ul_do_erase. rewrite Cn2. unfold node_of. rewrite (proj2 (u_mem_nat_In n _) Inl), Cn1.
      cbn [bind]. eexists. split; [reflexivity|]. simpl. eapply rep2_erase; eassumption.
    - rewrite L. exists l; split; [reflexivity | exact R].
  Qed.

  Lemma ul_find_rep2 : forall l s k, rep2 l s -> ul_find l k = um_find s k.
  Proof.
    intros l s k R. pose proof (rep2_lookup l s k R) as L. unfold ul_find, um_find.
    destruct (assoc k (um_list s)) as [[v0 e0]|].
    - destruct L as (n & _ & _ & C2). simpl in C2. rewrite C2. reflexivity.
    - rewrite L. reflexivity.
  Qed.

  Lemma ul_ins_range_rep2 : forall xs l s a ex c, rep2 l s ->
      exists l', ul_ins_range l xs a ex c = Ok (l', snd (um_ins_range s xs a ex c)) /\
                 rep2 l' (fst (um_ins_range s xs a ex c)).
  Proof.
    induction xs as [|[[z k] v] r IH]; intros l s a ex c R; simpl.
    - exists l. split; [reflexivity | exact R].
    - destruct (ul_ins_rep2 l s k v a ex R) as (l1 & E1 & R1). revert E1 R1.
      destruct (um_ins s k v a ex) as [s1 b]. simpl. intros E1 R1. rewrite E1. cbn [bind].
      apply IH. exact R1.
  Qed.

  Lemma ul_erase_range_rep2 : forall ks l s c, rep2 l s ->
      exists l', ul_erase_range l ks c = Ok (l', snd (um_erase_range s ks c)) /\
                 rep2 l' (fst (um_erase_range s ks c)).
  Proof.
    induction ks as [|k r IH]; intros l s c R; simpl.
    - exists l. split; [reflexivity | exact R].
    - destruct (ul_erase_rep2 l s k R) as (l1 & E1 & R1). revert E1 R1.
      destruct (um_erase s k) as [s1 b]. simpl. intros E1 R1. rewrite E1. cbn [bind].
      apply IH. exact R1.
  Qed.

  (* ---------------- one public call ---------------- *)
  Lemma ul_step_rep2 : forall l s o now rnd, rep2 l s ->
      exists l', ul_step l o now rnd = Ok (l', snd (um_step s o now rnd)) /\
                 rep2 l' (fst (um_step s o now rnd)).
  Proof.
    intros l s o now rnd R.
    destruct (ul_do_prune_rep2 l s now R) as (l0 & E0 & R0 & T0).
    pose proof (rep2_len_map l s R) as Hlen.
    assert (T : ul_ttl l = um_ttl s) by (destruct R as (T & _); exact T).
    unfold ul_step, um_step; rewrite T; destruct o;
      try (exists l; split; [reflexivity | exact R]);
      try (rewrite E0; cbn [bind fst snd]).
    - (* Insert *)
      destruct (ul_ins_rep2 l0 (fst (um_prune s now)) k v a (now + ms (um_ttl s))%Z R0) as (l1 & E1 & R1).
      revert E1 R1. destruct (um_ins (fst (um_prune s now)) k v a (now + ms (um_ttl s))%Z) as [s1 b]. simpl.
      intros E1 R1. rewrite E1. cbn [bind]. exists l1. split; [reflexivity | exact R1].
    - (* InsertRange *)
      destruct (ul_ins_range_rep2 l1 l0 (fst (um_prune s now)) a (now + ms (um_ttl s))%Z 0 R0) as (l2 & E1 & R1).
      revert E1 R1. destruct (um_ins_range (fst (um_prune s now)) l1 a (now + ms (um_ttl s))%Z 0) as [s1 b]. simpl.
      intros E1 R1. rewrite E1. cbn [bind]. exists l2. split; [reflexivity | exact R1].
    - (* Erase *)
      destruct (ul_erase_rep2 l0 (fst (um_prune s now)) k R0) as (l1 & E1 & R1).
      revert E1 R1. destruct (um_erase (fst (um_prune s now)) k) as [s1 b]. simpl.
      intros E1 R1. rewrite E1. cbn [bind]. exists l1. split; [reflexivity | exact R1].
    - (* EraseRange *)
      destruct (ul_erase_range_rep2 l1 l0 (fst (um_prune s now)) 0 R0) as (l2 & E1 & R1).
      revert E1 R1. destruct (um_erase_range (fst (um_prune s now)) l1 0) as [s1 b]. simpl.
      intros E1 R1. rewrite E1. cbn [bind]. exists l2. split; [reflexivity | exact R1].
    - (* Find *)
      exists l0. rewrite (ul_find_rep2 l0 _ k R0). split; [reflexivity | exact R0].
    - (* FindRange *)
      exists l0. split; [|exact R0]. simpl. do 3 f_equal. apply map_ext. intros k.
      rewrite (ul_find_rep2 l0 _ k R0). reflexivity.
    - (* FindRangeFill *)
      exists l0. split; [|exact R0]. simpl. do 3 f_equal. apply map_ext. intros k.
      rewrite (ul_find_rep2 l0 _ k R0). reflexivity.
    - (* Clear *)
      eexists. split; [reflexivity|]. simpl. unfold rep2; simpl.
      split; [reflexivity|]. do 3 (split; [constructor|]).
      split; [intros n; tauto|]. split; [intros n []|]. split; [constructor|].
      split; [intros k []|constructor].
    - (* Clean *)
      exists l0. revert E0 R0. destruct (um_prune s now) as [s0 c]. simpl. intros E0 R0.
      split; [reflexivity | exact R0].
    - (* Size *)
      exists l. split; [|exact R]. simpl. unfold um_size. rewrite Hlen. reflexivity.
    - (* Empty *)
      exists l. split; [|exact R]. simpl. unfold um_size. rewrite Hlen. reflexivity.
  Qed.

  (* ======================= the theorems ======================= *)
  Theorem ul_rep_init : forall ttl, ul_rep (K := K) (V := V) (uml_init ttl) (um_init ttl).
  Proof.
    intros ttl. unfold ul_rep, uml_init, um_init; simpl.
    split; [reflexivity|]. do 3 (split; [constructor|]).
    split; [intros n; tauto|]. split; [intros n []|]. split; [reflexivity|]. split; [reflexivity|].
    intros k v tp E. discriminate E.
  Qed.

  Theorem ul_step_refines : forall t (l : uml K V) (s : um K V) o now rnd,
      um_inv t s -> (t <= now)%Z -> ul_rep l s ->
      exists l', ul_step l o now rnd = Ok (l', snd (um_step s o now rnd)) /\
                 ul_rep l' (fst (um_step s o now rnd)) /\ um_inv now (fst (um_step s o now rnd)).
  Proof.
    intros t l s o now rnd I L R.
    assert (R2 : rep2 l s) by (apply ul_rep_rep2; [exact R | destruct I as (_ & ND & _); exact ND]).
    destruct (ul_step_rep2 l s o now rnd R2) as (l' & E & R').
    exists l'. split; [exact E|]. split; [apply rep2_ul_rep; exact R'|].
    eapply (um_inv_step_any t s o now rnd _ (snd (um_step s o now rnd)) I L).
    destruct (um_step s o now rnd); reflexivity.
  Qed.

  Fixpoint ul_run (l : uml K V) (h : list (ev K V)) : res (uml K V * list (ret K V)) :=
    match h with
    | [] => Ok (l, [])
    | e :: r => do x <- ul_step l (e_op e) (e_now e) (e_rnd e);
                let '(l1, y) := x in
                do z <- ul_run l1 r; let '(l2, ys) := z in Ok (l2, y :: ys)
    end.

  Lemma ul_run_refines : forall h t (l : uml K V) (s : um K V),
      um_inv t s -> mono_from t h -> ul_rep l s ->
      exists l', ul_run l h = Ok (l', snd (run um_step s h)) /\ ul_rep l' (fst (run um_step s h)).
  Proof.
    induction h as [|e r IH]; intros t l s I M R; simpl.
    - exists l. split; [reflexivity | exact R].
    - destruct M as [L M].
      destruct (ul_step_refines t l s (e_op e) (e_now e) (e_rnd e) I L R) as (l1 & D1 & R1 & I1).
      rewrite D1. cbn [bind]. unfold step_ev.
      destruct (um_step s (e_op e) (e_now e) (e_rnd e)) as [s1 y1]. simpl in *.
      destruct (IH (e_now e) l1 s1 I1 M R1) as (l2 & D2 & R2).
      rewrite D2. cbn [bind].
      destruct (run um_step s1 r) as [s2 ys]. simpl in *.
      exists l2. split; [reflexivity | exact R2].
  Qed.

  Theorem ul_no_UB_on_any_history : forall ttl h,
      (0 <= ttl)%Z -> mono_from 0 h ->
      exists l', ul_run (uml_init ttl) h = Ok (l', snd (run um_step (um_init ttl) h)) /\
                 ul_rep l' (fst (run um_step (um_init ttl) h)).
  Proof.
    intros ttl h L M.
    exact (ul_run_refines h 0%Z (uml_init ttl) (um_init ttl) (um_inv_init ttl 0%Z L) M (ul_rep_init ttl)).
  Qed.

  (* one value cell per index entry, one list node per index entry: nothing leaks, nothing is
     destroyed twice *)
  Theorem ul_cells_match_entries : forall ttl h l' rs,
      (0 <= ttl)%Z -> mono_from 0 h -> ul_run (uml_init ttl) h = Ok (l', rs) ->
      List.length (ul_map l') = List.length (ul_list l') /\ List.length (ul_nodes l') = List.length (ul_list l').
  Proof.
    intros ttl h l' rs L M E.
    destruct (ul_no_UB_on_any_history ttl h L M) as (l2 & D & R).
    rewrite D in E. inversion E; subst l2. clear E.
    destruct R as (_ & NDl & _ & NDn & Hiff & _ & Hlen & _).
    split; [exact Hlen|].
    rewrite <- (u_length_keys (ul_nodes l')).
    apply Nat.le_antisymm; apply NoDup_incl_length; try assumption; intros n I; apply Hiff; exact I.
  Qed.
End UmLitFacts.
