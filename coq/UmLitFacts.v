(* UmLitFacts.v — C08 for ut_map / ut_set: the literal machine (UmLit.v) never reaches UB and
   computes exactly what the mid-level model (UtMap.v) computes. *)
Require Import Capp.Base Capp.Spec Capp.UtMap Capp.UtMapFacts Capp.RrLit Capp.LruLit Capp.UmLit.
From Coq Require Import Strings.String.

(* ------------------------------------------------------------------------------------ *)
(* association lists (any key type)                                                      *)
(* ------------------------------------------------------------------------------------ *)
Section AssocMore.
  Context {K : Type} `{EqDec K} {A : Type}.
  Local Open Scope list_scope.
  Local Open Scope nat_scope.

  Lemma u_assoc_setk_same : forall (k : K) (a : A) (l : list (K * A)),
      assoc k (setk k a l) = match assoc k l with Some _ => Some a | None => None end.
  Proof.
    intros k a l. induction l as [|[k' a'] r IH]; simpl; [reflexivity|].
    destruct (Base.eqb k k') eqn:E; simpl; rewrite E; [reflexivity | exact IH].
  Qed.

  Lemma u_assoc_setk_other : forall (k k0 : K) (a : A) (l : list (K * A)),
      k <> k0 -> assoc k (setk k0 a l) = assoc k l.
  Proof.
    intros k k0 a l N. induction l as [|[k' a'] r IH]; simpl; [reflexivity|].
    destruct (Base.eqb_spec k0 k') as [E|N'].
    - subst k'. simpl. rewrite (eqb_ne k k0 N). reflexivity.
    - simpl. rewrite IH. reflexivity.
  Qed.

  Lemma u_keys_setk : forall (k : K) (a : A) (l : list (K * A)), keys (setk k a l) = keys l.
  Proof.
    intros k a l. induction l as [|[k' a'] r IH]; simpl; [reflexivity|].
    destruct (Base.eqb k k'); simpl; [reflexivity | f_equal; exact IH].
  Qed.

  Lemma u_keys_app : forall (l l' : list (K * A)), keys (l ++ l') = keys l ++ keys l'.
  Proof. intros l l'. unfold keys. apply map_app. Qed.

  Lemma u_length_keys : forall (l : list (K * A)), List.length (keys l) = List.length l.
  Proof. intros l. unfold keys. apply map_length. Qed.

  Lemma u_remk_notin_id : forall (k : K) (l : list (K * A)), ~ In k (keys l) -> remk k l = l.
  Proof.
    intros k l. induction l as [|[k' a] r IH]; simpl; intros NI; [reflexivity|].
    destruct (Base.eqb_spec k k') as [E|N]; [exfalso; apply NI; left; congruence|].
    f_equal. apply IH. intros I; apply NI; right; exact I.
  Qed.

  Lemma u_assoc_in_pair : forall (k : K) (a : A) (l : list (K * A)), assoc k l = Some a -> In (k, a) l.
  Proof.
    intros k a l. induction l as [|[k' a'] r IH]; simpl; intros E; [discriminate|].
    destruct (Base.eqb_spec k k') as [Ek|Nk].
    - inversion E; subst. left; reflexivity.
    - right. apply IH. exact E.
  Qed.

  Lemma u_in_pair_keys : forall (k : K) (a : A) (l : list (K * A)), In (k, a) l -> In k (keys l).
  Proof. intros k a l I. unfold keys. apply in_map_iff. exists (k, a). split; [reflexivity | exact I]. Qed.

  Lemma u_in_keys_remk : forall (k k' : K) (l : list (K * A)),
      In k' (keys l) -> k' <> k -> In k' (keys (remk k l)).
  Proof.
    intros k k' l I N. apply assoc_keys. rewrite assoc_remk_other by exact N.
    apply assoc_keys. exact I.
  Qed.

  Lemma u_length_remk_S : forall (k : K) (l : list (K * A)) i, NoDup (keys l) -> assoc k l = Some i ->
      S (List.length (remk k l)) = List.length l.
  Proof.
    intros k l i. induction l as [|[k' a] r IH]; simpl; intros N E; [discriminate|].
    inversion N as [|x r' Hni Hnd]; subst.
    destruct (Base.eqb_spec k k') as [Ek|Nk].
    - subst k'. rewrite u_remk_notin_id by exact Hni. reflexivity.
    - simpl. f_equal. apply IH; assumption.
  Qed.

  Lemma u_nodup_app_r : forall (a b : list A), NoDup (a ++ b) -> NoDup b.
  Proof.
    induction a as [|y r IH]; simpl; intros b ND; [exact ND|].
    inversion ND; subst. apply IH. assumption.
  Qed.
End AssocMore.

(* ------------------------------------------------------------------------------------ *)
(* the std::list model: splice to end / prev(end()) / remove                             *)
(* ------------------------------------------------------------------------------------ *)
Section StlMore.
  Local Open Scope list_scope.
  Local Open Scope nat_scope.

  Lemma u_mem_nat_In : forall n l, mem_nat n l = true <-> In n l.
  Proof.
    intros n l. induction l as [|x r IH]; simpl.
    - split; [discriminate|tauto].
    - rewrite orb_true_iff, IH, Nat.eqb_eq.
      split; intros [E|I]; [left; congruence|right; exact I|left; congruence|right; exact I].
  Qed.

  Lemma u_insert_before_End : forall n l, insert_before End n l = l ++ [n].
  Proof. intros n l. induction l as [|x r IH]; simpl; [reflexivity|]. rewrite IH. reflexivity. Qed.

  Lemma u_before_End_snoc : forall l n, before End (l ++ [n]) = Some n.
  Proof.
    induction l as [|x r IH]; intros n; [reflexivity|].
    destruct r as [|y t]; [reflexivity|].
    change (before End (y :: (t ++ [n])) = Some n). exact (IH n).
  Qed.

  Lemma u_prev_end_snoc : forall r n, l_prev (r ++ [n]) End = Ok (It n).
  Proof.
    intros r n. unfold l_prev. simpl valid_it. cbv iota.
    assert (E : iter_eqb End (l_begin (r ++ [n])) = false) by (destruct r; reflexivity).
    rewrite E, u_before_End_snoc. reflexivity.
  Qed.

  Lemma u_splice_end : forall l n, In n l -> l_splice l End (It n) = Ok (remove_nat n l ++ [n]).
  Proof.
    intros l n I. unfold l_splice. rewrite (proj2 (u_mem_nat_In n l) I). simpl.
    rewrite u_insert_before_End. reflexivity.
  Qed.

  Lemma u_remove_nat_notin : forall n l, ~ In n l -> remove_nat n l = l.
  Proof.
    intros n l. induction l as [|x r IH]; simpl; intros NI; [reflexivity|].
    destruct (Nat.eqb_spec n x) as [E|N]; [exfalso; apply NI; left; congruence|].
    f_equal. apply IH. intros I. apply NI. right. exact I.
  Qed.

  Lemma u_in_remove_nat : forall n l m, NoDup l -> (In m (remove_nat n l) <-> In m l /\ m <> n).
  Proof.
    intros n l m. induction l as [|x r IH]; simpl; intros ND; [tauto|].
    inversion ND as [|y t NI ND']; subst.
    destruct (Nat.eqb_spec n x) as [E|N].
    - subst x. split.
      + intros I. split; [right; exact I|]. intros E. subst m. contradiction.
      + intros [[E|I] Nm]; [congruence|exact I].
    - simpl. rewrite (IH ND'). split.
      + intros [E|[I Nm]]; [subst x; split; [left; reflexivity|congruence]|split; [right; exact I|exact Nm]].
      + intros [[E|I] Nm]; [left; exact E|right; split; assumption].
  Qed.

  Lemma u_nodup_remove_nat : forall n l, NoDup l -> NoDup (remove_nat n l).
  Proof.
    intros n l. induction l as [|x r IH]; simpl; intros ND; [constructor|].
    inversion ND as [|y t NI ND']; subst.
    destruct (Nat.eqb_spec n x) as [E|N]; [exact ND'|].
    constructor; [|apply IH; exact ND'].
    intros I. apply (u_in_remove_nat n r x ND') in I. tauto.
  Qed.
End StlMore.

(* ------------------------------------------------------------------------------------ *)
(* Forall2                                                                               *)
(* ------------------------------------------------------------------------------------ *)
Section F2.
  Context {A B : Type}.
  Local Open Scope list_scope.

  Lemma F2_in_l : forall (P : A -> B -> Prop) l xs a, Forall2 P l xs -> In a l -> exists b, In b xs /\ P a b.
  Proof.
    intros P l xs a F. induction F as [|a0 b0 l' xs' P0 F IH]; simpl; intros I; [contradiction|].
    destruct I as [E|I].
    - subst a0. exists b0. split; [left; reflexivity | exact P0].
    - destruct (IH I) as (b & Ib & Pb). exists b. split; [right; exact Ib | exact Pb].
  Qed.

  Lemma F2_in_r : forall (P : A -> B -> Prop) l xs b, Forall2 P l xs -> In b xs -> exists a, In a l /\ P a b.
  Proof.
    intros P l xs b F. induction F as [|a0 b0 l' xs' P0 F IH]; simpl; intros I; [contradiction|].
    destruct I as [E|I].
    - subst b0. exists a0. split; [left; reflexivity | exact P0].
    - destruct (IH I) as (a & Ia & Pa). exists a. split; [right; exact Ia | exact Pa].
  Qed.

  Lemma F2_weaken_in : forall (P Q : A -> B -> Prop) l xs, Forall2 P l xs ->
      (forall a b, In a l -> In b xs -> P a b -> Q a b) -> Forall2 Q l xs.
  Proof.
    intros P Q l xs F. induction F as [|a0 b0 l' xs' P0 F IH]; intros W; constructor.
    - apply W; [left; reflexivity | left; reflexivity | exact P0].
    - apply IH. intros a b Ia Ib Pab. apply W; [right; exact Ia | right; exact Ib | exact Pab].
  Qed.

  Lemma F2_len : forall (P : A -> B -> Prop) l xs, Forall2 P l xs -> List.length l = List.length xs.
  Proof. intros P l xs F. induction F; simpl; [reflexivity | f_equal; assumption]. Qed.
End F2.

Section F2Remove.
  Context {K : Type} `{EqDec K} {A : Type}.
  Local Open Scope list_scope.

  (* removing the node n and the entry of key k, which sit at the same position *)
  Lemma F2_remove_gen : forall (P Q : nat -> K * A -> Prop) n k l xs,
      Forall2 P l xs -> NoDup l -> NoDup (keys xs) ->
      (forall a b, In a l -> In b xs -> P a b -> (a = n <-> fst b = k)) ->
      (forall a b, In a l -> In b xs -> P a b -> a <> n -> fst b <> k -> Q a b) ->
      Forall2 Q (remove_nat n l) (remk k xs).
  Proof.
    intros P Q n k l xs F. induction F as [|a0 b0 l' xs' P0 F IH]; intros NDl NDx Hiff HQ; simpl.
    - constructor.
    - inversion NDl as [|x1 t1 NI1 ND1]; subst.
      destruct b0 as [kb vb]. simpl in NDx. inversion NDx as [|x2 t2 NI2 ND2]; subst.
      assert (IH' : Forall2 Q (remove_nat n l') (remk k xs')).
      { apply IH; [exact ND1 | exact ND2 | |].
        - intros a b Ia Ib Pab. apply Hiff; [right; exact Ia | right; exact Ib | exact Pab].
        - intros a b Ia Ib Pab. apply HQ; [right; exact Ia | right; exact Ib | exact Pab]. }
      pose proof (Hiff a0 (kb, vb) (or_introl eq_refl) (or_introl eq_refl) P0) as Hh. simpl in Hh.
      destruct (Nat.eqb_spec n a0) as [En|Nn]; destruct (Base.eqb_spec k kb) as [Ek|Nk].
      + subst a0 kb. rewrite (u_remove_nat_notin n l' NI1) in IH'. exact IH'.
      + exfalso. apply Nk. symmetry. apply Hh. symmetry. exact En.
      + exfalso. apply Nn. symmetry. apply Hh. symmetry. exact Ek.
      + constructor; [|exact IH'].
        apply HQ; [left; reflexivity | left; reflexivity | exact P0 | congruence | simpl; congruence].
  Qed.
End F2Remove.

Section UmLitFacts.
  Context {K V : Type} `{EqDec K}.
  Local Open Scope list_scope.
  Local Open Scope nat_scope.

  (* ---------------- the working form of the representation ---------------- *)
  (* node n is the list node of the entry x, and the map entry of x's key points back at n *)
  Definition cellr (nodes : list (nat * @tnode K)) (m : list (K * (V * option nat)))
             (n : nat) (x : K * (V * Z)) : Prop :=
    assoc n nodes = Some {| tn_expire := snd (snd x); tn_keyed := fst x |} /\
    assoc (fst x) m = Some (fst (snd x), Some n).

  Definition rep2 (l : uml K V) (s : um K V) : Prop :=
    ul_ttl l = um_ttl s /\
    NoDup (ul_list l) /\ NoDup (keys (ul_map l)) /\ NoDup (keys (ul_nodes l)) /\
    (forall n, In n (ul_list l) <-> In n (keys (ul_nodes l))) /\ (forall n, In n (ul_list l) -> n < ul_next l) /\
    Forall2 (cellr (ul_nodes l) (ul_map l)) (ul_list l) (um_list s) /\
    incl (keys (ul_map l)) (keys (um_list s)) /\
    NoDup (keys (um_list s)).

  Lemma cellr_key_iff : forall nodes m n x a b,
      cellr nodes m n x -> cellr nodes m a b -> (a = n <-> fst b = fst x).
  Proof.
    intros nodes m n x a b [N1 N2] [A1 A2]. split; intro E.
    - subst a. rewrite N1 in A1. inversion A1. reflexivity.
    - rewrite E in A2. rewrite N2 in A2. inversion A2. reflexivity.
  Qed.

  Lemma cellr_entry : forall (l : uml K V) n x, cellr (ul_nodes l) (ul_map l) n x -> ul_entry l n = Some x.
  Proof.
    intros l n [k [v e]] [C1 C2]. simpl in *. unfold ul_entry. rewrite C1. simpl. rewrite C2. reflexivity.
  Qed.

  Lemma F2_cellr_entries : forall (l : uml K V) ns xs,
      Forall2 (cellr (ul_nodes l) (ul_map l)) ns xs -> map (ul_entry l) ns = map (@Some (K * (V * Z))) xs.
  Proof.
    intros l ns xs F. induction F as [|a b ns' xs' C F IH]; simpl; [reflexivity|].
    rewrite (cellr_entry l a b C), IH. reflexivity.
  Qed.

  Lemma rep2_keys_map : forall l s, rep2 l s -> forall k, In k (keys (um_list s)) -> In k (keys (ul_map l)).
  Proof.
    intros l s (_ & _ & _ & _ & _ & _ & F & _ & _) k I.
    unfold keys in I. apply in_map_iff in I. destruct I as (x & Ex & Ix).
    destruct (F2_in_r _ _ _ _ F Ix) as (n & _ & _ & C2). subst k.
    apply assoc_keys. rewrite C2. discriminate.
  Qed.

  Lemma rep2_len_map : forall l s, rep2 l s -> List.length (ul_map l) = List.length (um_list s).
  Proof.
    intros l s R. pose proof (rep2_keys_map l s R) as Hk.
    destruct R as (_ & _ & NDm & _ & _ & _ & _ & Hi & NDx).
    rewrite <- (u_length_keys (ul_map l)), <- (u_length_keys (um_list s)).
    apply Nat.le_antisymm; apply NoDup_incl_length; assumption.
  Qed.

  Lemma rep2_lookup : forall l s k, rep2 l s ->
      match assoc k (um_list s) with
      | Some (v0, e0) => exists n, In n (ul_list l) /\ cellr (ul_nodes l) (ul_map l) n (k, (v0, e0))
      | None => assoc k (ul_map l) = None
      end.
  Proof.
    intros l s k (_ & _ & _ & _ & _ & _ & F & Hi & _).
    destruct (assoc k (um_list s)) as [[v0 e0]|] eqn:E.
    - apply u_assoc_in_pair in E. destruct (F2_in_r _ _ _ _ F E) as (n & In & C). exists n. split; assumption.
    - apply assoc_none. intro I. apply Hi in I. apply assoc_none in E. contradiction.
  Qed.

  Theorem rep2_ul_rep : forall l s, rep2 l s -> ul_rep l s.
  Proof.
    intros l s R. pose proof (rep2_len_map l s R) as Hlen.
    destruct R as (T & NDl & NDm & NDn & Hiff & Hb & F & Hi & NDx).
    unfold ul_rep. repeat (split; [assumption|]).
    split; [rewrite Hlen; symmetry; eapply F2_len; exact F|].
    split; [apply F2_cellr_entries; exact F|].
    intros k v tp E.
    assert (Ik : In k (keys (um_list s))) by (apply Hi; apply assoc_keys; rewrite E; discriminate).
    unfold keys in Ik. apply in_map_iff in Ik. destruct Ik as (x & Ex & Ix).
    destruct (F2_in_r _ _ _ _ F Ix) as (n & In & C1 & C2). subst k.
    rewrite C2 in E. inversion E; subst.
    exists n, {| tn_expire := snd (snd x); tn_keyed := fst x |}. repeat split; assumption.
  Qed.

  Lemma map_some_in : forall (f : nat -> option (K * (V * Z))) ns xs n x,
      map f ns = map (@Some _) xs -> In n ns -> f n = Some x -> In x xs.
  Proof.
    intros f. induction ns as [|a r IH]; intros [|b xs'] n x E I Fx; simpl in *; try contradiction; try discriminate.
    inversion E as [[E1 E2]]. destruct I as [Ea|I].
    - subst a. left. congruence.
    - right. eapply IH; eassumption.
  Qed.

  Lemma entry_inj : forall (f : nat -> option (K * (V * Z))) ns xs,
      map f ns = map (@Some _) xs -> NoDup (keys xs) ->
      forall n n' x x', In n ns -> In n' ns -> f n = Some x -> f n' = Some x' -> fst x = fst x' -> n = n'.
  Proof.
    intros f. induction ns as [|a r IH]; intros [|b xs'] E ND n n' x x' I I' Fx Fx' Ek;
      simpl in *; try contradiction; try discriminate.
    inversion E as [[E1 E2]]. inversion ND as [|y t NI ND']; subst.
    destruct I as [Ea|I]; destruct I' as [Ea'|I'].
    - congruence.
    - subst a. exfalso. apply NI. assert (x = b) by congruence. subst x.
      rewrite Ek. apply (in_map fst). eapply map_some_in; eassumption.
    - subst a. exfalso. apply NI. assert (x' = b) by congruence. subst x'.
      rewrite <- Ek. apply (in_map fst). eapply map_some_in; eassumption.
    - eapply IH; eassumption.
  Qed.

  Lemma map_some_F2 : forall (f : nat -> option (K * (V * Z))) ns xs,
      map f ns = map (@Some _) xs -> Forall2 (fun n x => f n = Some x) ns xs.
  Proof.
    intros f. induction ns as [|a r IH]; intros [|b xs'] E; simpl in *; try discriminate; constructor.
    - inversion E. reflexivity.
    - apply IH. inversion E. reflexivity.
  Qed.

  Theorem ul_rep_rep2 : forall l s, ul_rep l s -> NoDup (keys (um_list s)) -> rep2 l s.
  Proof.
    intros l s (T & NDl & NDm & NDn & Hiff & Hb & Hlen & Hmap & Hptr) NDx.
    assert (Hcell : forall n x, In n (ul_list l) -> ul_entry l n = Some x -> cellr (ul_nodes l) (ul_map l) n x).
    { intros n x In En. pose proof En as En0. unfold ul_entry in En.
      destruct (assoc n (ul_nodes l)) as [t|] eqn:At; [|discriminate].
      destruct (assoc (tn_keyed t) (ul_map l)) as [[v tp]|] eqn:Am; [|discriminate].
      inversion En; subst x; clear En. simpl.
      destruct (Hptr _ _ _ Am) as (n' & t' & Etp & In' & At' & Ek').
      assert (En' : ul_entry l n' = Some (tn_keyed t, (v, tn_expire t'))).
      { unfold ul_entry. rewrite At', Ek', Am. reflexivity. }
      assert (n = n').
      { eapply (entry_inj (ul_entry l)); [exact Hmap | exact NDx | exact In | exact In' | exact En0 | exact En' | reflexivity]. }
      subst n'. split; simpl; [destruct t; exact At | rewrite Am, Etp; reflexivity]. }
    unfold rep2. repeat (split; [assumption|]).
    split; [|split; [|exact NDx]].
    - eapply F2_weaken_in; [apply map_some_F2; exact Hmap|].
      intros a b Ia _ Eab. apply Hcell; assumption.
    - intros k Ik. apply assoc_keys in Ik.
      destruct (assoc k (ul_map l)) as [[v tp]|] eqn:Am; [|congruence].
      destruct (Hptr _ _ _ Am) as (n' & t' & Etp & In' & At' & Ek').
      destruct (F2_in_l _ _ _ _ (map_some_F2 _ _ _ Hmap) In') as (x & Ix & Ex).
      unfold ul_entry in Ex. rewrite At', Ek', Am in Ex. inversion Ex; subst x.
      apply (in_map fst) in Ix. exact Ix.
  Qed.
End UmLitFacts.
