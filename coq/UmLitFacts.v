(* UmLitFacts.v — C08 for ut_map / ut_set: the literal machine (UmLit.v) never reaches UB and
   computes exactly what the mid-level model (UtMap.v) computes. *)
Require Import Capp.Base Capp.Spec Capp.UtMap Capp.UtMapFacts Capp.RrLit Capp.LruLit Capp.UmLit.
From Coq Require Import Strings.String.

Section UmLitFacts.
  Context {K V : Type} `{EqDec K}.

  Theorem ul_rep_init : forall ttl, ul_rep (K := K) (V := V) (uml_init ttl) (um_init ttl).
  Admitted.

  Theorem ul_step_refines : forall t (l : uml K V) (s : um K V) o now rnd,
      um_inv t s -> (t <= now)%Z -> ul_rep l s ->
      exists l', ul_step l o now rnd = Ok (l', snd (um_step s o now rnd)) /\
                 ul_rep l' (fst (um_step s o now rnd)) /\ um_inv now (fst (um_step s o now rnd)).
  Admitted.

  Fixpoint ul_run (l : uml K V) (h : list (ev K V)) : res (uml K V * list (ret K V)) :=
    match h with
    | [] => Ok (l, [])
    | e :: r => do x <- ul_step l (e_op e) (e_now e) (e_rnd e);
                let '(l1, y) := x in
                do z <- ul_run l1 r; let '(l2, ys) := z in Ok (l2, y :: ys)
    end.

  Theorem ul_no_UB_on_any_history : forall ttl h,
      (0 <= ttl)%Z -> mono_from 0 h ->
      exists l', ul_run (uml_init ttl) h = Ok (l', snd (run um_step (um_init ttl) h)) /\
                 ul_rep l' (fst (run um_step (um_init ttl) h)).
  Admitted.

  (* one value cell per index entry, one list node per index entry: nothing leaks, nothing is
     destroyed twice *)
  Theorem ul_cells_match_entries : forall ttl h l' rs,
      (0 <= ttl)%Z -> mono_from 0 h -> ul_run (uml_init ttl) h = Ok (l', rs) ->
      List.length (ul_map l') = List.length (ul_list l') /\ List.length (ul_nodes l') = List.length (ul_list l').
  Admitted.
End UmLitFacts.
