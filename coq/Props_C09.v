(* C09 allow modes: insert / update / insert_or_update obeyed and reported truthfully. *)
Require Import Capp.Base Capp.Spec Capp.Generic Capp.Container Capp.AllKinds Capp.Lift Capp.Range.
Require Import Capp.ListCache Capp.Rr Capp.Lfuda Capp.TtlLru.

Theorem C09_allow_table :
  forall (K V : Type) (E : EqDec K) (kd : kind) (cfg : config), valid_config kd cfg ->
  forall tr t s ttl k v a now rnd s' r,
    let M := kind_model (K:=K) (V:=V) kd in
    wruns M 0 (kind_init kd cfg) tr t s ->
    (t <= now)%Z -> m_rnd_ok M s rnd -> m_step M s (Insert ttl k v a) now rnd = (s', r) ->
    exists b, r = RB b /\
      (* live entry: succeeds exactly when update is allowed *)
      (livek (m_get M s) now k -> b = a_upd a) /\
      (* no entry: succeeds exactly when insert is allowed; update-only creates nothing *)
      (m_get M s k = None -> b = a_ins a) /\
      (* expired, not yet removed: insert-allowed succeeds; update-only may go either way *)
      (deadk (m_get M s) now k -> (a_ins a = true -> b = true) /\
                                  (b = true -> a_ins a = true \/ a_upd a = true)) /\
      (* success: value replaced, TTL restarted *)
      (b = true -> m_get M s' k = Some (v, m_dl M s ttl now)) /\
      (* failure: the existing entry's value and expiry are unchanged *)
      (b = false -> keeps (m_get M s) (m_get M s') now k).
Proof. intros K V E kd cfg Hv. exact (L_allow kd cfg Hv). Qed.
Print Assumptions C09_allow_table.

Theorem C09_insert_or_update_always_succeeds :
  forall (K V : Type) (E : EqDec K) (kd : kind) (cfg : config), valid_config kd cfg ->
  forall tr t s ttl k v now rnd s' r,
    let M := kind_model (K:=K) (V:=V) kd in
    wruns M 0 (kind_init kd cfg) tr t s ->
    (t <= now)%Z -> m_rnd_ok M s rnd ->
    m_step M s (Insert ttl k v {| a_ins := true; a_upd := true |}) now rnd = (s', r) ->
    r = RB true.
Proof. intros K V E kd cfg Hv. exact (L_ins_or_upd kd cfg Hv). Qed.
Print Assumptions C09_insert_or_update_always_succeeds.

(* insert_range reports the number of its single inserts that succeeded (C18) *)
Theorem C09_insert_range_counts_successes :
  forall (K V : Type) (E : EqDec K),
    (forall p (s : lc K V) l a now rnd, range_ok (lc_step p) no_rest s (InsertRange l a) now rnd) /\
    (forall (s : rr K V) l a now rnd, range_ok rr_step rr_rest s (InsertRange l a) now rnd) /\
    (forall (s : lf K V) l a now rnd, range_ok lf_step no_rest s (InsertRange l a) now rnd) /\
    (forall (s : lf K V) l a now rnd, range_ok lfu_step no_rest s (InsertRange l a) now rnd) /\
    (forall (s : tl K V) l a now rnd, range_ok tl_step no_rest s (InsertRange l a) now rnd).
Proof.
  intros K V E.
  exact (conj (fun p s l a => lc_range_is_singles p s (InsertRange l a))
        (conj (fun s l a => rr_range_is_singles s (InsertRange l a))
        (conj (fun s l a => lf_range_is_singles s (InsertRange l a))
        (conj (fun s l a => lfu_range_is_singles s (InsertRange l a))
              (fun s l a => tl_range_is_singles s (InsertRange l a)))))).
Qed.
Print Assumptions C09_insert_range_counts_successes.
