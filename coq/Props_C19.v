(* C19 Non-interference of peeks, misses, rejected inserts and absent-key erases. *)
Require Import Capp.Base Capp.Spec.
Require Import Capp.ListCache Capp.ListCacheFacts Capp.Rr Capp.RrFacts Capp.Lfuda Capp.LfudaFacts.
Require Import Capp.TtlLru Capp.TtlLruFacts Capp.TtlLruBisim Capp.UtMap Capp.UtMapFacts.

(* ---- the six non-TTL caches: the STATE is unchanged, so every later operation returns what
   it would have returned had the call not been made ---- *)
Theorem C19_lru_mru_fifo_no_effect_calls_change_nothing :
  forall (K V : Type) (E : EqDec K) p,
    (forall (s : lc K V) k now rnd, fst (lc_step p s (Find k true) now rnd) = s) /\
    (forall (s : lc K V) k pk now rnd, lc_get s k = None -> lc_step p s (Find k pk) now rnd = (s, RO None)) /\
    (forall (s : lc K V) ttl k v a now rnd s', lc_step p s (Insert ttl k v a) now rnd = (s', RB false) -> s' = s) /\
    (forall (s : lc K V) k now rnd s', lc_step p s (Erase k) now rnd = (s', RB false) -> s' = s).
Proof.
  intros K V E p.
  exact (conj (@lc_peek_noop K V E p) (conj (@lc_miss_noop K V E p)
        (conj (@lc_rejected_insert_noop K V E p) (@lc_erase_absent_noop K V E p)))).
Qed.
Print Assumptions C19_lru_mru_fifo_no_effect_calls_change_nothing.

Theorem C19_rr_no_effect_calls_change_nothing :
  forall (K V : Type) (E : EqDec K),
    (forall (s : rr K V) k pk now rnd, fst (rr_step s (Find k pk) now rnd) = s) /\
    (forall (s : rr K V) ttl k v a now rnd s', rr_step s (Insert ttl k v a) now rnd = (s', RB false) -> s' = s) /\
    (forall (s : rr K V) k now rnd s', rr_step s (Erase k) now rnd = (s', RB false) -> s' = s).
Proof.
  intros K V E.
  exact (conj (@rr_find_noop K V E) (conj (@rr_rejected_insert_noop K V E) (@rr_erase_absent_noop K V E))).
Qed.
Print Assumptions C19_rr_no_effect_calls_change_nothing.

Theorem C19_lfu_lfuda_no_effect_calls_change_nothing :
  forall (K V : Type) (E : EqDec K),
    (forall (s : lf K V) k now rnd, fst (lf_step s (Find k true) now rnd) = s) /\
    (forall (s : lf K V) k now rnd, fst (lf_step s (FindUse k true) now rnd) = s) /\
    (forall (s : lf K V) k pk now rnd, lf_get s k = None -> lf_step s (Find k pk) now rnd = (s, RO None)) /\
    (forall (s : lf K V) ttl k v a now rnd s', lf_step s (Insert ttl k v a) now rnd = (s', RB false) -> s' = s) /\
    (forall (s : lf K V) k now rnd s', lf_step s (Erase k) now rnd = (s', RB false) -> s' = s).
Proof.
  intros K V E.
  exact (conj (@lf_peek_noop K V E) (conj (@lf_peek_use_noop K V E) (conj (@lf_miss_noop K V E)
        (conj (@lf_rejected_insert_noop K V E) (@lf_erase_absent_noop K V E))))).
Qed.
Print Assumptions C19_lfu_lfuda_no_effect_calls_change_nothing.

(* ---- ut_map / ut_set: such a call only purges already-expired entries, and two states that
   agree after purging are indistinguishable by every later insert, erase, lookup or clear
   (same results, same successor state); clean's count and size()/empty() are the only
   observers of the difference ---- *)
Theorem C19_utmap_no_effect_calls_only_purge :
  forall (K V : Type) (E : EqDec K),
    (forall (s : um K V) k pk now rnd, fst (um_step s (Find k pk) now rnd) = fst (um_prune s now)) /\
    (forall (s : um K V) ttl k v a now rnd s',
        um_step s (Insert ttl k v a) now rnd = (s', RB false) -> s' = fst (um_prune s now)) /\
    (forall (s : um K V) k now rnd s',
        um_step s (Erase k) now rnd = (s', RB false) -> s' = fst (um_prune s now)).
Proof.
  intros K V E.
  exact (conj (@um_find_is_purge K V E) (conj (@um_rejected_insert_is_purge K V E) (@um_erase_absent_is_purge K V E))).
Qed.
Print Assumptions C19_utmap_no_effect_calls_only_purge.

Theorem C19_utmap_purging_is_unobservable :
  forall (K V : Type) (E : EqDec K) (s1 s2 : um K V) now now' o rnd,
    (now <= now')%Z ->
    fst (um_prune s1 now) = fst (um_prune s2 now) ->
    purging o = true \/ o = Clear ->
    fst (um_step s1 o now' rnd) = fst (um_step s2 o now' rnd) /\
    (o <> Clean -> um_step s1 o now' rnd = um_step s2 o now' rnd).
Proof. exact @um_purge_unobservable_ok. Qed.
Print Assumptions C19_utmap_purging_is_unobservable.

(* ---- tlru / utlru: a peek of a live entry, a miss of an absent key, a rejected insert and
   an absent-key erase change nothing; a lookup of an expired resident entry removes exactly
   that entry (TtlLruBisim.v shows that removing expired entries is unobservable except
   through size() and update-only insert / erase addressed to that key) ---- *)
Theorem C19_tlru_utlru_no_effect_calls :
  forall (K V : Type) (E : EqDec K),
    (forall (s : tl K V) k now rnd v, tl_view s now k = Some v -> tl_step s (Find k true) now rnd = (s, RO (Some v))) /\
    (forall (s : tl K V) k pk now rnd, tl_get s k = None -> tl_step s (Find k pk) now rnd = (s, RO None)) /\
    (forall (s : tl K V) k pk now rnd v e, assoc k (tl_lru s) = Some (v, e) -> (e <= now)%Z ->
        tl_step s (Find k pk) now rnd = (tl_erase_key s k, RO None)) /\
    (forall (s : tl K V) ttl k v a now rnd s', tl_step s (Insert ttl k v a) now rnd = (s', RB false) -> s' = s) /\
    (forall (s : tl K V) k now rnd s', tl_step s (Erase k) now rnd = (s', RB false) -> s' = s).
Proof.
  intros K V E.
  exact (conj (@tl_peek_live_noop K V E) (conj (@tl_miss_absent_noop K V E) (conj (@tl_miss_dead_reaps K V E)
        (conj (@tl_rejected_insert_noop K V E) (@tl_erase_absent_noop K V E))))).
Qed.
Print Assumptions C19_tlru_utlru_no_effect_calls.

(* tlru / utlru: removing expired entries is unobservable.  [tl_sim]: same configuration and
   the same LIVE entries in the same recency order.  A reaping lookup leads to a related
   state; related states give the same result for every later call and stay related, except
   exactly: size()/empty(), the count of clean_expired_values() (a size() difference), and an
   update-only insert or an erase addressed to a key expired-but-resident on one side. *)
Theorem C19_tlru_utlru_reaping_leads_to_related_state :
  forall (K V : Type) (E : EqDec K) u t now (s : tl K V) k,
    tl_inv u t s -> dead_in s now k -> tl_sim u t now s (tl_erase_key s k).
Proof. exact @tl_reap_related. Qed.
Print Assumptions C19_tlru_utlru_reaping_leads_to_related_state.

Theorem C19_tlru_utlru_related_states_stay_related_over_time :
  forall (K V : Type) (E : EqDec K) u t now now' (s1 s2 : tl K V),
    tl_sim u t now s1 s2 -> (now <= now')%Z -> tl_sim u t now' s1 s2.
Proof. exact @tl_sim_later. Qed.
Print Assumptions C19_tlru_utlru_related_states_stay_related_over_time.

Theorem C19_tlru_utlru_reaping_is_unobservable :
  forall (K V : Type) (E : EqDec K) u t now (s1 s2 : tl K V) o rnd s1' r1 s2' r2,
    tl_sim u t now s1 s2 -> (t <= now)%Z -> single o = true ->
    tl_step s1 o now rnd = (s1', r1) -> tl_step s2 o now rnd = (s2', r2) ->
    (~ result_excepted s1 s2 now o -> r1 = r2) /\
    (~ effect_excepted s1 s2 now o -> tl_sim u now now s1' s2').
Proof. exact @tl_reaping_unobservable. Qed.
Print Assumptions C19_tlru_utlru_reaping_is_unobservable.
