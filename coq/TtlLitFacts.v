(* TtlLitFacts.v — C08 for tlru_cache (uni = false) and utlru_cache (uni = true): the literal
   machine (TtlLit.v) never reaches UB and computes exactly what the mid-level model
   (TtlLru.v) computes. *)
Require Import Capp.Base Capp.Spec Capp.TtlLru Capp.TtlLruFacts Capp.RrLit Capp.LruLit Capp.TtlLit.
From Coq Require Import Strings.String.

Section TtlLitFacts.
  Context {K V : Type} `{EqDec K}.
  Variable uni : bool.

  Theorem tt_rep_init : forall cap ttl,
      1 <= cap -> tt_rep (K := K) (V := V) uni (ttll_init cap ttl) (tl_init uni cap ttl).
  Admitted.

  Theorem tt_step_refines : forall t (l : ttll K V) (s : tl K V) o now rnd,
      tl_inv uni t s -> (t <= now)%Z -> tt_rep uni l s ->
      exists l', tt_step uni l o now rnd = Ok (l', snd (tl_step s o now rnd)) /\
                 tt_rep uni l' (fst (tl_step s o now rnd)) /\ tl_inv uni now (fst (tl_step s o now rnd)).
  Admitted.

  Fixpoint tt_run (l : ttll K V) (h : list (ev K V)) : res (ttll K V * list (ret K V)) :=
    match h with
    | [] => Ok (l, [])
    | e :: r => do x <- tt_step uni l (e_op e) (e_now e) (e_rnd e);
                let '(l1, y) := x in
                do z <- tt_run l1 r; let '(l2, ys) := z in Ok (l2, y :: ys)
    end.

  Theorem tt_no_UB_on_any_history : forall cap ttl h,
      1 <= cap -> mono_from 0 h ->
      exists l', tt_run (ttll_init cap ttl) h = Ok (l', snd (run tl_step (tl_init uni cap ttl) h)) /\
                 tt_rep uni l' (fst (run tl_step (tl_init uni cap ttl) h)).
  Admitted.

  Theorem tt_value_cells_constant : forall cap ttl h l' rs,
      1 <= cap -> mono_from 0 h ->
      tt_run (ttll_init cap ttl) h = Ok (l', rs) -> List.length (tt_elems l') = cap.
  Admitted.
End TtlLitFacts.
