(* TtlLitFacts.v — C08 for tlru_cache (uni = false) and utlru_cache (uni = true): the literal
   machine (TtlLit.v) never reaches UB and computes exactly what the mid-level model
   (TtlLru.v) computes. *)
Require Import Capp.Base Capp.Spec Capp.Rr Capp.TtlLru Capp.TtlLruFacts Capp.RrLit Capp.LruLit Capp.TtlLit.
From Coq Require Import Strings.String.
From Coq Require Import Permutation Sorted.

(* ------------------------------------------------------------------------------------ *)
(* the std::list model on a list  used ++ free  whose partition iterator is begin(free)  *)
(* (same lemmas as in LruLitFacts.v)                                                     *)
(* ------------------------------------------------------------------------------------ *)
Section StlFacts.
  Local Open Scope list_scope.
  Local Open Scope nat_scope.

  Lemma iter_eqb_true a b : iter_eqb a b = true -> a = b.
  Proof.
    destruct a as [x|], b as [y|]; simpl; intros E; try discriminate; auto.
    apply Nat.eqb_eq in E. subst; auto.
  Qed.
  Lemma iter_eqb_refl a : iter_eqb a a = true.
  Proof. destruct a; simpl; auto. apply Nat.eqb_refl. Qed.
  Lemma iter_eqb_neq a b : a <> b -> iter_eqb a b = false.
  Proof.
    intros N. destruct (iter_eqb a b) eqn:E; auto. apply iter_eqb_true in E. contradiction.
  Qed.

  Lemma mem_nat_true n l : mem_nat n l = true <-> In n l.
  Proof.
    induction l as [|x r IH]; simpl.
    - split; [discriminate|tauto].
    - rewrite orb_true_iff, IH, Nat.eqb_eq. split; intros [E|I]; auto.
  Qed.
  Lemma mem_nat_in n l : In n l -> mem_nat n l = true.
  Proof. apply mem_nat_true. Qed.

  (* no node of [a] is the first node of [free] *)
  Definition sep (a free : list nat) : Prop := forall x, In x a -> l_begin free <> It x.

  Lemma nodup_sep a free : NoDup (a ++ free) -> sep a free.
  Proof.
    intros N x I E. destruct free as [|m f]; simpl in E; [discriminate|].
    inversion E; subst m. apply NoDup_remove_2 in N. apply N. apply in_or_app; left; auto.
  Qed.

  Lemma sep_tail x a free : sep (x :: a) free -> sep a free.
  Proof. intros S y I. apply S. right; auto. Qed.

  Lemma valid_begin_app used free : valid_it (used ++ free) (l_begin free) = true.
  Proof.
    destruct free as [|m f]; simpl; auto. apply mem_nat_in. apply in_or_app. right; left; auto.
  Qed.

  Lemma before_app u n free : sep (u ++ [n]) free ->
    before (l_begin free) (u ++ n :: free) = Some n.
  Proof.
    induction u as [|x u IH]; intros S.
    - simpl. destruct free as [|m f]; simpl; auto. rewrite Nat.eqb_refl; auto.
    - assert (S' : sep (u ++ [n]) free) by (eapply sep_tail; exact S).
      specialize (IH S').
      change ((x :: u) ++ n :: free) with (x :: (u ++ n :: free)).
      destruct u as [|y u'].
      + simpl app in *. simpl before at 1.
        rewrite iter_eqb_neq by (apply S; simpl; auto). exact IH.
      + simpl app in *. simpl before at 1.
        rewrite iter_eqb_neq by (apply S; simpl; auto). exact IH.
  Qed.

  Lemma l_begin_in a b : a <> [] -> exists h, l_begin (a ++ b) = It h /\ In h a.
  Proof. destruct a as [|h a]; [congruence|]. intros _. exists h. simpl; auto. Qed.

  Lemma l_prev_app u n free : NoDup (u ++ n :: free) ->
    l_prev (u ++ n :: free) (l_begin free) = Ok (It n).
  Proof.
    intros N.
    assert (E : u ++ n :: free = (u ++ [n]) ++ free) by (rewrite <- app_assoc; reflexivity).
    assert (S : sep (u ++ [n]) free) by (apply nodup_sep; rewrite <- E; exact N).
    unfold l_prev. rewrite E at 1. rewrite valid_begin_app.
    destruct (l_begin_in (u ++ [n]) free) as (h & Eh & Ih). { destruct u; discriminate. }
    rewrite E at 1. rewrite Eh. rewrite iter_eqb_neq by (apply S; exact Ih).
    rewrite before_app by exact S. reflexivity.
  Qed.

  Lemma l_back_app u n : l_back (u ++ [n]) = Ok n.
  Proof.
    unfold l_back. destruct (u ++ [n]) as [|y r] eqn:E; [destruct u; discriminate|].
    rewrite <- E, last_last. reflexivity.
  Qed.

  Lemma after_app u n free : ~ In n u -> after n (u ++ n :: free) = l_begin free.
  Proof.
    induction u as [|x u IH]; intros NI; simpl.
    - rewrite Nat.eqb_refl. reflexivity.
    - destruct (Nat.eqb_spec n x) as [E|Nx]; [exfalso; apply NI; left; auto|].
      apply IH. intros I. apply NI. right; auto.
  Qed.

  (* remove_nat *)
  Lemma remove_nat_app_in n a b : In n a -> remove_nat n (a ++ b) = remove_nat n a ++ b.
  Proof.
    induction a as [|x a IH]; simpl; intros I; [tauto|].
    destruct (Nat.eqb_spec n x) as [E|Nx]; auto.
    destruct I as [E|I]; [congruence|]. simpl. f_equal. auto.
  Qed.
  Lemma remove_nat_app_notin n a b : ~ In n a -> remove_nat n (a ++ b) = a ++ remove_nat n b.
  Proof.
    induction a as [|x a IH]; simpl; intros NI; auto.
    destruct (Nat.eqb_spec n x) as [E|Nx]; [exfalso; apply NI; auto|].
    f_equal. apply IH. intros I; apply NI; auto.
  Qed.
  Lemma remove_nat_notin n a : ~ In n a -> remove_nat n a = a.
  Proof.
    intros NI. rewrite <- (app_nil_r a) at 1. rewrite remove_nat_app_notin by auto.
    simpl. apply app_nil_r.
  Qed.
  Lemma remove_nat_last n u : ~ In n u -> remove_nat n (u ++ [n]) = u.
  Proof.
    intros NI. rewrite remove_nat_app_notin by auto. simpl. rewrite Nat.eqb_refl. apply app_nil_r.
  Qed.
  Lemma perm_remove_nat n l : In n l -> Permutation (n :: remove_nat n l) l.
  Proof.
    induction l as [|x r IH]; simpl; intros I; [tauto|].
    destruct (Nat.eqb_spec n x) as [E|Nx]; [subst; reflexivity|].
    destruct I as [E|I]; [congruence|].
    eapply perm_trans; [apply perm_swap|]. apply perm_skip. auto.
  Qed.
  Lemma in_remove_nat n l x : NoDup l -> (In x (remove_nat n l) <-> In x l /\ x <> n).
  Proof.
    induction l as [|y r IH]; simpl; intros N; [tauto|].
    inversion N as [|y' r' Hni Hnd]; subst.
    destruct (Nat.eqb_spec n y) as [E|Ny].
    - subst y. split.
      + intros I. split; auto. intros E; subst; auto.
      + intros [[E|I] Nx]; [congruence|auto].
    - simpl. rewrite IH by auto. split.
      + intros [E|[I Nx]]; [subst; split; auto|auto].
      + intros [[E|I] Nx]; auto.
  Qed.
  Lemma in_remove_nat_weak n l x : In x (remove_nat n l) -> In x l.
  Proof.
    induction l as [|y r IH]; simpl; auto.
    destruct (Nat.eqb_spec n y) as [E|Ny]; simpl; auto. intros [E|I]; auto.
  Qed.
  Lemma nodup_remove_nat n l : NoDup l -> NoDup (remove_nat n l).
  Proof.
    induction l as [|y r IH]; simpl; intros N; [constructor|].
    inversion N as [|y' r' Hni Hnd]; subst.
    destruct (Nat.eqb_spec n y) as [E|Ny]; auto.
    constructor; auto. intros I. apply Hni. eapply in_remove_nat_weak; eauto.
  Qed.
  Lemma remove_nat_rev n l : NoDup l -> remove_nat n (rev l) = rev (remove_nat n l).
  Proof.
    induction l as [|x r IH]; simpl; intros N; auto.
    inversion N as [|x' r' Hni Hnd]; subst.
    destruct (Nat.eqb_spec n x) as [E|Nx].
    - subst x. apply remove_nat_last. rewrite <- in_rev. auto.
    - simpl. rewrite <- IH by auto.
      destruct (in_dec Nat.eq_dec n (rev r)) as [I|NI].
      + apply remove_nat_app_in; auto.
      + rewrite remove_nat_app_notin by auto. simpl.
        destruct (Nat.eqb_spec n x) as [E|_]; [congruence|].
        rewrite remove_nat_notin by auto. reflexivity.
  Qed.

  Lemma insert_before_app a n free : sep a free ->
    insert_before (l_begin free) n (a ++ free) = a ++ n :: free.
  Proof.
    induction a as [|x a IH]; intros S; simpl.
    - destruct free as [|m f]; simpl; auto. rewrite Nat.eqb_refl; auto.
    - rewrite iter_eqb_neq by (apply S; left; auto). f_equal. apply IH. eapply sep_tail; eauto.
  Qed.

  (* splice(partition point, list, n) for a used node n *)
  Lemma l_splice_end used free n : NoDup (used ++ free) -> In n used ->
    l_splice (used ++ free) (l_begin free) (It n) = Ok (remove_nat n used ++ n :: free).
  Proof.
    intros N I. pose proof (nodup_sep _ _ N) as S.
    unfold l_splice. rewrite mem_nat_in by (apply in_or_app; auto).
    rewrite valid_begin_app. rewrite iter_eqb_neq by (apply S; auto).
    rewrite remove_nat_app_in by auto. rewrite insert_before_app; auto.
    intros x Ix. apply S. eapply in_remove_nat_weak; eauto.
  Qed.

  (* splice(begin(), list, n) *)
  Lemma l_splice_begin l n : In n l -> l_splice l (l_begin l) (It n) = Ok (n :: remove_nat n l).
  Proof.
    intros I. unfold l_splice. rewrite mem_nat_in by auto.
    destruct l as [|x r]; [destruct I|]. simpl l_begin.
    assert (Hv : valid_it (x :: r) (It x) = true) by (simpl; rewrite Nat.eqb_refl; auto).
    rewrite Hv. simpl iter_eqb. simpl remove_nat.
    destruct (Nat.eqb_spec x n) as [E|Nx].
    - subst x. rewrite Nat.eqb_refl. reflexivity.
    - destruct (Nat.eqb_spec n x) as [E|_]; [congruence|].
      simpl. rewrite Nat.eqb_refl. reflexivity.
  Qed.
End StlFacts.

(* ------------------------------------------------------------------------------------ *)
(* association lists, vectors, reading a node sequence through the cells                 *)
(* ------------------------------------------------------------------------------------ *)
Section ReadFacts.
  Context {K : Type} `{EqDec K} {A : Type}.
  Local Open Scope list_scope.
  Local Open Scope nat_scope.

  Lemma in_pair_keys k a (l : list (K * A)) : In (k, a) l -> In k (keys l).
  Proof. intros I. unfold keys. apply in_map_iff. exists (k, a). auto. Qed.

  Lemma remk_notin_id k (l : list (K * A)) : ~ In k (keys l) -> remk k l = l.
  Proof. intros NI. apply tl_remk_absent. apply tl_assoc_none_keys. exact NI. Qed.

  (* a node sequence [ns] read through [f] gives the entry list [items] *)
  Variable f : nat -> option (K * A).

  Lemma reads_in ns (items : list (K * A)) n k a :
    map f ns = map (@Some (K * A)) items -> In n ns -> f n = Some (k, a) -> In (k, a) items.
  Proof.
    intros E I Fn. assert (I' : In (f n) (map f ns)) by (apply in_map; auto).
    rewrite E, Fn in I'. apply in_map_iff in I'. destruct I' as (x & Ex & Ix).
    inversion Ex; subst. auto.
  Qed.

  Lemma reads_in_inv ns (items : list (K * A)) k a :
    map f ns = map (@Some (K * A)) items -> In (k, a) items -> exists n, In n ns /\ f n = Some (k, a).
  Proof.
    intros E I. assert (I' : In (Some (k, a)) (map (@Some (K * A)) items)) by (apply in_map; auto).
    rewrite <- E in I'. apply in_map_iff in I'. destruct I' as (n & En & In'). eauto.
  Qed.

  Lemma reads_remove ns : forall (items : list (K * A)) n k a,
    map f ns = map (@Some (K * A)) items -> NoDup (keys items) -> In n ns -> f n = Some (k, a) ->
    map f (remove_nat n ns) = map (@Some (K * A)) (remk k items).
  Proof.
    induction ns as [|x r IH]; intros items n k a E Nk I Fn; [destruct I|].
    destruct items as [|[k' a'] it]; simpl in E; [discriminate|].
    injection E as E1 E2. simpl in Nk. inversion Nk as [|y q Hni Hnd]; subst.
    simpl. destruct (Nat.eqb_spec n x) as [Enx|Nnx].
    - subst x. rewrite Fn in E1. inversion E1; subst k' a'. rewrite tl_keqb_refl.
      rewrite remk_notin_id by auto. exact E2.
    - destruct I as [I|I]; [congruence|].
      assert (Nkk : k <> k').
      { intros Ek; subst k'. apply Hni. eapply in_pair_keys. eapply reads_in; eauto. }
      rewrite tl_keqb_neq by auto. simpl. f_equal; [exact E1|]. eapply IH; eauto.
  Qed.
End ReadFacts.

Section VecFacts.
  Local Open Scope list_scope.
  Local Open Scope nat_scope.

  Lemma nth_error_upd_eq A (l : list A) : forall i x, i < List.length l ->
    nth_error (upd_nth i x l) i = Some x.
  Proof.
    induction l as [|y r IH]; intros [|j] x Hi; simpl in *; try lia; auto. apply IH; lia.
  Qed.
  Lemma nth_error_upd_neq A (l : list A) : forall i j x, j <> i ->
    nth_error (upd_nth i x l) j = nth_error l j.
  Proof.
    induction l as [|y r IH]; intros [|i] [|j] x Hne; simpl; try congruence; auto.
  Qed.
  Lemma upd_nth_len A (l : list A) : forall i x, List.length (upd_nth i x l) = List.length l.
  Proof. induction l as [|y r IH]; intros [|i] x; simpl; auto. Qed.
  Lemma vget_ok A what (l : list A) i a : nth_error l i = Some a -> vget what l i = Ok a.
  Proof. intros E. unfold vget. rewrite E. reflexivity. Qed.
  Lemma vset_ok A what (l : list A) i a : i < List.length l -> vset what l i a = Ok (upd_nth i a l).
  Proof. intros Hi. unfold vset. destruct (Nat.ltb_spec i (List.length l)); [reflexivity|lia]. Qed.

  Lemma nodup_app_l A (a b : list A) : NoDup (a ++ b) -> NoDup a.
  Proof.
    induction a as [|x a IH]; simpl; intros N; [constructor|].
    inversion N as [|y r Hni Hnd]; subst. constructor; auto.
    intros I. apply Hni. apply in_or_app; auto.
  Qed.

  Lemma ss_app_inv A (R : A -> A -> Prop) (l1 l2 : list A) : StronglySorted R (l1 ++ l2) ->
    StronglySorted R l1 /\ StronglySorted R l2 /\ forall a b, In a l1 -> In b l2 -> R a b.
  Proof.
    induction l1 as [|x l1 IH]; simpl; intros S.
    - split; [constructor|]. split; [exact S|]. intros a b [].
    - inversion S as [|y r S' F]; subst. destruct (IH S') as (S1 & S2 & S3).
      rewrite Forall_forall in F. split.
      + constructor; auto. rewrite Forall_forall. intros z Iz. apply F. apply in_or_app; auto.
      + split; auto. intros a b [E|Ia] Ib; [subst; apply F; apply in_or_app; auto|auto].
  Qed.
End VecFacts.

(* ------------------------------------------------------------------------------------ *)
(* the deadline structure read through the cells                                         *)
(* ------------------------------------------------------------------------------------ *)
Section OrdFacts.
  Context {K V : Type} `{EqDec K}.
  Local Open Scope list_scope.
  Local Open Scope nat_scope.

  Lemma map_snd_ord_remove n (o : list (Z * nat)) : map snd (ord_remove n o) = remove_nat n (map snd o).
  Proof.
    induction o as [|[z x] r IH]; simpl; auto.
    destruct (Nat.eqb n x); simpl; auto. f_equal. exact IH.
  Qed.
  Lemma ord_has_mem n (o : list (Z * nat)) : ord_has n o = mem_nat n (map snd o).
  Proof. induction o as [|[z x] r IH]; simpl; auto. rewrite IH. reflexivity. Qed.
  Lemma in_ord_remove_weak n (o : list (Z * nat)) zx : In zx (ord_remove n o) -> In zx o.
  Proof.
    induction o as [|[z x] r IH]; simpl; auto.
    destruct (Nat.eqb n x); simpl; auto. intros [E|I]; auto.
  Qed.
  Lemma ord_erase_ok n (o : list (Z * nat)) : In n (map snd o) -> ord_erase o (Some n) = Ok (ord_remove n o).
  Proof. intros I. unfold ord_erase. rewrite ord_has_mem, mem_nat_in by exact I. reflexivity. Qed.

  Lemma in_mm_emplace e n (o : list (Z * nat)) zx : In zx (mm_emplace_z e n o) <-> zx = (e, n) \/ In zx o.
  Proof.
    induction o as [|[z x] r IH]; simpl.
    - split; intros [E|F]; auto.
    - destruct (z <=? e)%Z; simpl.
      + rewrite IH. split; intros [E|[F|G]]; auto.
      + split; intros [E|[F|G]]; auto.
  Qed.
  Lemma perm_mm_emplace e n (o : list (Z * nat)) : Permutation (mm_emplace_z e n o) ((e, n) :: o).
  Proof.
    induction o as [|[z x] r IH]; simpl; auto.
    destruct (z <=? e)%Z; auto.
    eapply perm_trans; [apply perm_skip; exact IH|]. apply perm_swap.
  Qed.

  Lemma perm_walk_emplace (es : list (telem K V)) e n : forall r r',
    walk_emplace es e n r = Ok r' -> Permutation (map snd r') (n :: map snd r).
  Proof.
    induction r as [|[z x] r IH]; simpl; intros r' E.
    - inversion E; subst. simpl. auto.
    - destruct (vget _ es x) as [c|w]; simpl in E; [|discriminate].
      destruct (e <? te_expire c)%Z.
      + destruct (walk_emplace es e n r) as [r1|w]; simpl in E; [|discriminate].
        inversion E; subst. simpl. eapply perm_trans; [apply perm_skip; apply IH; reflexivity|].
        apply perm_swap.
      + inversion E; subst. simpl. auto.
  Qed.

  (* dl_insert at the two ends *)
  Lemma dl_insert_before_last (e : Z) (k : K) a e' k' : (e < e')%Z ->
    dl_insert e k (a ++ [(e', k')]) = dl_insert e k a ++ [(e', k')].
  Proof.
    intros Hlt. induction a as [|[e1 k1] a IH]; simpl.
    - destruct (Z.leb_spec e' e); [lia|reflexivity].
    - destruct (e1 <=? e)%Z; simpl; [f_equal; exact IH|reflexivity].
  Qed.
  Lemma dl_insert_at_end (e : Z) (k : K) a : (forall x, In x a -> (fst x <= e)%Z) ->
    dl_insert e k a = a ++ [(e, k)].
  Proof.
    induction a as [|[e1 k1] a IH]; simpl; intros Hall; auto.
    destruct (Z.leb_spec e1 e) as [Hle|Hgt].
    - f_equal. apply IH. intros x Ix. apply Hall. auto.
    - specialize (Hall (e1, k1) (or_introl eq_refl)). simpl in Hall. lia.
  Qed.

  (* reading: [h x] is what the cell of slot x files in the deadline structure *)
  Definition rd (h : nat -> option (Z * K)) (zn : Z * nat) : option (Z * K) := h (snd zn).

  Lemma rd_in h (o : list (Z * nat)) (o' : list (Z * K)) z x :
    map (rd h) o = map (@Some (Z * K)) o' -> In (z, x) o -> exists e k, h x = Some (e, k) /\ In (e, k) o'.
  Proof.
    intros E I. assert (I' : In (rd h (z, x)) (map (rd h) o)) by (apply in_map; auto).
    rewrite E in I'. apply in_map_iff in I'. destruct I' as ([e k] & Ex & Ix).
    exists e, k. split; auto.
  Qed.
  Lemma rd_in_snd h (o : list (Z * nat)) (o' : list (Z * K)) x :
    map (rd h) o = map (@Some (Z * K)) o' -> In x (map snd o) -> exists e k, h x = Some (e, k) /\ In (e, k) o'.
  Proof.
    intros E I. apply in_map_iff in I. destruct I as ([z x'] & Ex & I). simpl in Ex. subst x'.
    eapply rd_in; eauto.
  Qed.
  Lemma rd_ext h h' (o : list (Z * nat)) : (forall x, In x (map snd o) -> h' x = h x) ->
    map (rd h') o = map (rd h) o.
  Proof.
    intros Hx. apply map_ext_in. intros [z x] I. unfold rd. simpl. apply Hx.
    apply in_map_iff. exists (z, x). auto.
  Qed.

  Lemma rd_remove h : forall (o : list (Z * nat)) (o' : list (Z * K)) n e k,
    map (rd h) o = map (@Some (Z * K)) o' -> NoDup (map snd o') -> In n (map snd o) -> h n = Some (e, k) ->
    map (rd h) (ord_remove n o) = map (@Some (Z * K)) (rem2 k o').
  Proof.
    induction o as [|[z x] r IH]; intros o' n e k E Nd I Hn; [destruct I|].
    destruct o' as [|[e' k'] o'']; simpl in E; [discriminate|].
    injection E as E1 E2. unfold rd in E1. simpl in E1.
    simpl in Nd. inversion Nd as [|y q Hni Hnd]; subst.
    simpl. destruct (Nat.eqb_spec n x) as [Enx|Nnx].
    - subst x. rewrite Hn in E1. inversion E1; subst e' k'. rewrite tl_keqb_refl.
      rewrite tl_rem2_absent by exact Hni. exact E2.
    - destruct I as [I|I]; [simpl in I; congruence|].
      assert (Nkk : k <> k').
      { intros Ek; subst k'. apply Hni.
        destruct (rd_in_snd h r o'' n E2 I) as (e1 & k1 & H1 & H2). rewrite Hn in H1. inversion H1; subst.
        apply in_map_iff. exists (e1, k1). auto. }
      rewrite tl_keqb_neq by auto. simpl. f_equal; [exact E1|]. eapply IH; eauto.
  Qed.

  Lemma rd_mm h h' : forall (o : list (Z * nat)) (o' : list (Z * K)) e k n,
    map (rd h) o = map (@Some (Z * K)) o' ->
    (forall z x, In (z, x) o -> exists k', h x = Some (z, k')) ->
    (forall x, In x (map snd o) -> h' x = h x) -> h' n = Some (e, k) ->
    map (rd h') (mm_emplace_z e n o) = map (@Some (Z * K)) (dl_insert e k o').
  Proof.
    induction o as [|[z x] r IH]; intros o' e k n E Hz Hx Hn.
    - destruct o'; [|discriminate]. simpl. unfold rd. simpl. rewrite Hn. reflexivity.
    - destruct o' as [|[e' k'] o'']; simpl in E; [discriminate|].
      injection E as E1 E2. unfold rd in E1. simpl in E1.
      destruct (Hz z x (or_introl eq_refl)) as (k2 & Hk2). rewrite Hk2 in E1. inversion E1; subst e' k'.
      assert (Hxx : h' x = h x) by (apply Hx; simpl; auto).
      simpl. destruct (z <=? e)%Z; simpl.
      + f_equal; [unfold rd; simpl; congruence|]. apply IH; auto.
        * intros z1 x1 I1. apply Hz. right; auto.
        * intros x1 I1. apply Hx. simpl; auto.
      + f_equal; [unfold rd; simpl; exact Hn|]. f_equal; [unfold rd; simpl; congruence|].
        rewrite <- E2. apply rd_ext. intros x1 I1. apply Hx. simpl; auto.
  Qed.

  Lemma rd_walk (es : list (telem K V)) h h' e k n : forall (r : list (Z * nat)) (ro' : list (Z * K)),
    map (rd h) r = map (@Some (Z * K)) ro' ->
    (forall x e' k', In x (map snd r) -> h x = Some (e', k') ->
                     exists c, nth_error es x = Some c /\ te_expire c = e') ->
    StronglySorted Z.le (map fst (rev ro')) ->
    (forall x, In x (map snd r) -> h' x = h x) -> h' n = Some (e, k) ->
    exists r', walk_emplace es e n r = Ok r' /\
               map (rd h') r' = map (@Some (Z * K)) (rev (dl_insert e k (rev ro'))).
  Proof.
    induction r as [|[z x] r IH]; intros ro' E Hes Hs Hx Hn.
    - destruct ro'; [|discriminate]. simpl. eexists. split; [reflexivity|].
      simpl. unfold rd. simpl. rewrite Hn. reflexivity.
    - destruct ro' as [|[e' k'] ro1]; simpl in E; [discriminate|].
      injection E as E1 E2. unfold rd in E1. simpl in E1.
      destruct (Hes x e' k' (or_introl eq_refl) E1) as (c & Hc & Hce).
      assert (Hxx : h' x = h x) by (apply Hx; simpl; auto).
      simpl walk_emplace. rewrite (vget_ok _ _ _ _ _ Hc). cbn [bind]. rewrite Hce.
      simpl rev in Hs. rewrite map_app in Hs. simpl in Hs.
      destruct (ss_app_inv _ _ _ _ Hs) as (S1 & _ & S3).
      destruct (Z.ltb_spec e e') as [Hlt|Hge].
      + destruct (IH ro1 E2) as (r1 & W & R1); auto.
        * intros x1 e1 k1 I1. apply Hes. simpl; auto.
        * intros x1 I1. apply Hx. simpl; auto.
        * rewrite W. cbn [bind]. eexists. split; [reflexivity|].
          simpl rev. rewrite dl_insert_before_last by exact Hlt. rewrite rev_unit.
          simpl. f_equal; [unfold rd; simpl; congruence|exact R1].
      + eexists. split; [reflexivity|].
        rewrite dl_insert_at_end.
        * rewrite rev_unit. simpl rev. rewrite rev_app_distr. simpl. rewrite rev_involutive.
          f_equal; [unfold rd; simpl; exact Hn|]. f_equal; [unfold rd; simpl; congruence|].
          rewrite <- E2. apply rd_ext. intros x1 I1. apply Hx. simpl; auto.
        * intros [e1 k1] I1. simpl. simpl in I1. apply in_app_or in I1. destruct I1 as [I1|[I1|[]]].
          -- assert (Hle : (e1 <= e')%Z).
             { apply S3; [|simpl; auto]. apply in_map_iff. exists (e1, k1). auto. }
             lia.
          -- inversion I1; subst. lia.
  Qed.
End OrdFacts.

(* ------------------------------------------------------------------------------------ *)
(* the representation through its components                                             *)
(* ------------------------------------------------------------------------------------ *)
Section CoreFacts.
  Context {K V : Type} `{EqDec K}.
  Variable uni : bool.
  Local Open Scope list_scope.
  Local Open Scope nat_scope.

  Definition entry_at (es : list (telem K V)) (n : nat) : option (K * (V * Z)) :=
    match nth_error es n with
    | Some {| te_expire := e; te_keyed := Some k; te_lru := _; te_ttl := _; te_val := Some v |} => Some (k, (v, e))
    | _ => None
    end.
  Definition ordent_at (es : list (telem K V)) (n : nat) : option (Z * K) :=
    match nth_error es n with
    | Some {| te_expire := e; te_keyed := Some k; te_lru := _; te_ttl := _; te_val := _ |} => Some (e, k)
    | _ => None
    end.

  Lemma entry_at_cell es n c k v e : nth_error es n = Some c -> te_keyed c = Some k -> te_val c = Some v ->
    te_expire c = e -> entry_at es n = Some (k, (v, e)).
  Proof.
    intros E Ek Ev Ee. unfold entry_at. rewrite E. destruct c as [e1 ko lo to vo]. simpl in *. subst. reflexivity.
  Qed.
  Lemma ordent_at_cell es n c k e : nth_error es n = Some c -> te_keyed c = Some k ->
    te_expire c = e -> ordent_at es n = Some (e, k).
  Proof.
    intros E Ek Ee. unfold ordent_at. rewrite E. destruct c as [e1 ko lo to vo]. simpl in *. subst. reflexivity.
  Qed.
  Lemma entry_at_inv es n k v e : entry_at es n = Some (k, (v, e)) ->
    exists c, nth_error es n = Some c /\ te_keyed c = Some k /\ te_val c = Some v /\ te_expire c = e.
  Proof.
    unfold entry_at. destruct (nth_error es n) as [c|]; [|discriminate].
    destruct c as [e0 [k0|] lo to [v0|]]; try discriminate. intros E. inversion E; subst.
    eexists. split; [reflexivity|]. simpl. auto.
  Qed.
  Lemma ordent_at_inv es n k e : ordent_at es n = Some (e, k) ->
    exists c, nth_error es n = Some c /\ te_keyed c = Some k /\ te_expire c = e.
  Proof.
    unfold ordent_at. destruct (nth_error es n) as [c|]; [|discriminate].
    destruct c as [e0 [k0|] lo to vo]; try discriminate. intros E. inversion E; subst.
    eexists. split; [reflexivity|]. simpl. auto.
  Qed.
  Lemma entry_at_ext es es' n : nth_error es' n = nth_error es n -> entry_at es' n = entry_at es n.
  Proof. intros E. unfold entry_at. rewrite E. reflexivity. Qed.
  Lemma ordent_at_ext es es' n : nth_error es' n = nth_error es n -> ordent_at es' n = ordent_at es n.
  Proof. intros E. unfold ordent_at. rewrite E. reflexivity. Qed.

  Definition cellok (es : list (telem K V)) (ix : list (K * nat)) (n : nat) (k : K) (v : V) (e : Z) : Prop :=
    exists c, nth_error es n = Some c /\ te_keyed c = Some k /\ te_val c = Some v /\ te_expire c = e /\
              te_lru c = Some (It n) /\ te_ttl c = Some n /\ assoc k ix = Some n.

  Definition core (cap : nat) (es : list (telem K V)) (ix : list (K * nat)) (used free : list nat)
             (o : list (Z * nat)) (lru : list (K * (V * Z))) (ord : list (Z * K)) : Prop :=
    List.length es = cap /\ NoDup (used ++ free) /\ List.length (used ++ free) = cap /\
    (forall n, In n (used ++ free) -> n < cap) /\
    List.length ix = List.length used /\ NoDup (keys ix) /\
    map (entry_at es) (rev used) = map (@Some (K * (V * Z))) lru /\
    map (rd (ordent_at es)) o = map (@Some (Z * K)) ord /\
    NoDup (map snd o) /\ (forall n, In n used <-> In n (map snd o)) /\
    (uni = false -> forall z n, In (z, n) o -> exists c, nth_error es n = Some c /\ te_expire c = z) /\
    (forall n, In n used -> exists k v e, cellok es ix n k v e) /\
    (forall k n, assoc k ix = Some n -> In n used /\ exists c, nth_error es n = Some c /\ te_keyed c = Some k).

  Lemma core_nodup_used cap es ix used free o lru ord : core cap es ix used free o lru ord -> NoDup used.
  Proof. intros (_ & Hnd & _). eapply nodup_app_l; eauto. Qed.

  Lemma core_len cap es ix used free o lru ord : core cap es ix used free o lru ord ->
    List.length lru = List.length used.
  Proof.
    intros (_ & _ & _ & _ & _ & _ & Hmap & _).
    apply (f_equal (@List.length _)) in Hmap. rewrite !map_length, rev_length in Hmap. auto.
  Qed.
  Lemma core_len_ord cap es ix used free o lru ord : core cap es ix used free o lru ord ->
    List.length ord = List.length o.
  Proof.
    intros (_ & _ & _ & _ & _ & _ & _ & Hord & _).
    apply (f_equal (@List.length _)) in Hord. rewrite !map_length in Hord. auto.
  Qed.

  Lemma core_lookup cap es ix used free o lru ord k n :
    core cap es ix used free o lru ord -> NoDup (keys lru) -> assoc k ix = Some n ->
    In n used /\ n < cap /\ exists v e, cellok es ix n k v e /\ assoc k lru = Some (v, e).
  Proof.
    intros (Hle & Hnd & Hlen & Hb & Hix & Hnk & Hmap & Hord & Hndo & Huo & Hz & HA & HB) Nk E.
    destruct (HB k n E) as (I & c & Hc & Hck).
    split; [exact I|]. split; [apply Hb; apply in_or_app; auto|].
    destruct (HA n I) as (k0 & v & e & c0 & Hc0 & Hk0 & Hv0 & He0 & Hl0 & Ht0 & Ha0).
    rewrite Hc in Hc0. inversion Hc0; subst c0. rewrite Hck in Hk0. inversion Hk0; subst k0.
    exists v, e. split.
    - exists c. repeat split; auto.
    - apply tl_in_assoc_nodup; auto. eapply reads_in; [exact Hmap|apply -> in_rev; exact I|].
      eapply entry_at_cell; eauto.
  Qed.

  Lemma core_lookup_none cap es ix used free o lru ord k :
    core cap es ix used free o lru ord -> assoc k ix = None -> assoc k lru = None.
  Proof.
    intros (Hle & Hnd & Hlen & Hb & Hix & Hnk & Hmap & Hord & Hndo & Huo & Hz & HA & HB) E.
    destruct (assoc k lru) as [[v e]|] eqn:Ea; auto. exfalso.
    apply tl_assoc_some_in in Ea.
    destruct (reads_in_inv _ _ _ _ _ Hmap Ea) as (n & I & Fn).
    apply in_rev in I. destruct (HA n I) as (k0 & v0 & e0 & c0 & Hc0 & Hk0 & Hv0 & He0 & Hl0 & Ht0 & Ha0).
    destruct (entry_at_inv _ _ _ _ _ Fn) as (c & Hc & Hk & _).
    rewrite Hc in Hc0. inversion Hc0; subst c0. rewrite Hk in Hk0. inversion Hk0; subst k0. congruence.
  Qed.

  (* do_erase *)
  Lemma core_erase cap es ix used free o lru ord k n :
    core cap es ix used free o lru ord -> tl_core lru ord -> assoc k ix = Some n ->
    core cap es (remk k ix) (remove_nat n used) (n :: free) (ord_remove n o) (remk k lru) (rem2 k ord).
  Proof.
    intros C (Nk & Nko & _ & _) E.
    pose proof (core_nodup_used _ _ _ _ _ _ _ _ C) as Nu.
    destruct (core_lookup _ _ _ _ _ _ _ _ _ _ C Nk E) as (I & Hn & v0 & e0 & CK & Ea).
    destruct C as (Hle & Hnd & Hlen & Hb & Hix & Hnk & Hmap & Hord & Hndo & Huo & Hz & HA & HB).
    destruct CK as (c & Hc & Hck & Hcv & Hce & Hcl & Hct & _).
    assert (P1 : Permutation (n :: remove_nat n used) used) by (apply perm_remove_nat; auto).
    assert (P : Permutation (remove_nat n used ++ n :: free) (used ++ free)).
    { eapply perm_trans; [symmetry; apply Permutation_middle|].
      change (n :: remove_nat n used ++ free) with ((n :: remove_nat n used) ++ free).
      apply Permutation_app_tail. exact P1. }
    unfold core.
    split; [exact Hle|].
    split. { eapply Permutation_NoDup; [symmetry; exact P|exact Hnd]. }
    split. { rewrite (Permutation_length P). exact Hlen. }
    split. { intros m Im. apply Hb. eapply Permutation_in; eauto. }
    split. { apply Permutation_length in P1. simpl in P1.
             pose proof (tl_length_remk k n ix Hnk E). lia. }
    split; [apply tl_nodup_keys_remk; exact Hnk|].
    split.
    { rewrite <- remove_nat_rev by exact Nu.
      eapply reads_remove; [exact Hmap|exact Nk|apply -> in_rev; exact I|].
      eapply entry_at_cell; eauto. }
    split.
    { eapply rd_remove; [exact Hord|exact Nko|apply Huo; exact I|].
      eapply ordent_at_cell; eauto. }
    split. { rewrite map_snd_ord_remove. apply nodup_remove_nat. exact Hndo. }
    split.
    { intros m. rewrite map_snd_ord_remove. rewrite !in_remove_nat by auto. rewrite Huo. tauto. }
    split. { intros Hu z m Im. apply (Hz Hu). eapply in_ord_remove_weak; eauto. }
    split.
    { intros m Im. apply in_remove_nat in Im; [|exact Nu]. destruct Im as [Im Nmn].
      destruct (HA m Im) as (km & vm & em & cm & Hcm & Hkm & Hvm & Hem & Hlm & Htm & Ham).
      exists km, vm, em, cm. repeat split; auto.
      rewrite tl_assoc_remk. destruct (Base.eqb_spec k km) as [Ek|Nkk]; auto.
      subst km. rewrite E in Ham. inversion Ham. congruence. }
    intros k' m E'. rewrite tl_assoc_remk in E'.
    destruct (Base.eqb_spec k k') as [Ek|Nkk]; [discriminate|].
    destruct (HB k' m E') as (Im & cm & Hcm & Hkm). split; [|eauto].
    apply in_remove_nat; auto. split; auto. intros Emn; subst m.
    rewrite Hc in Hcm. inversion Hcm; subst cm. congruence.
  Qed.

  (* do_access of node n, whose cell (and the deadline structure) may have been rewritten *)
  Lemma core_touch cap es ix used free o lru ord k n es' c' v ex o2 ord2 :
    core cap es ix used free o lru ord -> NoDup (keys lru) -> assoc k ix = Some n ->
    List.length es' = cap -> nth_error es' n = Some c' ->
    te_keyed c' = Some k -> te_val c' = Some v -> te_expire c' = ex ->
    te_lru c' = Some (It n) -> te_ttl c' = Some n ->
    (forall m, m <> n -> nth_error es' m = nth_error es m) ->
    map (rd (ordent_at es')) o2 = map (@Some (Z * K)) ord2 ->
    Permutation (map snd o2) (map snd o) ->
    (uni = false -> forall z m, In (z, m) o2 -> exists c, nth_error es' m = Some c /\ te_expire c = z) ->
    core cap es' ix (n :: remove_nat n used) free o2 (remk k lru ++ [(k, (v, ex))]) ord2.
  Proof.
    intros C Nk E Hes' Hc' Hk' Hv' He' Hl' Ht' Hm Hord2 Po Hz2.
    pose proof (core_nodup_used _ _ _ _ _ _ _ _ C) as Nu.
    destruct (core_lookup _ _ _ _ _ _ _ _ _ _ C Nk E) as (I & Hn & v0 & e0 & CK & Ea).
    destruct C as (Hle & Hnd & Hlen & Hb & Hix & Hnk & Hmap & Hord & Hndo & Huo & Hz & HA & HB).
    destruct CK as (c & Hc & Hck & Hcv & Hce & Hcl & Hct & _).
    assert (P1 : Permutation (n :: remove_nat n used) used) by (apply perm_remove_nat; auto).
    assert (P : Permutation ((n :: remove_nat n used) ++ free) (used ++ free))
      by (apply Permutation_app_tail; exact P1).
    unfold core.
    split; [exact Hes'|].
    split. { eapply Permutation_NoDup; [symmetry; exact P|exact Hnd]. }
    split. { rewrite (Permutation_length P). exact Hlen. }
    split. { intros m Im. apply Hb. eapply Permutation_in; eauto. }
    split. { rewrite (Permutation_length P1). exact Hix. }
    split; [exact Hnk|].
    split.
    { simpl rev. rewrite <- remove_nat_rev by exact Nu. rewrite !map_app. f_equal.
      - erewrite map_ext_in.
        + eapply reads_remove; [exact Hmap|exact Nk|apply -> in_rev; exact I|].
          eapply entry_at_cell; eauto.
        + intros m Im. apply entry_at_ext. apply Hm.
          apply in_remove_nat in Im; [tauto|]. apply NoDup_rev. exact Nu.
      - simpl. f_equal. eapply entry_at_cell; eauto. }
    split; [exact Hord2|].
    split. { eapply Permutation_NoDup; [symmetry; exact Po|exact Hndo]. }
    split.
    { intros m. split; intros Im.
      - eapply Permutation_in; [symmetry; exact Po|]. apply Huo. eapply Permutation_in; eauto.
      - eapply Permutation_in; [symmetry; exact P1|]. apply Huo. eapply Permutation_in; eauto. }
    split; [exact Hz2|].
    split.
    { intros m Im. assert (Im' : In m used) by (eapply Permutation_in; eauto).
      destruct (Nat.eq_dec m n) as [Emn|Nmn].
      - subst m. exists k, v, ex, c'. repeat split; auto.
      - destruct (HA m Im') as (km & vm & em & cm & Hcm & R). exists km, vm, em, cm.
        split; [rewrite Hm by auto; exact Hcm|exact R]. }
    intros k' m E'. destruct (HB k' m E') as (Im & cm & Hcm & Hkm).
    split; [eapply Permutation_in; [symmetry; exact P1|exact Im]|].
    destruct (Nat.eq_dec m n) as [Emn|Nmn].
    - subst m. rewrite Hc in Hcm. inversion Hcm; subst cm.
      exists c'. split; auto. congruence.
    - exists cm. rewrite Hm by auto. auto.
  Qed.

  (* claiming the first free node n for a new key k, then do_access *)
  Lemma core_claim cap es ix used free' o lru ord k n es' c' v ex o2 ord2 :
    core cap es ix used (n :: free') o lru ord -> assoc k ix = None ->
    List.length es' = cap -> nth_error es' n = Some c' ->
    te_keyed c' = Some k -> te_val c' = Some v -> te_expire c' = ex ->
    te_lru c' = Some (It n) -> te_ttl c' = Some n ->
    (forall m, m <> n -> nth_error es' m = nth_error es m) ->
    map (rd (ordent_at es')) o2 = map (@Some (Z * K)) ord2 ->
    Permutation (map snd o2) (n :: map snd o) ->
    (uni = false -> forall z m, In (z, m) o2 -> exists c, nth_error es' m = Some c /\ te_expire c = z) ->
    core cap es' (ix ++ [(k, n)]) (n :: used) free' o2 (lru ++ [(k, (v, ex))]) ord2.
  Proof.
    intros C E Hes' Hc' Hk' Hv' He' Hl' Ht' Hm Hord2 Po Hz2.
    pose proof (core_nodup_used _ _ _ _ _ _ _ _ C) as Nu.
    destruct C as (Hle & Hnd & Hlen & Hb & Hix & Hnk & Hmap & Hord & Hndo & Huo & Hz & HA & HB).
    assert (Nn : ~ In n used).
    { apply NoDup_remove_2 in Hnd. intros I. apply Hnd. apply in_or_app; auto. }
    assert (P : Permutation ((n :: used) ++ free') (used ++ n :: free')) by apply Permutation_middle.
    unfold core.
    split; [exact Hes'|].
    split. { eapply Permutation_NoDup; [symmetry; exact P|exact Hnd]. }
    split. { rewrite (Permutation_length P). exact Hlen. }
    split. { intros m Im. apply Hb. eapply Permutation_in; eauto. }
    split. { rewrite app_length. simpl. lia. }
    split. { unfold keys. rewrite map_app. simpl. apply tl_NoDup_snoc; auto.
             apply tl_assoc_none_keys. exact E. }
    split.
    { simpl rev. rewrite !map_app. f_equal.
      - rewrite <- Hmap. apply map_ext_in. intros m Im. apply entry_at_ext. apply Hm.
        apply in_rev in Im. intros Emn; subst; auto.
      - simpl. f_equal. eapply entry_at_cell; eauto. }
    split; [exact Hord2|].
    split.
    { eapply Permutation_NoDup; [symmetry; exact Po|]. constructor; auto.
      intros I. apply Nn. apply Huo. exact I. }
    split.
    { intros m. split; intros Im.
      - eapply Permutation_in; [symmetry; exact Po|]. destruct Im as [Em|Im]; [left; auto|].
        right. apply Huo. exact Im.
      - apply (Permutation_in _ Po) in Im. destruct Im as [Em|Im]; [left; auto|].
        right. apply Huo. exact Im. }
    split; [exact Hz2|].
    split.
    { intros m [Emn|Im].
      - subst m. exists k, v, ex, c'. repeat split; auto.
        rewrite tl_assoc_app, E. simpl. rewrite tl_keqb_refl. reflexivity.
      - destruct (HA m Im) as (km & vm & em & cm & Hcm & Hkm & Hvm & Hem & Hlm & Htm & Ham).
        exists km, vm, em, cm. split; [rewrite Hm by (intros Emn; subst; auto); exact Hcm|].
        repeat split; auto. rewrite tl_assoc_app, Ham. reflexivity. }
    intros k' m E'. rewrite tl_assoc_app in E'.
    destruct (assoc k' ix) as [m0|] eqn:A0.
    - inversion E'; subst m0. destruct (HB k' m A0) as (Im & cm & Hcm & Hkm).
      split; [right; exact Im|]. exists cm. split; auto.
      rewrite Hm by (intros Emn; subst; auto). exact Hcm.
    - simpl in E'. destruct (Base.eqb_spec k' k) as [Ek|Nkk]; [|discriminate].
      inversion E'; subst. split; [left; auto|]. exists c'. auto.
  Qed.
End CoreFacts.

Section EmplaceFacts.
  Context {K V : Type} `{EqDec K}.
  Local Open Scope list_scope.
  Local Open Scope nat_scope.

  (* m_ttl_list.emplace(...) of both containers files the new node where dl_insert does *)
  Lemma ord_emplace_reads (u : bool) (s : ttll K V) es h h' (o : list (Z * nat)) (ord : list (Z * K)) e k n :
    map (rd h) o = map (@Some (Z * K)) ord ->
    StronglySorted Z.le (map fst ord) ->
    (u = false -> forall z x, In (z, x) o -> exists k', h x = Some (z, k')) ->
    (forall x e' k', In x (map snd o) -> h x = Some (e', k') ->
                     exists c, nth_error es x = Some c /\ te_expire c = e') ->
    (forall x, In x (map snd o) -> h' x = h x) -> h' n = Some (e, k) ->
    exists o2, ord_emplace u s es e n o = Ok o2 /\
               map (rd h') o2 = map (@Some (Z * K)) (dl_insert e k ord) /\
               Permutation (map snd o2) (n :: map snd o) /\
               (u = false -> forall z x, In (z, x) o2 -> (z, x) = (e, n) \/ In (z, x) o).
  Proof.
    intros E Hs Hz Hes Hx Hn. unfold ord_emplace. destruct u.
    - destruct (rd_walk es h h' e k n (rev o) (rev ord)) as (r' & W & R1); auto.
      + rewrite !map_rev, E. reflexivity.
      + intros x e' k' I. apply Hes. rewrite map_rev in I. apply in_rev in I. exact I.
      + rewrite rev_involutive. exact Hs.
      + intros x I. apply Hx. rewrite map_rev in I. apply in_rev in I. exact I.
      + rewrite W. cbn [bind]. eexists. split; [reflexivity|]. split; [|split].
        * rewrite map_rev, R1, <- map_rev, !rev_involutive. reflexivity.
        * rewrite map_rev. eapply perm_trans; [symmetry; apply Permutation_rev|].
          eapply perm_trans; [eapply perm_walk_emplace; exact W|].
          apply perm_skip. rewrite map_rev. symmetry. apply Permutation_rev.
        * discriminate.
    - eexists. split; [reflexivity|]. split; [|split].
      + apply rd_mm with (h := h); auto.
      + change (n :: map snd o) with (map snd ((e, n) :: o)). apply Permutation_map. apply perm_mm_emplace.
      + intros _ z x I. apply in_mm_emplace in I. exact I.
  Qed.
End EmplaceFacts.
