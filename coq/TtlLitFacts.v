(* TtlLitFacts.v — C08 for tlru_cache (uni = false) and utlru_cache (uni = true): the literal
   machine (TtlLit.v) never reaches UB and computes exactly what the mid-level model
   (TtlLru.v) computes. *)
Require Import Capp.Base Capp.Spec Capp.Rr Capp.TtlLru Capp.TtlLruFacts Capp.RrLit Capp.LruLit Capp.TtlLit.
From Coq Require Import Strings.String.
From Coq Require Import Permutation Sorted.

(* ------------------------------------------------------------------------------------ *)
(* the std::list model on a list  used ++ free  whose partition iterator is begin(free)  *)
(* (same lemmas as in LruLitFacts.v)                                                     *)
(* ------------------------------------------------------------------------------------ *)
Section StlFacts.
  Local Open Scope list_scope.
  Local Open Scope nat_scope.

  Lemma iter_eqb_true a b : iter_eqb a b = true -> a = b.
  Proof.
    destruct a as [x|], b as [y|]; simpl; intros E; try discriminate; auto.
    apply Nat.eqb_eq in E. subst; auto.
  Qed.
  Lemma iter_eqb_refl a : iter_eqb a a = true.
  Proof. destruct a; simpl; auto. apply Nat.eqb_refl. Qed.
  Lemma iter_eqb_neq a b : a <> b -> iter_eqb a b = false.
  Proof.
    intros N. destruct (iter_eqb a b) eqn:E; auto. apply iter_eqb_true in E. contradiction.
  Qed.

  Lemma mem_nat_true n l : mem_nat n l = true <-> In n l.
  Proof.
    induction l as [|x r IH]; simpl.
    - split; [discriminate|tauto].
    - rewrite orb_true_iff, IH, Nat.eqb_eq. split; intros [E|I]; auto.
  Qed.
  Lemma mem_nat_in n l : In n l -> mem_nat n l = true.
  Proof. apply mem_nat_true. Qed.

  (* no node of [a] is the first node of [free] *)
  Definition sep (a free : list nat) : Prop := forall x, In x a -> l_begin free <> It x.

  Lemma nodup_sep a free : NoDup (a ++ free) -> sep a free.
  Proof.
    intros N x I E. destruct free as [|m f]; simpl in E; [discriminate|].
    inversion E; subst m. apply NoDup_remove_2 in N. apply N. apply in_or_app; left; auto.
  Qed.

  Lemma sep_tail x a free : sep (x :: a) free -> sep a free.
  Proof. intros S y I. apply S. right; auto. Qed.

  Lemma valid_begin_app used free : valid_it (used ++ free) (l_begin free) = true.
  Proof.
    destruct free as [|m f]; simpl; auto. apply mem_nat_in. apply in_or_app. right; left; auto.
  Qed.

  Lemma before_app u n free : sep (u ++ [n]) free ->
    before (l_begin free) (u ++ n :: free) = Some n.
  Proof.
    induction u as [|x u IH]; intros S.
    - simpl. destruct free as [|m f]; simpl; auto. rewrite Nat.eqb_refl; auto.
    - assert (S' : sep (u ++ [n]) free) by (eapply sep_tail; exact S).
      specialize (IH S').
      change ((x :: u) ++ n :: free) with (x :: (u ++ n :: free)).
      destruct u as [|y u'].
      + simpl app in *. simpl before at 1.
        rewrite iter_eqb_neq by (apply S; simpl; auto). exact IH.
      + simpl app in *. simpl before at 1.
        rewrite iter_eqb_neq by (apply S; simpl; auto). exact IH.
  Qed.

  Lemma l_begin_in a b : a <> [] -> exists h, l_begin (a ++ b) = It h /\ In h a.
  Proof. destruct a as [|h a]; [congruence|]. intros _. exists h. simpl; auto. Qed.

  Lemma l_prev_app u n free : NoDup (u ++ n :: free) ->
    l_prev (u ++ n :: free) (l_begin free) = Ok (It n).
  Proof.
    intros N.
    assert (E : u ++ n :: free = (u ++ [n]) ++ free) by (rewrite <- app_assoc; reflexivity).
    assert (S : sep (u ++ [n]) free) by (apply nodup_sep; rewrite <- E; exact N).
    unfold l_prev. rewrite E at 1. rewrite valid_begin_app.
    destruct (l_begin_in (u ++ [n]) free) as (h & Eh & Ih). { destruct u; discriminate. }
    rewrite E at 1. rewrite Eh. rewrite iter_eqb_neq by (apply S; exact Ih).
    rewrite before_app by exact S. reflexivity.
  Qed.

  Lemma l_back_app u n : l_back (u ++ [n]) = Ok n.
  Proof.
    unfold l_back. destruct (u ++ [n]) as [|y r] eqn:E; [destruct u; discriminate|].
    rewrite <- E, last_last. reflexivity.
  Qed.

  Lemma after_app u n free : ~ In n u -> after n (u ++ n :: free) = l_begin free.
  Proof.
    induction u as [|x u IH]; intros NI; simpl.
    - rewrite Nat.eqb_refl. reflexivity.
    - destruct (Nat.eqb_spec n x) as [E|Nx]; [exfalso; apply NI; left; auto|].
      apply IH. intros I. apply NI. right; auto.
  Qed.

  (* remove_nat *)
  Lemma remove_nat_app_in n a b : In n a -> remove_nat n (a ++ b) = remove_nat n a ++ b.
  Proof.
    induction a as [|x a IH]; simpl; intros I; [tauto|].
    destruct (Nat.eqb_spec n x) as [E|Nx]; auto.
    destruct I as [E|I]; [congruence|]. simpl. f_equal. auto.
  Qed.
  Lemma remove_nat_app_notin n a b : ~ In n a -> remove_nat n (a ++ b) = a ++ remove_nat n b.
  Proof.
    induction a as [|x a IH]; simpl; intros NI; auto.
    destruct (Nat.eqb_spec n x) as [E|Nx]; [exfalso; apply NI; auto|].
    f_equal. apply IH. intros I; apply NI; auto.
  Qed.
  Lemma remove_nat_notin n a : ~ In n a -> remove_nat n a = a.
  Proof.
    intros NI. rewrite <- (app_nil_r a) at 1. rewrite remove_nat_app_notin by auto.
    simpl. apply app_nil_r.
  Qed.
  Lemma remove_nat_last n u : ~ In n u -> remove_nat n (u ++ [n]) = u.
  Proof.
    intros NI. rewrite remove_nat_app_notin by auto. simpl. rewrite Nat.eqb_refl. apply app_nil_r.
  Qed.
  Lemma perm_remove_nat n l : In n l -> Permutation (n :: remove_nat n l) l.
  Proof.
    induction l as [|x r IH]; simpl; intros I; [tauto|].
    destruct (Nat.eqb_spec n x) as [E|Nx]; [subst; reflexivity|].
    destruct I as [E|I]; [congruence|].
    eapply perm_trans; [apply perm_swap|]. apply perm_skip. auto.
  Qed.
  Lemma in_remove_nat n l x : NoDup l -> (In x (remove_nat n l) <-> In x l /\ x <> n).
  Proof.
    induction l as [|y r IH]; simpl; intros N; [tauto|].
    inversion N as [|y' r' Hni Hnd]; subst.
    destruct (Nat.eqb_spec n y) as [E|Ny].
    - subst y. split.
      + intros I. split; auto. intros E; subst; auto.
      + intros [[E|I] Nx]; [congruence|auto].
    - simpl. rewrite IH by auto. split.
      + intros [E|[I Nx]]; [subst; split; auto|auto].
      + intros [[E|I] Nx]; auto.
  Qed.
  Lemma in_remove_nat_weak n l x : In x (remove_nat n l) -> In x l.
  Proof.
    induction l as [|y r IH]; simpl; auto.
    destruct (Nat.eqb_spec n y) as [E|Ny]; simpl; auto. intros [E|I]; auto.
  Qed.
  Lemma nodup_remove_nat n l : NoDup l -> NoDup (remove_nat n l).
  Proof.
    induction l as [|y r IH]; simpl; intros N; [constructor|].
    inversion N as [|y' r' Hni Hnd]; subst.
    destruct (Nat.eqb_spec n y) as [E|Ny]; auto.
    constructor; auto. intros I. apply Hni. eapply in_remove_nat_weak; eauto.
  Qed.
  Lemma remove_nat_rev n l : NoDup l -> remove_nat n (rev l) = rev (remove_nat n l).
  Proof.
    induction l as [|x r IH]; simpl; intros N; auto.
    inversion N as [|x' r' Hni Hnd]; subst.
    destruct (Nat.eqb_spec n x) as [E|Nx].
    - subst x. apply remove_nat_last. rewrite <- in_rev. auto.
    - simpl. rewrite <- IH by auto.
      destruct (in_dec Nat.eq_dec n (rev r)) as [I|NI].
      + apply remove_nat_app_in; auto.
      + rewrite remove_nat_app_notin by auto. simpl.
        destruct (Nat.eqb_spec n x) as [E|_]; [congruence|].
        rewrite remove_nat_notin by auto. reflexivity.
  Qed.

  Lemma insert_before_app a n free : sep a free ->
    insert_before (l_begin free) n (a ++ free) = a ++ n :: free.
  Proof.
    induction a as [|x a IH]; intros S; simpl.
    - destruct free as [|m f]; simpl; auto. rewrite Nat.eqb_refl; auto.
    - rewrite iter_eqb_neq by (apply S; left; auto). f_equal. apply IH. eapply sep_tail; eauto.
  Qed.

  (* splice(partition point, list, n) for a used node n *)
  Lemma l_splice_end used free n : NoDup (used ++ free) -> In n used ->
    l_splice (used ++ free) (l_begin free) (It n) = Ok (remove_nat n used ++ n :: free).
  Proof.
    intros N I. pose proof (nodup_sep _ _ N) as S.
    unfold l_splice. rewrite mem_nat_in by (apply in_or_app; auto).
    rewrite valid_begin_app. rewrite iter_eqb_neq by (apply S; auto).
    rewrite remove_nat_app_in by auto. rewrite insert_before_app; auto.
    intros x Ix. apply S. eapply in_remove_nat_weak; eauto.
  Qed.

  (* splice(begin(), list, n) *)
  Lemma l_splice_begin l n : In n l -> l_splice l (l_begin l) (It n) = Ok (n :: remove_nat n l).
  Proof.
    intros I. unfold l_splice. rewrite mem_nat_in by auto.
    destruct l as [|x r]; [destruct I|]. simpl l_begin.
    assert (Hv : valid_it (x :: r) (It x) = true) by (simpl; rewrite Nat.eqb_refl; auto).
    rewrite Hv. simpl iter_eqb. simpl remove_nat.
    destruct (Nat.eqb_spec x n) as [E|Nx].
    - subst x. rewrite Nat.eqb_refl. reflexivity.
    - destruct (Nat.eqb_spec n x) as [E|_]; [congruence|].
      simpl. rewrite Nat.eqb_refl. reflexivity.
  Qed.
End StlFacts.

(* ------------------------------------------------------------------------------------ *)
(* association lists, vectors, reading a node sequence through the cells                 *)
(* ------------------------------------------------------------------------------------ *)
Section ReadFacts.
  Context {K : Type} `{EqDec K} {A : Type}.
  Local Open Scope list_scope.
  Local Open Scope nat_scope.

  Lemma in_pair_keys k a (l : list (K * A)) : In (k, a) l -> In k (keys l).
  Proof. intros I. unfold keys. apply in_map_iff. exists (k, a). auto. Qed.

  Lemma remk_notin_id k (l : list (K * A)) : ~ In k (keys l) -> remk k l = l.
  Proof. intros NI. apply tl_remk_absent. apply tl_assoc_none_keys. exact NI. Qed.

  (* a node sequence [ns] read through [f] gives the entry list [items] *)
  Variable f : nat -> option (K * A).

  Lemma reads_in ns (items : list (K * A)) n k a :
    map f ns = map (@Some (K * A)) items -> In n ns -> f n = Some (k, a) -> In (k, a) items.
  Proof.
    intros E I Fn. assert (I' : In (f n) (map f ns)) by (apply in_map; auto).
    rewrite E, Fn in I'. apply in_map_iff in I'. destruct I' as (x & Ex & Ix).
    inversion Ex; subst. auto.
  Qed.

  Lemma reads_in_inv ns (items : list (K * A)) k a :
    map f ns = map (@Some (K * A)) items -> In (k, a) items -> exists n, In n ns /\ f n = Some (k, a).
  Proof.
    intros E I. assert (I' : In (Some (k, a)) (map (@Some (K * A)) items)) by (apply in_map; auto).
    rewrite <- E in I'. apply in_map_iff in I'. destruct I' as (n & En & In'). eauto.
  Qed.

  Lemma reads_remove ns : forall (items : list (K * A)) n k a,
    map f ns = map (@Some (K * A)) items -> NoDup (keys items) -> In n ns -> f n = Some (k, a) ->
    map f (remove_nat n ns) = map (@Some (K * A)) (remk k items).
  Proof.
    induction ns as [|x r IH]; intros items n k a E Nk I Fn; [destruct I|].
    destruct items as [|[k' a'] it]; simpl in E; [discriminate|].
    injection E as E1 E2. simpl in Nk. inversion Nk as [|y q Hni Hnd]; subst.
    simpl. destruct (Nat.eqb_spec n x) as [Enx|Nnx].
    - subst x. rewrite Fn in E1. inversion E1; subst k' a'. rewrite tl_keqb_refl.
      rewrite remk_notin_id by auto. exact E2.
    - destruct I as [I|I]; [congruence|].
      assert (Nkk : k <> k').
      { intros Ek; subst k'. apply Hni. eapply in_pair_keys. eapply reads_in; eauto. }
      rewrite tl_keqb_neq by auto. simpl. f_equal; [exact E1|]. eapply IH; eauto.
  Qed.
End ReadFacts.

Section VecFacts.
  Local Open Scope list_scope.
  Local Open Scope nat_scope.

  Lemma nth_error_upd_eq A (l : list A) : forall i x, i < List.length l ->
    nth_error (upd_nth i x l) i = Some x.
  Proof.
    induction l as [|y r IH]; intros [|j] x Hi; simpl in *; try lia; auto. apply IH; lia.
  Qed.
  Lemma nth_error_upd_neq A (l : list A) : forall i j x, j <> i ->
    nth_error (upd_nth i x l) j = nth_error l j.
  Proof.
    induction l as [|y r IH]; intros [|i] [|j] x Hne; simpl; try congruence; auto.
  Qed.
  Lemma upd_nth_len A (l : list A) : forall i x, List.length (upd_nth i x l) = List.length l.
  Proof. induction l as [|y r IH]; intros [|i] x; simpl; auto. Qed.
  Lemma vget_ok A what (l : list A) i a : nth_error l i = Some a -> vget what l i = Ok a.
  Proof. intros E. unfold vget. rewrite E. reflexivity. Qed.
  Lemma vset_ok A what (l : list A) i a : i < List.length l -> vset what l i a = Ok (upd_nth i a l).
  Proof. intros Hi. unfold vset. destruct (Nat.ltb_spec i (List.length l)); [reflexivity|lia]. Qed.

  Lemma nodup_app_l A (a b : list A) : NoDup (a ++ b) -> NoDup a.
  Proof.
    induction a as [|x a IH]; simpl; intros N; [constructor|].
    inversion N as [|y r Hni Hnd]; subst. constructor; auto.
    intros I. apply Hni. apply in_or_app; auto.
  Qed.

  Lemma ss_app_inv A (R : A -> A -> Prop) (l1 l2 : list A) : StronglySorted R (l1 ++ l2) ->
    StronglySorted R l1 /\ StronglySorted R l2 /\ forall a b, In a l1 -> In b l2 -> R a b.
  Proof.
    induction l1 as [|x l1 IH]; simpl; intros S.
    - split; [constructor|]. split; [exact S|]. intros a b [].
    - inversion S as [|y r S' F]; subst. destruct (IH S') as (S1 & S2 & S3).
      rewrite Forall_forall in F. split.
      + constructor; auto. rewrite Forall_forall. intros z Iz. apply F. apply in_or_app; auto.
      + split; auto. intros a b [E|Ia] Ib; [subst; apply F; apply in_or_app; auto|auto].
  Qed.
End VecFacts.

(* ------------------------------------------------------------------------------------ *)
(* the deadline structure read through the cells                                         *)
(* ------------------------------------------------------------------------------------ *)
Section OrdFacts.
  Context {K V : Type} `{EqDec K}.
  Local Open Scope list_scope.
  Local Open Scope nat_scope.

  Lemma map_snd_ord_remove n (o : list (Z * nat)) : map snd (ord_remove n o) = remove_nat n (map snd o).
  Proof.
    induction o as [|[z x] r IH]; simpl; auto.
    destruct (Nat.eqb n x); simpl; auto. f_equal. exact IH.
  Qed.
  Lemma ord_has_mem n (o : list (Z * nat)) : ord_has n o = mem_nat n (map snd o).
  Proof. induction o as [|[z x] r IH]; simpl; auto. rewrite IH. reflexivity. Qed.
  Lemma in_ord_remove_weak n (o : list (Z * nat)) zx : In zx (ord_remove n o) -> In zx o.
  Proof.
    induction o as [|[z x] r IH]; simpl; auto.
    destruct (Nat.eqb n x); simpl; auto. intros [E|I]; auto.
  Qed.
  Lemma ord_erase_ok n (o : list (Z * nat)) : In n (map snd o) -> ord_erase o (Some n) = Ok (ord_remove n o).
  Proof. intros I. unfold ord_erase. rewrite ord_has_mem, mem_nat_in by exact I. reflexivity. Qed.

  Lemma in_mm_emplace e n (o : list (Z * nat)) zx : In zx (mm_emplace_z e n o) <-> zx = (e, n) \/ In zx o.
  Proof.
    induction o as [|[z x] r IH]; simpl.
    - split; intros [E|F]; auto.
    - destruct (z <=? e)%Z; simpl.
      + rewrite IH. split; intros [E|[F|G]]; auto.
      + split; intros [E|[F|G]]; auto.
  Qed.
  Lemma perm_mm_emplace e n (o : list (Z * nat)) : Permutation (mm_emplace_z e n o) ((e, n) :: o).
  Proof.
    induction o as [|[z x] r IH]; simpl; auto.
    destruct (z <=? e)%Z; auto.
    eapply perm_trans; [apply perm_skip; exact IH|]. apply perm_swap.
  Qed.

  Lemma perm_walk_emplace (es : list (telem K V)) e n : forall r r',
    walk_emplace es e n r = Ok r' -> Permutation (map snd r') (n :: map snd r).
  Proof.
    induction r as [|[z x] r IH]; simpl; intros r' E.
    - inversion E; subst. simpl. auto.
    - destruct (vget _ es x) as [c|w]; simpl in E; [|discriminate].
      destruct (e <? te_expire c)%Z.
      + destruct (walk_emplace es e n r) as [r1|w]; simpl in E; [|discriminate].
        inversion E; subst. simpl. eapply perm_trans; [apply perm_skip; apply IH; reflexivity|].
        apply perm_swap.
      + inversion E; subst. simpl. auto.
  Qed.

  (* dl_insert at the two ends *)
  Lemma dl_insert_before_last (e : Z) (k : K) a e' k' : (e < e')%Z ->
    dl_insert e k (a ++ [(e', k')]) = dl_insert e k a ++ [(e', k')].
  Proof.
    intros Hlt. induction a as [|[e1 k1] a IH]; simpl.
    - destruct (Z.leb_spec e' e); [lia|reflexivity].
    - destruct (e1 <=? e)%Z; simpl; [f_equal; exact IH|reflexivity].
  Qed.
  Lemma dl_insert_at_end (e : Z) (k : K) a : (forall x, In x a -> (fst x <= e)%Z) ->
    dl_insert e k a = a ++ [(e, k)].
  Proof.
    induction a as [|[e1 k1] a IH]; simpl; intros Hall; auto.
    destruct (Z.leb_spec e1 e) as [Hle|Hgt].
    - f_equal. apply IH. intros x Ix. apply Hall. auto.
    - specialize (Hall (e1, k1) (or_introl eq_refl)). simpl in Hall. lia.
  Qed.

  (* reading: [h x] is what the cell of slot x files in the deadline structure *)
  Definition rd (h : nat -> option (Z * K)) (zn : Z * nat) : option (Z * K) := h (snd zn).

  Lemma rd_in h (o : list (Z * nat)) (o' : list (Z * K)) z x :
    map (rd h) o = map (@Some (Z * K)) o' -> In (z, x) o -> exists e k, h x = Some (e, k) /\ In (e, k) o'.
  Proof.
    intros E I. assert (I' : In (rd h (z, x)) (map (rd h) o)) by (apply in_map; auto).
    rewrite E in I'. apply in_map_iff in I'. destruct I' as ([e k] & Ex & Ix).
    exists e, k. split; auto.
  Qed.
  Lemma rd_in_snd h (o : list (Z * nat)) (o' : list (Z * K)) x :
    map (rd h) o = map (@Some (Z * K)) o' -> In x (map snd o) -> exists e k, h x = Some (e, k) /\ In (e, k) o'.
  Proof.
    intros E I. apply in_map_iff in I. destruct I as ([z x'] & Ex & I). simpl in Ex. subst x'.
    eapply rd_in; eauto.
  Qed.
  Lemma rd_ext h h' (o : list (Z * nat)) : (forall x, In x (map snd o) -> h' x = h x) ->
    map (rd h') o = map (rd h) o.
  Proof.
    intros Hx. apply map_ext_in. intros [z x] I. unfold rd. simpl. apply Hx.
    apply in_map_iff. exists (z, x). auto.
  Qed.

  Lemma rd_remove h : forall (o : list (Z * nat)) (o' : list (Z * K)) n e k,
    map (rd h) o = map (@Some (Z * K)) o' -> NoDup (map snd o') -> In n (map snd o) -> h n = Some (e, k) ->
    map (rd h) (ord_remove n o) = map (@Some (Z * K)) (rem2 k o').
  Proof.
    induction o as [|[z x] r IH]; intros o' n e k E Nd I Hn; [destruct I|].
    destruct o' as [|[e' k'] o'']; simpl in E; [discriminate|].
    injection E as E1 E2. unfold rd in E1. simpl in E1.
    simpl in Nd. inversion Nd as [|y q Hni Hnd]; subst.
    simpl. destruct (Nat.eqb_spec n x) as [Enx|Nnx].
    - subst x. rewrite Hn in E1. inversion E1; subst e' k'. rewrite tl_keqb_refl.
      rewrite tl_rem2_absent by exact Hni. exact E2.
    - destruct I as [I|I]; [simpl in I; congruence|].
      assert (Nkk : k <> k').
      { intros Ek; subst k'. apply Hni.
        destruct (rd_in_snd h r o'' n E2 I) as (e1 & k1 & H1 & H2). rewrite Hn in H1. inversion H1; subst.
        apply in_map_iff. exists (e1, k1). auto. }
      rewrite tl_keqb_neq by auto. simpl. f_equal; [exact E1|]. eapply IH; eauto.
  Qed.

  Lemma rd_mm h h' : forall (o : list (Z * nat)) (o' : list (Z * K)) e k n,
    map (rd h) o = map (@Some (Z * K)) o' ->
    (forall z x, In (z, x) o -> exists k', h x = Some (z, k')) ->
    (forall x, In x (map snd o) -> h' x = h x) -> h' n = Some (e, k) ->
    map (rd h') (mm_emplace_z e n o) = map (@Some (Z * K)) (dl_insert e k o').
  Proof.
    induction o as [|[z x] r IH]; intros o' e k n E Hz Hx Hn.
    - destruct o'; [|discriminate]. simpl. unfold rd. simpl. rewrite Hn. reflexivity.
    - destruct o' as [|[e' k'] o'']; simpl in E; [discriminate|].
      injection E as E1 E2. unfold rd in E1. simpl in E1.
      destruct (Hz z x (or_introl eq_refl)) as (k2 & Hk2). rewrite Hk2 in E1. inversion E1; subst e' k'.
      assert (Hxx : h' x = h x) by (apply Hx; simpl; auto).
      simpl. destruct (z <=? e)%Z; simpl.
      + f_equal; [unfold rd; simpl; congruence|]. apply IH; auto.
        * intros z1 x1 I1. apply Hz. right; auto.
        * intros x1 I1. apply Hx. simpl; auto.
      + f_equal; [unfold rd; simpl; exact Hn|]. f_equal; [unfold rd; simpl; congruence|].
        rewrite <- E2. apply rd_ext. intros x1 I1. apply Hx. simpl; auto.
  Qed.

  Lemma rd_walk (es : list (telem K V)) h h' e k n : forall (r : list (Z * nat)) (ro' : list (Z * K)),
    map (rd h) r = map (@Some (Z * K)) ro' ->
    (forall x e' k', In x (map snd r) -> h x = Some (e', k') ->
                     exists c, nth_error es x = Some c /\ te_expire c = e') ->
    StronglySorted Z.le (map fst (rev ro')) ->
    (forall x, In x (map snd r) -> h' x = h x) -> h' n = Some (e, k) ->
    exists r', walk_emplace es e n r = Ok r' /\
               map (rd h') r' = map (@Some (Z * K)) (rev (dl_insert e k (rev ro'))).
  Proof.
    induction r as [|[z x] r IH]; intros ro' E Hes Hs Hx Hn.
    - destruct ro'; [|discriminate]. simpl. eexists. split; [reflexivity|].
      simpl. unfold rd. simpl. rewrite Hn. reflexivity.
    - destruct ro' as [|[e' k'] ro1]; simpl in E; [discriminate|].
      injection E as E1 E2. unfold rd in E1. simpl in E1.
      destruct (Hes x e' k' (or_introl eq_refl) E1) as (c & Hc & Hce).
      assert (Hxx : h' x = h x) by (apply Hx; simpl; auto).
      simpl walk_emplace. rewrite (vget_ok _ _ _ _ _ Hc). cbn [bind]. rewrite Hce.
      simpl rev in Hs. rewrite map_app in Hs. simpl in Hs.
      destruct (ss_app_inv _ _ _ _ Hs) as (S1 & _ & S3).
      destruct (Z.ltb_spec e e') as [Hlt|Hge].
      + destruct (IH ro1 E2) as (r1 & W & R1); auto.
        * intros x1 e1 k1 I1. apply Hes. simpl; auto.
        * intros x1 I1. apply Hx. simpl; auto.
        * rewrite W. cbn [bind]. eexists. split; [reflexivity|].
          simpl rev. rewrite dl_insert_before_last by exact Hlt. rewrite rev_unit.
          simpl. f_equal; [unfold rd; simpl; congruence|exact R1].
      + eexists. split; [reflexivity|].
        rewrite dl_insert_at_end.
        * rewrite rev_unit. simpl rev. rewrite rev_app_distr. simpl. rewrite rev_involutive.
          f_equal; [unfold rd; simpl; exact Hn|]. f_equal; [unfold rd; simpl; congruence|].
          rewrite <- E2. apply rd_ext. intros x1 I1. apply Hx. simpl; auto.
        * intros [e1 k1] I1. simpl. simpl in I1. apply in_app_or in I1. destruct I1 as [I1|[I1|[]]].
          -- assert (Hle : (e1 <= e')%Z).
             { apply S3; [|simpl; auto]. apply in_map_iff. exists (e1, k1). auto. }
             lia.
          -- inversion I1; subst. lia.
  Qed.
End OrdFacts.

(* ------------------------------------------------------------------------------------ *)
(* the representation through its components                                             *)
(* ------------------------------------------------------------------------------------ *)
Section CoreFacts.
  Context {K V : Type} `{EqDec K}.
  Variable uni : bool.
  Local Open Scope list_scope.
  Local Open Scope nat_scope.

  Definition entry_at (es : list (telem K V)) (n : nat) : option (K * (V * Z)) :=
    match nth_error es n with
    | Some {| te_expire := e; te_keyed := Some k; te_lru := _; te_ttl := _; te_val := Some v |} => Some (k, (v, e))
    | _ => None
    end.
  Definition ordent_at (es : list (telem K V)) (n : nat) : option (Z * K) :=
    match nth_error es n with
    | Some {| te_expire := e; te_keyed := Some k; te_lru := _; te_ttl := _; te_val := _ |} => Some (e, k)
    | _ => None
    end.

  Lemma entry_at_cell es n c k v e : nth_error es n = Some c -> te_keyed c = Some k -> te_val c = Some v ->
    te_expire c = e -> entry_at es n = Some (k, (v, e)).
  Proof.
    intros E Ek Ev Ee. unfold entry_at. rewrite E. destruct c as [e1 ko lo to vo]. simpl in *. subst. reflexivity.
  Qed.
  Lemma ordent_at_cell es n c k e : nth_error es n = Some c -> te_keyed c = Some k ->
    te_expire c = e -> ordent_at es n = Some (e, k).
  Proof.
    intros E Ek Ee. unfold ordent_at. rewrite E. destruct c as [e1 ko lo to vo]. simpl in *. subst. reflexivity.
  Qed.
  Lemma entry_at_inv es n k v e : entry_at es n = Some (k, (v, e)) ->
    exists c, nth_error es n = Some c /\ te_keyed c = Some k /\ te_val c = Some v /\ te_expire c = e.
  Proof.
    unfold entry_at. destruct (nth_error es n) as [c|]; [|discriminate].
    destruct c as [e0 [k0|] lo to [v0|]]; try discriminate. intros E. inversion E; subst.
    eexists. split; [reflexivity|]. simpl. auto.
  Qed.
  Lemma ordent_at_inv es n k e : ordent_at es n = Some (e, k) ->
    exists c, nth_error es n = Some c /\ te_keyed c = Some k /\ te_expire c = e.
  Proof.
    unfold ordent_at. destruct (nth_error es n) as [c|]; [|discriminate].
    destruct c as [e0 [k0|] lo to vo]; try discriminate. intros E. inversion E; subst.
    eexists. split; [reflexivity|]. simpl. auto.
  Qed.
  Lemma entry_at_ext es es' n : nth_error es' n = nth_error es n -> entry_at es' n = entry_at es n.
  Proof. intros E. unfold entry_at. rewrite E. reflexivity. Qed.
  Lemma ordent_at_ext es es' n : nth_error es' n = nth_error es n -> ordent_at es' n = ordent_at es n.
  Proof. intros E. unfold ordent_at. rewrite E. reflexivity. Qed.

  Definition cellok (es : list (telem K V)) (ix : list (K * nat)) (n : nat) (k : K) (v : V) (e : Z) : Prop :=
    exists c, nth_error es n = Some c /\ te_keyed c = Some k /\ te_val c = Some v /\ te_expire c = e /\
              te_lru c = Some (It n) /\ te_ttl c = Some n /\ assoc k ix = Some n.

  Definition core (cap : nat) (es : list (telem K V)) (ix : list (K * nat)) (used free : list nat)
             (o : list (Z * nat)) (lru : list (K * (V * Z))) (ord : list (Z * K)) : Prop :=
    List.length es = cap /\ NoDup (used ++ free) /\ List.length (used ++ free) = cap /\
    (forall n, In n (used ++ free) -> n < cap) /\
    List.length ix = List.length used /\ NoDup (keys ix) /\
    map (entry_at es) (rev used) = map (@Some (K * (V * Z))) lru /\
    map (rd (ordent_at es)) o = map (@Some (Z * K)) ord /\
    NoDup (map snd o) /\ (forall n, In n used <-> In n (map snd o)) /\
    (uni = false -> forall z n, In (z, n) o -> exists c, nth_error es n = Some c /\ te_expire c = z) /\
    (forall n, In n used -> exists k v e, cellok es ix n k v e) /\
    (forall k n, assoc k ix = Some n -> In n used /\ exists c, nth_error es n = Some c /\ te_keyed c = Some k).

  Lemma core_nodup_used cap es ix used free o lru ord : core cap es ix used free o lru ord -> NoDup used.
  Proof. intros (_ & Hnd & _). eapply nodup_app_l; eauto. Qed.

  Lemma core_len cap es ix used free o lru ord : core cap es ix used free o lru ord ->
    List.length lru = List.length used.
  Proof.
    intros (_ & _ & _ & _ & _ & _ & Hmap & _).
    apply (f_equal (@List.length _)) in Hmap. rewrite !map_length, rev_length in Hmap. auto.
  Qed.
  Lemma core_len_ord cap es ix used free o lru ord : core cap es ix used free o lru ord ->
    List.length ord = List.length o.
  Proof.
    intros (_ & _ & _ & _ & _ & _ & _ & Hord & _).
    apply (f_equal (@List.length _)) in Hord. rewrite !map_length in Hord. auto.
  Qed.

  Lemma core_lookup cap es ix used free o lru ord k n :
    core cap es ix used free o lru ord -> NoDup (keys lru) -> assoc k ix = Some n ->
    In n used /\ n < cap /\ exists v e, cellok es ix n k v e /\ assoc k lru = Some (v, e).
  Proof.
    intros (Hle & Hnd & Hlen & Hb & Hix & Hnk & Hmap & Hord & Hndo & Huo & Hz & HA & HB) Nk E.
    destruct (HB k n E) as (I & c & Hc & Hck).
    split; [exact I|]. split; [apply Hb; apply in_or_app; auto|].
    destruct (HA n I) as (k0 & v & e & c0 & Hc0 & Hk0 & Hv0 & He0 & Hl0 & Ht0 & Ha0).
    rewrite Hc in Hc0. inversion Hc0; subst c0. rewrite Hck in Hk0. inversion Hk0; subst k0.
    exists v, e. split.
    - exists c. repeat split; auto.
    - apply tl_in_assoc_nodup; auto. eapply reads_in; [exact Hmap|apply -> in_rev; exact I|].
      eapply entry_at_cell; eauto.
  Qed.

  Lemma core_lookup_none cap es ix used free o lru ord k :
    core cap es ix used free o lru ord -> assoc k ix = None -> assoc k lru = None.
  Proof.
    intros (Hle & Hnd & Hlen & Hb & Hix & Hnk & Hmap & Hord & Hndo & Huo & Hz & HA & HB) E.
    destruct (assoc k lru) as [[v e]|] eqn:Ea; auto. exfalso.
    apply tl_assoc_some_in in Ea.
    destruct (reads_in_inv _ _ _ _ _ Hmap Ea) as (n & I & Fn).
    apply in_rev in I. destruct (HA n I) as (k0 & v0 & e0 & c0 & Hc0 & Hk0 & Hv0 & He0 & Hl0 & Ht0 & Ha0).
    destruct (entry_at_inv _ _ _ _ _ Fn) as (c & Hc & Hk & _).
    rewrite Hc in Hc0. inversion Hc0; subst c0. rewrite Hk in Hk0. inversion Hk0; subst k0. congruence.
  Qed.

  (* do_erase *)
  Lemma core_erase cap es ix used free o lru ord k n :
    core cap es ix used free o lru ord -> tl_core lru ord -> assoc k ix = Some n ->
    core cap es (remk k ix) (remove_nat n used) (n :: free) (ord_remove n o) (remk k lru) (rem2 k ord).
  Proof.
    intros C (Nk & Nko & _ & _) E.
    pose proof (core_nodup_used _ _ _ _ _ _ _ _ C) as Nu.
    destruct (core_lookup _ _ _ _ _ _ _ _ _ _ C Nk E) as (I & Hn & v0 & e0 & CK & Ea).
    destruct C as (Hle & Hnd & Hlen & Hb & Hix & Hnk & Hmap & Hord & Hndo & Huo & Hz & HA & HB).
    destruct CK as (c & Hc & Hck & Hcv & Hce & Hcl & Hct & _).
    assert (P1 : Permutation (n :: remove_nat n used) used) by (apply perm_remove_nat; auto).
    assert (P : Permutation (remove_nat n used ++ n :: free) (used ++ free)).
    { eapply perm_trans; [symmetry; apply Permutation_middle|].
      change (n :: remove_nat n used ++ free) with ((n :: remove_nat n used) ++ free).
      apply Permutation_app_tail. exact P1. }
    unfold core.
    split; [exact Hle|].
    split. { eapply Permutation_NoDup; [symmetry; exact P|exact Hnd]. }
    split. { rewrite (Permutation_length P). exact Hlen. }
    split. { intros m Im. apply Hb. eapply Permutation_in; eauto. }
    split. { apply Permutation_length in P1. simpl in P1.
             pose proof (tl_length_remk k n ix Hnk E). lia. }
    split; [apply tl_nodup_keys_remk; exact Hnk|].
    split.
    { rewrite <- remove_nat_rev by exact Nu.
      eapply reads_remove; [exact Hmap|exact Nk|apply -> in_rev; exact I|].
      eapply entry_at_cell; eauto. }
    split.
    { eapply rd_remove; [exact Hord|exact Nko|apply Huo; exact I|].
      eapply ordent_at_cell; eauto. }
    split. { rewrite map_snd_ord_remove. apply nodup_remove_nat. exact Hndo. }
    split.
    { intros m. rewrite map_snd_ord_remove. rewrite !in_remove_nat by auto. rewrite Huo. tauto. }
    split. { intros Hu z m Im. apply (Hz Hu). eapply in_ord_remove_weak; eauto. }
    split.
    { intros m Im. apply in_remove_nat in Im; [|exact Nu]. destruct Im as [Im Nmn].
      destruct (HA m Im) as (km & vm & em & cm & Hcm & Hkm & Hvm & Hem & Hlm & Htm & Ham).
      exists km, vm, em, cm. repeat split; auto.
      rewrite tl_assoc_remk. destruct (Base.eqb_spec k km) as [Ek|Nkk]; auto.
      subst km. rewrite E in Ham. inversion Ham. congruence. }
    intros k' m E'. rewrite tl_assoc_remk in E'.
    destruct (Base.eqb_spec k k') as [Ek|Nkk]; [discriminate|].
    destruct (HB k' m E') as (Im & cm & Hcm & Hkm). split; [|eauto].
    apply in_remove_nat; auto. split; auto. intros Emn; subst m.
    rewrite Hc in Hcm. inversion Hcm; subst cm. congruence.
  Qed.

  (* do_access of node n, whose cell (and the deadline structure) may have been rewritten *)
  Lemma core_touch cap es ix used free o lru ord k n es' c' v ex o2 ord2 :
    core cap es ix used free o lru ord -> NoDup (keys lru) -> assoc k ix = Some n ->
    List.length es' = cap -> nth_error es' n = Some c' ->
    te_keyed c' = Some k -> te_val c' = Some v -> te_expire c' = ex ->
    te_lru c' = Some (It n) -> te_ttl c' = Some n ->
    (forall m, m <> n -> nth_error es' m = nth_error es m) ->
    map (rd (ordent_at es')) o2 = map (@Some (Z * K)) ord2 ->
    Permutation (map snd o2) (map snd o) ->
    (uni = false -> forall z m, In (z, m) o2 -> exists c, nth_error es' m = Some c /\ te_expire c = z) ->
    core cap es' ix (n :: remove_nat n used) free o2 (remk k lru ++ [(k, (v, ex))]) ord2.
  Proof.
    intros C Nk E Hes' Hc' Hk' Hv' He' Hl' Ht' Hm Hord2 Po Hz2.
    pose proof (core_nodup_used _ _ _ _ _ _ _ _ C) as Nu.
    destruct (core_lookup _ _ _ _ _ _ _ _ _ _ C Nk E) as (I & Hn & v0 & e0 & CK & Ea).
    destruct C as (Hle & Hnd & Hlen & Hb & Hix & Hnk & Hmap & Hord & Hndo & Huo & Hz & HA & HB).
    destruct CK as (c & Hc & Hck & Hcv & Hce & Hcl & Hct & _).
    assert (P1 : Permutation (n :: remove_nat n used) used) by (apply perm_remove_nat; auto).
    assert (P : Permutation ((n :: remove_nat n used) ++ free) (used ++ free))
      by (apply Permutation_app_tail; exact P1).
    unfold core.
    split; [exact Hes'|].
    split. { eapply Permutation_NoDup; [symmetry; exact P|exact Hnd]. }
    split. { rewrite (Permutation_length P). exact Hlen. }
    split. { intros m Im. apply Hb. eapply Permutation_in; eauto. }
    split. { rewrite (Permutation_length P1). exact Hix. }
    split; [exact Hnk|].
    split.
    { simpl rev. rewrite <- remove_nat_rev by exact Nu. rewrite !map_app. f_equal.
      - erewrite map_ext_in.
        + eapply reads_remove; [exact Hmap|exact Nk|apply -> in_rev; exact I|].
          eapply entry_at_cell; eauto.
        + intros m Im. apply entry_at_ext. apply Hm.
          apply in_remove_nat in Im; [tauto|]. apply NoDup_rev. exact Nu.
      - simpl. f_equal. eapply entry_at_cell; eauto. }
    split; [exact Hord2|].
    split. { eapply Permutation_NoDup; [symmetry; exact Po|exact Hndo]. }
    split.
    { intros m. split; intros Im.
      - eapply Permutation_in; [symmetry; exact Po|]. apply Huo. eapply Permutation_in; eauto.
      - eapply Permutation_in; [symmetry; exact P1|]. apply Huo. eapply Permutation_in; eauto. }
    split; [exact Hz2|].
    split.
    { intros m Im. assert (Im' : In m used) by (eapply Permutation_in; eauto).
      destruct (Nat.eq_dec m n) as [Emn|Nmn].
      - subst m. exists k, v, ex, c'. repeat split; auto.
      - destruct (HA m Im') as (km & vm & em & cm & Hcm & R). exists km, vm, em, cm.
        split; [rewrite Hm by auto; exact Hcm|exact R]. }
    intros k' m E'. destruct (HB k' m E') as (Im & cm & Hcm & Hkm).
    split; [eapply Permutation_in; [symmetry; exact P1|exact Im]|].
    destruct (Nat.eq_dec m n) as [Emn|Nmn].
    - subst m. rewrite Hc in Hcm. inversion Hcm; subst cm.
      exists c'. split; auto. congruence.
    - exists cm. rewrite Hm by auto. auto.
  Qed.

  (* claiming the first free node n for a new key k, then do_access *)
  Lemma core_claim cap es ix used free' o lru ord k n es' c' v ex o2 ord2 :
    core cap es ix used (n :: free') o lru ord -> assoc k ix = None ->
    List.length es' = cap -> nth_error es' n = Some c' ->
    te_keyed c' = Some k -> te_val c' = Some v -> te_expire c' = ex ->
    te_lru c' = Some (It n) -> te_ttl c' = Some n ->
    (forall m, m <> n -> nth_error es' m = nth_error es m) ->
    map (rd (ordent_at es')) o2 = map (@Some (Z * K)) ord2 ->
    Permutation (map snd o2) (n :: map snd o) ->
    (uni = false -> forall z m, In (z, m) o2 -> exists c, nth_error es' m = Some c /\ te_expire c = z) ->
    core cap es' (ix ++ [(k, n)]) (n :: used) free' o2 (lru ++ [(k, (v, ex))]) ord2.
  Proof.
    intros C E Hes' Hc' Hk' Hv' He' Hl' Ht' Hm Hord2 Po Hz2.
    pose proof (core_nodup_used _ _ _ _ _ _ _ _ C) as Nu.
    destruct C as (Hle & Hnd & Hlen & Hb & Hix & Hnk & Hmap & Hord & Hndo & Huo & Hz & HA & HB).
    assert (Nn : ~ In n used).
    { apply NoDup_remove_2 in Hnd. intros I. apply Hnd. apply in_or_app; auto. }
    assert (P : Permutation ((n :: used) ++ free') (used ++ n :: free')) by apply Permutation_middle.
    unfold core.
    split; [exact Hes'|].
    split. { eapply Permutation_NoDup; [symmetry; exact P|exact Hnd]. }
    split. { rewrite (Permutation_length P). exact Hlen. }
    split. { intros m Im. apply Hb. eapply Permutation_in; eauto. }
    split. { rewrite app_length. simpl. lia. }
    split. { unfold keys. rewrite map_app. simpl. apply tl_NoDup_snoc; auto.
             apply tl_assoc_none_keys. exact E. }
    split.
    { simpl rev. rewrite !map_app. f_equal.
      - rewrite <- Hmap. apply map_ext_in. intros m Im. apply entry_at_ext. apply Hm.
        apply in_rev in Im. intros Emn; subst; auto.
      - simpl. f_equal. eapply entry_at_cell; eauto. }
    split; [exact Hord2|].
    split.
    { eapply Permutation_NoDup; [symmetry; exact Po|]. constructor; auto.
      intros I. apply Nn. apply Huo. exact I. }
    split.
    { intros m. split; intros Im.
      - eapply Permutation_in; [symmetry; exact Po|]. destruct Im as [Em|Im]; [left; auto|].
        right. apply Huo. exact Im.
      - apply (Permutation_in _ Po) in Im. destruct Im as [Em|Im]; [left; auto|].
        right. apply Huo. exact Im. }
    split; [exact Hz2|].
    split.
    { intros m [Emn|Im].
      - subst m. exists k, v, ex, c'. repeat split; auto.
        rewrite tl_assoc_app, E. simpl. rewrite tl_keqb_refl. reflexivity.
      - destruct (HA m Im) as (km & vm & em & cm & Hcm & Hkm & Hvm & Hem & Hlm & Htm & Ham).
        exists km, vm, em, cm. split; [rewrite Hm by (intros Emn; subst; auto); exact Hcm|].
        repeat split; auto. rewrite tl_assoc_app, Ham. reflexivity. }
    intros k' m E'. rewrite tl_assoc_app in E'.
    destruct (assoc k' ix) as [m0|] eqn:A0.
    - inversion E'; subst m0. destruct (HB k' m A0) as (Im & cm & Hcm & Hkm).
      split; [right; exact Im|]. exists cm. split; auto.
      rewrite Hm by (intros Emn; subst; auto). exact Hcm.
    - simpl in E'. destruct (Base.eqb_spec k' k) as [Ek|Nkk]; [|discriminate].
      inversion E'; subst. split; [left; auto|]. exists c'. auto.
  Qed.
End CoreFacts.

Section EmplaceFacts.
  Context {K V : Type} `{EqDec K}.
  Local Open Scope list_scope.
  Local Open Scope nat_scope.

  (* m_ttl_list.emplace(...) of both containers files the new node where dl_insert does *)
  Lemma ord_emplace_reads (u : bool) (s : ttll K V) es h h' (o : list (Z * nat)) (ord : list (Z * K)) e k n :
    map (rd h) o = map (@Some (Z * K)) ord ->
    StronglySorted Z.le (map fst ord) ->
    (u = false -> forall z x, In (z, x) o -> exists k', h x = Some (z, k')) ->
    (forall x e' k', In x (map snd o) -> h x = Some (e', k') ->
                     exists c, nth_error es x = Some c /\ te_expire c = e') ->
    (forall x, In x (map snd o) -> h' x = h x) -> h' n = Some (e, k) ->
    exists o2, ord_emplace u s es e n o = Ok o2 /\
               map (rd h') o2 = map (@Some (Z * K)) (dl_insert e k ord) /\
               Permutation (map snd o2) (n :: map snd o) /\
               (u = false -> forall z x, In (z, x) o2 -> (z, x) = (e, n) \/ In (z, x) o).
  Proof.
    intros E Hs Hz Hes Hx Hn. unfold ord_emplace. destruct u.
    - destruct (rd_walk es h h' e k n (rev o) (rev ord)) as (r' & W & R1); auto.
      + rewrite !map_rev, E. reflexivity.
      + intros x e' k' I. apply Hes. rewrite map_rev in I. apply in_rev in I. exact I.
      + rewrite rev_involutive. exact Hs.
      + intros x I. apply Hx. rewrite map_rev in I. apply in_rev in I. exact I.
      + rewrite W. cbn [bind]. eexists. split; [reflexivity|]. split; [|split].
        * rewrite map_rev, R1, <- map_rev, !rev_involutive. reflexivity.
        * rewrite map_rev. eapply perm_trans; [symmetry; apply Permutation_rev|].
          eapply perm_trans; [eapply perm_walk_emplace; exact W|].
          apply perm_skip. rewrite map_rev. symmetry. apply Permutation_rev.
        * discriminate.
    - eexists. split; [reflexivity|]. split; [|split].
      + apply rd_mm with (h := h); auto.
      + change (n :: map snd o) with (map snd ((e, n) :: o)). apply Permutation_map. apply perm_mm_emplace.
      + intros _ z x I. apply in_mm_emplace in I. exact I.
  Qed.
End EmplaceFacts.

(* ------------------------------------------------------------------------------------ *)
(* the representation relation through an explicit decomposition  list = used ++ free    *)
(* ------------------------------------------------------------------------------------ *)
Section RepFacts.
  Context {K V : Type} `{EqDec K}.
  Variable uni : bool.
  Local Open Scope list_scope.
  Local Open Scope nat_scope.

  Definition rep2 (l : ttll K V) (s : tl K V) (used free : list nat) : Prop :=
    tt_list l = used ++ free /\ tt_end l = l_begin free /\
    tl_uniform s = uni /\ tt_cap l = tl_cap s /\ (uni = true -> tt_ttl l = tl_ttl s) /\
    tt_used l = List.length used /\
    core uni (tl_cap s) (tt_elems l) (tt_index l) used free (tt_ord l) (tl_lru s) (tl_ord s).

  Lemma rep2_intro l s used free : rep2 l s used free -> tt_rep uni l s.
  Proof.
    intros (Hl & He & Hu & Hc & Ht & Hus & C).
    pose proof C as (Hle & Hnd & Hlen & Hb & Hix & Hnk & Hmap & Hord & Hndo & Huo & Hz & HA & HB).
    exists used, free.
    split; [exact Hl|]. split; [exact He|]. split; [exact Hu|]. split; [exact Hc|]. split; [exact Ht|].
    split; [exact Hle|]. split; [rewrite Hl; exact Hnd|]. split; [rewrite Hl; exact Hlen|].
    split; [rewrite Hl; exact Hb|]. split; [exact Hus|]. split; [exact Hix|]. split; [exact Hnk|].
    split; [exact Hmap|]. split; [exact Hord|]. split; [exact Hndo|]. split; [exact Huo|].
    split; [exact Hz|]. split.
    - intros n I. destruct (HA n I) as (k & v & e & c & Hc1 & Hk1 & Hv1 & He1 & Hl1 & Ht1 & Ha1).
      exists k, v, e. split; [eapply (entry_at_cell (tt_elems l)); eauto|]. split; [exact Ha1|].
      exists c. auto.
    - intros k n E. destruct (HB k n E) as (I & c & Hc1 & Hk1). split; [exact I|].
      destruct (HA n I) as (k0 & v & e & c0 & Hc0 & Hk0 & Hv0 & He0 & _).
      rewrite Hc1 in Hc0. inversion Hc0; subst c0.
      exists v, e. eapply (entry_at_cell (tt_elems l)); eauto.
  Qed.

  Lemma rep2_elim l s : tt_rep uni l s -> exists used free, rep2 l s used free.
  Proof.
    intros (used & free & Hl & He & Hu & Hc & Ht & Hle & Hnd & Hlen & Hb & Hus & Hix & Hnk & Hmap & Hord &
            Hndo & Huo & Hz & HA & HB).
    exists used, free. unfold rep2, core. rewrite Hl in Hnd, Hlen, Hb.
    split; [exact Hl|]. split; [exact He|]. split; [exact Hu|]. split; [exact Hc|]. split; [exact Ht|].
    split; [exact Hus|]. split; [exact Hle|]. split; [exact Hnd|]. split; [exact Hlen|]. split; [exact Hb|].
    split; [exact Hix|]. split; [exact Hnk|]. split; [exact Hmap|]. split; [exact Hord|].
    split; [exact Hndo|]. split; [exact Huo|]. split; [exact Hz|]. split.
    - intros n I. destruct (HA n I) as (k & v & e & He1 & Ha1 & c & Hc1 & Hl1 & Ht1).
      destruct (entry_at_inv (tt_elems l) _ _ _ _ He1) as (c0 & Hc0 & Hk0 & Hv0 & He0).
      rewrite Hc1 in Hc0. inversion Hc0; subst c0.
      exists k, v, e, c. repeat split; auto.
    - intros k n E. destruct (HB k n E) as (I & v & e & He1). split; [exact I|].
      destruct (entry_at_inv (tt_elems l) _ _ _ _ He1) as (c0 & Hc0 & Hk0 & _). eauto.
  Qed.

  Lemma tl_with_id (s : tl K V) : tl_with s (tl_lru s) (tl_ord s) = s.
  Proof. destruct s; reflexivity. Qed.

  (* do_access on a used node *)
  Lemma tt_access_shape (l : ttll K V) c used free n :
    tt_list l = used ++ free -> In n used -> te_lru c = Some (It n) ->
    tt_access l c = Ok (with_list l ((n :: remove_nat n used) ++ free)).
  Proof.
    intros Hl I Hp. unfold tt_access, get_lru. rewrite Hp. cbn [bind]. rewrite Hl.
    rewrite l_splice_begin by (apply in_or_app; auto). cbn [bind].
    rewrite remove_nat_app_in by auto. reflexivity.
  Qed.

  (* do_erase(n) for the node n the index gives for key k: n becomes the first free node *)
  Lemma tt_do_erase_rep2 t (l : ttll K V) (s : tl K V) used free k n :
    rep2 l s used free -> tl_inv uni t s -> assoc k (tt_index l) = Some n ->
    exists l', tt_do_erase l n = Ok l' /\ rep2 l' (tl_erase_key s k) (remove_nat n used) (n :: free).
  Proof.
    intros (Hl & He & Hu & Hc & Ht & Hus & C) I E.
    pose proof (tl_inv_core _ _ _ I) as TC. pose proof TC as (Nk & _).
    pose proof (core_nodup_used _ _ _ _ _ _ _ _ _ C) as Nu.
    destruct (core_lookup _ _ _ _ _ _ _ _ _ _ _ C Nk E) as (In & Hn & v0 & e0 & CK & Ea).
    pose proof (core_erase _ _ _ _ _ _ _ _ _ _ _ C TC E) as C'.
    destruct CK as (c & Hc1 & Hck & Hcv & Hce & Hcl & Hct & _).
    pose proof C as (Hle & Hnd & Hlen & Hb & Hix & Hnk & Hmap & Hord & Hndo & Huo & Hz & HA & HB).
    pose proof C' as (_ & Nd' & _).
    destruct (@exists_last _ used) as (u & b & Eu). { intros E0; rewrite E0 in In; destruct In. }
    assert (Hp : l_prev (used ++ free) (l_begin free) = Ok (It b)).
    { rewrite Eu. rewrite <- app_assoc. simpl. apply l_prev_app.
      rewrite Eu in Hnd. rewrite <- app_assoc in Hnd. exact Hnd. }
    assert (Hs : (if iter_eqb (It n) (It b) then Ok (used ++ free)
                  else l_splice (used ++ free) (l_begin free) (It n))
                 = Ok (remove_nat n used ++ n :: free)).
    { simpl iter_eqb. destruct (Nat.eqb_spec n b) as [Enb|Nnb].
      - subst b. rewrite Eu. rewrite remove_nat_last.
        + rewrite <- app_assoc. reflexivity.
        + rewrite Eu in Nu. apply NoDup_remove_2 in Nu. rewrite app_nil_r in Nu. exact Nu.
      - apply l_splice_end; auto. }
    unfold tt_do_erase. rewrite (vget_ok _ _ _ _ _ Hc1). cbn [bind]. unfold get_lru.
    rewrite Hcl. cbn [bind]. rewrite Hl, He. rewrite Hp. cbn [bind]. rewrite Hs. cbn [bind].
    rewrite l_prev_app by exact Nd'. cbn [bind].
    rewrite Hct. rewrite ord_erase_ok by (apply Huo; exact In). cbn [bind].
    unfold index_erase. rewrite Hck, E. cbn [bind].
    destruct (Nat.eqb_spec (tt_used l) 0) as [Ez|Nz].
    { exfalso. rewrite Hus, Eu, app_length in Ez. simpl in Ez. lia. }
    eexists. split; [reflexivity|].
    unfold rep2, tl_erase_key, tl_with.
    cbn [tt_cap tt_ttl tt_elems tt_index tt_list tt_end tt_ord tt_used tl_uniform tl_cap tl_ttl tl_lru tl_ord].
    split; [reflexivity|]. split; [reflexivity|]. split; [exact Hu|]. split; [exact Hc|]. split; [exact Ht|].
    split; [|exact C'].
    pose proof (perm_remove_nat n used In) as P1. apply Permutation_length in P1. simpl in P1. lia.
  Qed.

  (* the head of the deadline structure *)
  Lemma ord_head (l : ttll K V) (s : tl K V) used free z idx o' now :
    rep2 l s used free -> tt_ord l = (z, idx) :: o' ->
    exists e kh ord', tl_ord s = (e, kh) :: ord' /\ assoc kh (tt_index l) = Some idx /\
      (if uni then (do c <- vget "m_elements[ttl_idx]" (tt_elems l) idx; Ok (te_expire c <=? now)%Z)
       else Ok (z <=? now)%Z) = Ok (e <=? now)%Z.
  Proof.
    intros (Hl & He & Hu & Hc & Ht & Hus & C) Eo.
    destruct C as (Hle & Hnd & Hlen & Hb & Hix & Hnk & Hmap & Hord & Hndo & Huo & Hz & HA & HB).
    rewrite Eo in Hord. destruct (tl_ord s) as [|[e kh] ord']; simpl in Hord; [discriminate|].
    injection Hord as E1 E2. unfold rd in E1. simpl in E1.
    assert (Iu : In idx used). { apply Huo. rewrite Eo. simpl. auto. }
    destruct (HA idx Iu) as (k & v & e1 & c & Hc1 & Hk1 & Hv1 & He1 & Hl1 & Ht1 & Ha1).
    destruct (ordent_at_inv _ _ _ _ E1) as (c0 & Hc0 & Hk0 & He0).
    rewrite Hc1 in Hc0. inversion Hc0; subst c0. rewrite Hk1 in Hk0. inversion Hk0; subst kh.
    exists e, k, ord'. split; [reflexivity|]. split; [exact Ha1|].
    destruct uni eqn:Eu.
    - rewrite (vget_ok _ _ _ _ _ Hc1). cbn [bind]. rewrite He0. reflexivity.
    - destruct (Hz eq_refl z idx) as (c2 & Hc2 & He2). { rewrite Eo. left; auto. }
      rewrite Hc1 in Hc2. inversion Hc2; subst c2. congruence.
  Qed.
End RepFacts.

(* ------------------------------------------------------------------------------------ *)
(* the do_* helpers                                                                      *)
(* ------------------------------------------------------------------------------------ *)
Section OpFacts.
  Context {K V : Type} `{EqDec K}.
  Variable uni : bool.
  Local Open Scope list_scope.
  Local Open Scope nat_scope.

  (* do_update(keyed_position, value, expire_time) *)
  Lemma tt_do_update_rep2 t (l : ttll K V) (s : tl K V) used free k n v ex :
    rep2 uni l s used free -> tl_inv uni t s -> assoc k (tt_index l) = Some n ->
    exists l', tt_do_update uni l n v ex = Ok l' /\
               rep2 uni l' (tl_update s k v ex) (n :: remove_nat n used) free.
  Proof.
    intros (Hl & He & Hu & Hc & Ht & Hus & C) I E.
    pose proof (tl_inv_core _ _ _ I) as TC. pose proof TC as (Nk & Nko & _ & _).
    pose proof (core_nodup_used _ _ _ _ _ _ _ _ _ C) as Nu.
    destruct (core_lookup _ _ _ _ _ _ _ _ _ _ _ C Nk E) as (Iu & Hn & v0 & e0 & CK & Ea).
    destruct CK as (c & Hc1 & Hck & Hcv & Hce & Hcl & Hct & _).
    pose proof C as (Hle & Hnd & Hlen & Hb & Hix & Hnk & Hmap & Hord & Hndo & Huo & Hz & HA & HB).
    assert (Ino : In n (map snd (tt_ord l))) by (apply Huo; exact Iu).
    pose proof (tl_core_erase _ _ k TC) as (_ & _ & _ & Srt).
    unfold tt_do_update. rewrite (vget_ok _ _ _ _ _ Hc1). cbn [bind te_ttl te_keyed te_lru].
    rewrite Hck, Hcl, Hct.
    set (c' := {| te_expire := ex; te_keyed := Some k; te_lru := Some (It n); te_ttl := Some n;
                  te_val := Some v |}).
    rewrite vset_ok by lia. cbn [bind]. rewrite ord_erase_ok by exact Ino. cbn [bind].
    set (es1 := upd_nth n c' (tt_elems l)). set (es2 := upd_nth n c' es1).
    assert (L1 : List.length es1 = tl_cap s) by (unfold es1; rewrite upd_nth_len; exact Hle).
    assert (L2 : List.length es2 = tl_cap s) by (unfold es2; rewrite upd_nth_len; exact L1).
    assert (Hes2n : nth_error es2 n = Some c') by (unfold es2; apply nth_error_upd_eq; lia).
    assert (Hes1m : forall m, m <> n -> nth_error es1 m = nth_error (tt_elems l) m).
    { intros m Nm. unfold es1. apply nth_error_upd_neq. exact Nm. }
    assert (Hes2m : forall m, m <> n -> nth_error es2 m = nth_error (tt_elems l) m).
    { intros m Nm. unfold es2. rewrite nth_error_upd_neq by exact Nm. apply Hes1m. exact Nm. }
    assert (R1 : map (rd (ordent_at (tt_elems l))) (ord_remove n (tt_ord l)) =
                 map (@Some (Z * K)) (rem2 k (tl_ord s))).
    { eapply rd_remove; [exact Hord|exact Nko|exact Ino|eapply ordent_at_cell; eauto]. }
    assert (Hnot : forall x, In x (map snd (ord_remove n (tt_ord l))) -> x <> n /\ In x (map snd (tt_ord l))).
    { intros x Ix. rewrite map_snd_ord_remove in Ix. apply in_remove_nat in Ix; auto. tauto. }
    destruct (ord_emplace_reads uni l es1 (ordent_at (tt_elems l)) (ordent_at es2)
                (ord_remove n (tt_ord l)) (rem2 k (tl_ord s)) ex k n R1 Srt) as (o2 & Eo2 & R2 & P2 & Z2).
    - intros Hu0 z x Ix. apply in_ord_remove_weak in Ix. destruct (Hz Hu0 z x Ix) as (cx & Hcx & Hex).
      assert (Iux : In x used). { apply Huo. apply in_map_iff. exists (z, x). auto. }
      destruct (HA x Iux) as (kx & vx & ex' & cx' & Hcx' & Hkx & _).
      rewrite Hcx in Hcx'. inversion Hcx'; subst cx'. exists kx. eapply ordent_at_cell; eauto.
    - intros x e' k' Ix Hx. destruct (Hnot x Ix) as [Nx _].
      destruct (ordent_at_inv _ _ _ _ Hx) as (cx & Hcx & _ & Hex). exists cx. split; auto.
      rewrite Hes1m by exact Nx. exact Hcx.
    - intros x Ix. destruct (Hnot x Ix) as [Nx _]. apply ordent_at_ext. apply Hes2m. exact Nx.
    - eapply ordent_at_cell; [exact Hes2n|reflexivity|reflexivity].
    - rewrite Eo2. cbn [bind]. rewrite vset_ok by lia. cbn [bind]. fold es2.
      erewrite tt_access_shape; [|cbn [tt_list]; exact Hl|exact Iu|reflexivity].
      eexists. split; [reflexivity|].
      unfold with_list, rep2, tl_update, tl_with.
      cbn [tt_cap tt_ttl tt_elems tt_index tt_list tt_end tt_ord tt_used tl_uniform tl_cap tl_ttl tl_lru tl_ord].
      split; [reflexivity|]. split; [exact He|]. split; [exact Hu|]. split; [exact Hc|]. split; [exact Ht|].
      split. { pose proof (perm_remove_nat n used Iu) as P1. apply Permutation_length in P1. simpl in *. lia. }
      eapply (core_touch uni _ (tt_elems l) (tt_index l) used free (tt_ord l) (tl_lru s) (tl_ord s) k n es2 c');
        try reflexivity; eauto.
      + rewrite map_snd_ord_remove in P2. eapply perm_trans; [exact P2|]. apply perm_remove_nat. exact Ino.
      + intros Hu0 z m Im. destruct (Z2 Hu0 z m Im) as [Eq|Io].
        * inversion Eq; subst. exists c'. split; [exact Hes2n|reflexivity].
        * assert (Nm : m <> n). { apply Hnot. apply in_map_iff. exists (z, m). auto. }
          apply in_ord_remove_weak in Io. destruct (Hz Hu0 z m Io) as (cm & Hcm & Hem).
          exists cm. rewrite Hes2m by exact Nm. auto.
  Qed.

  (* do_prune(now) on a full cache is do_erase of the node the mid-level model picks *)
  Lemma tt_do_prune_full t (l : ttll K V) (s : tl K V) used free now :
    rep2 uni l s used free -> tl_inv uni t s -> tl_cap s <= List.length (tl_lru s) ->
    exists kx nx, assoc kx (tt_index l) = Some nx /\ tl_prune s now = tl_erase_key s kx /\
                  tt_do_prune uni l now = tt_do_erase l nx.
  Proof.
    intros R I Hfull. pose proof R as (Hl & He & Hu & Hc & Ht & Hus & C).
    pose proof I as (_ & Hcap1 & _).
    pose proof (core_len _ _ _ _ _ _ _ _ _ C) as Ln.
    pose proof C as (Hle & Hnd & Hlen & Hb & Hix & Hnk & Hmap & Hord & Hndo & Huo & Hz & HA & HB).
    assert (Hfree : free = []).
    { rewrite app_length in Hlen. destruct free; auto. simpl in Hlen. lia. }
    subst free.
    destruct (@exists_last _ used) as (u & b & Eu).
    { intros E0. rewrite E0 in Ln. simpl in Ln. lia. }
    assert (Ib : In b used). { rewrite Eu. apply in_or_app; right; simpl; auto. }
    destruct (HA b Ib) as (kb & vb & eb & cb & Hcb & Hkb & Hvb & Heb & Hlb & Htb & Hab).
    destruct (tl_lru s) as [|[kl [vl el]] rest] eqn:Elru.
    { simpl in Ln. rewrite Eu, app_length in Ln. simpl in Ln. lia. }
    assert (Ekl : kl = kb).
    { rewrite Eu, rev_unit in Hmap. simpl in Hmap. injection Hmap as Hh _.
      rewrite (entry_at_cell _ _ _ _ _ _ Hcb Hkb Hvb Heb) in Hh. inversion Hh; auto. }
    subst kl.
    destruct (tt_ord l) as [|[z idx] o'] eqn:Eo.
    { exfalso. apply Huo in Ib. simpl in Ib. exact Ib. }
    destruct (ord_head uni l s used [] z idx o' now R Eo) as (e & kh & ord' & Eord & Akh & Hdead).
    unfold tt_do_prune, tl_prune. rewrite Elru, Eord, Eo.
    assert (C0 : (0 <? tt_used l) = true).
    { apply Nat.ltb_lt. rewrite Hus, Eu, app_length. simpl. lia. }
    rewrite C0, Hdead. cbn [bind].
    destruct (e <=? now)%Z.
    - exists kh, idx. auto.
    - exists kb, b. split; [exact Hab|]. split; [reflexivity|].
      rewrite Hl, Eu, app_nil_r, l_back_app. reflexivity.
  Qed.

  (* do_insert when there is a free node *)
  Lemma tt_do_insert_nonfull t (l : ttll K V) (s : tl K V) used free k v now ex :
    rep2 uni l s used free -> tl_inv uni t s -> List.length (tl_lru s) < tl_cap s ->
    assoc k (tt_index l) = None ->
    exists l' used' free', tt_do_insert uni l k v now ex = Ok l' /\
      rep2 uni l' (tl_with s (tl_lru s ++ [(k, (v, ex))]) (dl_insert ex k (tl_ord s))) used' free'.
  Proof.
    intros (Hl & He & Hu & Hc & Ht & Hus & C) I Hlt E.
    pose proof (tl_inv_core _ _ _ I) as TC. pose proof TC as (Nk & Nko & _ & Srt).
    pose proof (core_len _ _ _ _ _ _ _ _ _ C) as Ln.
    pose proof C as (Hle & Hnd & Hlen & Hb & Hix & Hnk & Hmap & Hord & Hndo & Huo & Hz & HA & HB).
    destruct free as [|n free']. { rewrite app_nil_r in Hlen. lia. }
    assert (Nn : ~ In n used).
    { apply NoDup_remove_2 in Hnd. intros J. apply Hnd. apply in_or_app; auto. }
    assert (Hn : n < tl_cap s). { apply Hb. apply in_or_app. right; left; auto. }
    set (c' := {| te_expire := ex; te_keyed := Some k; te_lru := Some (It n); te_ttl := Some n;
                  te_val := Some v |}).
    set (es' := upd_nth n c' (tt_elems l)).
    assert (L1 : List.length es' = tl_cap s) by (unfold es'; rewrite upd_nth_len; exact Hle).
    assert (Hesn : nth_error es' n = Some c') by (unfold es'; apply nth_error_upd_eq; lia).
    assert (Hesm : forall m, m <> n -> nth_error es' m = nth_error (tt_elems l) m).
    { intros m Nm. unfold es'. apply nth_error_upd_neq. exact Nm. }
    assert (Hnot : forall x, In x (map snd (tt_ord l)) -> x <> n).
    { intros x Ix Ex. subst x. apply Nn. apply Huo. exact Ix. }
    destruct (ord_emplace_reads uni l (tt_elems l) (ordent_at (tt_elems l)) (ordent_at es')
                (tt_ord l) (tl_ord s) ex k n Hord Srt) as (o2 & Eo2 & R2 & P2 & Z2).
    - intros Hu0 z x Ix. destruct (Hz Hu0 z x Ix) as (cx & Hcx & Hex).
      assert (Iux : In x used). { apply Huo. apply in_map_iff. exists (z, x). auto. }
      destruct (HA x Iux) as (kx & vx & ex' & cx' & Hcx' & Hkx & _).
      rewrite Hcx in Hcx'. inversion Hcx'; subst cx'. exists kx. eapply ordent_at_cell; eauto.
    - intros x e' k' Ix Hx.
      destruct (ordent_at_inv _ _ _ _ Hx) as (cx & Hcx & _ & Hex). exists cx. auto.
    - intros x Ix. apply ordent_at_ext. apply Hesm. apply Hnot. exact Ix.
    - eapply ordent_at_cell; [exact Hesn|reflexivity|reflexivity].
    - unfold tt_do_insert.
      assert (C1 : (List.length (tt_elems l) <=? tt_used l) = false) by (apply Nat.leb_gt; lia).
      rewrite C1. cbn [bind]. rewrite Hl, He. cbn [l_begin]. unfold l_deref.
      rewrite mem_nat_in by (apply in_or_app; right; left; auto). cbn [bind].
      unfold index_emplace.
      assert (C2 : (List.length (tt_index l) <? tt_cap l) = true) by (apply Nat.ltb_lt; lia).
      rewrite C2. cbn [bind]. rewrite Eo2. cbn [bind]. fold c'. rewrite vset_ok by lia. cbn [bind]. fold es'.
      unfold l_next. rewrite mem_nat_in by (apply in_or_app; right; left; auto). cbn [bind].
      rewrite after_app by exact Nn.
      erewrite (tt_access_shape _ c' (used ++ [n]) free' n);
        [|cbn [tt_list]; rewrite <- app_assoc; reflexivity|apply in_or_app; right; left; auto|reflexivity].
      rewrite remove_nat_last by exact Nn.
      eexists. exists (n :: used), free'. split; [reflexivity|].
      unfold with_list, rep2, tl_with.
      cbn [tt_cap tt_ttl tt_elems tt_index tt_list tt_end tt_ord tt_used tl_uniform tl_cap tl_ttl tl_lru tl_ord].
      split; [reflexivity|]. split; [reflexivity|]. split; [exact Hu|]. split; [exact Hc|]. split; [exact Ht|].
      split; [simpl; lia|].
      eapply (core_claim uni _ (tt_elems l) (tt_index l) used free' (tt_ord l) (tl_lru s) (tl_ord s) k n es' c');
        try reflexivity; eauto.
      intros Hu0 z m Im. destruct (Z2 Hu0 z m Im) as [Eq|Io].
      + inversion Eq; subst. exists c'. split; [exact Hesn|reflexivity].
      + assert (Nm : m <> n). { apply Hnot. apply in_map_iff. exists (z, m). auto. }
        destruct (Hz Hu0 z m Io) as (cm & Hcm & Hem). exists cm. rewrite Hesm by exact Nm. auto.
  Qed.

  (* do_insert *)
  Lemma tt_do_insert_rep2 t (l : ttll K V) (s : tl K V) used free k v now ex :
    rep2 uni l s used free -> tl_inv uni t s -> assoc k (tt_index l) = None ->
    let s1 := if tl_cap s <=? List.length (tl_lru s) then tl_prune s now else s in
    let s2 := tl_with s1 (tl_lru s1 ++ [(k, (v, ex))]) (dl_insert ex k (tl_ord s1)) in
    exists l' used' free', tt_do_insert uni l k v now ex = Ok l' /\ rep2 uni l' s2 used' free' /\
                           tl_inv uni t s2 /\ tl_cap s2 = tl_cap s.
  Proof.
    intros R I E. cbv zeta.
    pose proof (core_lookup_none _ _ _ _ _ _ _ _ _ _ (proj2 (proj2 (proj2 (proj2 (proj2 (proj2 R)))))) E) as N0.
    destruct (Nat.leb_spec (tl_cap s) (List.length (tl_lru s))) as [Hfull|Hnf].
    - destruct (tt_do_prune_full t l s used free now R I Hfull) as (kx & nx & Akx & Ep & Dp).
      destruct (tt_do_erase_rep2 uni t l s used free kx nx R I Akx) as (l1 & D1 & R1).
      rewrite Ep. set (s1 := tl_erase_key s kx) in *.
      assert (I1 : tl_inv uni t s1) by (apply tl_inv_erase_key with t; exact I).
      assert (N1 : assoc k (tl_lru s1) = None).
      { unfold s1, tl_erase_key. cbn [tl_with tl_lru]. rewrite tl_assoc_remk, N0. destruct (Base.eqb kx k); auto. }
      assert (L1 : List.length (tl_lru s1) < tl_cap s1).
      { pose proof I as (_ & _ & Nk & Hlen & _).
        pose proof R as (_ & _ & _ & _ & _ & _ & C).
        destruct (core_lookup _ _ _ _ _ _ _ _ _ _ _ C Nk Akx) as (_ & _ & vx & e0 & _ & Eax).
        unfold s1, tl_erase_key. cbn [tl_with tl_lru tl_cap].
        pose proof (tl_length_remk kx _ _ Nk Eax). lia. }
      assert (A1 : assoc k (tt_index l1) = None).
      { destruct (assoc k (tt_index l1)) as [m|] eqn:A; auto. exfalso.
        pose proof I1 as (_ & _ & Nk1 & _). pose proof R1 as (_ & _ & _ & _ & _ & _ & C1).
        destruct (core_lookup _ _ _ _ _ _ _ _ _ _ _ C1 Nk1 A) as (_ & _ & v1 & e1 & _ & E2). congruence. }
      destruct (tt_do_insert_nonfull t l1 s1 _ _ k v now ex R1 I1 L1 A1) as (l' & u' & f' & D2 & R2).
      assert (DI : tt_do_insert uni l k v now ex = tt_do_insert uni l1 k v now ex).
      { pose proof R as (_ & _ & _ & _ & _ & Hus & C). pose proof (core_len _ _ _ _ _ _ _ _ _ C) as La.
        pose proof R1 as (_ & _ & _ & _ & _ & Hus1 & C1). pose proof (core_len _ _ _ _ _ _ _ _ _ C1) as Lb.
        destruct C as (Hle & _). destruct C1 as (Hle1 & _).
        unfold tt_do_insert.
        assert (Ca : (List.length (tt_elems l) <=? tt_used l) = true) by (apply Nat.leb_le; lia).
        assert (Cb : (List.length (tt_elems l1) <=? tt_used l1) = false).
        { apply Nat.leb_gt. rewrite Hle1, Hus1, <- Lb. exact L1. }
        rewrite Ca, Cb, Dp, D1. reflexivity. }
      rewrite DI. exists l', u', f'. split; [exact D2|]. split; [exact R2|]. split; [|reflexivity].
      eapply tl_inv_with; [exact I1| |].
      + apply tl_core_add; [eapply tl_inv_core; exact I1|exact N1].
      + rewrite app_length. cbn [List.length]. lia.
    - destruct (tt_do_insert_nonfull t l s used free k v now ex R I Hnf E) as (l' & u' & f' & D2 & R2).
      exists l', u', f'. split; [exact D2|]. split; [exact R2|]. split; [|reflexivity].
      eapply tl_inv_with; [exact I| |].
      + apply tl_core_add; [eapply tl_inv_core; exact I|exact N0].
      + rewrite app_length. simpl. lia.
  Qed.
End OpFacts.

(* ------------------------------------------------------------------------------------ *)
(* the public single-key calls                                                           *)
(* ------------------------------------------------------------------------------------ *)
Section CallFacts.
  Context {K V : Type} `{EqDec K}.
  Variable uni : bool.
  Local Open Scope list_scope.
  Local Open Scope nat_scope.

  (* do_insert_update *)
  Lemma tt_ins_refines t (l : ttll K V) (s : tl K V) k v a now ex :
    tl_inv uni t s -> tt_rep uni l s ->
    exists l', tt_ins uni l k v a now ex = Ok (l', snd (tl_ins s k v a now ex)) /\
               tt_rep uni l' (fst (tl_ins s k v a now ex)) /\ tl_inv uni t (fst (tl_ins s k v a now ex)) /\
               tl_cap (fst (tl_ins s k v a now ex)) = tl_cap s.
  Proof.
    intros I R. destruct (rep2_elim _ _ _ R) as (used & free & R2).
    pose proof I as (_ & _ & Nk & _). pose proof R2 as (_ & _ & _ & _ & _ & _ & C).
    unfold tt_ins, tl_ins.
    destruct (assoc k (tt_index l)) as [n|] eqn:A.
    - destruct (core_lookup _ _ _ _ _ _ _ _ _ _ _ C Nk A) as (Iu & Hn & v0 & e0 & CK & Ea).
      destruct CK as (c & Hc1 & Hck & Hcv & Hce & Hcl & Hct & _). rewrite Ea.
      destruct (tt_do_update_rep2 uni t l s used free k n v ex R2 I A) as (l' & D & R').
      assert (I' : tl_inv uni t (tl_update s k v ex)) by (eapply tl_inv_update; eauto).
      destruct (a_upd a).
      + rewrite D. cbn [bind fst snd]. exists l'. split; [reflexivity|].
        split; [eapply rep2_intro; eauto|]. split; [exact I'|reflexivity].
      + destruct (a_ins a).
        * rewrite (vget_ok _ _ _ _ _ Hc1). cbn [bind]. rewrite Hce.
          destruct (e0 <=? now)%Z.
          -- rewrite D. cbn [bind fst snd]. exists l'. split; [reflexivity|].
             split; [eapply rep2_intro; eauto|]. split; [exact I'|reflexivity].
          -- exists l. cbn [fst snd]. auto.
        * exists l. cbn [fst snd]. auto.
    - rewrite (core_lookup_none _ _ _ _ _ _ _ _ _ _ C A).
      destruct (a_ins a).
      + destruct (tt_do_insert_rep2 uni t l s used free k v now ex R2 I A) as (l' & u' & f' & D & R' & I' & C').
        cbv zeta in R', I', C' |- *. rewrite D. cbn [bind fst snd]. exists l'. split; [reflexivity|].
        split; [eapply rep2_intro; eauto|]. split; [exact I'|exact C'].
      + exists l. cbn [fst snd]. auto.
  Qed.

  (* erase(key) *)
  Lemma tt_erase_refines t (l : ttll K V) (s : tl K V) k :
    tl_inv uni t s -> tt_rep uni l s ->
    exists l', tt_erase l k = Ok (l', snd (tl_erase s k)) /\
               tt_rep uni l' (fst (tl_erase s k)) /\ tl_inv uni t (fst (tl_erase s k)) /\
               tl_cap (fst (tl_erase s k)) = tl_cap s.
  Proof.
    intros I R. destruct (rep2_elim _ _ _ R) as (used & free & R2).
    pose proof I as (_ & _ & Nk & _). pose proof R2 as (_ & _ & _ & _ & _ & _ & C).
    unfold tt_erase, tl_erase.
    destruct (assoc k (tt_index l)) as [n|] eqn:A.
    - destruct (core_lookup _ _ _ _ _ _ _ _ _ _ _ C Nk A) as (Iu & Hn & v0 & e0 & CK & Ea). rewrite Ea.
      destruct (tt_do_erase_rep2 uni t l s used free k n R2 I A) as (l' & D & R').
      rewrite D. cbn [bind fst snd]. exists l'. split; [reflexivity|].
      split; [eapply rep2_intro; eauto|]. split; [apply tl_inv_erase_key with t; exact I|reflexivity].
    - rewrite (core_lookup_none _ _ _ _ _ _ _ _ _ _ C A). exists l. cbn [fst snd]. auto.
  Qed.

  (* do_find *)
  Lemma tt_find_refines t (l : ttll K V) (s : tl K V) k pk now :
    tl_inv uni t s -> tt_rep uni l s ->
    exists l', tt_find l k pk now = Ok (l', snd (tl_find s k pk now)) /\
               tt_rep uni l' (fst (tl_find s k pk now)) /\ tl_inv uni t (fst (tl_find s k pk now)) /\
               tl_cap (fst (tl_find s k pk now)) = tl_cap s.
  Proof.
    intros I R. destruct (rep2_elim _ _ _ R) as (used & free & R2).
    pose proof I as (_ & _ & Nk & _). pose proof R2 as (Hl & He & Hu & Hc & Ht & Hus & C).
    unfold tt_find, tl_find.
    destruct (assoc k (tt_index l)) as [n|] eqn:A.
    - destruct (core_lookup _ _ _ _ _ _ _ _ _ _ _ C Nk A) as (Iu & Hn & v0 & e0 & CK & Ea).
      destruct CK as (c & Hc1 & Hck & Hcv & Hce & Hcl & Hct & _). rewrite Ea.
      rewrite (vget_ok _ _ _ _ _ Hc1). cbn [bind]. rewrite Hce.
      destruct (now <? e0)%Z.
      + destruct pk.
        * cbn [bind fst snd]. rewrite Hcv. exists l. auto.
        * erewrite tt_access_shape; [|exact Hl|exact Iu|exact Hcl].
          cbn [bind fst snd]. rewrite Hcv. eexists. split; [reflexivity|]. split.
          -- eapply rep2_intro with (used := n :: remove_nat n used) (free := free).
             unfold with_list, rep2, tl_with.
             cbn [tt_cap tt_ttl tt_elems tt_index tt_list tt_end tt_ord tt_used tl_uniform tl_cap tl_ttl tl_lru tl_ord].
             split; [reflexivity|]. split; [exact He|]. split; [exact Hu|]. split; [exact Hc|].
             split; [exact Ht|].
             split. { pose proof (perm_remove_nat n used Iu) as P1. apply Permutation_length in P1.
                      simpl in *. lia. }
             pose proof C as (Hle & Hnd & Hlen & Hb & Hix & Hnk & Hmap & Hord & Hndo & Huo & Hz & HA & HB).
             eapply (core_touch uni _ (tt_elems l) (tt_index l) used free (tt_ord l) (tl_lru s) (tl_ord s) k n
                       (tt_elems l) c); eauto.
          -- split; [|reflexivity]. apply tl_inv_touch with t; auto.
      + destruct (tt_do_erase_rep2 uni t l s used free k n R2 I A) as (l' & D & R').
        rewrite D. cbn [bind fst snd]. exists l'. split; [reflexivity|].
        split; [eapply rep2_intro; eauto|]. split; [apply tl_inv_erase_key with t; exact I|reflexivity].
    - rewrite (core_lookup_none _ _ _ _ _ _ _ _ _ _ C A). exists l. cbn [fst snd]. auto.
  Qed.

  (* clean_expired_values *)
  Lemma tt_clean_loop_refines t now : forall fuel (l : ttll K V) (s : tl K V) used free n0 l1 o1 n1,
    rep2 uni l s used free -> tl_inv uni t s -> List.length used < fuel ->
    tl_clean_loop now (tl_ord s) (tl_lru s) n0 = (l1, o1, n1) ->
    exists l' used' free', tt_clean_loop uni fuel l now n0 = Ok (l', n1) /\
                           rep2 uni l' (tl_with s l1 o1) used' free' /\ tl_inv uni t (tl_with s l1 o1).
  Proof.
    induction fuel as [|f IH]; intros l s used free n0 l1 o1 n1 R I Hf E; [lia|].
    pose proof R as (Hl & He & Hu & Hc & Ht & Hus & C).
    pose proof C as (Hle & Hnd & Hlen & Hb & Hix & Hnk & Hmap & Hord & Hndo & Huo & Hz & HA & HB).
    pose proof (core_len_ord _ _ _ _ _ _ _ _ _ C) as Lo.
    cbn [tt_clean_loop].
    destruct (Nat.ltb_spec 0 (tt_used l)) as [Hpos|Hzero].
    - destruct (tt_ord l) as [|[z idx] o'] eqn:Eo.
      { exfalso. destruct used as [|x u]; [simpl in Hus; lia|].
        apply (proj1 (Huo x)). left; auto. }
      destruct (ord_head uni l s used free z idx o' now R Eo) as (e & kh & ord' & Eord & Akh & Hdead).
      rewrite Hdead. cbn [bind]. rewrite Eord in E. cbn [tl_clean_loop] in E.
      destruct (e <=? now)%Z.
      + destruct (tt_do_erase_rep2 uni t l s used free kh idx R I Akh) as (l2 & D & R').
        rewrite D. cbn [bind].
        assert (I' : tl_inv uni t (tl_erase_key s kh)) by (apply tl_inv_erase_key with t; exact I).
        assert (Iu : In idx used). { apply Huo. left; auto. }
        assert (Er : rem2 kh (tl_ord s) = ord').
        { rewrite Eord. apply tl_rem2_head. pose proof I as (_ & _ & _ & _ & Nko & _).
          rewrite Eord in Nko. simpl in Nko. inversion Nko; auto. }
        destruct (IH l2 (tl_erase_key s kh) (remove_nat idx used) (idx :: free) (S n0) l1 o1 n1 R' I')
          as (l' & u' & f' & D' & R'' & I'').
        * pose proof (perm_remove_nat idx used Iu) as P1. apply Permutation_length in P1. simpl in P1. lia.
        * unfold tl_erase_key. cbn [tl_with tl_lru tl_ord]. rewrite Er. exact E.
        * exists l', u', f'. split; [exact D'|]. split; [exact R''|exact I''].
      + inversion E; subst l1 o1 n1. rewrite <- Eord, tl_with_id.
        exists l, used, free. split; [reflexivity|]. split; [exact R|exact I].
    - assert (Eu : used = []) by (destruct used; [reflexivity|simpl in Hus; lia]).
      assert (Eo : tt_ord l = []).
      { destruct (tt_ord l) as [|[z x] o']; auto. exfalso. subst used.
        apply (proj2 (Huo x)). simpl. auto. }
      rewrite Eo in Lo. destruct (tl_ord s) as [|y r] eqn:Eord; [|simpl in Lo; lia].
      cbn [tl_clean_loop] in E. inversion E; subst l1 o1 n1. rewrite <- Eord, tl_with_id.
      exists l, used, free. split; [reflexivity|]. split; [exact R|exact I].
  Qed.

  Lemma tt_clean_refines t (l : ttll K V) (s : tl K V) now :
    tl_inv uni t s -> tt_rep uni l s ->
    exists l', tt_clean uni l now = Ok (l', snd (tl_clean s now)) /\
               tt_rep uni l' (fst (tl_clean s now)) /\ tl_inv uni t (fst (tl_clean s now)) /\
               tl_cap (fst (tl_clean s now)) = tl_cap s.
  Proof.
    intros I R. destruct (rep2_elim _ _ _ R) as (used & free & R2).
    unfold tt_clean, tl_clean.
    destruct (tl_clean_loop now (tl_ord s) (tl_lru s) 0) as [[l1 o1] n1] eqn:E.
    destruct (tt_clean_loop_refines t now (S (tt_used l)) l s used free 0 l1 o1 n1 R2 I) as (l' & u' & f' & D & R' & I').
    - destruct R2 as (_ & _ & _ & _ & _ & Hus & _). lia.
    - exact E.
    - rewrite D. cbn [fst snd]. exists l'. split; [reflexivity|]. split; [eapply rep2_intro; eauto|].
      split; [exact I'|reflexivity].
  Qed.
End CallFacts.

(* ------------------------------------------------------------------------------------ *)
(* range calls                                                                           *)
(* ------------------------------------------------------------------------------------ *)
Section RangeFacts.
  Context {K V : Type} `{EqDec K}.
  Variable uni : bool.
  Local Open Scope list_scope.
  Local Open Scope nat_scope.

  Lemma rep_ttl (l : ttll K V) (s : tl K V) (ttl : Z) : tt_rep uni l s ->
    (if uni then tt_ttl l else ttl) = (if tl_uniform s then tl_ttl s else ttl).
  Proof.
    intros (used & free & _ & _ & Hu & _ & Ht & _). rewrite Hu.
    destruct uni; [apply Ht; reflexivity|reflexivity].
  Qed.

  Lemma tt_ins_range_refines xs : forall t (l : ttll K V) (s : tl K V) a now n,
    tl_inv uni t s -> tt_rep uni l s ->
    exists l', tt_ins_range uni l xs a now n = Ok (l', snd (tl_ins_range s xs a now n)) /\
               tt_rep uni l' (fst (tl_ins_range s xs a now n)) /\
               tl_inv uni t (fst (tl_ins_range s xs a now n)) /\
               tl_cap (fst (tl_ins_range s xs a now n)) = tl_cap s.
  Proof.
    induction xs as [|[[z k] v] r IH]; intros t l s a now n I R; cbn [tt_ins_range tl_ins_range].
    - exists l. cbn [fst snd]. auto.
    - cbv zeta. rewrite (rep_ttl l s z R).
      destruct (tt_ins_refines uni t l s k v a now (now + ms (if tl_uniform s then tl_ttl s else z))%Z I R)
        as (l1 & D1 & R1 & I1 & C1).
      rewrite D1. cbn [bind].
      destruct (tl_ins s k v a now (now + ms (if tl_uniform s then tl_ttl s else z))%Z) as [s1 b].
      cbn [fst snd] in *.
      destruct (IH t l1 s1 a now (if b then S n else n) I1 R1) as (l' & D2 & R2 & I2 & C2).
      exists l'. split; [exact D2|]. split; [exact R2|]. split; [exact I2|]. congruence.
  Qed.

  Lemma tt_erase_range_refines ks : forall t (l : ttll K V) (s : tl K V) n,
    tl_inv uni t s -> tt_rep uni l s ->
    exists l', tt_erase_range l ks n = Ok (l', snd (tl_erase_range s ks n)) /\
               tt_rep uni l' (fst (tl_erase_range s ks n)) /\
               tl_inv uni t (fst (tl_erase_range s ks n)) /\
               tl_cap (fst (tl_erase_range s ks n)) = tl_cap s.
  Proof.
    induction ks as [|k r IH]; intros t l s n I R; cbn [tt_erase_range tl_erase_range].
    - exists l. cbn [fst snd]. auto.
    - destruct (tt_erase_refines uni t l s k I R) as (l1 & D1 & R1 & I1 & C1).
      rewrite D1. cbn [bind].
      destruct (tl_erase s k) as [s1 b]. cbn [fst snd] in *.
      destruct (IH t l1 s1 (if b then S n else n) I1 R1) as (l' & D2 & R2 & I2 & C2).
      exists l'. split; [exact D2|]. split; [exact R2|]. split; [exact I2|]. congruence.
  Qed.

  Lemma tt_find_range_refines pk now ks : forall t (l : ttll K V) (s : tl K V),
    tl_inv uni t s -> tt_rep uni l s ->
    exists l', tt_find_range l ks pk now = Ok (l', snd (tl_find_range s ks pk now)) /\
               tt_rep uni l' (fst (tl_find_range s ks pk now)) /\
               tl_inv uni t (fst (tl_find_range s ks pk now)) /\
               tl_cap (fst (tl_find_range s ks pk now)) = tl_cap s.
  Proof.
    induction ks as [|k r IH]; intros t l s I R; cbn [tt_find_range tl_find_range].
    - exists l. cbn [fst snd]. auto.
    - destruct (tt_find_refines uni t l s k pk now I R) as (l1 & D1 & R1 & I1 & C1).
      rewrite D1. cbn [bind].
      destruct (tl_find s k pk now) as [s1 o]. cbn [fst snd] in *.
      destruct (IH t l1 s1 I1 R1) as (l' & D2 & R2 & I2 & C2).
      rewrite D2. cbn [bind].
      destruct (tl_find_range s1 r pk now) as [s2 os]. cbn [fst snd] in *.
      exists l'. split; [reflexivity|]. split; [exact R2|]. split; [exact I2|]. congruence.
  Qed.
End RangeFacts.

Section TtlLitFacts.
  Context {K V : Type} `{EqDec K}.
  Variable uni : bool.
  Local Open Scope list_scope.
  Local Open Scope nat_scope.

  Theorem tt_rep_init : forall cap ttl,
      1 <= cap -> tt_rep (K := K) (V := V) uni (ttll_init cap ttl) (tl_init uni cap ttl).
  Proof.
    intros cap ttl Hc. apply (rep2_intro uni _ _ [] (seq 0 cap)).
    unfold rep2, core, ttll_init, tl_init.
    cbn [tt_cap tt_ttl tt_elems tt_index tt_list tt_end tt_ord tt_used tl_uniform tl_cap tl_ttl tl_lru tl_ord app
         rev map List.length].
    split; [reflexivity|]. split; [reflexivity|]. split; [reflexivity|]. split; [reflexivity|].
    split; [reflexivity|]. split; [reflexivity|].
    split; [apply repeat_length|]. split; [apply seq_NoDup|]. split; [apply seq_length|].
    split. { intros n I. apply in_seq in I. lia. }
    split; [reflexivity|]. split; [constructor|]. split; [reflexivity|]. split; [reflexivity|].
    split; [constructor|]. split; [tauto|].
    split. { intros _ z n []. }
    split. { intros n []. }
    intros k n E. discriminate.
  Qed.

  Lemma tt_step_refines_cap : forall t (l : ttll K V) (s : tl K V) o now rnd,
      tl_inv uni t s -> tt_rep uni l s ->
      exists l', tt_step uni l o now rnd = Ok (l', snd (tl_step s o now rnd)) /\
                 tt_rep uni l' (fst (tl_step s o now rnd)) /\ tl_inv uni now (fst (tl_step s o now rnd)) /\
                 tl_cap (fst (tl_step s o now rnd)) = tl_cap s.
  Proof.
    intros t l s o now rnd I R.
    destruct (rep2_elim _ _ _ R) as (used & free & R2).
    pose proof R2 as (Hl & He & Hu & Hc & Ht & Hus & C).
    pose proof C as (Hle & Hnd & Hlen & Hb & Hix & Hnk & Hmap & Hord & Hndo & Huo & Hz & HA & HB).
    pose proof (core_len _ _ _ _ _ _ _ _ _ C) as Ln.
    pose proof (core_len_ord _ _ _ _ _ _ _ _ _ C) as Lo.
    destruct o as [ttl k v a|xs a|k|ks|k pk|ks pk|ks pk|k pk| |d| | | | | ]; cbn [tt_step tl_step];
      try (exists l; cbn [fst snd]; split; [reflexivity|split; [exact R|split; [exact I|reflexivity]]]).
    - (* Insert *)
      cbv zeta. rewrite (rep_ttl uni l s ttl R).
      destruct (tt_ins_refines uni t l s k v a now (now + ms (if tl_uniform s then tl_ttl s else ttl))%Z I R)
        as (l1 & D1 & R1 & I1 & C1).
      rewrite D1. cbn [bind].
      destruct (tl_ins s k v a now (now + ms (if tl_uniform s then tl_ttl s else ttl))%Z) as [s1 b].
      cbn [fst snd] in *. exists l1. split; [reflexivity|]. split; [exact R1|]. split; [exact I1|exact C1].
    - (* InsertRange *)
      destruct (tt_ins_range_refines uni xs t l s a now 0 I R) as (l1 & D1 & R1 & I1 & C1).
      rewrite D1. cbn [bind].
      destruct (tl_ins_range s xs a now 0) as [s1 n]. cbn [fst snd] in *. exists l1.
      split; [reflexivity|]. split; [exact R1|]. split; [exact I1|exact C1].
    - (* Erase *)
      destruct (tt_erase_refines uni t l s k I R) as (l1 & D1 & R1 & I1 & C1).
      rewrite D1. cbn [bind].
      destruct (tl_erase s k) as [s1 b]. cbn [fst snd] in *. exists l1.
      split; [reflexivity|]. split; [exact R1|]. split; [exact I1|exact C1].
    - (* EraseRange *)
      destruct (tt_erase_range_refines uni ks t l s 0 I R) as (l1 & D1 & R1 & I1 & C1).
      rewrite D1. cbn [bind].
      destruct (tl_erase_range s ks 0) as [s1 n]. cbn [fst snd] in *. exists l1.
      split; [reflexivity|]. split; [exact R1|]. split; [exact I1|exact C1].
    - (* Find *)
      destruct (tt_find_refines uni t l s k pk now I R) as (l1 & D1 & R1 & I1 & C1).
      rewrite D1. cbn [bind].
      destruct (tl_find s k pk now) as [s1 r]. cbn [fst snd] in *. exists l1.
      split; [reflexivity|]. split; [exact R1|]. split; [exact I1|exact C1].
    - (* FindRange *)
      destruct (tt_find_range_refines uni pk now ks t l s I R) as (l1 & D1 & R1 & I1 & C1).
      rewrite D1. cbn [bind].
      destruct (tl_find_range s ks pk now) as [s1 r]. cbn [fst snd] in *. exists l1.
      split; [reflexivity|]. split; [exact R1|]. split; [exact I1|exact C1].
    - (* FindRangeFill *)
      destruct (tt_find_range_refines uni pk now ks t l s I R) as (l1 & D1 & R1 & I1 & C1).
      rewrite D1. cbn [bind].
      destruct (tl_find_range s ks pk now) as [s1 r]. cbn [fst snd] in *. exists l1.
      split; [reflexivity|]. split; [exact R1|]. split; [exact I1|exact C1].
    - (* UpdateTtl *)
      rewrite Hu. destruct uni eqn:Eu.
      + eexists. cbn [fst snd]. split; [reflexivity|]. split; [|split; [|reflexivity]].
        * apply (rep2_intro true _ _ used free). unfold rep2.
          cbn [tt_cap tt_ttl tt_elems tt_index tt_list tt_end tt_ord tt_used tl_uniform tl_cap tl_ttl tl_lru tl_ord].
          split; [exact Hl|]. split; [exact He|]. split; [reflexivity|]. split; [exact Hc|].
          split; [reflexivity|]. split; [exact Hus|exact C].
        * destruct I as (H0 & H1 & H2 & H3 & H4 & H5 & H6). unfold tl_inv.
          cbn [tl_uniform tl_cap tl_ttl tl_lru tl_ord]. repeat split; auto; apply H5.
      + exists l. cbn [fst snd]. split; [reflexivity|]. split; [exact R|]. split; [exact I|reflexivity].
    - (* Clear *)
      rewrite Hu. destruct uni eqn:Eu.
      + assert (I' : tl_inv (K := K) (V := V) true now (tl_init true (tl_cap s) (tl_ttl s))).
        { apply tl_inv_init. destruct I as (_ & H1 & _). exact H1. }
        destruct (Nat.ltb_spec 0 (tt_used l)) as [Hpos|Hzero].
        * eexists. cbn [fst snd]. split; [reflexivity|]. split; [|split; [exact I'|reflexivity]].
          apply (rep2_intro true _ _ [] (seq 0 (tl_cap s))). unfold rep2, core, tl_init.
          rewrite Hl, Hlen.
          cbn [tt_cap tt_ttl tt_elems tt_index tt_list tt_end tt_ord tt_used tl_uniform tl_cap tl_ttl tl_lru tl_ord app
               rev map List.length].
          split; [reflexivity|]. split; [reflexivity|]. split; [reflexivity|]. split; [exact Hc|].
          split; [intros _; apply Ht; reflexivity|]. split; [reflexivity|].
          split; [exact Hle|]. split; [apply seq_NoDup|]. split; [apply seq_length|].
          split. { intros n J. apply in_seq in J. lia. }
          split; [reflexivity|]. split; [constructor|]. split; [reflexivity|]. split; [reflexivity|].
          split; [constructor|]. split; [tauto|].
          split. { intros _ z n []. }
          split. { intros n []. }
          intros k n E. discriminate.
        * exists l. cbn [fst snd]. split; [reflexivity|]. split; [|split; [exact I'|reflexivity]].
          assert (Eu0 : used = []) by (destruct used; [reflexivity|simpl in Hus; lia]).
          assert (Eo : tt_ord l = []).
          { destruct (tt_ord l) as [|[z x] o']; auto. exfalso. subst used.
            apply (proj2 (Huo x)). simpl. auto. }
          assert (El : tl_lru s = []).
          { subst used. simpl in Ln. destruct (tl_lru s); [reflexivity|simpl in Ln; lia]. }
          assert (Eor : tl_ord s = []).
          { rewrite Eo in Lo. simpl in Lo. destruct (tl_ord s); [reflexivity|simpl in Lo; lia]. }
          apply (rep2_intro true _ _ used free). unfold rep2, tl_init.
          cbn [tl_uniform tl_cap tl_ttl tl_lru tl_ord].
          rewrite El, Eor in C.
          split; [exact Hl|]. split; [exact He|]. split; [reflexivity|]. split; [exact Hc|].
          split; [exact Ht|]. split; [exact Hus|exact C].
      + exists l. cbn [fst snd]. split; [reflexivity|]. split; [exact R|]. split; [exact I|reflexivity].
    - (* Clean *)
      destruct (tt_clean_refines uni t l s now I R) as (l1 & D1 & R1 & I1 & C1).
      rewrite D1. cbn [bind].
      destruct (tl_clean s now) as [s1 n]. cbn [fst snd] in *. exists l1.
      split; [reflexivity|]. split; [exact R1|]. split; [exact I1|exact C1].
    - (* Size *)
      exists l. cbn [fst snd]. unfold tl_size. rewrite Hus, Ln.
      split; [reflexivity|]. split; [exact R|]. split; [exact I|reflexivity].
    - (* Empty *)
      exists l. cbn [fst snd]. unfold tl_size. rewrite Hus, Ln.
      split; [reflexivity|]. split; [exact R|]. split; [exact I|reflexivity].
    - (* Capacity *)
      exists l. cbn [fst snd]. rewrite Hle.
      split; [reflexivity|]. split; [exact R|]. split; [exact I|reflexivity].
  Qed.

  Theorem tt_step_refines : forall t (l : ttll K V) (s : tl K V) o now rnd,
      tl_inv uni t s -> (t <= now)%Z -> tt_rep uni l s ->
      exists l', tt_step uni l o now rnd = Ok (l', snd (tl_step s o now rnd)) /\
                 tt_rep uni l' (fst (tl_step s o now rnd)) /\ tl_inv uni now (fst (tl_step s o now rnd)).
  Proof.
    intros t l s o now rnd I _ R.
    destruct (tt_step_refines_cap t l s o now rnd I R) as (l' & D & R' & I' & _).
    exists l'. auto.
  Qed.

  Fixpoint tt_run (l : ttll K V) (h : list (ev K V)) : res (ttll K V * list (ret K V)) :=
    match h with
    | [] => Ok (l, [])
    | e :: r => do x <- tt_step uni l (e_op e) (e_now e) (e_rnd e);
                let '(l1, y) := x in
                do z <- tt_run l1 r; let '(l2, ys) := z in Ok (l2, y :: ys)
    end.

  Lemma tt_run_refines : forall h t (l : ttll K V) (s : tl K V),
      tl_inv uni t s -> tt_rep uni l s ->
      exists l', tt_run l h = Ok (l', snd (run tl_step s h)) /\
                 tt_rep uni l' (fst (run tl_step s h)) /\
                 tl_cap (fst (run tl_step s h)) = tl_cap s.
  Proof.
    induction h as [|e r IH]; intros t l s I R; simpl.
    - exists l. auto.
    - destruct (tt_step_refines_cap t l s (e_op e) (e_now e) (e_rnd e) I R)
        as (l1 & D1 & R1 & I1 & C1).
      rewrite D1. cbn [bind]. unfold step_ev.
      destruct (tl_step s (e_op e) (e_now e) (e_rnd e)) as [s1 y1]. simpl in *.
      destruct (IH (e_now e) l1 s1 I1 R1) as (l2 & D2 & R2 & C2).
      rewrite D2. cbn [bind].
      destruct (run tl_step s1 r) as [s2 ys]. simpl in *.
      exists l2. split; [reflexivity|]. split; [exact R2|]. congruence.
  Qed.

  (* whole histories from a fresh cache: never UB, same results as the mid-level model *)
  Theorem tt_no_UB_on_any_history : forall cap ttl h,
      1 <= cap -> mono_from 0 h ->
      exists l', tt_run (ttll_init cap ttl) h = Ok (l', snd (run tl_step (tl_init uni cap ttl) h)) /\
                 tt_rep uni l' (fst (run tl_step (tl_init uni cap ttl) h)).
  Proof.
    intros cap ttl h Hc _.
    destruct (tt_run_refines h 0%Z (ttll_init cap ttl) (tl_init uni cap ttl)
                (tl_inv_init uni cap ttl 0%Z Hc) (tt_rep_init cap ttl Hc)) as (l' & D & R & _).
    exists l'. auto.
  Qed.

  (* the number of value cells never changes *)
  Theorem tt_value_cells_constant : forall cap ttl h l' rs,
      1 <= cap -> mono_from 0 h ->
      tt_run (ttll_init cap ttl) h = Ok (l', rs) -> List.length (tt_elems l') = cap.
  Proof.
    intros cap ttl h l' rs Hc _ E.
    destruct (tt_run_refines h 0%Z (ttll_init cap ttl) (tl_init uni cap ttl)
                (tl_inv_init uni cap ttl 0%Z Hc) (tt_rep_init cap ttl Hc)) as (l2 & D & R & C).
    rewrite D in E. injection E as E1 E2. subst l2.
    destruct R as (used & free & _ & _ & _ & _ & _ & Rle & _). rewrite Rle, C. reflexivity.
  Qed.
End TtlLitFacts.
