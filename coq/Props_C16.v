(* C16 Expired-first eviction: tlru/utlru keep live entries while a dead one remains. *)
Require Import Capp.Base Capp.Spec Capp.Generic Capp.Container Capp.AllKinds Capp.Lift.
Require Import Capp.TtlLru Capp.TtlLruFacts.

(* while any resident entry is expired, no call removes a live entry it does not address —
   in particular not an insert of a new key into the full cache *)
Theorem C16_no_live_entry_lost_while_a_dead_one_remains :
  forall (K V : Type) (E : EqDec K) (kd : kind) (cfg : config), valid_config kd cfg ->
  forall tr t s o now rnd s' r k kd',
    let M := kind_model (K:=K) (V:=V) kd in
    wruns M 0 (kind_init kd cfg) tr t s ->
    single o = true -> (t <= now)%Z -> m_rnd_ok M s rnd -> m_step M s o now rnd = (s', r) ->
    touches o k = false -> livek (m_get M s) now k -> deadk (m_get M s) now kd' ->
    m_get M s' k = m_get M s k.
Proof. intros K V E kd cfg Hv. exact (L_expired_first kd cfg Hv). Qed.
Print Assumptions C16_no_live_entry_lost_while_a_dead_one_remains.

(* and the entry that insert removes is an expired one; everything else — values, deadlines,
   recency order — is as before (tlru: u = false; utlru: u = true, whatever update_ttl did) *)
Theorem C16_the_victim_is_an_expired_entry :
  forall (K V : Type) (E : EqDec K) u t (s : tl K V) ttl k v a now rnd s',
    tl_inv u t s -> (t <= now)%Z -> tl_size s = tl_cap s -> tl_get s k = None ->
    tl_step s (Insert ttl k v a) now rnd = (s', RB true) ->
    (exists kd, deadk (tl_get s) now kd) ->
    exists kv, deadk (tl_get s) now kv /\ kv <> k /\ tl_get s' kv = None /\
      (forall k', k' <> k -> k' <> kv -> tl_get s' k' = tl_get s k') /\
      tl_lru s' = remk kv (tl_lru s) ++ [(k, (v, now + ms (if tl_uniform s then tl_ttl s else ttl))%Z)].
Proof. exact @tl_expired_first. Qed.
Print Assumptions C16_the_victim_is_an_expired_entry.

(* non-vacuity, the history that failed before the utlru fix: ttl 100 ms; insert 1;
   update_ttl(10 ms); insert 2; +20 ms (2 expired, 1 live); insert 3 evicts 2, keeps 1 *)
Example C16_example_utlru_after_shortening :
  let both := {| a_ins := true; a_upd := true |} in
  let s0 := tl_init (K := Z) (V := Z) true 2 100 in
  let '(s1, _) := tl_step s0 (Insert 0 1 10 both)%Z 0%Z [] in
  let '(s2, _) := tl_step s1 (UpdateTtl 10)%Z 0%Z [] in
  let '(s3, _) := tl_step s2 (Insert 0 2 20 both)%Z 0%Z [] in
  let '(s4, _) := tl_step s3 (Insert 0 3 30 both)%Z 20000000%Z [] in
  (tl_view s4 20000000 1, tl_get s4 2, tl_view s4 20000000 3)%Z = (Some 10%Z, None, Some 30%Z).
Proof. vm_compute. reflexivity. Qed.
